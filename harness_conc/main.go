// verifharness_conc: concurrent workloads on the real RedisGO keyspace (built from VERIF_REPO
// with -tags verif), recorded as invocation/response histories with a global logical clock,
// together with the H2 lock-event log and a quiescent-state dump, for the C05 / C13 checks.
//
//	harness_conc conc <seed> <tier> <outdir> [phase,phase,...]    run the phases, one directory each
//	harness_conc hash <infile> <outfile>                          util.HashKey / stripe of hex keys
package main

import (
	"bufio"
	"context"
	"encoding/hex"
	"fmt"
	"io"
	"log"
	"net"
	"os"
	"path/filepath"
	"runtime"
	"sort"
	"strconv"
	"strings"
	"sync"
	"sync/atomic"
	"time"

	"github.com/innovationb1ue/RedisGO/config"
	"github.com/innovationb1ue/RedisGO/logger"
	"github.com/innovationb1ue/RedisGO/memdb"
	"github.com/innovationb1ue/RedisGO/resp"
	"github.com/innovationb1ue/RedisGO/server"
	"github.com/innovationb1ue/RedisGO/util"
)

const shardNum = 16

var registered = false

func setupServer(scratch string) *config.Config {
	cfg := &config.Config{
		Host: "127.0.0.1", Port: 0, LogDir: scratch, LogLevel: "panic",
		ShardNum: shardNum, ChanBufferSize: 10, Databases: 1,
	}
	config.Configures = cfg
	if !registered {
		if err := logger.SetUp(cfg); err != nil {
			panic(err)
		}
		logger.Disable()
		log.SetOutput(io.Discard)
		memdb.RegisterKeyCommands()
		memdb.RegisterStringCommands()
		memdb.RegisterListCommands()
		memdb.RegisterSetCommands()
		memdb.RegisterHashCommands()
		memdb.RegisterPubSubCommands()
		memdb.RegisterSortedSetCommands()
		memdb.RegisterStreamCommands()
		memdb.RegisterRaftCommand()
		registered = true
	}
	return cfg
}

func hx(b []byte) string {
	if len(b) == 0 {
		return "-"
	}
	return hex.EncodeToString(b)
}

func unhx(s string) []byte {
	if s == "-" {
		return []byte{}
	}
	b, err := hex.DecodeString(s)
	if err != nil {
		panic("bad hex " + s)
	}
	return b
}

func hasCRLF(s []byte) bool {
	for _, c := range s {
		if c == '\r' || c == '\n' {
			return true
		}
	}
	return false
}

// canonical text of a reply (same format as harness/mem.go)
func canonReply(r resp.RedisData) string {
	if r == nil {
		return "-E" // Manager.Handle answers a nil result with an "unknown error" reply
	}
	switch t := r.(type) {
	case *resp.StringData:
		s := "+" + hx([]byte(t.Data()))
		if hasCRLF([]byte(t.Data())) {
			s += "!"
		}
		return s
	case *resp.ErrorData:
		msg := t.Error()
		s := "-E"
		if strings.HasPrefix(msg, "WRONGTYPE") {
			s = "-W"
		}
		if hasCRLF([]byte(msg)) {
			s += "!"
		}
		return s
	case *resp.IntData:
		return ":" + strconv.FormatInt(t.Data(), 10)
	case *resp.BulkData:
		if t.Data() == nil {
			return "$nil"
		}
		return "$" + hx(t.Data())
	case *resp.ArrayData:
		if t.Data() == nil {
			return "*nil"
		}
		parts := make([]string, 0, len(t.Data()))
		for _, e := range t.Data() {
			parts = append(parts, canonReply(e))
		}
		return "*[" + strings.Join(parts, " ") + "]"
	case *resp.PlainData:
		return "~" + hx([]byte(t.Data()))
	default:
		return fmt.Sprintf("!UNKNOWN(%T)", r)
	}
}

var unorderedFlat = map[string]bool{"smembers": true, "sunion": true, "sinter": true, "sdiff": true,
	"hkeys": true, "hvals": true, "keys": true, "spop": true, "srandmember": true}
var unorderedPairs = map[string]bool{"hgetall": true}

func splitTop(s string) []string {
	res := []string{}
	depth := 0
	cur := strings.Builder{}
	for i := 0; i < len(s); i++ {
		c := s[i]
		if c == '[' {
			depth++
		} else if c == ']' {
			depth--
		}
		if c == ' ' && depth == 0 {
			res = append(res, cur.String())
			cur.Reset()
			continue
		}
		cur.WriteByte(c)
	}
	if cur.Len() > 0 {
		res = append(res, cur.String())
	}
	return res
}

func canonForCmd(name string, canon string) string {
	if !strings.HasPrefix(canon, "*[") {
		return canon
	}
	inner := canon[2 : len(canon)-1]
	if unorderedFlat[name] {
		parts := splitTop(inner)
		sort.Strings(parts)
		return "*[" + strings.Join(parts, " ") + "]"
	}
	if unorderedPairs[name] {
		parts := splitTop(inner)
		if len(parts)%2 != 0 {
			return canon
		}
		pairs := make([]string, 0, len(parts)/2)
		for i := 0; i+1 < len(parts); i += 2 {
			pairs = append(pairs, parts[i]+" "+parts[i+1])
		}
		sort.Strings(pairs)
		return "*[" + strings.Join(pairs, " ") + "]"
	}
	return canon
}

// ---------------------------------------------------------------- keys with chosen collisions

type keyPool struct {
	prefix string
	next   int
	nlocks int
}

func stripeOf(k string, nlocks int) int { return util.HashKey(k) % nlocks }

// n distinct fresh keys that all fall on the same lock stripe (hence the same map shard)
func (p *keyPool) colliding(n int) []string {
	first := p.fresh()
	res := []string{first}
	want := stripeOf(first, p.nlocks)
	for len(res) < n {
		k := p.fresh()
		if stripeOf(k, p.nlocks) == want {
			res = append(res, k)
		}
	}
	return res
}

// n fresh keys on pairwise different stripes
func (p *keyPool) spread(n int) []string {
	res := []string{}
	seen := map[int]bool{}
	for len(res) < n {
		k := p.fresh()
		s := stripeOf(k, p.nlocks)
		if !seen[s] {
			seen[s] = true
			res = append(res, k)
		}
	}
	return res
}

// a fresh key in the same map shard as k but on a different lock stripe
func (p *keyPool) sameShardOtherStripe(k string) string {
	for {
		c := p.fresh()
		if util.HashKey(c)%shardNum == util.HashKey(k)%shardNum && stripeOf(c, p.nlocks) != stripeOf(k, p.nlocks) {
			return c
		}
	}
}

func (p *keyPool) fresh() string {
	p.next++
	return p.prefix + strconv.Itoa(p.next)
}

// ---------------------------------------------------------------- workloads

type command []string

type phase struct {
	name     string
	setup    []command   // executed sequentially before the concurrent part (recorded as thread -1)
	threads  [][]command // one command list per goroutine
	keys     []string    // every key the phase may touch (for the quiescent EXISTS sweep)
	yield    int
	tier     string
	nolog    bool // focused stress: no lock log, so that the commands run back to back
	watchdog time.Duration
}

func itoa(i int) string { return strconv.Itoa(i) }

func genCounter(r *rng, nthreads, nops int) phase {
	p := &keyPool{prefix: "cnt", nlocks: 2 * shardNum}
	keys := p.colliding(2)
	keys = append(keys, p.spread(1)...)
	ph := phase{name: "counter", keys: keys}
	for t := 0; t < nthreads; t++ {
		ops := []command{}
		for i := 0; i < nops; i++ {
			k := r.pick(keys)
			switch r.intn(10) {
			case 0, 1, 2, 3:
				ops = append(ops, command{"INCR", k})
			case 4:
				ops = append(ops, command{"INCRBY", k, itoa(r.intn(7) + 1)})
			case 5:
				ops = append(ops, command{"DECR", k})
			case 6:
				ops = append(ops, command{"DECRBY", k, itoa(r.intn(5) + 1)})
			case 7:
				ops = append(ops, command{"GET", k})
			case 8:
				ops = append(ops, command{"STRLEN", k})
			default:
				ops = append(ops, command{"incr", k})
			}
		}
		ph.threads = append(ph.threads, ops)
	}
	return ph
}

func genList(r *rng, nthreads, nops int, blocking bool) phase {
	p := &keyPool{prefix: "lst", nlocks: 2 * shardNum}
	keys := p.colliding(2)
	keys = append(keys, p.sameShardOtherStripe(keys[0]))
	ph := phase{name: "list", keys: keys}
	dirs := []string{"LEFT", "RIGHT"}
	for t := 0; t < nthreads; t++ {
		ops := []command{}
		for i := 0; i < nops; i++ {
			k := r.pick(keys)
			el := fmt.Sprintf("e%d.%d", t, i)
			switch r.intn(16) {
			case 0, 1, 2:
				ops = append(ops, command{"LPUSH", k, el})
			case 3, 4:
				ops = append(ops, command{"RPUSH", k, el, el + "b"})
			case 5, 6, 7:
				ops = append(ops, command{"LPOP", k})
			case 8, 9:
				ops = append(ops, command{"RPOP", k})
			case 10:
				ops = append(ops, command{"LLEN", k})
			case 11:
				ops = append(ops, command{"LMOVE", k, r.pick(keys), r.pick(dirs), r.pick(dirs)})
			case 12:
				ops = append(ops, command{"LRANGE", k, "0", "-1"})
			case 13:
				ops = append(ops, command{"LPUSHX", k, el})
			case 14:
				ops = append(ops, command{"LINDEX", k, itoa(r.intn(4) - 2)})
			default:
				if blocking && t < 2 && i%9 == 0 {
					ops = append(ops, command{"BLPOP", k, r.pick(keys), "1"})
				} else {
					ops = append(ops, command{"LPOP", k, "2"})
				}
			}
		}
		ph.threads = append(ph.threads, ops)
	}
	return ph
}

func genSetnx(r *rng, nthreads, nops int) phase {
	p := &keyPool{prefix: "snx", nlocks: 2 * shardNum}
	keys := p.colliding(2)
	keys = append(keys, p.spread(2)...)
	ph := phase{name: "setnx", keys: keys}
	for t := 0; t < nthreads; t++ {
		ops := []command{}
		for i := 0; i < nops; i++ {
			k := r.pick(keys)
			tok := fmt.Sprintf("w%d.%d", t, i)
			switch r.intn(12) {
			case 0, 1, 2, 3, 4:
				ops = append(ops, command{"SETNX", k, tok})
			case 5, 6:
				ops = append(ops, command{"GET", k})
			case 7:
				ops = append(ops, command{"DEL", k})
			case 8:
				ops = append(ops, command{"SET", k, tok, "NX"})
			case 9:
				ops = append(ops, command{"SET", k, tok, "XX", "GET"})
			case 10:
				ops = append(ops, command{"EXPIRE", k, "100000"})
			default:
				ops = append(ops, command{"PERSIST", k})
			}
		}
		ph.threads = append(ph.threads, ops)
	}
	return ph
}

func subset(r *rng, keys []string, max int) []string {
	n := 1 + r.intn(max)
	res := []string{}
	for i := 0; i < n; i++ {
		res = append(res, r.pick(keys)) // repetitions on purpose
	}
	return res
}

func genMulti(r *rng, nthreads, nops int) phase {
	p := &keyPool{prefix: "mk", nlocks: 2 * shardNum}
	keys := p.colliding(3)
	keys = append(keys, p.spread(2)...)
	keys = append(keys, p.sameShardOtherStripe(keys[0]))
	ph := phase{name: "multi", keys: keys}
	for t := 0; t < nthreads; t++ {
		ops := []command{}
		for i := 0; i < nops; i++ {
			tok := fmt.Sprintf("v%d.%d", t, i)
			switch r.intn(16) {
			case 0, 1, 2:
				c := command{"MSET"}
				for _, k := range subset(r, keys, 4) {
					c = append(c, k, tok)
				}
				ops = append(ops, c)
			case 3, 4:
				ops = append(ops, append(command{"MGET"}, subset(r, keys, 4)...))
			case 5, 6:
				ops = append(ops, command{"RENAME", r.pick(keys), r.pick(keys)})
			case 7:
				ops = append(ops, append(command{"DEL"}, subset(r, keys, 3)...))
			case 8:
				ops = append(ops, append(command{"EXISTS"}, subset(r, keys, 3)...))
			case 9:
				ops = append(ops, command{"SET", r.pick(keys), tok})
			case 10:
				ops = append(ops, command{"GET", r.pick(keys)})
			case 11, 12, 13:
				ops = append(ops, command{"APPEND", r.pick(keys), "+" + itoa(t)})
			case 14:
				ops = append(ops, command{"SETNX", r.pick(keys), tok})
			default:
				ops = append(ops, command{"TYPE", r.pick(keys)})
			}
		}
		ph.threads = append(ph.threads, ops)
	}
	return ph
}

func genSetAlg(r *rng, nthreads, nops int) phase {
	p := &keyPool{prefix: "sa", nlocks: 2 * shardNum}
	keys := p.colliding(3)
	keys = append(keys, p.spread(2)...)
	ph := phase{name: "setalg", keys: keys}
	members := []string{"a", "b", "c", "d", "e", "f"}
	for t := 0; t < nthreads; t++ {
		ops := []command{}
		for i := 0; i < nops; i++ {
			k := r.pick(keys)
			switch r.intn(14) {
			case 0, 1, 2:
				ops = append(ops, command{"SADD", k, r.pick(members), r.pick(members)})
			case 3:
				ops = append(ops, command{"SREM", k, r.pick(members)})
			case 4, 5:
				ops = append(ops, command{"SMOVE", k, r.pick(keys), r.pick(members)})
			case 6:
				ops = append(ops, append(command{"SUNION"}, subset(r, keys, 3)...))
			case 7:
				ops = append(ops, append(command{"SINTER"}, subset(r, keys, 3)...))
			case 8:
				ops = append(ops, append(command{"SDIFF"}, subset(r, keys, 3)...))
			case 9:
				ops = append(ops, append(command{"SUNIONSTORE", r.pick(keys)}, subset(r, keys, 3)...))
			case 10:
				ops = append(ops, append(command{"SINTERSTORE", r.pick(keys)}, subset(r, keys, 3)...))
			case 11:
				ops = append(ops, append(command{"SDIFFSTORE", r.pick(keys)}, subset(r, keys, 3)...))
			case 12:
				ops = append(ops, command{"SCARD", k})
			default:
				ops = append(ops, command{"SISMEMBER", k, r.pick(members)})
			}
		}
		ph.threads = append(ph.threads, ops)
	}
	return ph
}

// only commands that move things around: what is there at the start must be there at the end
func genConserve(r *rng, nthreads, nops int) phase {
	p := &keyPool{prefix: "cv", nlocks: 2 * shardNum}
	lists := p.colliding(2)
	lists = append(lists, p.spread(1)...)
	sets := p.colliding(2)
	sets = append(sets, p.sameShardOtherStripe(sets[0]))
	ph := phase{name: "conserve", keys: append(append([]string{}, lists...), sets...)}
	members := []string{}
	for i, k := range lists {
		c := command{"RPUSH", k}
		for j := 0; j < 6; j++ {
			c = append(c, fmt.Sprintf("L%d.%d", i, j))
		}
		ph.setup = append(ph.setup, c)
	}
	for i, k := range sets {
		c := command{"SADD", k}
		for j := 0; j < 6; j++ {
			m := fmt.Sprintf("S%d.%d", i, j)
			members = append(members, m)
			c = append(c, m)
		}
		ph.setup = append(ph.setup, c)
	}
	dirs := []string{"LEFT", "RIGHT"}
	for t := 0; t < nthreads; t++ {
		ops := []command{}
		for i := 0; i < nops; i++ {
			switch r.intn(6) {
			case 0, 1, 2:
				ops = append(ops, command{"LMOVE", r.pick(lists), r.pick(lists), r.pick(dirs), r.pick(dirs)})
			case 3, 4:
				ops = append(ops, command{"SMOVE", r.pick(sets), r.pick(sets), r.pick(members)})
			default:
				if r.chance(1, 2) {
					ops = append(ops, command{"LLEN", r.pick(lists)})
				} else {
					ops = append(ops, command{"SCARD", r.pick(sets)})
				}
			}
		}
		ph.threads = append(ph.threads, ops)
	}
	return ph
}

// many different keys over all shards while KEYS runs: the key counter and Keys()
func genBook(r *rng, nthreads, nops int) phase {
	ph := phase{name: "book"}
	for t := 0; t < nthreads; t++ {
		ops := []command{}
		mine := []string{}
		for i := 0; i < nops; i++ {
			switch {
			case t == 0 && i%4 == 0:
				ops = append(ops, command{"KEYS", "*"})
			case len(mine) > 3 && r.chance(2, 5):
				j := r.intn(len(mine))
				ops = append(ops, command{"DEL", mine[j]})
				mine = append(mine[:j], mine[j+1:]...)
			case len(mine) > 0 && r.chance(1, 6):
				ops = append(ops, command{"EXISTS", r.pick(mine)})
			default:
				k := fmt.Sprintf("b%d.%d", t, i)
				mine = append(mine, k)
				ph.keys = append(ph.keys, k)
				if r.chance(1, 3) {
					ops = append(ops, command{"LPUSH", k, "x"})
				} else {
					ops = append(ops, command{"SET", k, "v"})
				}
			}
		}
		ph.threads = append(ph.threads, ops)
	}
	return ph
}

// the other families on shared keys: crash / race / lock discipline (and linearizability once
// the sequential model covers them)
func genMisc(r *rng, nthreads, nops int) phase {
	p := &keyPool{prefix: "mx", nlocks: 2 * shardNum}
	hk := p.colliding(2)
	zk := p.colliding(2)
	xk := p.spread(1)
	ph := phase{name: "misc", keys: append(append(append([]string{}, hk...), zk...), xk...)}
	fields := []string{"f1", "f2", "f3"}
	for t := 0; t < nthreads; t++ {
		ops := []command{}
		for i := 0; i < nops; i++ {
			switch r.intn(14) {
			case 0, 1:
				ops = append(ops, command{"HSET", r.pick(hk), r.pick(fields), fmt.Sprintf("h%d.%d", t, i)})
			case 2:
				ops = append(ops, command{"HGET", r.pick(hk), r.pick(fields)})
			case 3:
				ops = append(ops, command{"HINCRBY", r.pick(hk), "n", "1"})
			case 4:
				ops = append(ops, command{"HDEL", r.pick(hk), r.pick(fields)})
			case 5:
				ops = append(ops, command{"HGETALL", r.pick(hk)})
			case 6:
				ops = append(ops, command{"HSETNX", r.pick(hk), r.pick(fields), fmt.Sprintf("n%d.%d", t, i)})
			case 7, 8:
				ops = append(ops, command{"ZADD", r.pick(zk), itoa(r.intn(5)), fmt.Sprintf("m%d", r.intn(6))})
			case 9:
				ops = append(ops, command{"ZRANGE", r.pick(zk), "0", "-1"})
			case 10:
				ops = append(ops, command{"ZREM", r.pick(zk), fmt.Sprintf("m%d", r.intn(6))})
			case 11:
				ops = append(ops, command{"ZRANK", r.pick(zk), fmt.Sprintf("m%d", r.intn(6))})
			case 12:
				ops = append(ops, command{"XADD", xk[0], "*", "f", "v"})
			default:
				ops = append(ops, command{"XRANGE", xk[0], "-", "+"})
			}
		}
		ph.threads = append(ph.threads, ops)
	}
	return ph
}

// keys whose deadline has passed when the concurrent part starts: every command first runs into
// CheckTTL's expired path (which takes the key's write lock itself)
func genExpiry(r *rng, nthreads, nops int) phase {
	p := &keyPool{prefix: "ex", nlocks: 2 * shardNum}
	keys := p.colliding(2)
	keys = append(keys, p.spread(2)...)
	ph := phase{name: "expiry", keys: keys}
	for i, k := range keys {
		if i%2 == 0 {
			ph.setup = append(ph.setup, command{"SET", k, "5"})
		} else {
			ph.setup = append(ph.setup, command{"RPUSH", k, "a", "b"})
		}
	}
	// EXPIRE k 1 issued late in a second: the key counts as expired from the next second boundary
	// on, the timer goroutine of SetTTL removes it only a whole second after the EXPIRE; the
	// concurrent part runs in between, so the commands themselves find the expired key
	ph.setup = append(ph.setup, command{"@ALIGN", "850"})
	for _, k := range keys {
		ph.setup = append(ph.setup, command{"EXPIRE", k, "1"})
	}
	ph.setup = append(ph.setup, command{"@NEXTSEC", "30"})
	for t := 0; t < nthreads; t++ {
		ops := []command{}
		for i := 0; i < nops; i++ {
			k := r.pick(keys)
			switch r.intn(10) {
			case 0, 1:
				ops = append(ops, command{"GET", k})
			case 2:
				ops = append(ops, command{"INCR", k})
			case 3:
				ops = append(ops, command{"EXISTS", k, r.pick(keys)})
			case 4:
				ops = append(ops, command{"SETNX", k, fmt.Sprintf("x%d.%d", t, i)})
			case 5:
				ops = append(ops, command{"TTL", k})
			case 6:
				ops = append(ops, command{"LPOP", k})
			case 7:
				ops = append(ops, command{"RENAME", k, r.pick(keys)})
			case 8:
				ops = append(ops, command{"MGET", k, r.pick(keys)})
			default:
				ops = append(ops, command{"TYPE", k})
			}
		}
		ph.threads = append(ph.threads, ops)
	}
	return ph
}

// ---------------------------------------------------------------- running a phase

type record struct {
	thread, seq int
	inv, res    uint64
	sec, ms     int64
	rsec, rms   int64 // wall clock at the response
	args        command
	reply       string
	gid         uint64
}

type executor func(thread int, cmd [][]byte) string

func gidOf(skip bool) uint64 {
	if skip {
		return 0
	}
	return memdb.VerifGoID()
}

func toBytes(c command) [][]byte {
	b := make([][]byte, len(c))
	for i, s := range c {
		b[i] = []byte(s)
	}
	return b
}

func execInProc(mgr *server.Manager, cmd [][]byte) (out string) {
	defer func() {
		if e := recover(); e != nil {
			out = "!PANIC"
			fmt.Fprintf(os.Stderr, "panic in %q: %v\n", cmd, e)
			if os.Getenv("VERIF_DEBUG") != "" {
				buf := make([]byte, 1<<16)
				n := runtime.Stack(buf, false)
				fmt.Fprintf(os.Stderr, "%s\n", buf[:n])
			}
		}
	}()
	r := mgr.ExecCommand(context.Background(), cmd, nil)
	name := ""
	if len(cmd) > 0 {
		name = strings.ToLower(string(cmd[0]))
	}
	return canonForCmd(name, canonReply(r))
}

func hexArgs(c command) string {
	parts := make([]string, len(c))
	for i, a := range c {
		parts[i] = hx([]byte(a))
	}
	return strings.Join(parts, " ")
}

func runPhase(ph phase, outdir string, tcp bool) (status string, err error) {
	dir := filepath.Join(outdir, ph.name)
	if err := os.MkdirAll(dir, 0o755); err != nil {
		return "", err
	}
	cfg := setupServer(dir)
	mgr := server.NewManager(cfg)
	db := mgr.DBs[0]
	var clock atomic.Uint64
	recs := make([][]record, len(ph.threads)+1)
	memdb.VerifLockTake()
	memdb.VerifLockLog(!ph.nolog, ph.yield)

	var exec executor
	var closeAll func()
	if tcp {
		exec, closeAll, err = tcpExecutor(mgr, len(ph.threads)+1)
		if err != nil {
			return "", err
		}
	} else {
		exec = func(_ int, cmd [][]byte) string { return execInProc(mgr, cmd) }
		closeAll = func() {}
	}
	defer closeAll()

	var prog progress
	runOne := func(thread, slot, seq int, c command) {
		defer prog.tick()
		if c[0] == "@HAMMER" {
			// a read-only command repeated for some milliseconds, not recorded (leaving reads out
			// of a history never makes it less linearizable); keeps the key's stripe busy
			ms, _ := strconv.Atoi(c[1])
			cmd := toBytes(c[2:])
			for end := time.Now().Add(time.Duration(ms) * time.Millisecond); time.Now().Before(end); {
				exec(slot, cmd)
				prog.tick()
			}
			return
		}
		if !ph.nolog {
			memdb.VerifLockMark(seq)
		}
		now := time.Now()
		inv := clock.Add(1)
		out := exec(slot, toBytes(c))
		res := clock.Add(1)
		end := time.Now()
		recs[slot] = append(recs[slot], record{thread: thread, seq: seq, inv: inv, res: res,
			sec: now.Unix(), ms: now.UnixMilli(), rsec: end.Unix(), rms: end.UnixMilli(), args: c, reply: out, gid: gidOf(ph.nolog)})
	}
	for i, c := range ph.setup {
		if c[0][0] == '@' {
			ms, _ := strconv.Atoi(c[1])
			now := time.Now()
			frac := now.Nanosecond() / 1e6
			switch c[0] {
			case "@SLEEP":
				time.Sleep(time.Duration(ms) * time.Millisecond)
			case "@ALIGN": // wait until the millisecond-of-second is in [ms, ms+60)
				if frac < ms {
					time.Sleep(time.Duration(ms-frac) * time.Millisecond)
				} else if frac >= ms+60 {
					time.Sleep(time.Duration(1000-frac+ms) * time.Millisecond)
				}
			case "@NEXTSEC": // the next second boundary plus ms
				time.Sleep(time.Duration(1000-frac+ms) * time.Millisecond)
			}
			continue
		}
		runOne(-1, len(ph.threads), i, c)
	}
	var wg sync.WaitGroup
	start := make(chan struct{})
	for t := range ph.threads {
		wg.Add(1)
		go func(t int) {
			defer wg.Done()
			<-start
			for i, c := range ph.threads[t] {
				runOne(t, t, i, c)
			}
		}(t)
	}
	done := make(chan struct{})
	go func() { wg.Wait(); close(done) }()
	close(start)
	status = awaitDone(done, &prog, dir, ph.tier)
	memdb.VerifLockLog(false, 0)
	logs := memdb.VerifLockTake()

	// history
	hf, err := os.Create(filepath.Join(dir, "history.txt"))
	if err != nil {
		return "", err
	}
	hw := bufio.NewWriterSize(hf, 1<<20)
	gidThread := map[uint64]int{}
	npanic := 0
	if status == "OK" {
		for _, rs := range recs {
			for _, r := range rs {
				fmt.Fprintf(hw, "H %d %d %d %d %d %d %d %d %s | %s\n", r.thread, r.seq, r.inv, r.res, r.sec, r.ms, r.rsec, r.rms, hexArgs(r.args), r.reply)
				gidThread[r.gid] = r.thread
				if strings.HasPrefix(r.reply, "!") {
					npanic++
				}
			}
		}
	}
	hw.Flush()
	hf.Close()

	// lock log: L <gid> <thread|-2=background> <seq> <kind> <pos>   (M lines are the markers)
	lf, err := os.Create(filepath.Join(dir, "locklog.txt"))
	if err != nil {
		return "", err
	}
	lw := bufio.NewWriterSize(lf, 1<<20)
	gids := []uint64{}
	for g := range logs {
		gids = append(gids, g)
	}
	sort.Slice(gids, func(i, j int) bool { return gids[i] < gids[j] })
	for _, g := range gids {
		th, ok := gidThread[g]
		if !ok {
			th = -2
		}
		for _, e := range logs[g] {
			fmt.Fprintf(lw, "L %d %d %d %d %d\n", g, th, e.Seq, e.Kind, e.Pos)
		}
	}
	lw.Flush()
	lf.Close()

	// quiescent state (only meaningful when everybody finished)
	qf, err := os.Create(filepath.Join(dir, "quiescent.txt"))
	if err != nil {
		return "", err
	}
	qw := bufio.NewWriterSize(qf, 1<<20)
	fmt.Fprintf(qw, "STATUS %s panics=%d stripes=%d\n", status, npanic, memdb.VerifStripes(db))
	if status == "OK" {
		now := time.Now().Unix()
		for _, l := range memdb.VerifDump(db, now) {
			fmt.Fprintf(qw, "D 0 %s\n", l)
		}
		fmt.Fprintf(qw, "DEND %d\n", now)
		fmt.Fprintf(qw, "KEYS %s\n", execInProc(mgr, toBytes(command{"KEYS", "*"})))
		keys := append([]string{}, ph.keys...)
		sort.Strings(keys)
		for _, k := range keys {
			fmt.Fprintf(qw, "EXISTS %s %s\n", hx([]byte(k)), execInProc(mgr, toBytes(command{"EXISTS", k})))
		}
		c, a, tc, ta := memdb.VerifCounts(db)
		fmt.Fprintf(qw, "COUNT %d %d %d %d\n", c, a, tc, ta)
	}
	for _, k := range ph.keys {
		fmt.Fprintf(qw, "STRIPE %s %d %d\n", hx([]byte(k)), util.HashKey(k), memdb.VerifStripe(db, k))
	}
	qw.Flush()
	qf.Close()
	return status, nil
}

// run the phase's commands sequentially (round-robin over the threads) on a fresh server; a
// command that panics is recorded by name and the server replaced
func screenPhase(ph phase, outdir string, skip map[string]bool) map[string]string {
	bad := map[string]string{}
	dir := filepath.Join(outdir, ph.name+".screen")
	os.MkdirAll(dir, 0o755)
	cfg := setupServer(dir)
	mgr := server.NewManager(cfg)
	run := func(c command) {
		if c[0][0] == '@' {
			return
		}
		name := strings.ToLower(c[0])
		if skip[name] || bad[name] != "" || name == "blpop" || name == "brpop" {
			return
		}
		done := make(chan string, 1)
		go func() { done <- execQuiet(mgr, toBytes(c)) }()
		select {
		case out := <-done:
			if out == "!PANIC" {
				bad[name] = hexArgs(c)
				mgr = server.NewManager(cfg)
			}
		case <-time.After(10 * time.Second):
			bad[name] = "HANG:" + hexArgs(c)
			mgr = server.NewManager(cfg)
		}
	}
	for _, c := range ph.setup {
		if c[0][0] != '@' {
			run(c)
		}
	}
	for i := 0; ; i++ {
		any := false
		for t := range ph.threads {
			if i < len(ph.threads[t]) {
				any = true
				run(ph.threads[t][i])
			}
		}
		if !any {
			break
		}
	}
	return bad
}

func execQuiet(mgr *server.Manager, cmd [][]byte) (out string) {
	defer func() {
		if e := recover(); e != nil {
			out = "!PANIC"
		}
	}()
	mgr.ExecCommand(context.Background(), cmd, nil)
	return "ok"
}

// ---------------------------------------------------------------- TCP variant

// every worker talks RESP over its own loopback connection to Manager.Handle, exactly as a
// client of the server binary does
func tcpExecutor(mgr *server.Manager, n int) (executor, func(), error) {
	ln, err := net.Listen("tcp", "127.0.0.1:0")
	if err != nil {
		return nil, nil, err
	}
	ctx, cancel := context.WithCancel(context.Background())
	go func() {
		for {
			c, err := ln.Accept()
			if err != nil {
				return
			}
			go mgr.Handle(ctx, c)
		}
	}()
	conns := make([]net.Conn, n)
	rds := make([]*bufio.Reader, n)
	for i := range conns {
		c, err := net.Dial("tcp", ln.Addr().String())
		if err != nil {
			cancel()
			return nil, nil, err
		}
		conns[i] = c
		rds[i] = bufio.NewReader(c)
	}
	ex := func(slot int, cmd [][]byte) string {
		var b strings.Builder
		fmt.Fprintf(&b, "*%d\r\n", len(cmd))
		for _, a := range cmd {
			fmt.Fprintf(&b, "$%d\r\n%s\r\n", len(a), a)
		}
		conns[slot].SetDeadline(time.Now().Add(30 * time.Second))
		if _, err := conns[slot].Write([]byte(b.String())); err != nil {
			return "!WRITE " + err.Error()
		}
		out, err := readReply(rds[slot])
		if err != nil {
			return "!READ " + strings.ReplaceAll(err.Error(), " ", "_")
		}
		name := strings.ToLower(string(cmd[0]))
		return canonForCmd(name, out)
	}
	closeAll := func() {
		for _, c := range conns {
			c.Close()
		}
		ln.Close()
		cancel()
	}
	return ex, closeAll, nil
}

func readLine(r *bufio.Reader) (string, error) {
	l, err := r.ReadString('\n')
	if err != nil {
		return "", err
	}
	return strings.TrimSuffix(strings.TrimSuffix(l, "\n"), "\r"), nil
}

func readReply(r *bufio.Reader) (string, error) {
	l, err := readLine(r)
	if err != nil {
		return "", err
	}
	if l == "" {
		return "", fmt.Errorf("empty reply line")
	}
	switch l[0] {
	case '+':
		return "+" + hx([]byte(l[1:])), nil
	case '-':
		if strings.HasPrefix(l[1:], "WRONGTYPE") {
			return "-W", nil
		}
		return "-E", nil
	case ':':
		return l, nil
	case '$':
		n, err := strconv.Atoi(l[1:])
		if err != nil {
			return "", err
		}
		if n < 0 {
			return "$nil", nil
		}
		buf := make([]byte, n+2)
		if _, err := io.ReadFull(r, buf); err != nil {
			return "", err
		}
		return "$" + hx(buf[:n]), nil
	case '*':
		n, err := strconv.Atoi(l[1:])
		if err != nil {
			return "", err
		}
		if n < 0 {
			return "*nil", nil
		}
		parts := make([]string, 0, n)
		for i := 0; i < n; i++ {
			p, err := readReply(r)
			if err != nil {
				return "", err
			}
			parts = append(parts, p)
		}
		return "*[" + strings.Join(parts, " ") + "]", nil
	}
	return "", fmt.Errorf("bad reply type %q", l[0])
}

// ---------------------------------------------------------------- subcommands

func concCmd(args []string) error {
	if len(args) < 3 {
		return fmt.Errorf("conc <seed> <tier> <outdir> [phases]")
	}
	seed, _ := strconv.ParseUint(args[0], 10, 64)
	tier, outdir := args[1], args[2]
	want := map[string]bool{}
	if len(args) > 3 && args[3] != "" {
		for _, p := range strings.Split(args[3], ",") {
			want[p] = true
		}
	}
	tcp := os.Getenv("VERIF_CONC_TCP") == "1"
	nth, nops := 6, 60
	if tier == "thorough" {
		nth, nops = 8, 120
	}
	if v, err := strconv.Atoi(os.Getenv("VERIF_CONC_THREADS")); err == nil && v > 0 {
		nth = v
	}
	if v, err := strconv.Atoi(os.Getenv("VERIF_CONC_OPS")); err == nil && v > 0 {
		nops = v
	}
	// focused stress (a translator obligation named these executors): many more commands, mostly
	// the named ones
	focus := map[string]bool{}
	for _, n := range strings.Split(os.Getenv("VERIF_CONC_FOCUS"), ",") {
		if n != "" {
			focus[strings.ToLower(n)] = true
		}
	}
	if len(focus) > 0 {
		nops *= 10
	}
	r := newRng(seed)
	phases := []phase{
		genCounter(r, nth, nops),
		genList(r, nth, nops, true),
		genSetnx(r, nth, nops),
		genMulti(r, nth, nops),
		genSetAlg(r, nth, nops),
		genConserve(r, nth, nops),
		genBook(r, nth, nops*3),
		genMisc(r, nth, nops),
		genExpiry(r, nth, nops/2),
	}
	// a broken lock obligation names list commands: add the targeted contention phase
	if hot, ok := genHotList(r, focus); ok {
		phases = append(phases, hot)
	}
	sf, err := os.Create(filepath.Join(outdir, "status.txt"))
	if err != nil {
		return err
	}
	defer sf.Close()
	hang := false
	skip := map[string]bool{}
	for _, n := range strings.Split(os.Getenv("VERIF_CONC_SKIP"), ",") {
		if n != "" {
			skip[strings.ToLower(n)] = true
		}
	}
	for _, ph := range phases {
		if len(want) > 0 && !want[ph.name] {
			continue
		}
		// commands that already panic when the very same program is run by ONE goroutine have a
		// sequential defect (other properties); they are reported and left out of the mix, so that
		// what remains can only fail because of concurrency
		for name, ex := range screenPhase(ph, outdir, skip) {
			skip[name] = true
			fmt.Fprintf(sf, "SCREENED %s %s\n", name, ex)
		}
		// (and so are commands with an open, listed locking finding)
		for t := range ph.threads {
			kept := ph.threads[t][:0]
			for _, c := range ph.threads[t] {
				name := strings.ToLower(c[0])
				if skip[name] {
					continue
				}
				if len(focus) > 0 && ph.name != "hotlist" && !focus[name] && !r.chance(1, 3) {
					continue
				}
				kept = append(kept, c)
			}
			ph.threads[t] = kept
		}
		if len(focus) > 0 {
			has := false
			for t := range ph.threads {
				for _, c := range ph.threads[t] {
					if focus[strings.ToLower(c[0])] {
						has = true
					}
				}
			}
			if !has {
				continue
			}
		}
		ph.yield = 3
		ph.nolog = len(focus) > 0
		ph.tier = tier
		st, err := runPhase(ph, outdir, tcp)
		if err != nil {
			return err
		}
		fmt.Fprintf(sf, "PHASE %s %s\n", ph.name, st)
		if st != "OK" {
			hang = true
			break // the process still holds the stuck goroutines: stop here
		}
	}
	if !hang && (len(want) == 0 || want["pairs"]) {
		rounds := 25000
		if tier == "thorough" {
			rounds = 120000
		}
		if len(focus) > 0 {
			rounds = 40000
		}
		if v, err := strconv.Atoi(os.Getenv("VERIF_CONC_ROUNDS")); err == nil && v > 0 {
			rounds = v
		}
		st, screened, err := runPairs(r, rounds, outdir, skip, focus, tier, nil)
		if err != nil {
			return err
		}
		for name, ex := range screened {
			fmt.Fprintf(sf, "SCREENED %s %s\n", name, ex)
		}
		fmt.Fprintf(sf, "PHASE pairs %s\n", st)
		if st != "OK" {
			hang = true
		}
	}
	if !hang && len(focus) > 0 && (len(want) == 0 || want["hotmulti"]) {
		hot := []string{}
		for _, n := range []string{"rename", "lmove", "smove", "sunionstore"} {
			if focus[n] {
				hot = append(hot, n)
			}
		}
		if len(hot) > 0 {
			st, _, err := runPairs(r, 900, outdir, skip, focus, tier, hot)
			if err != nil {
				return err
			}
			fmt.Fprintf(sf, "PHASE hotmulti %s\n", st)
			if st != "OK" {
				hang = true
			}
		}
	}
	if !hang && (len(want) == 0 || want["bigval"]) && !skip["setrange"] && !skip["get"] {
		// in process (reply serialised right after the executor returns) and over loopback TCP
		// through Manager.Handle; the second run appends to the first one's result file
		st, err := runBigval(seed, tier, outdir, false)
		if err == nil && st == "OK" {
			st, err = runBigval(seed, tier, outdir, true)
		}
		if err != nil {
			return err
		}
		fmt.Fprintf(sf, "PHASE bigval %s\n", st)
		if st != "OK" {
			hang = true
		}
	}
	if !hang && (len(want) == 0 || want["keyscan"]) && !skip["keys"] {
		st, err := runKeyscan(seed, tier, outdir)
		if err != nil {
			return err
		}
		fmt.Fprintf(sf, "PHASE keyscan %s\n", st)
		if st != "OK" {
			hang = true
		}
	}
	if hang {
		os.Exit(4)
	}
	return nil
}

// hash <infile> <outfile>: per hex key "<hex> <util.HashKey> <stripe of 2*ShardNum locks>"
func hashCmd(args []string) error {
	if len(args) != 2 {
		return fmt.Errorf("hash <in> <out>")
	}
	in, err := os.ReadFile(args[0])
	if err != nil {
		return err
	}
	locks := memdb.NewLocks(2 * shardNum)
	var b strings.Builder
	for _, l := range strings.Split(string(in), "\n") {
		l = strings.TrimSpace(l)
		if l == "" {
			continue
		}
		k := string(unhx(l))
		fmt.Fprintf(&b, "%s %d %d\n", l, util.HashKey(k), locks.GetKeyPos(k))
	}
	return os.WriteFile(args[1], []byte(b.String()), 0o644)
}

func main() {
	if len(os.Args) < 2 {
		fmt.Fprintln(os.Stderr, "usage: harness_conc conc|hash ...")
		os.Exit(2)
	}
	var err error
	switch os.Args[1] {
	case "conc":
		err = concCmd(os.Args[2:])
	case "hash":
		err = hashCmd(os.Args[2:])
	default:
		err = fmt.Errorf("unknown subcommand %s", os.Args[1])
	}
	if err != nil {
		fmt.Fprintln(os.Stderr, "harness_conc error:", err)
		os.Exit(3)
	}
}
