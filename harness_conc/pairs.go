package main

// The "pairs" phase: barrier-synchronised rounds on fresh keys.  Every round takes a key nobody
// has touched, picks two or three of the commands that can create or replace a key, and releases
// one goroutine per command at the same instant.  The history of a round is two or three
// commands on one key: deciding its linearizability is trivial, so thousands of rounds fit in
// a second, and a command that creates the key behind the back of another one (a missing or
// too narrow stripe lock) shows as a reply pair no sequential order explains.

import (
	"bufio"
	"fmt"
	"os"
	"path/filepath"
	"runtime"
	"sort"
	"strings"
	"sync/atomic"
	"time"

	"github.com/innovationb1ue/RedisGO/memdb"
	"github.com/innovationb1ue/RedisGO/server"
	"github.com/innovationb1ue/RedisGO/util"
)

// a menu entry: the command on key k; pre (optional) is run before the barrier to prepare a
// source key for the commands that move something onto k
type maker struct {
	name string
	cmd  func(k, src string, round int) command
	pre  func(src string) command
}

// a hotmulti rival: a command on the contested key and the command that prepares that key
type rivalMaker struct {
	maker
	preK func(k string) command
}

func creators() []maker {
	v := func(round int) string { return fmt.Sprintf("v%d", round) }
	return []maker{
		{"setnx", func(k, _ string, r int) command { return command{"SETNX", k, v(r)} }, nil},
		{"set", func(k, _ string, r int) command { return command{"SET", k, "s" + v(r)} }, nil},
		{"incr", func(k, _ string, r int) command { return command{"INCR", k} }, nil},
		{"incrby", func(k, _ string, r int) command { return command{"INCRBY", k, "5"} }, nil},
		{"decr", func(k, _ string, r int) command { return command{"DECR", k} }, nil},
		{"decrby", func(k, _ string, r int) command { return command{"DECRBY", k, "3"} }, nil},
		{"append", func(k, _ string, r int) command { return command{"APPEND", k, "ap"} }, nil},
		{"setrange", func(k, _ string, r int) command { return command{"SETRANGE", k, "1", "zz"} }, nil},
		{"setex", func(k, _ string, r int) command { return command{"SETEX", k, "100000", "x" + v(r)} }, nil},
		{"mset", func(k, _ string, r int) command { return command{"MSET", k, "m" + v(r)} }, nil},
		{"lpush", func(k, _ string, r int) command { return command{"LPUSH", k, "l" + v(r)} }, nil},
		{"rpush", func(k, _ string, r int) command { return command{"RPUSH", k, "r" + v(r)} }, nil},
		{"sadd", func(k, _ string, r int) command { return command{"SADD", k, "m" + v(r)} }, nil},
		{"hset", func(k, _ string, r int) command { return command{"HSET", k, "f", "h" + v(r)} }, nil},
		{"hsetnx", func(k, _ string, r int) command { return command{"HSETNX", k, "f", "n" + v(r)} }, nil},
		{"hincrby", func(k, _ string, r int) command { return command{"HINCRBY", k, "n", "2"} }, nil},
		{"zadd", func(k, _ string, r int) command { return command{"ZADD", k, "1", "z" + v(r)} }, nil},
		{"xadd", func(k, _ string, r int) command { return command{"XADD", k, "*", "f", v(r)} }, nil},
		{"del", func(k, _ string, r int) command { return command{"DEL", k} }, nil},
		{"get", func(k, _ string, r int) command { return command{"GET", k} }, nil},
		{"exists", func(k, _ string, r int) command { return command{"EXISTS", k} }, nil},
		{"type", func(k, _ string, r int) command { return command{"TYPE", k} }, nil},
		{"rename", func(k, src string, r int) command { return command{"RENAME", src, k} },
			func(src string) command { return command{"SET", src, "moved"} }},
		{"lmove", func(k, src string, r int) command { return command{"LMOVE", src, k, "LEFT", "RIGHT"} },
			func(src string) command { return command{"RPUSH", src, "e1", "e2"} }},
		{"smove", func(k, src string, r int) command { return command{"SMOVE", src, k, "mm"} },
			func(src string) command { return command{"SADD", src, "mm", "nn"} }},
		{"sunionstore", func(k, src string, r int) command { return command{"SUNIONSTORE", k, src} },
			func(src string) command { return command{"SADD", src, "u1", "u2"} }},
	}
}

// hot == nil: the ordinary pairs phase.  hot = multi-key commands named by a broken lock
// obligation: the "hotmulti" phase -- every round runs one of them (old name / source -> contested
// key k) against a read-modify-write command on k that holds k's stripe for a while (a big value
// makes APPEND copy under the lock), with the source chosen, by the implementation's own hash, so
// that the rounds cycle through the three relations of (source, k): same lock stripe, same map
// shard but different stripe, different shard.  A lock set that shrank for one key shape only
// shows on that shape.
func runPairs(r *rng, rounds int, outdir string, skip, focus map[string]bool, tier string, hot []string) (string, map[string]string, error) {
	phaseName := "pairs"
	if hot != nil {
		phaseName = "hotmulti"
	}
	dir := filepath.Join(outdir, phaseName)
	if err := os.MkdirAll(dir, 0o755); err != nil {
		return "", nil, err
	}
	cfg := setupServer(dir)
	// sequential screen: a menu command that panics on its own is left out
	screened := map[string]string{}
	menu := []maker{}
	for _, mk := range creators() {
		if skip[mk.name] {
			continue
		}
		m0 := server.NewManager(cfg)
		bad := false
		if mk.pre != nil && execQuiet(m0, toBytes(mk.pre("screen-src"))) == "!PANIC" {
			bad = true
		}
		c := mk.cmd("screen-key", "screen-src", 0)
		if !bad && execQuiet(m0, toBytes(c)) == "!PANIC" {
			bad = true
		}
		if bad {
			screened[mk.name] = hexArgs(c)
			continue
		}
		menu = append(menu, mk)
	}
	var foc []maker
	for _, mk := range menu {
		if focus[mk.name] {
			foc = append(foc, mk)
		}
	}
	mgr := server.NewManager(cfg)
	db := mgr.DBs[0]
	memdb.VerifLockTake()
	memdb.VerifLockLog(false, 0)

	const nw = 3
	var clock atomic.Uint64
	// one message per round; its counters are never reset, so a slow goroutine cannot be miscounted
	type roundMsg struct {
		id      int64
		n       int
		cmds    [nw]command
		recs    [nw]record
		arrived atomic.Int64
	}
	// the goroutines block on their channel between rounds (no busy waiting: the machine may be
	// shared); only the start barrier inside a round spins, briefly
	var starts [nw]chan *roundMsg
	doneCh := make(chan struct{}, nw)
	for w := 0; w < nw; w++ {
		starts[w] = make(chan *roundMsg, 1)
		go func(w int) {
			for m := range starts[w] {
				m.arrived.Add(1)
				for i := 0; m.arrived.Load() < int64(m.n); i++ {
					if i > 5000 {
						runtime.Gosched()
					}
				}
				now := time.Now()
				inv := clock.Add(1)
				out := execInProc(mgr, toBytes(m.cmds[w]))
				res := clock.Add(1)
				end := time.Now()
				m.recs[w] = record{thread: w, inv: inv, res: res, sec: now.Unix(), ms: now.UnixMilli(),
					rsec: end.Unix(), rms: end.UnixMilli(), args: m.cmds[w], reply: out}
				doneCh <- struct{}{}
			}
		}(w)
	}
	recs := []record{}
	keys := []string{}
	status := "OK"
	var prog progress
	nsetup := 0
rounds:
	for round := 0; round < rounds; round++ {
		k := fmt.Sprintf("p%d", round)
		keys = append(keys, k)
		n := 2
		if r.chance(1, 4) {
			n = 3
		}
		chosen := []maker{}
		hotSrc := ""
		if hot != nil {
			named, rival := hotRound(menu, hot, round)
			if named == nil {
				break
			}
			chosen = []maker{*named, rival.maker}
			n = 2
			hotSrc = relatedKey(k, round%3, round)
			if rival.preK != nil {
				pc := rival.preK(k)
				now := time.Now()
				inv := clock.Add(1)
				out := execInProc(mgr, toBytes(pc))
				res := clock.Add(1)
				recs = append(recs, record{thread: -1, seq: nsetup, inv: inv, res: res, sec: now.Unix(), ms: now.UnixMilli(),
					rsec: now.Unix(), rms: now.UnixMilli(), args: pc, reply: out})
				nsetup++
			}
		} else if len(foc) > 0 {
			chosen = append(chosen, foc[r.intn(len(foc))])
		}
		for len(chosen) < n {
			mk := menu[r.intn(len(menu))]
			dup := false
			for _, c := range chosen {
				if c.name == mk.name {
					dup = true
				}
			}
			if !dup {
				chosen = append(chosen, mk)
			}
		}
		// the order in which the goroutines are handed their commands must not matter
		r.shuffleMakers(chosen)
		msg := &roundMsg{id: int64(round) + 1, n: len(chosen)}
		for w := 0; w < len(chosen); w++ {
			src := fmt.Sprintf("q%d.%d", round, w)
			if hotSrc != "" {
				src = hotSrc
			}
			if chosen[w].pre != nil {
				pc := chosen[w].pre(src)
				now := time.Now()
				inv := clock.Add(1)
				out := execInProc(mgr, toBytes(pc))
				res := clock.Add(1)
				recs = append(recs, record{thread: -1, seq: nsetup, inv: inv, res: res, sec: now.Unix(), ms: now.UnixMilli(),
					rsec: now.Unix(), rms: now.UnixMilli(), args: pc, reply: out})
				nsetup++
				keys = append(keys, src)
			}
			msg.cmds[w] = chosen[w].cmd(k, src, round)
		}
		for w := 0; w < msg.n; w++ {
			starts[w] <- msg
		}
		roundDone := make(chan struct{})
		go func(n int) {
			for got := 0; got < n; got++ {
				<-doneCh
				prog.tick()
			}
			close(roundDone)
		}(msg.n)
		if st := awaitDone(roundDone, &prog, dir, tier); st != "OK" {
			status = st
			break rounds
		}
		for w := 0; w < msg.n; w++ {
			rc := msg.recs[w]
			rc.seq = round
			recs = append(recs, rc)
		}
	}
	if status == "OK" {
		for w := 0; w < nw; w++ {
			close(starts[w])
		}
	}

	hf, err := os.Create(filepath.Join(dir, "history.txt"))
	if err != nil {
		return "", nil, err
	}
	hw := bufio.NewWriterSize(hf, 1<<20)
	npanic := 0
	if status == "OK" {
		for _, rc := range recs {
			fmt.Fprintf(hw, "H %d %d %d %d %d %d %d %d %s | %s\n", rc.thread, rc.seq, rc.inv, rc.res, rc.sec, rc.ms, rc.rsec, rc.rms, hexArgs(rc.args), rc.reply)
			if strings.HasPrefix(rc.reply, "!") {
				npanic++
			}
		}
	}
	hw.Flush()
	hf.Close()
	os.WriteFile(filepath.Join(dir, "locklog.txt"), nil, 0o644)
	qf, err := os.Create(filepath.Join(dir, "quiescent.txt"))
	if err != nil {
		return "", nil, err
	}
	qw := bufio.NewWriterSize(qf, 1<<20)
	fmt.Fprintf(qw, "STATUS %s panics=%d stripes=%d\n", status, npanic, memdb.VerifStripes(db))
	if status == "OK" {
		now := time.Now().Unix()
		for _, l := range memdb.VerifDump(db, now) {
			fmt.Fprintf(qw, "D 0 %s\n", l)
		}
		fmt.Fprintf(qw, "DEND %d\n", now)
		fmt.Fprintf(qw, "KEYS %s\n", execInProc(mgr, toBytes(command{"KEYS", "*"})))
		sort.Strings(keys)
		for _, k := range keys {
			fmt.Fprintf(qw, "EXISTS %s %s\n", hx([]byte(k)), execInProc(mgr, toBytes(command{"EXISTS", k})))
		}
		c, a, tc, ta := memdb.VerifCounts(db)
		fmt.Fprintf(qw, "COUNT %d %d %d %d\n", c, a, tc, ta)
	}
	_ = util.HashKey
	qw.Flush()
	qf.Close()
	return status, screened, nil
}

func (r *rng) shuffleMakers(xs []maker) {
	for i := len(xs) - 1; i > 0; i-- {
		j := r.intn(i + 1)
		xs[i], xs[j] = xs[j], xs[i]
	}
}

// key with a chosen relation to k under the implementation's hash:
// 0 = same lock stripe, 1 = same map shard but another stripe, 2 = another shard
func relatedKey(k string, relation int, round int) string {
	hk := util.HashKey(k)
	for i := 0; ; i++ {
		c := fmt.Sprintf("g%d.%d", round, i)
		hc := util.HashKey(c)
		sameStripe := hc%(2*shardNum) == hk%(2*shardNum)
		sameShard := hc%shardNum == hk%shardNum
		switch relation {
		case 0:
			if sameStripe {
				return c
			}
		case 1:
			if sameShard && !sameStripe {
				return c
			}
		default:
			if !sameShard {
				return c
			}
		}
	}
}

// the named multi-key command of this round and a rival that read-modify-writes the contested key
func hotRound(menu []maker, hot []string, round int) (*maker, rivalMaker) {
	var named *maker
	cands := []maker{}
	for _, mk := range menu {
		for _, h := range hot {
			if mk.name == h && mk.pre != nil {
				cands = append(cands, mk)
			}
		}
	}
	if len(cands) == 0 {
		return nil, rivalMaker{}
	}
	named = &cands[(round/3)%len(cands)]
	big := strings.Repeat("a", 16<<10)
	strRivals := []rivalMaker{
		{maker{"append", func(k, _ string, r int) command { return command{"APPEND", k, "x"} }, nil},
			func(k string) command { return command{"SET", k, big} }},
		{maker{"incrby", func(k, _ string, r int) command { return command{"INCRBY", k, "7"} }, nil},
			func(k string) command { return command{"SET", k, "5"} }},
		{maker{"setrange", func(k, _ string, r int) command { return command{"SETRANGE", k, "1", "zz"} }, nil},
			func(k string) command { return command{"SET", k, big} }},
	}
	listRivals := []rivalMaker{
		{maker{"rpush", func(k, _ string, r int) command { return command{"RPUSH", k, fmt.Sprintf("r%d", r)} }, nil},
			func(k string) command { return command{"RPUSH", k, "d1", "d2"} }},
		{maker{"lpop", func(k, _ string, r int) command { return command{"LPOP", k} }, nil},
			func(k string) command { return command{"RPUSH", k, "d1", "d2"} }},
	}
	setRivals := []rivalMaker{
		{maker{"sadd", func(k, _ string, r int) command { return command{"SADD", k, fmt.Sprintf("s%d", r)} }, nil},
			func(k string) command { return command{"SADD", k, "d1"} }},
		{maker{"srem", func(k, _ string, r int) command { return command{"SREM", k, "d1"} }, nil},
			func(k string) command { return command{"SADD", k, "d1", "d2"} }},
	}
	rivals := strRivals
	switch named.name {
	case "lmove":
		rivals = listRivals
	case "smove", "sunionstore", "sinterstore", "sdiffstore":
		rivals = setRivals
	}
	return named, rivals[(round/(3*len(cands)))%len(rivals)]
}
