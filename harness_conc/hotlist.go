package main

// The "hotlist" phase: targeted search after a broken lock obligation names a list command.
// Many goroutines on two list keys that share a stripe, mixing the named command with the
// producers / consumers / readers it can race with.  Every pushed element is unique, so besides
// the linearizability check the history has a cheap decisive oracle: every acknowledged push is
// returned by exactly one pop / move or is still in a list at quiescence.
//   blocking pops named: k1 is pre-filled and never runs empty (only BLPOP/BRPOP k1 k2 t take from
//   it) while readers keep its stripe busy and pushers keep k2 non-empty: every blocking pop must be
//   served from k1 (a pop served from k2, or nil, needs an instant at which k1 was empty).

import "fmt"

var listFamily = map[string]bool{"lpush": true, "rpush": true, "lpushx": true, "rpushx": true, "lpop": true, "rpop": true,
	"lmove": true, "blpop": true, "brpop": true, "llen": true, "lrange": true, "lindex": true, "lset": true,
	"lrem": true, "ltrim": true, "lpos": true}

func genHotList(r *rng, focus map[string]bool) (phase, bool) {
	any := false
	for c := range focus {
		if listFamily[c] {
			any = true
		}
	}
	if !any {
		return phase{}, false
	}
	p := &keyPool{prefix: "hot", nlocks: 2 * shardNum}
	keys := p.colliding(2)
	if focus["blpop"] || focus["brpop"] {
		keys = p.spread(2) // the busy stripe must be k1's only
	}
	k1, k2 := keys[0], keys[1]
	ph := phase{name: "hotlist", keys: keys}
	if focus["blpop"] || focus["brpop"] {
		c := command{"RPUSH", k1}
		for i := 0; i < 400; i++ {
			c = append(c, fmt.Sprintf("a%d", i))
		}
		ph.setup = append(ph.setup, c, command{"RPUSH", k2, "b0", "b1", "b2"})
		for t := 0; t < 4; t++ {
			ops := []command{}
			for i := 0; i < 25; i++ {
				if focus["brpop"] && (!focus["blpop"] || i%2 == 1) {
					ops = append(ops, command{"BRPOP", k1, k2, "1"})
				} else {
					ops = append(ops, command{"BLPOP", k1, k2, "1"})
				}
			}
			ph.threads = append(ph.threads, ops)
		}
		for t := 0; t < 8; t++ { // readers keeping k1's stripe busy for as long as the blocking pops run
			cmd := command{"@HAMMER", "3500", "LRANGE", k1, "0", "-1"}
			if t%2 == 1 {
				cmd = command{"@HAMMER", "3500", "LLEN", k1}
			}
			ph.threads = append(ph.threads, []command{cmd})
		}
		ops := []command{}
		for i := 0; i < 60; i++ {
			ops = append(ops, command{"RPUSH", k2, fmt.Sprintf("c%d", i)})
		}
		ph.threads = append(ph.threads, ops)
		return ph, true
	}
	// producers
	for t := 0; t < 4; t++ {
		ops := []command{}
		for i := 0; i < 150; i++ {
			el := fmt.Sprintf("e%d.%d", t, i)
			if i%2 == 0 {
				ops = append(ops, command{"LPUSH", k1, el})
			} else {
				ops = append(ops, command{"RPUSH", k1, el})
			}
		}
		ph.threads = append(ph.threads, ops)
	}
	// consumers: the named command forms, plus plain pops
	for t := 0; t < 8; t++ {
		ops := []command{}
		for i := 0; i < 200; i++ {
			switch {
			case focus["lmove"] && t%2 == 0:
				if i%3 == 2 {
					ops = append(ops, command{"LMOVE", k2, k1, "LEFT", "RIGHT"})
				} else {
					ops = append(ops, command{"LMOVE", k1, k2, "RIGHT", "LEFT"})
				}
			case focus["lpop"] && t%2 == 0:
				ops = append(ops, command{"LPOP", k1})
			case focus["rpop"] || t%2 == 1:
				if focus["lmove"] && i%4 == 3 {
					ops = append(ops, command{"LPOP", k2})
				} else {
					ops = append(ops, command{"RPOP", k1})
				}
			default:
				ops = append(ops, command{"LPOP", k1})
			}
		}
		ph.threads = append(ph.threads, ops)
	}
	return ph, true
}
