package main

// The "keyscan" phase: KEYS while other clients create and delete keys.
// Stable keys are set once and never touched again (several of them chosen, with the same hash
// the map uses, to live in the highest-numbered shards, which ConcurrentMap.Keys visits last);
// writers create and delete bursts of other keys; readers loop KEYS * (and EXISTS on a stable
// key).  KEYS is not atomic across shards, so the check demands only what every linearizable
// reading agrees on:   stable keys  ⊆  reply  ⊆  stable keys ∪ churn keys,  without repetition.

import (
	"fmt"
	"os"
	"path/filepath"
	"sort"
	"strings"
	"sync"
	"sync/atomic"

	"github.com/innovationb1ue/RedisGO/server"
	"github.com/innovationb1ue/RedisGO/util"
)

func runKeyscan(seed uint64, tier string, outdir string) (string, error) {
	dir := filepath.Join(outdir, "keyscan")
	if err := os.MkdirAll(dir, 0o755); err != nil {
		return "", err
	}
	cfg := setupServer(dir)
	mgr := server.NewManager(cfg)
	nstable, nw, nr, scans := 24, 4, 3, 1000
	if tier == "thorough" {
		scans = 20000
	}
	if raceEnabled {
		scans /= 4
	}
	// stable keys: half of them in the last three shards, the rest anywhere
	stable := []string{}
	shardOf := map[string]int{}
	for i := 0; len(stable) < nstable; i++ {
		k := fmt.Sprintf("stable%d", i)
		sh := util.HashKey(k) % shardNum
		if len(stable) < nstable/2 && sh < shardNum-3 {
			continue
		}
		stable = append(stable, k)
		shardOf[k] = sh
	}
	isStable := map[string]bool{}
	for _, k := range stable {
		isStable[k] = true
		if out := execInProc(mgr, toBytes(command{"SET", k, "v"})); out != "+4f4b" {
			return "", fmt.Errorf("keyscan setup: SET %s -> %s", k, out)
		}
	}
	var readersLeft, nscan, nviol, nchurn atomic.Int64
	var prog progress
	readersLeft.Store(int64(nr))
	var mu sync.Mutex
	reports := []string{}
	report := func(s string) {
		nviol.Add(1)
		mu.Lock()
		if len(reports) < 4 {
			reports = append(reports, s)
		}
		mu.Unlock()
	}
	var wg sync.WaitGroup
	start := make(chan struct{})
	for w := 0; w < nw; w++ {
		wg.Add(1)
		go func(w int) {
			defer wg.Done()
			<-start
			for round := 0; readersLeft.Load() > 0 && round < 1000000; round++ {
				burst := 30 + (round*7+w)%40
				for i := 0; i < burst; i++ {
					k := fmt.Sprintf("churn%d.%d", w, i)
					if i%5 == 0 {
						execInProc(mgr, toBytes(command{"LPUSH", k, "x"}))
					} else {
						execInProc(mgr, toBytes(command{"SET", k, "x"}))
					}
					nchurn.Add(1)
					prog.tick()
				}
				for i := 0; i < burst; i++ {
					execInProc(mgr, toBytes(command{"DEL", fmt.Sprintf("churn%d.%d", w, i)}))
				}
			}
		}(w)
	}
	for rd := 0; rd < nr; rd++ {
		wg.Add(1)
		go func(rd int) {
			defer wg.Done()
			defer readersLeft.Add(-1)
			<-start
			for i := 0; i < scans; i++ {
				out := execInProc(mgr, toBytes(command{"KEYS", "*"}))
				nscan.Add(1)
				prog.tick()
				if !strings.HasPrefix(out, "*[") {
					report("MALFORMED KEYS * -> " + out)
					continue
				}
				seen := map[string]int{}
				for _, e := range splitTop(out[2 : len(out)-1]) {
					if strings.HasPrefix(e, "$") {
						seen[string(unhx(e[1:]))]++
					}
				}
				listed := 0
				for _, k := range stable {
					if seen[k] > 0 {
						listed++
					}
				}
				for _, k := range stable {
					if seen[k] == 0 {
						ex := execInProc(mgr, toBytes(command{"EXISTS", k}))
						report(fmt.Sprintf("MISSING key=%s shard=%d (of %d) exists_reply=%s keys_reply_len=%d stable_listed=%d/%d",
							k, shardOf[k], shardNum, ex, len(seen), listed, len(stable)))
						break
					}
				}
				for k, c := range seen {
					if c > 1 {
						report(fmt.Sprintf("DUPLICATE key=%s listed %d times", k, c))
						break
					}
					if !isStable[k] && !strings.HasPrefix(k, "churn") {
						report(fmt.Sprintf("UNKNOWN key=%q was never written", k))
						break
					}
				}
				if i%10 == 0 {
					k := stable[(i/10+rd)%len(stable)]
					if ex := execInProc(mgr, toBytes(command{"EXISTS", k})); ex != ":1" {
						report(fmt.Sprintf("EXISTS %s -> %s for a key that is never deleted", k, ex))
					}
				}
			}
		}(rd)
	}
	done := make(chan struct{})
	go func() { wg.Wait(); close(done) }()
	close(start)
	status := awaitDone(done, &prog, dir, tier)
	var b strings.Builder
	for _, r := range reports {
		b.WriteString(r + "\n")
	}
	names := append([]string{}, stable...)
	sort.Strings(names)
	shards := []string{}
	for _, k := range names {
		shards = append(shards, fmt.Sprintf("%s:%d", k, shardOf[k]))
	}
	fmt.Fprintf(&b, "STABLE %s\n", strings.Join(shards, " "))
	fmt.Fprintf(&b, "DONE status=%s scans=%d churn_writes=%d violations=%d\n", status, nscan.Load(), nchurn.Load(), nviol.Load())
	if err := os.WriteFile(filepath.Join(dir, "result.txt"), []byte(b.String()), 0o644); err != nil {
		return "", err
	}
	return status, nil
}
