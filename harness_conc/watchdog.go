package main

// Progress-based watchdog.  "Did not finish" is a claim about a deadlock, so it needs evidence of
// NO PROGRESS: the workers bump a counter after every command; the counters are sampled once per
// window.  As long as they advance, the phase is merely slow (loaded machine, -race build) and
// the wait is extended, up to a generous cap.  Verdicts:
//   OK     the workers finished
//   HANG   the counters were flat for a whole window AND the goroutine dump shows a goroutine
//          blocked acquiring a mutex / RW lock
//   STALL  the counters were flat for three consecutive windows without any goroutine blocked on a
//          lock (an executor that spins or sleeps for ever)
//   SLOW   the cap was reached while the counters were still advancing: inconclusive, never a violation

import (
	"fmt"
	"os"
	"path/filepath"
	"runtime"
	"strconv"
	"strings"
	"sync/atomic"
	"time"
)

type progress struct{ n atomic.Int64 }

func (p *progress) tick()        { p.n.Add(1) }
func (p *progress) total() int64 { return p.n.Load() }

func watchWindows(tier string) (window, limit time.Duration) {
	window, limit = 15*time.Second, 15*time.Minute
	if tier == "thorough" {
		window, limit = 30*time.Second, 45*time.Minute
	}
	if raceEnabled {
		window *= 2
	}
	if v, err := strconv.Atoi(os.Getenv("VERIF_CONC_WINDOW")); err == nil && v > 0 {
		window = time.Duration(v) * time.Second
	}
	return
}

// is some goroutine of the dump blocked acquiring a sync.Mutex / sync.RWMutex?
func lockBlocked(dump []byte) bool {
	for _, blk := range strings.Split(string(dump), "\n\n") {
		nl := strings.IndexByte(blk, '\n')
		if nl < 0 {
			continue
		}
		head := blk[:nl]
		if strings.Contains(blk, "WaitGroup") {
			continue
		}
		if strings.Contains(head, "[sync.RWMutex.") || strings.Contains(head, "[sync.Mutex.") ||
			(strings.Contains(head, "[semacquire") && strings.Contains(blk, "Mutex).")) {
			return true
		}
	}
	return false
}

// awaitDone waits for done, watching the progress counter
func awaitDone(done <-chan struct{}, p *progress, dir string, tier string) string {
	window, limit := watchWindows(tier)
	start := time.Now()
	last := p.total()
	flat := 0
	for {
		select {
		case <-done:
			return "OK"
		case <-time.After(window):
		}
		cur := p.total()
		if cur != last {
			last, flat = cur, 0
			if time.Since(start) > limit {
				os.WriteFile(filepath.Join(dir, "slow.txt"),
					[]byte(fmt.Sprintf("still progressing after %s (%d commands done)\n", time.Since(start).Round(time.Second), cur)), 0o644)
				return "SLOW"
			}
			continue
		}
		flat++
		buf := make([]byte, 1<<23)
		nb := runtime.Stack(buf, true)
		if lockBlocked(buf[:nb]) || flat >= 3 {
			verdict := "HANG"
			if !lockBlocked(buf[:nb]) {
				verdict = "STALL"
			}
			head := fmt.Sprintf("%s: no command completed during the last %d window(s) of %s (%d commands done, %s elapsed)\n\n",
				verdict, flat, window, cur, time.Since(start).Round(time.Second))
			os.WriteFile(filepath.Join(dir, "hang.txt"), append([]byte(head), buf[:nb]...), 0o644)
			return verdict
		}
	}
}
