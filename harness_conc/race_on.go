//go:build race

package main

const raceEnabled = true
