package main

import (
	"fmt"
	"os"
)

// quietLogger implements raft.Logger. It discards everything, except that Panic*/Fatal*
// panic with the formatted message: raft relies on Logger.Panicf to actually panic when
// one of its internal invariants is violated.
type quietLogger struct{ debug bool }

func (l *quietLogger) out(lvl, s string) {
	if l.debug {
		fmt.Fprintln(os.Stderr, lvl, s)
	}
}

func (l *quietLogger) Debug(v ...interface{})              { l.out("D", fmt.Sprint(v...)) }
func (l *quietLogger) Debugf(f string, v ...interface{})   { l.out("D", fmt.Sprintf(f, v...)) }
func (l *quietLogger) Error(v ...interface{})              { l.out("E", fmt.Sprint(v...)) }
func (l *quietLogger) Errorf(f string, v ...interface{})   { l.out("E", fmt.Sprintf(f, v...)) }
func (l *quietLogger) Info(v ...interface{})               { l.out("I", fmt.Sprint(v...)) }
func (l *quietLogger) Infof(f string, v ...interface{})    { l.out("I", fmt.Sprintf(f, v...)) }
func (l *quietLogger) Warning(v ...interface{})            { l.out("W", fmt.Sprint(v...)) }
func (l *quietLogger) Warningf(f string, v ...interface{}) { l.out("W", fmt.Sprintf(f, v...)) }
func (l *quietLogger) Fatal(v ...interface{})              { panic(fmt.Sprint(v...)) }
func (l *quietLogger) Fatalf(f string, v ...interface{})   { panic(fmt.Sprintf(f, v...)) }
func (l *quietLogger) Panic(v ...interface{})              { panic(fmt.Sprint(v...)) }
func (l *quietLogger) Panicf(f string, v ...interface{})   { panic(fmt.Sprintf(f, v...)) }

var theLogger = &quietLogger{debug: os.Getenv("VERIF_RAFT_DEBUG") == "1"}
