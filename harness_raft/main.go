// verifharness_raft: drives the real etcd/raft library (built from /repo/etcd/raft) and
// records what it observed, for validation by the Coq-extracted checker of property C15.
//
//	harness_raft quorum <outdir> <seed> <maxidMajority> <maxidJoint> <maxackJoint> <nrandom>
//	harness_raft sim    <outdir> <seed> <first> <count> <nevents>
//	harness_raft corpus <outdir>
package main

import (
	"fmt"
	"os"
)

type subcmd func(args []string) error

var subcmds = map[string]subcmd{}

func main() {
	if len(os.Args) < 2 {
		fmt.Fprintln(os.Stderr, "usage: harness_raft <quorum|sim|corpus> args...")
		os.Exit(3)
	}
	f, ok := subcmds[os.Args[1]]
	if !ok {
		fmt.Fprintln(os.Stderr, "unknown subcommand", os.Args[1])
		os.Exit(3)
	}
	if err := f(os.Args[2:]); err != nil {
		fmt.Fprintln(os.Stderr, "harness error:", err)
		os.Exit(3)
	}
}
