package main

// Deterministic single-goroutine simulator for the real etcd/raft RawNode (built from
// VERIF_REPO/etcd/raft), for the trace validation of property C15.
//
//	harness_raft sim     <outdir> <seed> <first> <count> <nevents>
//	harness_raft simcc   <outdir> <seed> <first> <count> <nevents>   (with membership changes)
//	harness_raft simpv   <outdir> <seed> <first> <count> <nevents>   (Config.PreVote on, CheckQuorum in half)
//	harness_raft simfile <schedule-file> <out-trace>
//
// Every node is a raft.RawNode over a raft.MemoryStorage that was initialised with a
// snapshot {Index:1, Term:0, ConfState{Voters: 1..n}}: the log proper starts at index 2 and
// the model's index is (real index - 1); terms are the same.  No PreVote, no CheckQuorum
// (the configuration RedisGO's raftexample uses).  One event = one call into one RawNode
// followed by the Ready loop run to quiescence: entries and HardState are persisted to the
// MemoryStorage first, then the messages are released to the network, then Advance.
//
// Events (the scheduler picks them from a PRNG seeded by (seed, schedule number)):
//
//	C  i            Campaign()
//	P  i p          Propose(payload p)
//	T  i            Tick()
//	R  i            crash + restart: the RawNode is rebuilt from its MemoryStorage
//	K  i k          compaction of the log up to (model) index k; SR i j: ReportSnapshot(j, failure)
//	CC i code       (simcc only) ProposeConfChange: 100+x add voter x, 110+x remove voter x,
//	                130+10a+b add a and remove b through an auto-leave joint configuration
//	D  i <msg>      Step(msg) of an in-flight message addressed to i (removed from the network)
//	DD i <msg>      the same, but the message stays in flight (duplication)
//	FP/FPD i from p Step of a forwarded MsgProp (FPD: it stays in flight)
//	XC/XP/XT/XD/XFP the call is made, then the node crashes BEFORE its Ready is persisted or
//	                sent: the RawNode is rebuilt from storage (for the model: a restart)
//
// loss = a message is removed without being delivered (no trace line: the model's network
// keeps everything forever); reordering = messages are picked at random; partitions = a
// random set of nodes whose traffic is held back for a while.
//
// Trace format, one group per event:
//
//	N <n> <electionTick> <rngseed> <MaxSizePerMsg> <k: initial voters 1..k, 0 = all> <flags: 1 PreVote, 2 CheckQuorum, 4 learners, 8 TransferLeader events, 16 mixed entry sizes + small MaxSizePerMsg/MaxCommittedSizePerReady + few in-flight messages>
//	EV <kind> <node> <args>
//	OUT <msg>                     (0 or more: what the node handed to the network)
//	ST <node> <term> <vote> <commit> <role F|C|L> <lead> <nlog> (<term> <payload>)* [CFG <nin> ids <nout> ids <autoleave> <nlearners> ids]
//
//	<msg> = <type> <from> <to> <term> <logterm> <index> <commit> <reject 0|1> <nents> (<term> <payload>)*
//	type: V MsgVote, W MsgVoteResp, A MsgApp, B MsgAppResp, H MsgHeartbeat, I MsgHeartbeatResp,
//	      P MsgProp (ignored by the checker), X<name> anything else (rejected by the checker)
//
// indexes and commit fields are already shifted to the model's numbering.

import (
	"bufio"
	"fmt"
	"os"
	"path/filepath"
	"sort"
	"strconv"
	"strings"

	"go.etcd.io/etcd/raft/v3"
	pb "go.etcd.io/etcd/raft/v3/raftpb"
)

func init() {
	subcmds["sim"] = cmdSim
	subcmds["simcc"] = cmdSimCC
	subcmds["simpv"] = cmdSimPV
	subcmds["simfile"] = cmdSimFile
}

type simNode struct {
	id uint64
	st *raft.MemoryStorage
	rn *raft.RawNode
	// shadow = every entry the node holds, compacted ones included (entry k of the model's log
	// is shadow[k-1], real index k+1).  It is maintained from what the Ready loop persists, and
	// checked against the storage's suffix after every event.
	shadow []pb.Entry
	// the log prefix carried (as ghost information) by the MsgSnap being stepped
	pendingGhost []pb.Entry
	// AutoLeave of the node's configuration, as returned by the last ApplyConfChange
	// (Status().Config is a Clone() that does not carry it)
	autoLeave bool
	// ConfState after each applied conf-change entry (real index -> state), on top of csBase, the
	// ConfState of the storage's snapshot: a compaction at index i must record the ConfState as of i
	csAt   map[uint64]pb.ConfState
	csBase pb.ConfState
	// index of the last entry handed out in CommittedEntries (or covered by the applied snapshot)
	applied uint64
}

// a message on the network; ghost = for MsgSnap, the sender's log up to the snapshot index
type flightMsg struct {
	m     pb.Message
	ghost []pb.Entry
}

type cluster struct {
	n            int
	electionTick int
	maxSize      uint64
	ccVoters     int // > 0: membership-change schedule; the initial voters are 1..ccVoters
	preVote      bool // Config.PreVote (simpv schedules; monitored, not model-validated)
	checkQuorum  bool // Config.CheckQuorum
	transfer     bool // the scheduler also calls TransferLeader (monitor-only schedules)
	mixed        bool  // flag 16: a third of the normal entries are big (zero-padded payload), MaxSizePerMsg a few small entries, few in-flight messages
	batch        []int // the entries (payload codes) of the PB event being executed
	followNode   int   // after a batch with a late conf change: the leader to pester with further conf changes
	followLeft   int
	learners     bool // flag 4: membership-change schedule that also adds learners (monitored only)
	snapHeavy    bool // schedule numbers 3000000..3999999: frequent compaction and duplicated deliveries
	nodes        []*simNode
	flight       []flightMsg
	w            *bufio.Writer
	nextPayload  int
	events       int
}

// payload ids cycle through 1..97: the extracted checker compares them as unary numbers
func (c *cluster) payload() int {
	p := 1 + (c.nextPayload-1)%97
	c.nextPayload++
	return p
}

func monus1(x uint64) uint64 {
	if x == 0 {
		return 0
	}
	return x - 1
}

// payloadOf renders an entry's content as the model's payload id: 0 = empty, 1..97 = a proposal,
// conf changes: 100+x add voter x, 110+x remove voter x, 120 leave joint, 130+10a+b add a / remove b
// through an auto-leave joint configuration (999 = a conf change the model has no code for).
func payloadOf(e pb.Entry) uint64 {
	switch e.Type {
	case pb.EntryConfChange:
		var cc pb.ConfChange
		if err := cc.Unmarshal(e.Data); err != nil {
			return 999
		}
		return ccCode(cc.AsV2())
	case pb.EntryConfChangeV2:
		var cc pb.ConfChangeV2
		if err := cc.Unmarshal(e.Data); err != nil {
			return 999
		}
		return ccCode(cc)
	}
	if len(e.Data) == 0 {
		return 0
	}
	v, err := strconv.ParseUint(string(e.Data), 10, 64)
	if err != nil {
		return 999
	}
	return v
}

// entryOfCode builds the log entry a payload code stands for (see the CC event): a normal entry, or
// the conf change RawNode.ProposeConfChange would marshal
func entryOfCode(p int) pb.Entry {
	var cc pb.ConfChangeI
	switch {
	case p >= 300 && p < 310:
		cc = pb.ConfChange{Type: pb.ConfChangeAddLearnerNode, NodeID: uint64(p - 300)}
	case p >= 130 && p < 230:
		a, b := uint64((p-130)/10), uint64((p-130)%10)
		cc = pb.ConfChangeV2{Changes: []pb.ConfChangeSingle{
			{Type: pb.ConfChangeAddNode, NodeID: a}, {Type: pb.ConfChangeRemoveNode, NodeID: b}}}
	case p >= 110 && p < 120:
		cc = pb.ConfChange{Type: pb.ConfChangeRemoveNode, NodeID: uint64(p - 110)}
	case p >= 100 && p < 110:
		cc = pb.ConfChange{Type: pb.ConfChangeAddNode, NodeID: uint64(p - 100)}
	default:
		return pb.Entry{Type: pb.EntryNormal, Data: []byte(strconv.Itoa(p))}
	}
	typ, data, err := pb.MarshalConfChange(cc)
	if err != nil {
		panic(err)
	}
	return pb.Entry{Type: typ, Data: data}
}

func ccCode(cc pb.ConfChangeV2) uint64 {
	switch {
	case cc.LeaveJoint():
		return 120
	case len(cc.Changes) == 1 && cc.Transition == pb.ConfChangeTransitionAuto && cc.Changes[0].NodeID <= 9:
		switch cc.Changes[0].Type {
		case pb.ConfChangeAddNode:
			return 100 + cc.Changes[0].NodeID
		case pb.ConfChangeRemoveNode:
			return 110 + cc.Changes[0].NodeID
		case pb.ConfChangeAddLearnerNode:
			return 300 + cc.Changes[0].NodeID
		}
	case len(cc.Changes) == 2 && cc.Transition == pb.ConfChangeTransitionAuto &&
		cc.Changes[0].Type == pb.ConfChangeAddNode && cc.Changes[1].Type == pb.ConfChangeRemoveNode &&
		cc.Changes[0].NodeID <= 9 && cc.Changes[1].NodeID <= 9:
		return 130 + 10*cc.Changes[0].NodeID + cc.Changes[1].NodeID
	}
	return 999
}

func idsStr(m map[uint64]struct{}) string {
	ids := make([]int, 0, len(m))
	for id := range m {
		ids = append(ids, int(id))
	}
	sort.Ints(ids)
	var b strings.Builder
	fmt.Fprintf(&b, "%d", len(ids))
	for _, id := range ids {
		fmt.Fprintf(&b, " %d", id)
	}
	return b.String()
}

func entsStr(es []pb.Entry) string {
	var b strings.Builder
	fmt.Fprintf(&b, "%d", len(es))
	for _, e := range es {
		fmt.Fprintf(&b, " %d %d", e.Term, payloadOf(e))
	}
	return b.String()
}

// entsStrFrom renders the entries of a MsgApp; they must carry the indexes first, first+1, ...: an
// entry at another index is rendered with the impossible payload 4000 + index mod 1000, so that the
// message cannot be mistaken for the contiguous slice the model requires
func entsStrFrom(first uint64, es []pb.Entry) string {
	var b strings.Builder
	fmt.Fprintf(&b, "%d", len(es))
	for i, e := range es {
		p := payloadOf(e)
		if e.Index != first+uint64(i) {
			p = 4000 + e.Index%1000
		}
		fmt.Fprintf(&b, " %d %d", e.Term, p)
	}
	return b.String()
}

// msgKey renders a message in the model's vocabulary (and doubles as its identity for replays).
func msgKey(fm flightMsg) string {
	m := fm.m
	rej := 0
	if m.Reject {
		rej = 1
	}
	switch m.Type {
	case pb.MsgVote:
		return fmt.Sprintf("V %d %d %d %d %d 0 0 0", m.From, m.To, m.Term, m.LogTerm, monus1(m.Index))
	case pb.MsgVoteResp:
		return fmt.Sprintf("W %d %d %d 0 0 0 %d 0", m.From, m.To, m.Term, rej)
	case pb.MsgApp:
		return fmt.Sprintf("A %d %d %d %d %d %d 0 %s", m.From, m.To, m.Term, m.LogTerm, monus1(m.Index), monus1(m.Commit), entsStrFrom(m.Index+1, m.Entries))
	case pb.MsgAppResp:
		return fmt.Sprintf("B %d %d %d 0 %d 0 %d 0", m.From, m.To, m.Term, monus1(m.Index), rej)
	case pb.MsgHeartbeat:
		return fmt.Sprintf("H %d %d %d 0 0 %d 0 0", m.From, m.To, m.Term, monus1(m.Commit))
	case pb.MsgHeartbeatResp:
		return fmt.Sprintf("I %d %d %d 0 0 0 0 0", m.From, m.To, m.Term)
	case pb.MsgSnap:
		// the reject field is ghost for MsgSnap: 1 = the receiver is not in the snapshot's ConfState
		cs := m.Snapshot.Metadata.ConfState
		out := 1
		for _, set := range [][]uint64{cs.Voters, cs.Learners, cs.VotersOutgoing} {
			for _, id := range set {
				if id == m.To {
					out = 0
				}
			}
		}
		return fmt.Sprintf("S %d %d %d %d %d 0 %d %s", m.From, m.To, m.Term, m.Snapshot.Metadata.Term, monus1(m.Snapshot.Metadata.Index), out, entsStr(fm.ghost))
	case pb.MsgPreVote:
		return fmt.Sprintf("XPV %d %d %d %d %d 0 0 0", m.From, m.To, m.Term, m.LogTerm, monus1(m.Index))
	case pb.MsgPreVoteResp:
		return fmt.Sprintf("XPW %d %d %d 0 0 0 %d 0", m.From, m.To, m.Term, rej)
	case pb.MsgProp:
		p := uint64(0)
		if len(m.Entries) > 0 {
			p = payloadOf(m.Entries[0])
		}
		return fmt.Sprintf("P %d %d %d", m.From, m.To, p)
	}
	return fmt.Sprintf("X%s %d %d %d", m.Type.String(), m.From, m.To, m.Term)
}

func (c *cluster) config(nd *simNode) *raft.Config {
	return &raft.Config{
		ID:                        nd.id,
		ElectionTick:              c.electionTick,
		HeartbeatTick:             1,
		Storage:                   nd.st,
		MaxSizePerMsg:             c.maxSize,
		MaxInflightMsgs:           c.inflight(),
		MaxUncommittedEntriesSize: 1 << 30,
		Logger:                    theLogger,
		PreVote:                   c.preVote,
		CheckQuorum:               c.checkQuorum,
	}
}

// few messages in flight in mixed-size schedules, so that a follower in StateReplicate lags behind
// the leader's stable log when the next proposal arrives (a function of the header, for replays)
func (c *cluster) inflight() int {
	if c.mixed {
		return 1 + int(c.maxSize%3)
	}
	return 256
}

// the bytes of a normal entry: its payload in decimal; in mixed-size schedules a third of the
// payloads are padded with leading zeros to 40..110 bytes (the value, hence the model's entry, is
// the same)
func (c *cluster) dataOf(p int) []byte {
	d := strconv.Itoa(p)
	if c.mixed && p%3 == 1 {
		d = strings.Repeat("0", 40+7*(p%11)) + d
	}
	return []byte(d)
}

func newCluster(n, electionTick int, rngseed uint64, maxSize uint64, ccVoters int, flags int, w *bufio.Writer) (*cluster, error) {
	c := &cluster{n: n, electionTick: electionTick, maxSize: maxSize, ccVoters: ccVoters, w: w, nextPayload: 1,
		preVote: flags&1 != 0, checkQuorum: flags&2 != 0, learners: flags&4 != 0, transfer: flags&8 != 0, mixed: flags&16 != 0}
	reseedRaftRand(rngseed)
	nv := n
	if ccVoters > 0 && ccVoters < n {
		nv = ccVoters
	}
	voters := make([]uint64, nv)
	for i := range voters {
		voters[i] = uint64(i + 1)
	}
	for i := 0; i < n; i++ {
		st := raft.NewMemoryStorage()
		if err := st.ApplySnapshot(pb.Snapshot{Metadata: pb.SnapshotMetadata{Index: 1, Term: 0, ConfState: pb.ConfState{Voters: voters}}}); err != nil {
			return nil, err
		}
		nd := &simNode{id: uint64(i + 1), st: st, csAt: map[uint64]pb.ConfState{}, csBase: pb.ConfState{Voters: voters}, applied: 1}
		rn, err := raft.NewRawNode(c.config(nd))
		if err != nil {
			return nil, err
		}
		nd.rn = rn
		c.nodes = append(c.nodes, nd)
	}
	fmt.Fprintf(w, "N %d %d %d %d %d %d\n", n, electionTick, rngseed, maxSize, ccVoters, flags)
	// the initial Ready only persists HardState{Commit:1}; drain it silently
	for _, nd := range c.nodes {
		c.drain(nd)
	}
	return c, nil
}

// drain runs the Ready loop to quiescence: persist, release messages, advance.
func (c *cluster) drain(nd *simNode) []pb.Message {
	var out []pb.Message
	for nd.rn.HasReady() {
		rd := nd.rn.Ready()
		if !raft.IsEmptySnap(rd.Snapshot) {
			if err := nd.st.ApplySnapshot(rd.Snapshot); err != nil {
				panic(err)
			}
			k := int(rd.Snapshot.Metadata.Index) - 1
			if k > len(nd.pendingGhost) {
				panic("harness: snapshot without its ghost prefix")
			}
			nd.shadow = append([]pb.Entry(nil), nd.pendingGhost[:k]...)
			nd.applied = rd.Snapshot.Metadata.Index
			nd.csBase = rd.Snapshot.Metadata.ConfState
			nd.csAt = map[uint64]pb.ConfState{}
			nd.autoLeave = nd.csBase.AutoLeave
		}
		if len(rd.Entries) > 0 {
			// the Ready contract: entries to persist are contiguous
			for i, e := range rd.Entries {
				if e.Index != rd.Entries[0].Index+uint64(i) {
					panic(fmt.Sprintf("Ready.Entries not contiguous: index %d at position %d after first index %d", e.Index, i, rd.Entries[0].Index))
				}
			}
			at := int(rd.Entries[0].Index) - 2 // position in shadow of the first new entry
			if at < 0 || at > len(nd.shadow) {
				panic("harness: entries do not connect to the shadow log")
			}
			nd.shadow = append(append([]pb.Entry(nil), nd.shadow[:at]...), rd.Entries...)
		}
		if err := nd.st.Append(rd.Entries); err != nil {
			panic(err)
		}
		if !raft.IsEmptyHardState(rd.HardState) {
			if err := nd.st.SetHardState(rd.HardState); err != nil {
				panic(err)
			}
		}
		out = append(out, rd.Messages...)
		for _, e := range rd.CommittedEntries {
			// the Ready contract: committed entries are handed out in order, without gaps, once
			if e.Index != nd.applied+1 {
				panic(fmt.Sprintf("Ready.CommittedEntries not contiguous: index %d handed out after %d", e.Index, nd.applied))
			}
			nd.applied = e.Index
			switch e.Type {
			case pb.EntryConfChange:
				var cc pb.ConfChange
				if err := cc.Unmarshal(e.Data); err != nil {
					panic(err)
				}
				cs := nd.rn.ApplyConfChange(cc)
				nd.autoLeave = cs.AutoLeave
				nd.csAt[e.Index] = *cs
			case pb.EntryConfChangeV2:
				var cc pb.ConfChangeV2
				if err := cc.Unmarshal(e.Data); err != nil {
					panic(err)
				}
				cs := nd.rn.ApplyConfChange(cc)
				nd.autoLeave = cs.AutoLeave
				nd.csAt[e.Index] = *cs
			}
		}
		nd.rn.Advance(rd)
	}
	return out
}

func (c *cluster) rebuild(nd *simNode) {
	rn, err := raft.NewRawNode(c.config(nd))
	if err != nil {
		panic(err)
	}
	nd.rn = rn
	if fi, err := nd.st.FirstIndex(); err == nil {
		nd.applied = fi - 1 // a restarted node re-applies its log from the storage's first index
	}
	nd.autoLeave = nd.csBase.AutoLeave // the storage's ConfState; later committed conf changes are re-applied by the Ready loop
}

func (c *cluster) writeState(nd *simNode) {
	bs := nd.rn.BasicStatus()
	role := "F"
	switch bs.RaftState {
	case raft.StateCandidate:
		role = "C"
	case raft.StateLeader:
		role = "L"
	case raft.StatePreCandidate:
		role = "Q"
	}
	first, _ := nd.st.FirstIndex()
	last, _ := nd.st.LastIndex()
	if int(last)-1 != len(nd.shadow) {
		panic(fmt.Sprintf("harness: storage last index %d but shadow has %d entries", last, len(nd.shadow)))
	}
	if last >= first {
		es, err := nd.st.Entries(first, last+1, 1<<62)
		if err != nil {
			panic(err)
		}
		for j, e := range es {
			sh := nd.shadow[int(first)-2+j]
			if e.Term != sh.Term || e.Index != sh.Index || string(e.Data) != string(sh.Data) {
				panic(fmt.Sprintf("harness: storage entry %d differs from the shadow log", e.Index))
			}
		}
	}
	es := nd.shadow
	fmt.Fprintf(c.w, "ST %d %d %d %d %s %d %s", nd.id, bs.Term, bs.Vote, monus1(bs.Commit), role, bs.Lead, entsStr(es))
	if c.ccVoters > 0 {
		// the node's current configuration: incoming voters, outgoing voters, AutoLeave
		cfg := nd.rn.Status().Config
		auto := 0
		if nd.autoLeave {
			auto = 1
		}
		learners := map[uint64]struct{}{}
		for id := range cfg.Learners {
			learners[id] = struct{}{}
		}
		for id := range cfg.LearnersNext {
			learners[id] = struct{}{}
		}
		fmt.Fprintf(c.w, " CFG %s %s %d %s", idsStr(cfg.Voters[0]), idsStr(cfg.Voters[1]), auto, idsStr(learners))
	}
	fmt.Fprintln(c.w)
}

// one event: kind is C P T R D DD FP or the X-variants; m is the message for D/DD/FP.
// Returns false when the node panicked (the trace then ends with a PANIC line).
func (c *cluster) exec(kind string, i int, payload int, m *flightMsg) (ok bool) {
	nd := c.nodes[i]
	crashBefore := strings.HasPrefix(kind, "X")
	base := strings.TrimPrefix(kind, "X")
	switch base {
	case "C":
		fmt.Fprintf(c.w, "EV %s %d\n", kind, nd.id)
	case "P":
		fmt.Fprintf(c.w, "EV %s %d %d\n", kind, nd.id, payload)
	case "T":
		fmt.Fprintf(c.w, "EV %s %d\n", kind, nd.id)
	case "R":
		fmt.Fprintf(c.w, "EV %s %d\n", kind, nd.id)
	case "K", "SR", "CC", "TL":
		fmt.Fprintf(c.w, "EV %s %d %d\n", kind, nd.id, payload)
	case "PB":
		fmt.Fprintf(c.w, "EV %s %d", kind, nd.id)
		for _, p := range c.batch {
			fmt.Fprintf(c.w, " %d", p)
		}
		fmt.Fprintln(c.w)
	case "D", "DD":
		fmt.Fprintf(c.w, "EV %s %d %s\n", kind, nd.id, msgKey(*m))
	case "PD":
		fmt.Fprintf(c.w, "EV %s %d %d %s\n", kind, nd.id, payload, msgKey(*m))
	case "FP", "FPD":
		fmt.Fprintf(c.w, "EV %s %d %s\n", kind, nd.id, msgKey(*m))
	}
	defer func() {
		if r := recover(); r != nil {
			fmt.Fprintf(c.w, "PANIC %d %s\n", nd.id, strings.ReplaceAll(fmt.Sprint(r), "\n", " "))
			ok = false
		}
	}()
	switch base {
	case "C":
		_ = nd.rn.Campaign()
	case "P":
		_ = nd.rn.Propose(c.dataOf(payload))
	case "T":
		nd.rn.Tick()
	case "R":
		c.rebuild(nd)
	case "K":
		// compact the log up to model index payload (real index payload+1), which is applied; the
		// snapshot records the ConfState as of that index
		idx := uint64(payload + 1)
		cs := nd.csBase
		best := uint64(0)
		for k, v := range nd.csAt {
			if k <= idx && k > best {
				best, cs = k, v
			}
		}
		if _, err := nd.st.CreateSnapshot(idx, &cs, nil); err != nil {
			panic(err)
		}
		if err := nd.st.Compact(idx); err != nil {
			panic(err)
		}
		nd.csBase = cs
		for k := range nd.csAt {
			if k <= idx {
				delete(nd.csAt, k)
			}
		}
	case "SR":
		nd.rn.ReportSnapshot(uint64(payload), raft.SnapshotFailure)
	case "CC":
		// the model's payload codes: 100+x add voter x; 110+x remove voter x; 130+10a+b add a and
		// remove b through a joint configuration that is left automatically
		switch {
		case payload >= 300:
			// (monitor-only schedules) add learner x
			_ = nd.rn.ProposeConfChange(pb.ConfChange{Type: pb.ConfChangeAddLearnerNode, NodeID: uint64(payload - 300)})
		case payload >= 130:
			a, b := uint64((payload-130)/10), uint64((payload-130)%10)
			_ = nd.rn.ProposeConfChange(pb.ConfChangeV2{Changes: []pb.ConfChangeSingle{
				{Type: pb.ConfChangeAddNode, NodeID: a}, {Type: pb.ConfChangeRemoveNode, NodeID: b}}})
		case payload >= 110:
			_ = nd.rn.ProposeConfChange(pb.ConfChange{Type: pb.ConfChangeRemoveNode, NodeID: uint64(payload - 110)})
		default:
			_ = nd.rn.ProposeConfChange(pb.ConfChange{Type: pb.ConfChangeAddNode, NodeID: uint64(payload - 100)})
		}
	case "TL":
		// (monitor-only schedules) leadership transfer to node payload
		nd.rn.TransferLeader(uint64(payload))
	case "PB":
		// ONE MsgProp with several entries (normal entries and conf changes at any position), stepped
		// at a leader; elsewhere it is a no-op (a follower would forward the whole batch, which the
		// trace format cannot name)
		if nd.rn.Status().RaftState == raft.StateLeader && len(c.batch) > 0 {
			ents := make([]pb.Entry, 0, len(c.batch))
			for _, p := range c.batch {
				e := entryOfCode(p)
				if e.Type == pb.EntryNormal {
					e.Data = c.dataOf(p)
				}
				ents = append(ents, e)
			}
			_ = nd.rn.Step(pb.Message{Type: pb.MsgProp, From: nd.id, Entries: ents})
		}
	case "D", "DD", "FP", "FPD":
		nd.pendingGhost = m.ghost
		_ = nd.rn.Step(m.m)
	case "PD":
		// a proposal and, BEFORE the Ready loop runs (the new entries are still unstable), a message:
		// resends triggered by the message read a log whose tail is not persisted yet
		_ = nd.rn.Propose(c.dataOf(payload))
		nd.pendingGhost = m.ghost
		_ = nd.rn.Step(m.m)
	}
	var out []pb.Message
	if crashBefore {
		c.rebuild(nd)
		out = c.drain(nd)
	} else {
		out = c.drain(nd)
	}
	for _, o := range out {
		fm := flightMsg{m: o}
		if o.Type == pb.MsgSnap {
			k := int(o.Snapshot.Metadata.Index) - 1
			if k > len(nd.shadow) {
				panic("harness: snapshot beyond the sender's log")
			}
			fm.ghost = append([]pb.Entry(nil), nd.shadow[:k]...)
		}
		fmt.Fprintf(c.w, "OUT %s\n", msgKey(fm))
		c.flight = append(c.flight, fm)
	}
	c.writeState(nd)
	c.events++
	return true
}

// ---------------------------------------------------------------------------- random schedules

type profile struct {
	wDeliver, wDup, wDrop, wTick, wPropose, wCampaign, wRestart, wCrashMid, wPartition, wCompact, wConf int
}

func (c *cluster) runRandom(r *rng, nevents int) {
	p := profile{wDeliver: 50 + r.intn(40), wDup: r.intn(8), wDrop: r.intn(10), wTick: 4 + r.intn(12),
		wPropose: 4 + r.intn(12), wCampaign: 1 + r.intn(6), wRestart: r.intn(5), wCrashMid: r.intn(4), wPartition: r.intn(3)}
	if c.mixed {
		// size limits only bite on a busy log
		p.wPropose += 12
	}
	if c.ccVoters > 0 {
		// membership-change schedules: conf changes, and in half of them compaction as well
		p.wConf = 2 + r.intn(8)
		if r.chance(1, 2) {
			p.wCompact = 1 + r.intn(6)
		}
	} else if c.snapHeavy {
		p.wCompact = 6 + r.intn(6)
		p.wDup += 6
	} else if r.chance(1, 2) {
		p.wCompact = 1 + r.intn(6)
	}
	total := p.wDeliver + p.wDup + p.wDrop + p.wTick + p.wPropose + p.wCampaign + p.wRestart + p.wCrashMid + p.wPartition + p.wCompact + p.wConf
	isolated := make([]bool, c.n)
	deliverable := func() []int {
		var idx []int
		for k, fm := range c.flight {
			m := fm.m
			if int(m.To) >= 1 && int(m.To) <= c.n && !isolated[m.To-1] && !isolated[m.From-1] {
				idx = append(idx, k)
			}
		}
		return idx
	}
	remove := func(k int) {
		c.flight = append(c.flight[:k], c.flight[k+1:]...)
	}
	stepMsg := func(kindD string, k int, keep bool) bool {
		m := c.flight[k]
		if !keep {
			remove(k)
		}
		kind := kindD
		if m.m.Type == pb.MsgProp {
			switch {
			case strings.HasPrefix(kindD, "X"):
				kind = "XFP"
			case keep:
				kind = "FPD"
			default:
				kind = "FP"
			}
		}
		if kind == "D" && c.mixed && !c.preVote && c.ccVoters == 0 &&
			c.nodes[m.m.To-1].rn.Status().RaftState == raft.StateLeader && r.chance(1, 3) {
			// the leader has just been handed a proposal and has not run its Ready loop yet
			return c.exec("PD", int(m.m.To-1), c.payload(), &m)
		}
		return c.exec(kind, int(m.m.To-1), 0, &m)
	}
	for c.events < nevents {
		if len(c.flight) > 300 {
			remove(r.intn(len(c.flight)))
			continue
		}
		if c.followLeft > 0 {
			// after a batch whose conf change was not the first entry: propose further conf changes at
			// that leader while the leading entries commit and apply one by one
			c.followLeft--
			if r.chance(1, 4) {
				var code int
				if r.chance(1, 2) {
					code = 110 + 2 + r.intn(c.n-1)
				} else {
					code = 100 + 1 + r.intn(c.n)
				}
				if !c.exec("CC", c.followNode, code, nil) {
					return
				}
				continue
			}
		}
		x := r.intn(total)
		ok := true
		switch {
		case x < p.wDeliver:
			if d := deliverable(); len(d) > 0 {
				k := d[r.intn(len(d))]
				// snapshots are often kept in flight so that stale ones get re-delivered later
				if (c.flight[k].m.Type == pb.MsgSnap || c.flight[k].m.Type == pb.MsgPreVoteResp) && r.chance(1, 2) {
					ok = stepMsg("DD", k, true)
				} else {
					ok = stepMsg("D", k, false)
				}
			} else {
				ok = c.exec("T", r.intn(c.n), 0, nil)
			}
		case x < p.wDeliver+p.wDup:
			if d := deliverable(); len(d) > 0 {
				ok = stepMsg("DD", d[r.intn(len(d))], true)
			}
		case x < p.wDeliver+p.wDup+p.wDrop:
			if len(c.flight) > 0 {
				remove(r.intn(len(c.flight)))
			}
		case x < p.wDeliver+p.wDup+p.wDrop+p.wTick:
			if c.transfer && r.chance(1, 6) {
				ok = c.exec("TL", r.intn(c.n), 1+r.intn(c.n), nil)
			} else {
				ok = c.exec("T", r.intn(c.n), 0, nil)
			}
		case x < p.wDeliver+p.wDup+p.wDrop+p.wTick+p.wPropose:
			ok = c.exec("P", r.intn(c.n), c.payload(), nil)
		case x < p.wDeliver+p.wDup+p.wDrop+p.wTick+p.wPropose+p.wCampaign:
			ok = c.exec("C", r.intn(c.n), 0, nil)
		case x < p.wDeliver+p.wDup+p.wDrop+p.wTick+p.wPropose+p.wCampaign+p.wRestart:
			ok = c.exec("R", r.intn(c.n), 0, nil)
		case x < p.wDeliver+p.wDup+p.wDrop+p.wTick+p.wPropose+p.wCampaign+p.wRestart+p.wCrashMid:
			switch r.intn(4) {
			case 0:
				ok = c.exec("XC", r.intn(c.n), 0, nil)
			case 1:
				ok = c.exec("XP", r.intn(c.n), c.payload(), nil)
			case 2:
				ok = c.exec("XT", r.intn(c.n), 0, nil)
			default:
				if d := deliverable(); len(d) > 0 {
					ok = stepMsg("XD", d[r.intn(len(d))], false)
				}
			}
		case x < p.wDeliver+p.wDup+p.wDrop+p.wTick+p.wPropose+p.wCampaign+p.wRestart+p.wCrashMid+p.wCompact:
			// compaction of an applied prefix, or a snapshot-failure report that un-pauses a follower
			i := r.intn(c.n)
			nd := c.nodes[i]
			if r.chance(3, 4) {
				first, _ := nd.st.FirstIndex()
				commit := nd.rn.BasicStatus().Commit
				if commit >= first {
					idx := first + uint64(r.intn(int(commit-first)+1))
					ok = c.exec("K", i, int(idx)-1, nil)
				}
			} else {
				ok = c.exec("SR", i, 1+r.intn(c.n), nil)
			}
		case x < p.wDeliver+p.wDup+p.wDrop+p.wTick+p.wPropose+p.wCampaign+p.wRestart+p.wCrashMid+p.wCompact+p.wConf:
			// a membership change proposed at a random node (node 1 is never removed, so that no
			// sequence of changes can empty the configuration, which raft treats as an application bug)
			var code int
			sel := r.intn(5)
			if c.learners && r.chance(1, 3) {
				sel = 5
			}
			switch sel {
			case 5:
				code = 300 + 2 + r.intn(c.n-1)
			case 0, 1:
				code = 100 + 1 + r.intn(c.n)
			case 2, 3:
				code = 110 + 2 + r.intn(c.n-1)
			default:
				code = 130 + 10*(1+r.intn(c.n)) + 2 + r.intn(c.n-1)
			}
			if c.n >= 2 {
				// a third of the conf changes travel inside a batched proposal (one MsgProp, several
				// entries) stepped at a current leader, at any position among normal entries, sometimes
				// with a second conf change in the same batch
				leader := -1
				for i, nd := range c.nodes {
					if nd.rn.Status().RaftState == raft.StateLeader {
						leader = i
					}
				}
				if leader >= 0 && r.chance(1, 3) {
					k := 2 + r.intn(3)
					pos := r.intn(k)
					c.batch = c.batch[:0]
					for i := 0; i < k; i++ {
						switch {
						case i == pos:
							c.batch = append(c.batch, code)
						case r.chance(1, 5):
							c.batch = append(c.batch, 110+2+r.intn(c.n-1))
						default:
							c.batch = append(c.batch, c.payload())
						}
					}
					ok = c.exec("PB", leader, 0, nil)
					if pos > 0 {
						c.followNode, c.followLeft = leader, 16
					}
				} else {
					ok = c.exec("CC", r.intn(c.n), code, nil)
				}
			}
		default:
			// change the partition: isolate a random minority-or-not set, or heal
			if r.chance(1, 2) {
				for k := range isolated {
					isolated[k] = false
				}
			} else {
				for k := range isolated {
					isolated[k] = r.chance(1, 3)
				}
			}
		}
		if !ok {
			return
		}
	}
}

// simcc = sim with membership changes (monitored, not model-validated)
var simWithConfChanges bool

func ccFor(r *rng, n int) int {
	if !simWithConfChanges {
		return 0
	}
	return 1 + r.intn(n)
}

// simpv = sim with Config.PreVote (and CheckQuorum): monitored, not model-validated
var simWithPreVote bool

func cmdSimPV(args []string) error {
	simWithPreVote = true
	return cmdSim(args)
}

func cmdSimCC(args []string) error {
	simWithConfChanges = true
	return cmdSim(args)
}

func cmdSim(args []string) error {
	if len(args) != 5 {
		return fmt.Errorf("usage: sim <outdir> <seed> <first> <count> <nevents>")
	}
	outdir := args[0]
	var nums [4]uint64
	for i := 0; i < 4; i++ {
		v, err := strconv.ParseUint(args[i+1], 10, 64)
		if err != nil {
			return err
		}
		nums[i] = v
	}
	seed, first, count, nevents := nums[0], nums[1], nums[2], int(nums[3])
	if err := os.MkdirAll(outdir, 0o755); err != nil {
		return err
	}
	f, err := os.Create(filepath.Join(outdir, "traces.txt"))
	if err != nil {
		return err
	}
	defer f.Close()
	w := bufio.NewWriterSize(f, 1<<20)
	sizes := []int{1, 2, 3, 3, 3, 3, 4, 5, 5, 3}
	for k := first; k < first+count; k++ {
		ss := scheduleSeed(seed, k)
		r := newRng(ss)
		n := sizes[r.intn(len(sizes))]
		et := 1 << 20
		if r.chance(1, 4) {
			et = 3 + r.intn(6)
		}
		// MaxSizePerMsg: RedisGO's 1 MB, or 0 = one entry per MsgApp (what a large value or a small
		// limit produces): then acknowledgements arrive entry by entry, old-term entries included
		maxSize := uint64(1024 * 1024)
		if r.chance(1, 3) {
			maxSize = 0
		}
		flags := 0
		if !simWithConfChanges && r.chance(1, 3) {
			// mixed entry sizes with a MaxSizePerMsg (= MaxCommittedSizePerReady) of a few small
			// entries: size limits bite in the middle of the log
			flags = 16
			maxSize = uint64(24 + r.intn(70))
		}
		if simWithConfChanges && n >= 2 && r.chance(1, 4) {
			flags = 4 // learners too (add learner, promote, demote a voter)
		}
		if simWithPreVote {
			// PreVote on; CheckQuorum on in half of the schedules; a small election timeout in half
			// of them so that ticks campaign and CheckQuorum fires
			flags = 1 | (flags & 16)
			if r.chance(1, 2) {
				flags |= 2
				if r.chance(1, 3) {
					flags |= 8 // TransferLeader calls too: outside the model, monitored only
				}
			}
			if r.chance(1, 2) {
				et = 3 + r.intn(6)
			}
		}
		fmt.Fprintf(w, "SCHEDULE %d\n", k)
		c, err := newCluster(n, et, ss, maxSize, ccFor(r, n), flags, w)
		if err != nil {
			return err
		}
		c.snapHeavy = k >= 3000000 && k < 4000000
		c.runRandom(r, nevents)
		fmt.Fprintf(w, "END %d\n", k)
	}
	return w.Flush()
}

// ---------------------------------------------------------------------------- explicit schedules

// simfile replays the EV lines of a (possibly edited) trace.  A delivery refers to its
// message by content: it is executed iff an equal message is in flight (first match);
// otherwise the event is skipped.  This makes any sub-sequence of a schedule executable.
func cmdSimFile(args []string) error {
	if len(args) != 2 {
		return fmt.Errorf("usage: simfile <schedule-file> <out-trace>")
	}
	in, err := os.Open(args[0])
	if err != nil {
		return err
	}
	defer in.Close()
	fo, err := os.Create(args[1])
	if err != nil {
		return err
	}
	defer fo.Close()
	w := bufio.NewWriterSize(fo, 1<<20)
	defer w.Flush()
	sc := bufio.NewScanner(in)
	sc.Buffer(make([]byte, 1<<22), 1<<22)
	var c *cluster
	fmt.Fprintf(w, "SCHEDULE 0\n")
	for sc.Scan() {
		tok := strings.Fields(sc.Text())
		if len(tok) == 0 {
			continue
		}
		switch tok[0] {
		case "N":
			n, _ := strconv.Atoi(tok[1])
			et, _ := strconv.Atoi(tok[2])
			rs, _ := strconv.ParseUint(tok[3], 10, 64)
			ms := uint64(1024 * 1024)
			if len(tok) > 4 {
				ms, _ = strconv.ParseUint(tok[4], 10, 64)
			}
			ccv := 0
			if len(tok) > 5 {
				ccv, _ = strconv.Atoi(tok[5])
			}
			fl := 0
			if len(tok) > 6 {
				fl, _ = strconv.Atoi(tok[6])
			}
			c, err = newCluster(n, et, rs, ms, ccv, fl, w)
			if err != nil {
				return err
			}
		case "EV":
			if c == nil || len(tok) < 3 {
				continue
			}
			kind := tok[1]
			id, _ := strconv.Atoi(tok[2])
			if id < 1 || id > c.n {
				continue
			}
			base := strings.TrimPrefix(kind, "X")
			ok := true
			switch base {
			case "C", "T", "R":
				ok = c.exec(kind, id-1, 0, nil)
			case "P", "SR", "CC", "TL":
				p, _ := strconv.Atoi(tok[3])
				ok = c.exec(kind, id-1, p, nil)
			case "PB":
				c.batch = c.batch[:0]
				for _, t := range tok[3:] {
					p, _ := strconv.Atoi(t)
					c.batch = append(c.batch, p)
				}
				ok = c.exec(kind, id-1, 0, nil)
			case "K":
				p, _ := strconv.Atoi(tok[3])
				nd := c.nodes[id-1]
				first, _ := nd.st.FirstIndex()
				commit := nd.rn.BasicStatus().Commit
				if uint64(p+1) > commit {
					p = int(commit) - 1
				}
				if uint64(p+1) < first {
					continue
				}
				ok = c.exec(kind, id-1, p, nil)
			case "PD":
				if len(tok) < 5 {
					continue
				}
				p, _ := strconv.Atoi(tok[3])
				key := strings.Join(tok[4:], " ")
				found := -1
				for k, fm := range c.flight {
					if msgKey(fm) == key {
						found = k
						break
					}
				}
				if found < 0 {
					continue
				}
				m := c.flight[found]
				c.flight = append(c.flight[:found], c.flight[found+1:]...)
				ok = c.exec(kind, id-1, p, &m)
			case "D", "DD", "FP", "FPD":
				key := strings.Join(tok[3:], " ")
				found := -1
				for k, fm := range c.flight {
					if msgKey(fm) == key {
						found = k
						break
					}
				}
				if found < 0 {
					continue
				}
				m := c.flight[found]
				if base != "DD" && base != "FPD" {
					c.flight = append(c.flight[:found], c.flight[found+1:]...)
				}
				ok = c.exec(kind, id-1, 0, &m)
			}
			if !ok {
				fmt.Fprintf(w, "END 0\n")
				return nil
			}
		}
	}
	fmt.Fprintf(w, "END 0\n")
	return nil
}
