package main

// raft randomises its election timeout with a package-level PRNG that it seeds from the
// wall clock (raft.go: globalRand). Only the tickmode schedules can observe it (with
// ElectionTick=1000 no timeout ever fires). To keep those schedules a function of
// (seed,k) we re-point that PRNG at a splitmix64 source before every schedule. This is done
// with go:linkname on the unexported variable, so /repo is not modified. math/rand is used
// here only as the *type* raft expects; all bits come from our own rng.

import (
	"math/rand"
	"sync"
	_ "unsafe"
)

// layout mirror of raft.lockedRand
type lockedRandMirror struct {
	mu   sync.Mutex
	rand *rand.Rand
}

//go:linkname raftGlobalRand go.etcd.io/etcd/raft/v3.globalRand
var raftGlobalRand *lockedRandMirror

type smSource struct{ r *rng }

func (s *smSource) Int63() int64    { return int64(s.r.next() >> 1) }
func (s *smSource) Uint64() uint64  { return s.r.next() }
func (s *smSource) Seed(seed int64) { s.r = newRng(uint64(seed)) }

func reseedRaftRand(seed uint64) {
	raftGlobalRand.mu.Lock()
	raftGlobalRand.rand = rand.New(&smSource{r: newRng(seed ^ 0x7261667472616e64)})
	raftGlobalRand.mu.Unlock()
}
