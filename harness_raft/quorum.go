package main

// Differential cases for the exported functions of go.etcd.io/etcd/raft/v3/quorum.
//
// qcases.txt, one case per line (space separated decimal tokens):
//
//	K <n0> <id>*n0 <n1> <id>*n1 <na> (<id> <idx>)*na <nv> (<id> <0|1>)*nv
//
// c0 = incoming voters, c1 = outgoing voters (possibly empty), acks = the AckedIndexer
// (ids absent = not acked), votes = map id -> granted. All id lists are sorted ascending.
//
// qimpl.txt, line i answers case line i:
//
//	<ci0> <vr0> <jci> <jvr>
//
// ci0 = MajorityConfig(c0).CommittedIndex(acks), vr0 = MajorityConfig(c0).VoteResult(votes),
// jci/jvr = JointConfig{c0,c1}.CommittedIndex / VoteResult. math.MaxUint64 is printed as
// "inf"; vote results as P (pending) / L (lost) / W (won).

import (
	"bufio"
	"fmt"
	"math"
	"os"
	"path/filepath"
	"sort"
	"strconv"

	"go.etcd.io/etcd/raft/v3/quorum"
)

func init() { subcmds["quorum"] = cmdQuorum; subcmds["quorumfile"] = cmdQuorumFile }

type ackMap map[uint64]quorum.Index

func (m ackMap) AckedIndex(id uint64) (quorum.Index, bool) {
	idx, ok := m[id]
	return idx, ok
}

type qwriter struct {
	cases, impl *bufio.Writer
	n           int
}

func idxStr(i quorum.Index) string {
	if uint64(i) == math.MaxUint64 {
		return "inf"
	}
	return strconv.FormatUint(uint64(i), 10)
}

func vrStr(v quorum.VoteResult) string {
	switch v {
	case quorum.VotePending:
		return "P"
	case quorum.VoteLost:
		return "L"
	case quorum.VoteWon:
		return "W"
	}
	return "?" + strconv.Itoa(int(v))
}

func sortedIDs(m map[uint64]struct{}) []uint64 {
	ids := make([]uint64, 0, len(m))
	for id := range m {
		ids = append(ids, id)
	}
	sort.Slice(ids, func(i, j int) bool { return ids[i] < ids[j] })
	return ids
}

func (q *qwriter) emit(c0, c1 []uint64, acks ackMap, votes map[uint64]bool) {
	w := q.cases
	w.WriteString("K ")
	w.WriteString(strconv.Itoa(len(c0)))
	for _, id := range c0 {
		fmt.Fprintf(w, " %d", id)
	}
	fmt.Fprintf(w, " %d", len(c1))
	for _, id := range c1 {
		fmt.Fprintf(w, " %d", id)
	}
	aids := make([]uint64, 0, len(acks))
	for id := range acks {
		aids = append(aids, id)
	}
	sort.Slice(aids, func(i, j int) bool { return aids[i] < aids[j] })
	fmt.Fprintf(w, " %d", len(aids))
	for _, id := range aids {
		fmt.Fprintf(w, " %d %d", id, uint64(acks[id]))
	}
	vids := make([]uint64, 0, len(votes))
	for id := range votes {
		vids = append(vids, id)
	}
	sort.Slice(vids, func(i, j int) bool { return vids[i] < vids[j] })
	fmt.Fprintf(w, " %d", len(vids))
	for _, id := range vids {
		b := 0
		if votes[id] {
			b = 1
		}
		fmt.Fprintf(w, " %d %d", id, b)
	}
	w.WriteByte('\n')

	m0 := quorum.MajorityConfig{}
	for _, id := range c0 {
		m0[id] = struct{}{}
	}
	m1 := quorum.MajorityConfig{}
	for _, id := range c1 {
		m1[id] = struct{}{}
	}
	j := quorum.JointConfig{m0, m1}
	fmt.Fprintln(q.impl, answer(m0, j, acks, votes))
	q.n++
}

// safely runs one library call; a panic (e.g. an index out of range in a changed
// CommittedIndex) is an observable answer "X", not a harness failure.
func safely(f func() string) (res string) {
	defer func() {
		if r := recover(); r != nil {
			res = "X"
		}
	}()
	return f()
}

func answer(m0 quorum.MajorityConfig, j quorum.JointConfig, acks ackMap, votes map[uint64]bool) string {
	return safely(func() string { return idxStr(m0.CommittedIndex(acks)) }) + " " +
		safely(func() string { return vrStr(m0.VoteResult(votes)) }) + " " +
		safely(func() string { return idxStr(j.CommittedIndex(acks)) }) + " " +
		safely(func() string { return vrStr(j.VoteResult(votes)) })
}

func subsetOf(mask, maxid int) []uint64 {
	var s []uint64
	for i := 0; i < maxid; i++ {
		if mask&(1<<uint(i)) != 0 {
			s = append(s, uint64(i+1))
		}
	}
	return s
}

// forAssign enumerates all assignments digit[0..maxid) with digit in 0..base-1 (0 = absent).
func forAssign(maxid, base int, f func(d []int)) {
	d := make([]int, maxid)
	for {
		f(d)
		i := 0
		for i < maxid {
			d[i]++
			if d[i] < base {
				break
			}
			d[i] = 0
			i++
		}
		if i == maxid {
			return
		}
	}
}

func acksOf(d []int) ackMap {
	a := ackMap{}
	for i, v := range d {
		if v > 0 {
			a[uint64(i+1)] = quorum.Index(v - 1)
		}
	}
	return a
}

func votesOf(d []int) map[uint64]bool {
	m := map[uint64]bool{}
	for i, v := range d {
		if v > 0 {
			m[uint64(i+1)] = v == 2
		}
	}
	return m
}

func randSet(r *rng, size, maxid int) []uint64 {
	if size > maxid {
		size = maxid
	}
	perm := make([]uint64, maxid)
	for i := range perm {
		perm[i] = uint64(i + 1)
	}
	for i := 0; i < size; i++ {
		j := i + r.intn(maxid-i)
		perm[i], perm[j] = perm[j], perm[i]
	}
	s := append([]uint64(nil), perm[:size]...)
	sort.Slice(s, func(i, j int) bool { return s[i] < s[j] })
	return s
}

func cmdQuorum(args []string) error {
	if len(args) != 6 {
		return fmt.Errorf("usage: quorum <outdir> <seed> <maxidMajority> <maxidJoint> <maxackJoint> <nrandom>")
	}
	outdir := args[0]
	var nums [5]uint64
	for i := 0; i < 5; i++ {
		v, err := strconv.ParseUint(args[i+1], 10, 64)
		if err != nil {
			return err
		}
		nums[i] = v
	}
	seed, maxM, maxJ, maxAck, nrandom := nums[0], int(nums[1]), int(nums[2]), int(nums[3]), int(nums[4])
	if maxM > 12 || maxJ > 8 {
		return fmt.Errorf("maxid too large")
	}
	if err := os.MkdirAll(outdir, 0o755); err != nil {
		return err
	}
	fc, err := os.Create(filepath.Join(outdir, "qcases.txt"))
	if err != nil {
		return err
	}
	defer fc.Close()
	fi, err := os.Create(filepath.Join(outdir, "qimpl.txt"))
	if err != nil {
		return err
	}
	defer fi.Close()
	q := &qwriter{cases: bufio.NewWriterSize(fc, 1<<20), impl: bufio.NewWriterSize(fi, 1<<20)}

	// (A) majority exhaustive over acks in {absent,0,1,2,3}
	for mask := 0; mask < 1<<uint(maxM); mask++ {
		c0 := subsetOf(mask, maxM)
		forAssign(maxM, 5, func(d []int) { q.emit(c0, nil, acksOf(d), nil) })
	}
	// (B) majority exhaustive over votes in {absent,no,yes}
	for mask := 0; mask < 1<<uint(maxM); mask++ {
		c0 := subsetOf(mask, maxM)
		forAssign(maxM, 3, func(d []int) { q.emit(c0, nil, nil, votesOf(d)) })
	}
	// (C) joint exhaustive over acks in {absent,0..maxAck}
	for m0 := 0; m0 < 1<<uint(maxJ); m0++ {
		c0 := subsetOf(m0, maxJ)
		for m1 := 0; m1 < 1<<uint(maxJ); m1++ {
			c1 := subsetOf(m1, maxJ)
			forAssign(maxJ, maxAck+2, func(d []int) { q.emit(c0, c1, acksOf(d), nil) })
		}
	}
	// (D) joint exhaustive over votes
	for m0 := 0; m0 < 1<<uint(maxJ); m0++ {
		c0 := subsetOf(m0, maxJ)
		for m1 := 0; m1 < 1<<uint(maxJ); m1++ {
			c1 := subsetOf(m1, maxJ)
			forAssign(maxJ, 3, func(d []int) { q.emit(c0, c1, nil, votesOf(d)) })
		}
	}
	// (E) random
	r := newRng(seed)
	for i := 0; i < nrandom; i++ {
		c0 := randSet(r, r.intn(10), 12)
		var c1 []uint64
		if r.chance(1, 2) {
			c1 = randSet(r, r.intn(10), 12)
		}
		acks := ackMap{}
		// a small pool of values makes ties frequent
		pool := make([]uint64, 1+r.intn(4))
		for k := range pool {
			switch r.intn(4) {
			case 0:
				pool[k] = uint64(r.intn(4))
			case 1:
				pool[k] = uint64(r.intn(20))
			default:
				pool[k] = uint64(r.intn(2001))
			}
		}
		pAck := r.intn(5) // density of acks: 0..4 out of 4
		for id := uint64(1); id <= 12; id++ {
			if r.intn(4) < pAck {
				var v uint64
				switch r.intn(10) {
				case 0:
					v = uint64(r.intn(2001))
				case 1:
					v = uint64(r.intn(3))
				default:
					v = pool[r.intn(len(pool))]
				}
				acks[id] = quorum.Index(v)
			}
		}
		votes := map[uint64]bool{}
		pVote := r.intn(5)
		pYes := r.intn(5)
		for id := uint64(1); id <= 12; id++ {
			if r.intn(4) < pVote {
				votes[id] = r.intn(4) < pYes
			}
		}
		q.emit(c0, c1, acks, votes)
	}
	if err := q.cases.Flush(); err != nil {
		return err
	}
	if err := q.impl.Flush(); err != nil {
		return err
	}
	fmt.Printf("quorum: %d cases\n", q.n)
	return nil
}

// quorumfile <cases> <out>: answer every case line of an existing qcases file (used by the
// shrinker and by --replay).
func cmdQuorumFile(args []string) error {
	if len(args) != 2 {
		return fmt.Errorf("usage: quorumfile <cases> <out>")
	}
	in, err := os.Open(args[0])
	if err != nil {
		return err
	}
	defer in.Close()
	fo, err := os.Create(args[1])
	if err != nil {
		return err
	}
	defer fo.Close()
	out := bufio.NewWriterSize(fo, 1<<20)
	sc := bufio.NewScanner(in)
	sc.Buffer(make([]byte, 1<<20), 1<<20)
	for sc.Scan() {
		var toks []uint64
		line := sc.Text()
		if len(line) < 2 || line[0] != 'K' {
			continue
		}
		start := -1
		for i := 1; i <= len(line); i++ {
			if i < len(line) && line[i] != ' ' {
				if start < 0 {
					start = i
				}
				continue
			}
			if start >= 0 {
				v, err := strconv.ParseUint(line[start:i], 10, 64)
				if err != nil {
					return err
				}
				toks = append(toks, v)
				start = -1
			}
		}
		pos := 0
		next := func() uint64 {
			if pos >= len(toks) {
				panic("short case line: " + line)
			}
			v := toks[pos]
			pos++
			return v
		}
		m0 := quorum.MajorityConfig{}
		for n := next(); n > 0; n-- {
			m0[next()] = struct{}{}
		}
		m1 := quorum.MajorityConfig{}
		for n := next(); n > 0; n-- {
			m1[next()] = struct{}{}
		}
		acks := ackMap{}
		for n := next(); n > 0; n-- {
			id := next()
			acks[id] = quorum.Index(next())
		}
		votes := map[uint64]bool{}
		for n := next(); n > 0; n-- {
			id := next()
			votes[id] = next() == 1
		}
		j := quorum.JointConfig{m0, m1}
		fmt.Fprintln(out, answer(m0, j, acks, votes))
	}
	return out.Flush()
}
