(* Extraction of the pub/sub model (C19) and of the reply decoder a subscriber uses (C03's
   ReplyCodec) to OCaml.  ExtrOcamlBasic only; N, Z, positive, nat, byte stay the extracted
   inductives.  No Extract Constant. *)
Require Import Base.Bytes Base.GoInt Base.Reply Resp.ReplyCodec PubSub.PubSubSpec PubSub.PubSubModel.
Require Extraction.
Require Import ExtrOcamlBasic.
Extraction Language OCaml.
Extraction "pubsubmodel.ml" byte_of_N byte_to_N z_to_dec
  decode_stream init step run outq queue_match observed_match reply_match chan_msgs expected subscribed.
