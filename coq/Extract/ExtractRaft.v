(* Extraction of the executable Raft models (C15) to OCaml: the quorum functions of
   Raft/Quorum.v and the trace checker of Raft/RaftCheck.v.  ExtrOcamlBasic only; nat stays
   the extracted unary inductive.  No Extract Constant. *)
Require Import Raft.Quorum Raft.RaftModel Raft.RaftSys Raft.RaftCheck Raft.RaftCC Raft.RaftCCCheck Raft.RaftPV Raft.RaftPVCheck.
Require Extraction.
Require Import ExtrOcamlBasic.
Extraction Language OCaml.
Extraction "raftmodel.ml"
  majority_committed_index majority_vote_result joint_committed_index joint_vote_result
  x_init init_node proj_of check_step safety_okb election_okb matching_okb sms_okb lc_okb step_okb
  model_step run
  cx_init node_cfg cfg_of joint_satb check_step_cc
  px_init check_step_pv.
