(* Extraction of the executable Raft models (C15) to OCaml: the quorum functions of
   Raft/Quorum.v and the trace checker of Raft/RaftCheck.v.  ExtrOcamlBasic only; nat stays
   the extracted unary inductive.  No Extract Constant. *)
Require Import Raft.Quorum.
Require Extraction.
Require Import ExtrOcamlBasic.
Extraction Language OCaml.
Extraction "raftmodel.ml"
  majority_committed_index majority_vote_result joint_committed_index joint_vote_result.
