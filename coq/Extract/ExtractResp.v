(* Extraction of the RESP models (request parser, connection loop, reply codec) to OCaml.
   ExtrOcamlBasic only; N, Z, positive, nat, byte stay the extracted inductives.
   No Extract Constant. *)
Require Import Base.Bytes Base.GoInt Base.Reply Resp.RespSpec Resp.RespModel Resp.ReplyCodec.
Require Extraction.
Require Import ExtrOcamlBasic.
Extraction Language OCaml.
Extraction "respmodel.ml" byte_of_N byte_to_N z_to_dec
  encode_cmd events events_chunked handle
  encode_reply decode_reply decode_all decode_stream.
