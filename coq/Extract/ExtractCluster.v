(* Extraction of the cluster models (C14, C07, C08) to OCaml. ExtrOcamlBasic only; N, Z, positive,
   nat, byte stay the extracted inductives.  No Extract Constant. *)
Require Import Base.Bytes Base.GoInt Base.Reply Mem.Types Mem.Exec.
Require Import Cluster.ClusterEnc Cluster.ApplyLoop Cluster.Durability.
Require Extraction.
Require Import ExtrOcamlBasic.
Extraction Language OCaml.
Extraction "clustermodel.ml" byte_of_N byte_to_N
  encode_proposal decode_proposal pinned_roundtrip id_plain cluster_filter is_rconf
  number_log log_window entries_to_apply publish_entries ready_step ready_run
  z_to_dec exec empty_db
  step_order run_readys restart crash durable_of acked_of keyspace_of.
