(* Extraction for the concurrency checks (C05/C13): the sequential keyspace model used as the
   specification by the linearizability checker, and the stripe/hash model compared with Go.
   Same rules as Extract.v: ExtrOcamlBasic only, no Extract Constant.  The module is again called
   "model" so that ml/util.ml and ml/memrun.ml (reply printing, dump format) are reused as is. *)
Require Import Base.Bytes Base.GoInt Base.Reply Glob.GlobSpec Glob.GlobModel.
Require Import Mem.Types Mem.Exec Mem.Server Mem.ListsBg Mem.ListsMulti.
Require Import Conc.LockModel.
Require Extraction.
Require Import ExtrOcamlBasic.
Extraction Language OCaml.
Extraction "model.ml" byte_of_N byte_to_N gmatch keys_filter
  z_to_dec parse_int_unbounded atoi64 purge srv_init srv_exec srv_exec_bg srv_exec_multi srv_disconnect
  hash_key stripe poses modelled.
