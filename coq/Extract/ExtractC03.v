(* Keep the name list a SUPERSET of Extract/Extract.v (ml/memrun.ml is compiled against this module).
   Extraction for the C03 runner (ml/c03run.ml): the command model of Extract.v together with
   the independent reply decoder, in ONE module so that both share the extracted `reply` type.
   The module is named model.ml so that ml/util.ml and ml/memrun.ml (reply printing and
   comparison of the keyspace pipeline) are reused unchanged.
   ExtrOcamlBasic only; N, Z, positive, nat, byte stay the extracted inductives. *)
Require Import Base.Bytes Base.GoInt Base.Reply Glob.GlobSpec Glob.GlobModel.
Require Import Mem.Types Mem.Exec Mem.Server Mem.ListsBg Mem.ListsMulti.
Require Import Resp.RespSpec Resp.ReplyCodec.
Require Extraction.
Require Import ExtrOcamlBasic.
Extraction Language OCaml.
Extraction "model.ml" byte_of_N byte_to_N gmatch keys_filter
  z_to_dec parse_int_unbounded atoi64 purge srv_init srv_exec srv_exec_bg srv_exec_multi srv_disconnect
  reply_wf encode_cmd encode_reply decode_stream.
