(* Extraction of the executable models to OCaml. ExtrOcamlBasic only: bool, option, unit,
   list, prod, sumbool, comparison map to the OCaml types; N, Z, positive, nat, byte stay the
   extracted inductives.  No Extract Constant. *)
Require Import Base.Bytes Base.GoInt Base.Reply Glob.GlobSpec Glob.GlobModel.
Require Import Mem.Types Mem.Exec Mem.Server Mem.ListsBg Mem.ListsMulti.
Require Extraction.
Require Import ExtrOcamlBasic.
Extraction Language OCaml.
Extraction "model.ml" byte_of_N byte_to_N gmatch keys_filter
  z_to_dec parse_int_unbounded atoi64 purge srv_init srv_exec srv_exec_bg srv_exec_multi srv_disconnect.
