(* Extraction of the executable models to OCaml. ExtrOcamlBasic only: bool, option, unit,
   list, prod, sumbool, comparison map to the OCaml types; N, Z, positive, nat, byte stay the
   extracted inductives.  No Extract Constant. *)
Require Import Base.Bytes Glob.GlobSpec Glob.GlobModel.
Require Extraction.
Require Import ExtrOcamlBasic.
Extraction Language OCaml.
Extraction "model.ml" Byte.of_N Byte.to_N gmatch keys_filter.
