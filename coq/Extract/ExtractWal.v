(* Extraction of the executable WAL / snapshot / CRC models (C16) to OCaml. ExtrOcamlBasic only:
   bool, option, unit, list, prod, sumbool, comparison map to the OCaml types; N, Z, positive,
   nat, byte stay the extracted inductives.  No Extract Constant. *)
Require Import Base.Bytes Wal.Crc32c Wal.CrcTab Wal.Pb Wal.WalModel Wal.WalSpec Wal.SnapModel.
Require Extraction.
Require Import ExtrOcamlBasic.
Extraction Language OCaml.
Extraction "walmodel.ml" Byte.of_N Byte.to_N
  crc_update crc_update_tab varint_enc varint_dec rec_marshal rec_unmarshal
  encode_recs decode_whole decode_files decode_each
  read_all read_all_dec read_all_w read_all_w_dec verify verify_dec repair_files zero_tail
  crash_image_list set_byte
  w_run w_run_d completed_ok spec_read_ok second_life_ok s_run_d sops_wops spec_read_at_ok kill_prefix_ok spec_run w_files select_files file_bytes
  interp_result prefix_ok rares_eqb locate frame_len count_synced no_crc_coincidence
  snap_file_of snap_read snap_load.
