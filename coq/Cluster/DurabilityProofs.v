(* C08 -- proofs about the Ready loop / crash / restart model (Cluster/Durability.v). *)
Require Import Base.Bytes Base.GoInt Base.Reply Mem.Types Mem.Exec.
Require Import Cluster.ClusterEnc Cluster.ApplyLoop Cluster.ApplyLoopProofs Cluster.Durability.
Local Open Scope N_scope.

Ltac Zify.zify_post_hook ::= Z.to_euclidean_division_equations.

(* ------------------------------------------------------------------ small facts *)
Lemma In_skipn {A} (x : A) : forall n l, In x (skipn n l) -> In x l.
Proof.
  induction n as [|n IH]; intros l H; [exact H|].
  destruct l as [|y l]; [exact H|]. right. apply IH. exact H.
Qed.

Lemma entries_to_apply_incl a ents nents :
  entries_to_apply a ents = Some nents -> incl nents ents.
Proof.
  unfold entries_to_apply. destruct ents as [|e r]; [intros H; inversion H; apply incl_refl|].
  destruct (_ <? _); [discriminate|].
  destruct (_ <? _); intros H; inversion H; subst.
  - intros x Hx. eapply In_skipn; exact Hx.
  - intros x [].
Qed.

Lemma publish_batch a nents : snd (publish_entries a nents) = cmds_of nents.
Proof. destruct nents; reflexivity. Qed.

Lemma in_cmds_of id args ents :
  In (id, args) (cmds_of ents) -> exists e, In e ents /\ epay e = PCmd id args.
Proof.
  unfold cmds_of. intros H. apply in_flat_map in H as (e & He & Hc).
  exists e. split; [exact He|]. unfold cmd_of in Hc.
  destruct (epay e) as [| |i a]; [destruct Hc|destruct Hc|].
  destruct Hc as [E|[]]. inversion E; subst. reflexivity.
Qed.

(* ------------------------------------------------------------------ acknowledged => durable *)
Lemma acked_durable_mono d d' acked :
  acked_durable d acked -> incl (d_wal d) (d_wal d') -> d_commit d <= d_commit d' ->
  acked_durable d' acked.
Proof.
  intros H Hi Hc id Hid. destruct (H id Hid) as (e & args & He & Hp & Hle).
  exists e, args. repeat split; auto. lia.
Qed.

(* the three statements that touch the modelled state *)
Definition after_save (d : durable) (rd : ready) : durable :=
  mkDur (d_wal d ++ r_entries rd) (N.max (d_commit d) (r_commit rd)) (d_snap d).

Lemma step_save sc rd envs d v :
  do_step sc rd envs SWalSave (Up d v) = Up (after_save d rd) v.
Proof. reflexivity. Qed.

Lemma save_keeps_acked d rd acked :
  acked_durable d acked -> acked_durable (after_save d rd) acked.
Proof.
  intros H. eapply acked_durable_mono; [exact H| |]; cbn.
  - apply incl_appl, incl_refl.
  - lia.
Qed.

Lemma publish_keeps_acked sc rd envs d0 d v :
  d = after_save d0 rd -> ready_ok d0 rd -> acked_durable d (v_acked v) ->
  let n' := do_step sc rd envs SPublish (Up d v) in
  durable_of n' = d /\ acked_durable d (acked_of n').
Proof.
  intros Ed Hok Hinv. cbn [do_step].
  destruct (entries_to_apply (v_applied v) (r_committed rd)) as [nents|] eqn:E.
  - pose proof (publish_batch (v_applied v) nents) as Hb.
    destruct (publish_entries (v_applied v) nents) as [a' batch]. cbn [snd] in Hb. subst batch.
    destruct (apply_cmds exec_step [] (v_ks v) envs (cmds_of nents)) as [dl ks'].
    cbn. split; [reflexivity|].
    intros id Hid. apply in_app_or in Hid as [Hid|Hid]; [exact (Hinv id Hid)|].
    apply in_map_iff in Hid as ([id' args] & Eid & Hin). cbn in Eid. subst id'.
    destruct (in_cmds_of id args nents Hin) as (e & He & Hp).
    apply (entries_to_apply_incl _ _ _ E) in He.
    destruct (Hok e He) as [Hw Hc].
    exists e, args. subst d. cbn. auto.
  - cbn. auto.
Qed.

Lemma trigger_keeps_acked sc rd envs d v :
  acked_durable d (v_acked v) ->
  let n' := do_step sc rd envs STrigger (Up d v) in
  acked_durable (durable_of n') (acked_of n') /\
  d_wal (durable_of n') = d_wal d /\ d_commit (durable_of n') = d_commit d.
Proof.
  intros H. cbn [do_step].
  destruct (_ <=? _); [cbn; auto|].
  destruct (get_snapshot (v_ks v)); cbn; auto.
Qed.

Section Noop.
  Variables (sc : N) (rd : ready) (envs : list env).
  Lemma noop_savesnap n : do_step sc rd envs SSaveSnap n = n. Proof. destruct n; reflexivity. Qed.
  Lemma noop_applysnap n : do_step sc rd envs SApplySnap n = n. Proof. destruct n; reflexivity. Qed.
  Lemma noop_append n : do_step sc rd envs SAppend n = n. Proof. destruct n; reflexivity. Qed.
  Lemma noop_send n : do_step sc rd envs SSend n = n. Proof. destruct n; reflexivity. Qed.
  Lemma noop_advance n : do_step sc rd envs SAdvance n = n. Proof. destruct n; reflexivity. Qed.
  Lemma down_step s d a : do_step sc rd envs s (Down d a) = Down d a. Proof. reflexivity. Qed.
End Noop.

Lemma crash_durable n : durable_of (crash n) = durable_of n /\ acked_of (crash n) = acked_of n.
Proof. destruct n; auto. Qed.

(* whatever prefix of the Ready case ran before the process died, every reply a client has
   received is for an entry in the local WAL, below the saved commit index *)
Theorem ack_implies_durable sc rd envs d v p :
  ready_ok d rd -> acked_durable d (v_acked v) ->
  let n' := run_ready_crash sc rd envs p (Up d v) in
  acked_durable (durable_of n') (acked_of n').
Proof.
  intros Hok A0.
  pose proof (save_keeps_acked d rd _ A0) as A1.
  destruct (publish_keeps_acked sc rd envs d (after_save d rd) v eq_refl Hok A1) as [Pd A2].
  cbv zeta in Pd, A2.
  set (n2 := do_step sc rd envs SPublish (Up (after_save d rd) v)) in *.
  assert (A3 : acked_durable (durable_of (do_step sc rd envs STrigger n2))
                             (acked_of (do_step sc rd envs STrigger n2))).
  { destruct n2 as [d2 v2|d2 a2] eqn:E2.
    - cbn [durable_of acked_of] in Pd, A2. subst d2.
      exact (proj1 (trigger_keeps_acked sc rd envs (after_save d rd) v2 A2)).
    - rewrite down_step. cbn [durable_of acked_of] in *. subst d2. exact A2. }
  rewrite <- Pd in A2.
  cbv zeta. unfold run_ready_crash, run_steps, step_order.
  destruct (crash_durable (fold_left (fun n s => do_step sc rd envs s n)
                                     (firstn p [SSaveSnap; SWalSave; SApplySnap; SAppend; SSend; SPublish; STrigger; SAdvance])
                                     (Up d v))) as [-> ->].
  do 9 (destruct p as [|p];
        [cbn [firstn fold_left];
         rewrite ?noop_savesnap, ?step_save, ?noop_applysnap, ?noop_append, ?noop_send; fold n2;
         rewrite ?noop_advance; cbn [durable_of acked_of]; assumption|]).
  cbn [firstn fold_left].
  rewrite ?noop_savesnap, ?step_save, ?noop_applysnap, ?noop_append, ?noop_send. fold n2.
  rewrite ?noop_advance. assumption.
Qed.

(* ... and over any number of completed Readys before the one that is interrupted *)
Fixpoint readys_ok (sc : N) (n : node) (rds : list (ready * list env)) : Prop :=
  match rds with
  | [] => True
  | (rd, envs) :: r => ready_ok (durable_of n) rd /\ readys_ok sc (run_ready sc rd envs n) r
  end.

Lemma run_ready_as_crash sc rd envs n :
  durable_of (run_ready sc rd envs n) = durable_of (run_ready_crash sc rd envs 8 n) /\
  acked_of (run_ready sc rd envs n) = acked_of (run_ready_crash sc rd envs 8 n).
Proof.
  unfold run_ready_crash, run_ready.
  replace (firstn 8 step_order) with step_order by reflexivity.
  destruct (crash_durable (run_steps sc rd envs step_order n)) as [-> ->]. auto.
Qed.

Lemma down_run_steps sc rd envs ss d a : run_steps sc rd envs ss (Down d a) = Down d a.
Proof. unfold run_steps. induction ss as [|s ss IH]; [reflexivity|]. cbn. exact IH. Qed.

Theorem acked_durable_invariant sc : forall rds n,
    acked_durable (durable_of n) (acked_of n) -> readys_ok sc n rds ->
    acked_durable (durable_of (run_readys sc rds n)) (acked_of (run_readys sc rds n)).
Proof.
  induction rds as [|[rd envs] r IH]; intros n Hinv Hok; [exact Hinv|].
  destruct Hok as [Hrd Hr]. cbn [run_readys]. apply IH; [|exact Hr].
  destruct (run_ready_as_crash sc rd envs n) as [-> ->].
  destruct n as [d v|d a].
  - exact (ack_implies_durable sc rd envs d v 8 Hrd Hinv).
  - unfold run_ready_crash. rewrite down_run_steps. exact Hinv.
Qed.

(* ------------------------------------------------------------------ restart without a snapshot *)
Lemma filter_numbered c : forall pl f,
    1 <= f ->
    filter (fun e => (0 <? eidx e) && (eidx e <=? c)) (number_log f pl)
    = firstn (N.to_nat (c + 1 - f)) (number_log f pl).
Proof.
  induction pl as [|p r IH]; intros f Hf.
  - cbn. now rewrite firstn_nil.
  - cbn [number_log filter eidx].
    destruct (N.ltb_spec 0 f) as [_|]; [|lia]. cbn [andb].
    destruct (N.leb_spec f c) as [Hle|Hgt].
    + rewrite IH by lia.
      replace (N.to_nat (c + 1 - f)) with (S (N.to_nat (c + 1 - N.succ f))) by lia.
      reflexivity.
    + replace (N.to_nat (c + 1 - f)) with 0%nat by lia. cbn [firstn].
      (* nothing further down qualifies either *)
      clear IH. assert (forall pl' g, f < g ->
                 filter (fun e => (0 <? eidx e) && (eidx e <=? c)) (number_log g pl') = []) as Hnone.
      { induction pl' as [|q s IHs]; intros g Hg; [reflexivity|]. cbn [number_log filter eidx].
        destruct (N.leb_spec g c); [lia|]. rewrite andb_false_r. apply IHs. lia. }
      apply Hnone. lia.
Qed.

Lemma in_numbered_firstn pl : forall f e (c : nat),
    In e (number_log f pl) -> eidx e < f + N.of_nat c -> In e (firstn c (number_log f pl)).
Proof.
  induction pl as [|p r IH]; intros f e c Hin Hlt; [destruct Hin|].
  cbn [number_log] in *. destruct c as [|c]; destruct Hin as [E|Hin].
  - subst e. cbn in Hlt. lia.
  - exfalso. clear IH.
    assert (forall pl' g x, In x (number_log g pl') -> g <= eidx x) as Hge.
    { induction pl' as [|q s IHs]; intros g x Hx; [destruct Hx|]. cbn in Hx.
      destruct Hx as [<-|Hx]; [cbn; lia|]. specialize (IHs _ _ Hx). lia. }
    specialize (Hge _ _ _ Hin). lia.
  - left. exact E.
  - right. apply IH; [exact Hin|lia].
Qed.

Lemma eta_fresh q : entries_to_apply 0 (number_log 1 q) = Some (number_log 1 q).
Proof.
  destruct q as [|p r]; [reflexivity|].
  cbn [number_log]. unfold entries_to_apply. cbn [eidx].
  replace (add64 0 1 <? 1) with false by reflexivity.
  replace (add64 (sub64 0 1) 1) with 0 by reflexivity.
  cbn [List.length].
  destruct (N.ltb_spec 0 (N.of_nat (S (List.length (number_log (N.succ 1) r))))) as [_|H]; [reflexivity|lia].
Qed.

Lemma publish_fresh q :
  publish_entries 0 (number_log 1 q) = (N.of_nat (List.length q), cmds_of (number_log 1 q)).
Proof.
  destruct q as [|p r]; [reflexivity|].
  rewrite publish_nonempty by (cbn; discriminate).
  rewrite number_last by discriminate. f_equal. lia.
Qed.

Theorem restart_recovers sc envs pl commit acked :
  let L := number_log 1 pl in
  let d := mkDur L commit None in
  commit <= N.of_nat (List.length pl) -> commit <= sc ->
  acked_durable d acked ->
  let prefix := firstn (N.to_nat commit) L in
  keyspace_of (restart sc envs d) = Some (keyspace_after empty_db envs prefix) /\
  (forall id, In id acked -> In id (ids_of prefix)).
Proof.
  intros L d Hc Hsc Hack prefix. split.
  - unfold restart, run_ready, run_steps, step_order. cbn [fold_left].
    rewrite noop_savesnap, step_save, noop_applysnap, noop_append, noop_send, noop_advance.
    unfold redelivered, snap_index.
    cbn [d_snap d d_wal d_commit after_save r_entries r_commit r_committed].
    unfold L. rewrite filter_numbered by lia.
    replace (N.to_nat (commit + 1 - 1)) with (N.to_nat commit) by lia.
    unfold prefix, L. rewrite firstn_number.
    set (q := firstn (N.to_nat commit) pl).
    assert (Hlen : N.of_nat (List.length q) = commit).
    { unfold q. rewrite firstn_length. lia. }
    cbn [do_step restart_volatile v_applied snap_index d_snap].
    subst d. cbn [snap_index d_snap r_committed restart_volatile v_ks v_snapidx v_acked v_applied].
    rewrite eta_fresh, publish_fresh, Hlen. unfold keyspace_after.
    destruct (apply_cmds exec_step [] empty_db envs (cmds_of (number_log 1 q))) as [dl ks'] eqn:Ea.
    cbn [do_step v_applied v_snapidx].
    destruct (N.leb_spec (commit - 0) sc) as [_|]; [|lia].
    cbn. reflexivity.
  - intros id Hid. destruct (Hack id Hid) as (e & args & He & Hp & Hle).
    cbn [d_wal d_commit d] in He, Hle.
    assert (In e prefix) as Hin.
    { unfold prefix, L. apply in_numbered_firstn; [exact He|lia]. }
    unfold ids_of, cmds_of. apply in_map_iff. exists (id, args). split; [reflexivity|].
    apply in_flat_map. exists e. split; [exact Hin|]. unfold cmd_of. rewrite Hp. left. reflexivity.
Qed.

(* ------------------------------------------------------------------ with a snapshot: refuted *)
(* snapshot threshold 2 (H3 lowers it the same way): four acknowledged SETs, one per Ready *)
Definition w_set (i : bytes) : payload := PCmd i [B "SET"; i; B "v"].
Definition w_log : list entry := number_log 1 [w_set (B "k1"); w_set (B "k2"); w_set (B "k3"); w_set (B "k4")].
Definition w_env : list env := [(100, 100000, RNil)]%Z.
Definition w_readys : list (ready * list env) :=
  map (fun e => (mkReady [e] (eidx e) [e], w_env)) w_log.
Definition w_start : node := Up (mkDur [] 0 None) (mkVol 0 0 empty_db []).
Definition w_after : node := run_readys 2 w_readys w_start.

(* all four writes acknowledged, a snapshot taken at index 3; after a crash and restart the node
   serves a keyspace in which k1, k2, k3 do not exist *)
Theorem snapshot_loses_acked_writes :
  acked_of w_after = [B "k1"; B "k2"; B "k3"; B "k4"] /\
  d_snap (durable_of w_after) = Some 3 /\
  exists ks, keyspace_of (restart 2 w_env (durable_of (crash w_after))) = Some ks /\
             db_get ks (B "k1") = None /\ db_get ks (B "k2") = None /\ db_get ks (B "k3") = None /\
             db_get ks (B "k4") = Some (VStr (B "v")).
Proof.
  split; [vm_compute; reflexivity|]. split; [vm_compute; reflexivity|].
  exists (match keyspace_of (restart 2 w_env (durable_of (crash w_after))) with
          | Some k => k | None => empty_db end).
  repeat split; vm_compute; reflexivity.
Qed.

(* any list key takes the node down when the threshold is reached *)
Definition w_list_log : list entry :=
  number_log 1 [PCmd (B "a") [B "RPUSH"; B "l"; B "x"]; w_set (B "k2"); w_set (B "k3")].
Definition w_list_readys : list (ready * list env) :=
  map (fun e => (mkReady [e] (eidx e) [e], w_env)) w_list_log.

Theorem snapshot_with_list_panics :
  exists d a, run_readys 2 w_list_readys w_start = Down d a /\ a = [B "a"; B "k2"; B "k3"].
Proof.
  exists (durable_of (run_readys 2 w_list_readys w_start)), [B "a"; B "k2"; B "k3"].
  split; vm_compute; reflexivity.
Qed.

(* the step order is what makes ack_implies_durable true: with the reply before wal.Save it fails *)
Example readys_ok_witness : readys_ok 2 w_start w_readys.
Proof.
  assert (H : forall d e, ready_ok d (mkReady [e] (eidx e) [e])).
  { intros d e x [<-|[]]. cbn [r_entries r_commit]. split; [apply in_or_app; right; left; reflexivity|lia]. }
  unfold w_readys, w_log. cbn [map number_log readys_ok].
  do 4 (split; [apply H|]). exact I.
Qed.
