(* C08 -- the Ready loop of a cluster node (raftexample/raft.go serveChannels) with crashes between
   any two steps, and what a restart recovers (replayWAL, startRaft, serveChannels).  Model only;
   proofs in Cluster/DurabilityProofs.v.

   Durable state of a node: the WAL (entries + the commit index of the last saved HardState) and
   the newest snapshot (index; the data is json.Marshal of the keyspace).  Everything else --
   appliedIndex, snapshotIndex, the keyspace, the replies already sent -- is lost in a crash.

   Simplifications (named in the trusted base): entries handed to wal.Save extend the log
   (follower-side truncation of an uncommitted suffix is Raft's business, C15); a snapshot
   *received* from a leader (rd.Snapshot) is not modelled; the WAL keeps what was saved (C16). *)
Require Import Base.Bytes Base.GoInt Base.Reply Mem.Types Mem.Exec.
Require Import Cluster.ClusterEnc Cluster.ApplyLoop.
Local Open Scope N_scope.

(* the statements of the Ready case, in source order *)
Inductive step_id :=
| SSaveSnap        (* rc.saveSnap(rd.Snapshot)            if a snapshot was received *)
| SWalSave         (* rc.wal.Save(rd.HardState, rd.Entries) *)
| SApplySnap       (* raftStorage.ApplySnapshot + publishSnapshot   if a snapshot was received *)
| SAppend          (* rc.raftStorage.Append(rd.Entries) *)
| SSend            (* rc.transport.Send(rd.Messages) *)
| SPublish         (* rc.publishEntries(rc.entriesToApply(rd.CommittedEntries)) -> apply loop -> replies *)
| STrigger         (* rc.maybeTriggerSnapshot(applyDoneC) *)
| SAdvance.        (* rc.Node.Advance() *)

Definition step_order : list step_id :=
  [SSaveSnap; SWalSave; SApplySnap; SAppend; SSend; SPublish; STrigger; SAdvance].

Record ready := mkReady {
  r_entries : list entry;        (* rd.Entries: to be saved *)
  r_commit : N;                  (* rd.HardState.Commit (0 = no HardState in this Ready) *)
  r_committed : list entry       (* rd.CommittedEntries *)
}.

Record durable := mkDur {
  d_wal : list entry;
  d_commit : N;
  d_snap : option N              (* index of the newest snapshot file + WAL snapshot record *)
}.

Record volatile := mkVol {
  v_applied : N;
  v_snapidx : N;
  v_ks : db;
  v_acked : list bytes           (* ids whose reply has been handed to the callback table *)
}.

Inductive node :=
| Up (d : durable) (v : volatile)
| Down (d : durable) (acked : list bytes).
   (* process gone (crash, kill -9, panic): only [d] exists; [acked] is a history variable, the
      replies clients had received before *)

Definition durable_of (n : node) : durable := match n with Up d _ => d | Down d _ => d end.
Definition acked_of (n : node) : list bytes := match n with Up _ v => v_acked v | Down _ a => a end.

(* memdb.GetSnapshot = json.Marshal(m.db.KeyVals()): a *List value is a ring of *ListNode;
   encoding/json reports "encountered a cycle" and maybeTriggerSnapshot log.Panic()s.  None = panic.
   (What is produced for the other types is never read back, so it is not modelled.) *)
Definition is_list (p : bytes * value) : bool := match snd p with VList _ => true | _ => false end.
Definition get_snapshot (ks : db) : option unit := if existsb is_list (kv ks) then None else Some tt.

Definition ids_of (ents : list entry) : list bytes := map fst (cmds_of ents).

(* one statement of the Ready case; [envs]: clock/hints of the commands executed by SPublish *)
Definition do_step (snap_count : N) (rd : ready) (envs : list env) (s : step_id) (n : node) : node :=
  match n with
  | Down _ _ => n
  | Up d v =>
    match s with
    | SWalSave =>
      Up (mkDur (d_wal d ++ r_entries rd) (N.max (d_commit d) (r_commit rd)) (d_snap d)) v
    | SPublish =>
      match entries_to_apply (v_applied v) (r_committed rd) with
      | None => Down d (v_acked v)                         (* log.Fatalf *)
      | Some nents =>
        let '(a', batch) := publish_entries (v_applied v) nents in
        let '(_, ks') := apply_cmds exec_step [] (v_ks v) envs batch in
        Up d (mkVol a' (v_snapidx v) ks' (v_acked v ++ map fst batch))
      end
    | STrigger =>
      if v_applied v - v_snapidx v <=? snap_count then n
      else match get_snapshot (v_ks v) with
           | None => Down d (v_acked v)                    (* log.Panic(err) *)
           | Some _ => Up (mkDur (d_wal d) (d_commit d) (Some (v_applied v)))
                          (mkVol (v_applied v) (v_applied v) (v_ks v) (v_acked v))
           end
    | _ => n
    end
  end.

Definition run_steps (snap_count : N) (rd : ready) (envs : list env) (ss : list step_id) (n : node) : node :=
  fold_left (fun n s => do_step snap_count rd envs s n) ss n.

(* a whole Ready, or its first [p] statements followed by a crash *)
Definition run_ready snap_count rd envs n := run_steps snap_count rd envs step_order n.
Definition crash (n : node) : node := Down (durable_of n) (acked_of n).
Definition run_ready_crash snap_count rd envs (p : nat) n :=
  crash (run_steps snap_count rd envs (firstn p step_order) n).

(* a sequence of Readys, each with the environments of its commands *)
Fixpoint run_readys (snap_count : N) (rds : list (ready * list env)) (n : node) : node :=
  match rds with
  | [] => n
  | (rd, envs) :: r => run_readys snap_count r (run_ready snap_count rd envs n)
  end.

(* ---- restart ---- *)
(* replayWAL + serveChannels: snapshotIndex = appliedIndex = index of the newest snapshot (0 if
   none).  The keyspace starts EMPTY: nothing reads snapshot.Data back (the "commitC <- nil" of
   publishSnapshot is only logged by handleClusterCommits, and a restart does not even send it). *)
Definition snap_index (d : durable) : N := match d_snap d with Some i => i | None => 0 end.

Definition restart_volatile (d : durable) : volatile :=
  mkVol (snap_index d) (snap_index d) empty_db [].

(* Raft (RestartNode on the storage rebuilt from snapshot + WAL) hands the committed entries
   behind the snapshot to the application again *)
Definition redelivered (d : durable) : list entry :=
  filter (fun e => (snap_index d <? eidx e) && (eidx e <=? d_commit d)) (d_wal d).

Definition restart (snap_count : N) (envs : list env) (d : durable) : node :=
  run_ready snap_count (mkReady [] (d_commit d) (redelivered d)) envs (Up d (restart_volatile d)).

Definition keyspace_of (n : node) : option db := match n with Up _ v => Some (v_ks v) | Down _ _ => None end.

(* ---- what the Raft library promises about a Ready (C15), relative to the durable state ---- *)
(* every committed entry handed to the application has been handed over for saving in this or an
   earlier Ready, and the HardState saved with it covers it *)
Definition ready_ok (d : durable) (rd : ready) : Prop :=
  forall e, In e (r_committed rd) ->
            In e (d_wal d ++ r_entries rd) /\ eidx e <= N.max (d_commit d) (r_commit rd).

(* acknowledged ids are in the WAL, below the saved commit index *)
Definition acked_durable (d : durable) (acked : list bytes) : Prop :=
  forall id, In id acked ->
             exists e args, In e (d_wal d) /\ epay e = PCmd id args /\ eidx e <= d_commit d.
