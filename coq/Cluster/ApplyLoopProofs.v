(* C07 -- proofs about the apply loop model (Cluster/ApplyLoop.v). *)
Require Import Base.Bytes Base.GoInt Base.Reply Mem.Types Mem.Exec.
Require Import Cluster.ClusterEnc Cluster.ApplyLoop.
Local Open Scope N_scope.

Ltac Zify.zify_post_hook ::= Z.to_euclidean_division_equations.

(* ------------------------------------------------------------------ numbered logs *)
Lemma number_length f pl : List.length (number_log f pl) = List.length pl.
Proof. revert f; induction pl as [|p r IH]; intros f; cbn; [reflexivity|now rewrite IH]. Qed.

Lemma number_app f a b :
  number_log f (a ++ b) = number_log f a ++ number_log (f + N.of_nat (List.length a)) b.
Proof.
  revert f; induction a as [|p r IH]; intros f; cbn [number_log app List.length].
  - f_equal. lia.
  - rewrite IH. do 3 f_equal. lia.
Qed.

Lemma app_inv_len {A} : forall (a a' b b' : list A),
    List.length a = List.length a' -> a ++ b = a' ++ b' -> a = a' /\ b = b'.
Proof.
  induction a as [|x a IH]; intros [|y a'] b b' HL H; try discriminate; cbn in *.
  - auto.
  - inversion H; subst. destruct (IH a' b b' ltac:(lia) H2) as [-> ->]. auto.
Qed.

(* every contiguous piece of a numbered log is a numbered log *)
Lemma number_split f pl pre b post :
  number_log f pl = pre ++ b ++ post ->
  exists p1 p2 p3, pl = p1 ++ p2 ++ p3 /\ pre = number_log f p1 /\
                   b = number_log (f + N.of_nat (List.length pre)) p2 /\
                   List.length p1 = List.length pre /\ List.length p2 = List.length b.
Proof.
  intros H.
  exists (firstn (List.length pre) pl),
         (firstn (List.length b) (skipn (List.length pre) pl)),
         (skipn (List.length b) (skipn (List.length pre) pl)).
  assert (Hl : List.length pl = (List.length pre + (List.length b + List.length post))%nat).
  { rewrite <- (number_length f pl), H, !app_length. reflexivity. }
  assert (E : pl = firstn (List.length pre) pl ++
                   firstn (List.length b) (skipn (List.length pre) pl) ++
                   skipn (List.length b) (skipn (List.length pre) pl)).
  { now rewrite !firstn_skipn. }
  assert (L1 : List.length (firstn (List.length pre) pl) = List.length pre).
  { rewrite firstn_length. lia. }
  assert (L2 : List.length (firstn (List.length b) (skipn (List.length pre) pl)) = List.length b).
  { rewrite firstn_length, skipn_length. lia. }
  rewrite E in H at 1. rewrite !number_app, L1, L2 in H.
  apply app_inv_len in H as [H1 H2]; [|now rewrite number_length].
  apply app_inv_len in H2 as [H2 _]; [|now rewrite number_length].
  repeat split; auto.
Qed.

Lemma number_last f pl d :
  pl <> [] -> eidx (last (number_log f pl) d) = f + N.of_nat (List.length pl) - 1.
Proof.
  revert f; induction pl as [|p r IH]; intros f Hne; [congruence|].
  destruct r as [|p2 r].
  - cbn. lia.
  - change (number_log f (p :: p2 :: r)) with (mkE f p :: number_log (N.succ f) (p2 :: r)).
    change (last (mkE f p :: number_log (N.succ f) (p2 :: r)) d)
      with (last (number_log (N.succ f) (p2 :: r)) d).
    rewrite IH by discriminate. cbn [List.length]. lia.
Qed.

Lemma publish_nonempty a ents :
  ents <> [] -> publish_entries a ents = (eidx (last ents (mkE 0 PEmpty)), cmds_of ents).
Proof. destruct ents; [congruence|reflexivity]. Qed.

(* ------------------------------------------------------------------ one Ready *)
Definition is_window (L b : list entry) : Prop := exists pre post, L = pre ++ b ++ post.

Lemma log_window_is_window L lo len : is_window L (log_window L lo len).
Proof.
  unfold log_window. exists (firstn lo L), (skipn len (skipn lo L)).
  now rewrite !firstn_skipn.
Qed.

Section Step.
  Variables (base : N) (pl : list payload).
  Let L := number_log (base + 1) pl.
  Hypothesis Hfit : base + N.of_nat (List.length pl) + 1 < W64.

  (* the node has applied exactly the first k entries *)
  Lemma ready_step_spec k pre b post a' nents batch :
    L = pre ++ b ++ post -> (k <= List.length pl)%nat ->
    ready_step (base + N.of_nat k) b = Some (a', nents, batch) ->
    let k' := match b with [] => k | _ => Nat.max k (List.length pre + List.length b) end in
    a' = base + N.of_nat k' /\ firstn k L ++ nents = firstn k' L /\ batch = cmds_of nents /\
    (k' <= List.length pl)%nat.
  Proof.
    intros HL Hk Hs.
    destruct (number_split _ _ _ _ _ HL) as (p1 & p2 & p3 & Epl & Epre & Eb & Lp1 & Lp2).
    assert (Hlen : List.length pl = (List.length pre + (List.length b + List.length post))%nat).
    { rewrite <- (number_length (base + 1) pl). fold L. rewrite HL, !app_length. reflexivity. }
    unfold ready_step in Hs.
    destruct b as [|e b'].
    - (* empty batch: nothing happens *)
      cbn in Hs. inversion Hs; subst. cbn. rewrite app_nil_r. repeat split; auto.
    - destruct p2 as [|q p2']; [cbn in Lp2; discriminate|].
      assert (Efirst : eidx e = base + 1 + N.of_nat (List.length pre)).
      { cbn [number_log] in Eb. inversion Eb. reflexivity. }
      unfold entries_to_apply in Hs. rewrite Efirst in Hs.
      remember (List.length pre) as lo eqn:Elo.
      remember (List.length (e :: b')) as m eqn:Em.
      assert (Hm : (1 <= m)%nat) by (rewrite Em; cbn; lia).
      unfold add64, sub64, W64 in Hs. unfold W64 in Hfit.
      destruct (N.ltb_spec ((base + N.of_nat k + 1) mod 18446744073709551616)
                           (base + 1 + N.of_nat lo)) as [Hgap|Hok]; [discriminate|].
      assert (Hlo : (lo <= k)%nat) by lia.
      replace (((base + N.of_nat k + 18446744073709551616 - (base + 1 + N.of_nat lo))
                  mod 18446744073709551616 + 1) mod 18446744073709551616)
        with (N.of_nat (k - lo)) in Hs by lia.
      destruct (N.ltb_spec (N.of_nat (k - lo)) (N.of_nat m)) as [Hlt|Hge].
      + (* part of the batch is new *)
        rewrite Nat2N.id in Hs.
        assert (Hoff : (k - lo < m)%nat) by lia.
        assert (Hmax : Nat.max k (lo + m) = (lo + m)%nat) by lia.
        cbv zeta. rewrite Hmax.
        (* what is new is itself a numbered piece of the log, ending at index base+lo+m *)
        assert (Esk : skipn (k - lo) (e :: b')
                      = number_log (base + 1 + N.of_nat k) (skipn (k - lo) (q :: p2'))).
        { rewrite Eb. rewrite <- (firstn_skipn (k - lo) (q :: p2')) at 1. rewrite number_app.
          assert (Lf : List.length (firstn (k - lo) (q :: p2')) = (k - lo)%nat)
            by (rewrite firstn_length, Lp2; lia).
          rewrite Lf, skipn_app, number_length, Lf, skipn_all2 by (rewrite number_length, Lf; lia).
          replace (k - lo - (k - lo))%nat with 0%nat by lia. cbn [app skipn].
          f_equal. lia. }
        assert (Lsk : List.length (skipn (k - lo) (q :: p2')) = (m - (k - lo))%nat)
          by (rewrite skipn_length, Lp2; reflexivity).
        rewrite Esk in Hs.
        assert (Hne : skipn (k - lo) (q :: p2') <> []).
        { intros E. rewrite E in Lsk. cbn in Lsk. lia. }
        rewrite publish_nonempty in Hs.
        2:{ intros E. apply (f_equal (@List.length entry)) in E. rewrite number_length, Lsk in E. cbn in E. lia. }
        injection Hs as Ha Hn Hb. subst a' nents batch.
        rewrite number_last by exact Hne. rewrite Lsk.
        split; [lia|]. split; [|split; [reflexivity|lia]].
        (* firstn k L ++ skipn (k-lo) b = firstn (lo+m) L *)
        rewrite <- Esk, HL.
        rewrite (firstn_app k), (firstn_all2 (n := k) pre) by lia. rewrite <- Elo.
        rewrite (firstn_app (k - lo) (e :: b') post), <- Em.
        replace (k - lo - m)%nat with 0%nat by lia. cbn [firstn]. rewrite app_nil_r.
        rewrite <- app_assoc, firstn_skipn.
        rewrite (firstn_app (lo + m)), (firstn_all2 (n := (lo + m)%nat) pre) by lia. rewrite <- Elo.
        replace (lo + m - lo)%nat with m by lia.
        rewrite (firstn_app m (e :: b') post), <- Em.
        replace (m - m)%nat with 0%nat by lia. cbn [firstn]. rewrite app_nil_r.
        rewrite (firstn_all2 (n := m) (e :: b')) by lia. reflexivity.
      + (* the whole batch is old: nothing is applied again *)
        cbn in Hs. inversion Hs; subst a' nents batch. clear Hs.
        assert (Hmax : Nat.max k (lo + m) = k) by lia.
        cbv zeta. rewrite Hmax, app_nil_r. repeat split; auto.
  Qed.

  (* the node stops (log.Fatalf) exactly when the batch starts beyond appliedIndex + 1 *)
  Lemma ready_step_fatal_iff k pre b post :
    L = pre ++ b ++ post -> (k <= List.length pl)%nat ->
    (ready_step (base + N.of_nat k) b = None <-> b <> [] /\ (k < List.length pre)%nat).
  Proof.
    intros HL Hk.
    destruct (number_split _ _ _ _ _ HL) as (p1 & p2 & p3 & Epl & Epre & Eb & Lp1 & Lp2).
    assert (Hlen : List.length pl = (List.length pre + (List.length b + List.length post))%nat).
    { rewrite <- (number_length (base + 1) pl). fold L. rewrite HL, !app_length. reflexivity. }
    unfold ready_step, entries_to_apply.
    destruct b as [|e b'].
    - split; [discriminate|]. intros [H _]. congruence.
    - destruct p2 as [|q p2']; [cbn in Lp2; discriminate|].
      assert (Efirst : eidx e = base + 1 + N.of_nat (List.length pre)).
      { cbn [number_log] in Eb. inversion Eb. reflexivity. }
      rewrite Efirst. unfold add64, sub64, W64. unfold W64 in Hfit.
      cbn [List.length] in Hlen.
      destruct (N.ltb_spec ((base + N.of_nat k + 1) mod 18446744073709551616)
                           (base + 1 + N.of_nat (List.length pre))) as [Hgap|Hok].
      + split; [|reflexivity]. intros _. split; [discriminate|lia].
      + split.
        * destruct (_ <? _); destruct (publish_entries _ _); discriminate.
        * intros [_ H]. lia.
  Qed.
End Step.

(* ------------------------------------------------------------------ any sequence of Readys *)
Theorem ready_run_exact base pl :
  base + N.of_nat (List.length pl) + 1 < W64 ->
  forall batches k applied' done,
    (k <= List.length pl)%nat ->
    Forall (is_window (number_log (base + 1) pl)) batches ->
    ready_run (base + N.of_nat k) (firstn k (number_log (base + 1) pl)) batches = Some (applied', done) ->
    exists k', (k <= k' <= List.length pl)%nat /\ applied' = base + N.of_nat k' /\
               done = firstn k' (number_log (base + 1) pl).
Proof.
  intros Hfit. induction batches as [|b r IH]; intros k applied' done Hk Hw Hrun.
  - cbn in Hrun. inversion Hrun; subst. exists k. repeat split; auto.
  - inversion Hw as [|? ? (pre & post & HL) Hw']; subst.
    cbn [ready_run] in Hrun.
    destruct (ready_step (base + N.of_nat k) b) as [[[a' nents] batch]|] eqn:Hs; [|discriminate].
    destruct (ready_step_spec base pl Hfit k pre b post a' nents batch HL Hk Hs) as (Ea & Ed & _ & Hk').
    rewrite Ea, Ed in Hrun.
    match type of Hk' with (?K <= _)%nat => set (k1 := K) in * end.
    destruct (IH k1 applied' done Hk' Hw' Hrun) as (k' & Hr & Ha & Hd).
    exists k'. repeat split; auto; try lia.
    assert (k <= k1)%nat by (unfold k1; destruct b; lia). lia.
Qed.

(* the indices applied are base+1, base+2, ... : no gap, no repeat *)
Lemma number_indices f pl : map eidx (number_log f pl) = map (fun i => f + N.of_nat i) (seq 0 (List.length pl)).
Proof.
  revert f; induction pl as [|p r IH]; intros f; [reflexivity|].
  cbn [number_log map List.length seq eidx]. f_equal; [lia|].
  rewrite IH, <- seq_shift, map_map. apply map_ext. intros i. lia.
Qed.

Lemma firstn_number k f pl : firstn k (number_log f pl) = number_log f (firstn k pl).
Proof.
  revert f pl; induction k as [|k IH]; intros f [|p r]; cbn; try reflexivity. now rewrite IH.
Qed.

(* ------------------------------------------------------------------ replicas *)
Section Replicas.
  Variable step : db -> env -> list bytes -> reply * db.

  (* a command whose reply and effect do not depend on the node that executes it *)
  Definition det_at (d : db) (args : list bytes) : Prop :=
    forall e1 e2, step d e1 args = step d e2 args.

  Fixpoint det_prog (d : db) (cs : list (bytes * list bytes)) : Prop :=
    match cs with
    | [] => True
    | c :: r => det_at d (snd c) /\ det_prog (snd (step d (0%Z, 0%Z, RNil) (snd c))) r
    end.

  Lemma apply_cmds_det cb1 cb2 : forall cs d envs1 envs2,
      det_prog d cs ->
      List.length envs1 = List.length cs -> List.length envs2 = List.length cs ->
      snd (apply_cmds step cb1 d envs1 cs) = snd (apply_cmds step cb2 d envs2 cs) /\
      map dreply (fst (apply_cmds step cb1 d envs1 cs)) = map dreply (fst (apply_cmds step cb2 d envs2 cs)).
  Proof.
    induction cs as [|c r IH]; intros d envs1 envs2 Hd L1 L2.
    - destruct envs1, envs2; cbn; auto.
    - destruct envs1 as [|e1 er1]; [discriminate|]. destruct envs2 as [|e2 er2]; [discriminate|].
      destruct Hd as [Hc Hr]. cbn [apply_cmds]. unfold apply_cmd.
      rewrite (Hc e1 (0%Z, 0%Z, RNil)), (Hc e2 (0%Z, 0%Z, RNil)).
      destruct (step d (0%Z, 0%Z, RNil) (snd c)) as [rp d1] eqn:E. cbn [snd] in Hr.
      cbn in L1, L2.
      destruct (IH d1 er1 er2 Hr ltac:(lia) ltac:(lia)) as [I1 I2].
      destruct (apply_cmds step cb1 d1 er1 r) as [dl1 dA].
      destruct (apply_cmds step cb2 d1 er2 r) as [dl2 dB].
      cbn in *. split; congruence.
  Qed.

  (* ---- own reply ---- *)
  (* state before the i-th command, and its reply, in a run *)
  Fixpoint state_at (d : db) (envs : list env) (cs : list (bytes * list bytes)) (i : nat) : db :=
    match i, cs, envs with
    | S j, c :: cr, e :: er => state_at (snd (step d e (snd c))) er cr j
    | _, _, _ => d
    end.

  Lemma apply_cmds_nth cb : forall cs d envs i c e,
      List.length envs = List.length cs ->
      nth_error cs i = Some c -> nth_error envs i = Some e ->
      nth_error (fst (apply_cmds step cb d envs cs)) i =
      Some (mkDel (alookup (fst c) cb) (fst c) (fst (step (state_at d envs cs i) e (snd c)))).
  Proof.
    induction cs as [|c0 r IH]; intros d envs i c e HL Hc He.
    - destruct i; discriminate.
    - destruct envs as [|e0 er]; [discriminate|].
      cbn [apply_cmds]. unfold apply_cmd.
      destruct (step d e0 (snd c0)) as [rp d1] eqn:E.
      destruct (apply_cmds step cb d1 er r) as [dls d2] eqn:E2.
      destruct i as [|j].
      + cbn in Hc, He. inversion Hc; inversion He; subst. cbn. now rewrite E.
      + cbn in Hc, He. cbn [fst nth_error state_at]. rewrite E. cbn [snd].
        specialize (IH d1 er j c e ltac:(cbn in HL; lia) Hc He). now rewrite E2 in IH.
  Qed.
End Replicas.

(* unique registration: first-match lookup finds the connection that registered the id *)
Lemma alookup_nodup {A} (l : list (bytes * A)) id c :
  NoDup (map fst l) -> In (id, c) l -> alookup id l = Some c.
Proof.
  induction l as [|[k v] r IH]; intros Hnd Hin; [destruct Hin|].
  cbn. inversion Hnd as [|? ? Hnot Hnd']; subst.
  destruct Hin as [E|Hin].
  - inversion E; subst. now rewrite bytes_eqb_refl.
  - destruct (bytes_eqb_spec id k) as [->|Hne].
    + exfalso. apply Hnot. apply in_map_iff. exists (k, c). split; auto.
    + apply IH; auto.
Qed.

(* ------------------------------------------------------------------ linearizability *)
(* Timeline of one operation o (a client command in cluster mode):
     inv o   the connection has read the command            (HandleCluster: ParseStream)
     prop o  the proposal is handed to Raft                 (proposeC <- proposal, Node.Propose)
     com o   the entry is committed at log index idx o      (Raft)
     app o   the proposing node's apply loop executes it    (handleClusterCommits: ExecCommand)
     resp o  the reply is written to the connection         (callback channel, conn.Write)
   Facts about the order of these events that come from the code are the code_* hypotheses
   (each names the lines it summarises); raft_order is the imported property of Raft (C15). *)
Section Linearizable.
  Variable op : Type.
  Variables inv prop com app resp : op -> nat.
  Variable idx : op -> N.

  (* HandleCluster builds and sends the proposal after it has read the command *)
  Hypothesis code_propose_after_invoke : forall o, (inv o <= prop o)%nat.
  (* publishEntries is only given rd.CommittedEntries *)
  Hypothesis code_apply_after_commit : forall o, (com o <= app o)%nat.
  (* handleClusterCommits sends the result to the callback after ExecCommand returned;
     HandleCluster writes to the connection after receiving it *)
  Hypothesis code_reply_after_apply : forall o, (app o <= resp o)%nat.
  (* C15 (log matching + leader completeness): an entry proposed after another entry was
     committed is placed behind it in the one committed log *)
  Hypothesis raft_order : forall a b, (com a < prop b)%nat -> idx a < idx b.

  Theorem log_order_respects_real_time : forall a b, (resp a < inv b)%nat -> idx a < idx b.
  Proof.
    intros a b H. apply raft_order.
    pose proof (code_apply_after_commit a). pose proof (code_reply_after_apply a).
    pose proof (code_propose_after_invoke b). lia.
  Qed.
End Linearizable.

(* ------------------------------------------------------------------ statements for Properties/C07.v *)
Theorem exactly_once_in_order base pl batches applied' done :
  base + N.of_nat (List.length pl) + 1 < W64 ->
  Forall (is_window (number_log (base + 1) pl)) batches ->
  ready_run base [] batches = Some (applied', done) ->
  exists k, (k <= List.length pl)%nat /\ applied' = base + N.of_nat k /\
            done = firstn k (number_log (base + 1) pl) /\
            map eidx done = map (fun i => base + 1 + N.of_nat i) (seq 0 k).
Proof.
  intros Hfit Hw Hrun.
  assert (E0 : base = base + N.of_nat 0) by lia.
  rewrite E0 in Hrun at 1.
  change (@nil entry) with (firstn 0 (number_log (base + 1) pl)) in Hrun.
  destruct (ready_run_exact base pl Hfit batches 0%nat applied' done ltac:(lia) Hw Hrun)
    as (k & Hk & Ha & Hd).
  exists k. repeat split; auto; try lia.
  rewrite Hd, firstn_number, number_indices, firstn_length. f_equal. f_equal. lia.
Qed.

Theorem stops_only_on_gap base pl k pre b post :
  base + N.of_nat (List.length pl) + 1 < W64 ->
  number_log (base + 1) pl = pre ++ b ++ post -> (k <= List.length pl)%nat ->
  (ready_step (base + N.of_nat k) b = None <-> b <> [] /\ (k < List.length pre)%nat).
Proof. intros Hfit. apply ready_step_fatal_iff. exact Hfit. Qed.

(* two nodes that applied the same entries hold the same keyspace (and computed the same replies),
   whatever their clocks and random choices, when the commands are deterministic *)
Theorem replicas_agree d0 ents envs1 envs2 :
  det_prog exec_step d0 (cmds_of ents) ->
  List.length envs1 = List.length (cmds_of ents) -> List.length envs2 = List.length (cmds_of ents) ->
  keyspace_after d0 envs1 ents = keyspace_after d0 envs2 ents.
Proof.
  intros Hd L1 L2. unfold keyspace_after.
  exact (proj1 (apply_cmds_det exec_step [] [] (cmds_of ents) d0 envs1 envs2 Hd L1 L2)).
Qed.

(* ... and not otherwise: a relative expiry is evaluated against the clock of the node that applies
   the entry.  Log: SET k v EX 1; GET k.  Node A applies them at 100 s and 102 s, node B (a
   restarted or lagging replica) applies both at 102 s: A answers nil, B answers v, and the
   keyspaces differ. *)
Definition w_ttl_log : list entry :=
  number_log 1 [PCmd (B "a") [B "SET"; B "k"; B "v"; B "EX"; B "1"]; PCmd (B "b") [B "GET"; B "k"]].
Definition w_envs_a : list env := [(100, 100000, RNil); (102, 102000, RNil)]%Z.
Definition w_envs_b : list env := [(102, 102000, RNil); (102, 102000, RNil)]%Z.

Theorem replicas_disagree_ttl :
  keyspace_after empty_db w_envs_a w_ttl_log <> keyspace_after empty_db w_envs_b w_ttl_log /\
  map dreply (fst (apply_cmds exec_step [] empty_db w_envs_a (cmds_of w_ttl_log))) <>
  map dreply (fst (apply_cmds exec_step [] empty_db w_envs_b (cmds_of w_ttl_log))).
Proof. split; vm_compute; discriminate. Qed.

Theorem own_reply (step : db -> env -> list bytes -> reply * db) cb cs d envs i id args e c :
  NoDup (map fst cb) -> In (id, c) cb ->
  List.length envs = List.length cs ->
  nth_error cs i = Some (id, args) -> nth_error envs i = Some e ->
  nth_error (fst (apply_cmds step cb d envs cs)) i =
  Some (mkDel (Some c) id (fst (step (state_at step d envs cs i) e args))).
Proof.
  intros Hnd Hin HL Hc He.
  rewrite (apply_cmds_nth step cb cs d envs i (id, args) e HL Hc He). cbn [fst snd].
  now rewrite (alookup_nodup cb id c Hnd Hin).
Qed.

(* a reply for an id nobody on this node waits for (entry proposed elsewhere, or replayed after
   a restart) is delivered to no connection *)
Lemma foreign_reply (step : db -> env -> list bytes -> reply * db) cb cs d envs i id args e :
  ~ In id (map fst cb) ->
  List.length envs = List.length cs ->
  nth_error cs i = Some (id, args) -> nth_error envs i = Some e ->
  exists r, nth_error (fst (apply_cmds step cb d envs cs)) i = Some (mkDel None id r).
Proof.
  intros Hnot HL Hc He.
  rewrite (apply_cmds_nth step cb cs d envs i (id, args) e HL Hc He). cbn [fst snd].
  assert (alookup id cb = None) as ->.
  { induction cb as [|[k v] r IH]; [reflexivity|]. cbn.
    destruct (bytes_eqb_spec id k) as [->|Hne].
    - exfalso. apply Hnot. left. reflexivity.
    - apply IH. intros H. apply Hnot. right. exact H. }
  eexists. reflexivity.
Qed.

(* non-vacuity of det_prog: a program of plain writes and reads on a keyspace without deadlines *)
Example det_example :
  det_prog exec_step empty_db
           [(B "1", [B "SET"; B "k"; B "hello world"]); (B "2", [B "RPUSH"; B "l"; B "a"; B ""]);
            (B "3", [B "GET"; B "k"]); (B "4", [B "LRANGE"; B "l"; B "0"; B "-1"]); (B "5", [B "INCR"; B "n"])].
Proof.
  cbn [det_prog snd]. repeat split; intros [[n1 m1] h1] [[n2 m2] h2]; vm_compute; reflexivity.
Qed.

(* ------------------------------------------------------------------ one log entry per command *)
(* how often the apply loop executes something under the proposal id [id] *)
Definition executions (id : bytes) (cs : list (bytes * list bytes)) : nat :=
  List.length (filter (fun c => bytes_eqb (fst c) id) cs).

(* C07_exactly_once_in_order says every log ENTRY is applied once.  That a COMMAND takes effect once
   needs in addition that it is one entry: the proposal ids in the committed log are pairwise
   different (a proposal is handed to Raft once, however slow its commit is). *)
Theorem one_entry_per_ack cs id args :
  NoDup (map fst cs) -> In (id, args) cs -> executions id cs = 1%nat.
Proof.
  unfold executions. induction cs as [|[k a] r IH]; intros Hnd Hin; [destruct Hin|].
  cbn [map fst] in Hnd. inversion Hnd as [|? ? Hnot Hnd']; subst.
  cbn [filter fst]. destruct Hin as [E|Hin].
  - inversion E; subst. rewrite bytes_eqb_refl. cbn [List.length]. f_equal.
    assert (filter (fun c => bytes_eqb (fst c) id) r = []) as ->; [|reflexivity].
    clear IH Hnd Hnd'. induction r as [|[k2 a2] r IHr]; [reflexivity|].
    cbn [filter fst]. destruct (bytes_eqb_spec k2 id) as [->|Hne].
    + exfalso. apply Hnot. left. reflexivity.
    + apply IHr. intros H. apply Hnot. right. exact H.
  - destruct (bytes_eqb_spec k id) as [->|Hne].
    + exfalso. apply Hnot. apply in_map_iff. exists (id, args). split; auto.
    + apply IH; assumption.
Qed.

(* ... and the premise is needed: a proposal that is in the log twice is executed twice by every
   node, while its client is answered once (with the first result) *)
Definition w_dup_log : list entry :=
  number_log 1 [PCmd (B "p1") [B "INCR"; B "n"]; PCmd (B "p1") [B "INCR"; B "n"]].
Example duplicated_entry_applied_twice :
  executions (B "p1") (cmds_of w_dup_log) = 2%nat /\
  db_get (keyspace_after empty_db [(0, 0, RNil); (0, 0, RNil)]%Z w_dup_log) (B "n") = Some (VStr (B "2")) /\
  map dreply (fst (apply_cmds exec_step [(B "p1", 7%Z)] empty_db [(0, 0, RNil); (0, 0, RNil)]%Z (cmds_of w_dup_log)))
  = [RInt 1; RInt 2].
Proof. repeat split; vm_compute; reflexivity. Qed.

(* ------------------------------------------------------------------ replies are routed by (origin node, id) *)
Lemma apply_cmds_did (step : db -> env -> list bytes -> reply * db) cb : forall cs d envs j dl,
    nth_error (fst (apply_cmds step cb d envs cs)) j = Some dl ->
    exists cj, nth_error cs j = Some cj /\ did dl = fst cj.
Proof.
  induction cs as [|c0 r IH]; intros d envs j dl H.
  - destruct envs; destruct j; discriminate.
  - destruct envs as [|e0 er]; [destruct j; discriminate|].
    cbn [apply_cmds] in H. unfold apply_cmd in H.
    destruct (step d e0 (snd c0)) as [rp d1].
    destruct (apply_cmds step cb d1 er r) as [dls d2] eqn:E2.
    destruct j as [|j]; cbn in H.
    + inversion H; subst. exists c0. split; reflexivity.
    + specialize (IH d1 er j dl). rewrite E2 in IH. cbn in IH. destruct (IH H) as (cj & Hc & Hd).
      exists cj. split; assumption.
Qed.

(* One log, many nodes.  [cb] is the callback table of ONE node (the origin of the proposal named
   [id]); [cs] are the commands of the shared log, proposed on any node.  With ids that are unique in
   the whole log -- across nodes, not only per node -- the connection registered under [id] is
   answered by its own entry and by no other: an entry proposed elsewhere carries another id. *)
Theorem reply_routed_by_origin (step : db -> env -> list bytes -> reply * db) cb cs d envs i id args e c :
  NoDup (map fst cs) -> NoDup (map fst cb) -> In (id, c) cb ->
  List.length envs = List.length cs ->
  nth_error cs i = Some (id, args) -> nth_error envs i = Some e ->
  nth_error (fst (apply_cmds step cb d envs cs)) i =
    Some (mkDel (Some c) id (fst (step (state_at step d envs cs i) e args))) /\
  (forall j dl, j <> i -> nth_error (fst (apply_cmds step cb d envs cs)) j = Some dl -> did dl <> id).
Proof.
  intros Hlog Hcb Hin HL Hi He. split.
  - exact (own_reply step cb cs d envs i id args e c Hcb Hin HL Hi He).
  - intros j dl Hne Hj Hid.
    destruct (apply_cmds_did step cb cs d envs j dl Hj) as (cj & Hcj & Hd).
    assert (Ei : nth_error (map fst cs) i = Some id) by (rewrite nth_error_map, Hi; reflexivity).
    assert (Ej : nth_error (map fst cs) j = Some id) by (rewrite nth_error_map, Hcj; cbn; congruence).
    apply Hne. symmetry.
    apply (proj1 (NoDup_nth_error (map fst cs)) Hlog i j).
    + apply nth_error_Some. rewrite Ei. discriminate.
    + congruence.
Qed.

(* without global uniqueness: two nodes number their proposals 1, 2, ...; node A's waiter for its
   "1" is handed the result of node B's "1" that precedes it in the log *)
Example per_node_counter_misroutes :
  let cs := [(B "1", [B "PING"]); (B "1", [B "INCR"; B "n"])] in     (* B's entry, then A's *)
  let cbA := [(B "1", 7%Z)] in                                        (* A's connection 7 sent INCR n *)
  map (fun dl => (dconn dl, dreply dl)) (fst (apply_cmds exec_step cbA empty_db [(0, 0, RNil); (0, 0, RNil)]%Z cs))
  = [(Some 7%Z, RSimple (B "PONG")); (Some 7%Z, RInt 1)].
Proof. vm_compute. reflexivity. Qed.

(* ------------------------------------------------------------------ late results *)
Lemma alookup_some_in {A} (l : list (bytes * A)) id v : alookup id l = Some v -> In (id, v) l.
Proof.
  induction l as [|[k a] r IH]; [discriminate|]. cbn.
  destruct (bytes_eqb_spec id k) as [->|Hne]; intros H.
  - inversion H; subst. left. reflexivity.
  - right. apply IH. exact H.
Qed.

Lemma apply_cmds_dconn (step : db -> env -> list bytes -> reply * db) cb : forall cs d envs j dl,
    nth_error (fst (apply_cmds step cb d envs cs)) j = Some dl -> dconn dl = alookup (did dl) cb.
Proof.
  induction cs as [|c0 r IH]; intros d envs j dl H.
  - destruct envs; destruct j; discriminate.
  - destruct envs as [|e0 er]; [destruct j; discriminate|].
    cbn [apply_cmds] in H. unfold apply_cmd in H.
    destruct (step d e0 (snd c0)) as [rp d1].
    destruct (apply_cmds step cb d1 er r) as [dls d2] eqn:E2.
    destruct j as [|j]; cbn in H.
    + inversion H; subst. reflexivity.
    + specialize (IH d1 er j dl). rewrite E2 in IH. exact (IH H).
Qed.

(* A connection [c] gave up on its proposal [i] (time-out: the registration under [i] is gone) and now
   waits for its next proposal [i'] -- its only registration.  Whenever the entry of [i] is applied, its
   result is delivered to nobody; and everything that is ever delivered to [c] is the result of [i'].
   So a late result never answers a later command.  (This is what delivery by table lookup under the
   entry's id gives -- [foreign_reply] + unique ids; it is C14_reply_routed_by_origin seen from the
   waiter that re-registers.  The implementation facts it stands on: one registration per waiting
   connection, removed BEFORE the connection does anything else, and a result channel that belongs to
   ONE proposal.) *)
Theorem late_result_never_answers_later_command
        (step : db -> env -> list bytes -> reply * db) cb cs d envs j i i' args e c :
  ~ In i (map fst cb) -> (forall id, In (id, c) cb -> id = i') ->
  List.length envs = List.length cs ->
  nth_error cs j = Some (i, args) -> nth_error envs j = Some e ->
  (exists r, nth_error (fst (apply_cmds step cb d envs cs)) j = Some (mkDel None i r)) /\
  (forall k dl, nth_error (fst (apply_cmds step cb d envs cs)) k = Some dl -> dconn dl = Some c -> did dl = i').
Proof.
  intros Hgone Honly HL Hj He. split.
  - exact (foreign_reply step cb cs d envs j i args e Hgone HL Hj He).
  - intros k dl Hk Hc.
    rewrite (apply_cmds_dconn step cb cs d envs k dl Hk) in Hc.
    apply Honly. apply alookup_some_in. exact Hc.
Qed.

(* with a registration that outlives the give-up (removed only after the reply was written) and one
   channel per connection, the late result of "i" is handed to the connection while it waits for "i2" *)
Example stale_registration_answers_next_command :
  let cs := [(B "i", [B "RPUSH"; B "l"; B "late"]); (B "i2", [B "STRLEN"; B "s"])] in
  let cb := [(B "i", 7%Z); (B "i2", 7%Z)] in
  map (fun dl => (dconn dl, did dl, dreply dl)) (fst (apply_cmds exec_step cb empty_db [(0, 0, RNil); (0, 0, RNil)]%Z cs))
  = [(Some 7%Z, B "i", RInt 1); (Some 7%Z, B "i2", RInt 0)].
Proof. vm_compute. reflexivity. Qed.
