(* C14 -- the path a client command takes through a cluster node, from the connection to the
   executor (server/db_manager.go HandleCluster, raftexample/raft.go RaftProposal.ToBytes and
   publishEntries, server/server.go handleClusterCommits), as executable functions.

   Two encodings are modelled:
   * [pinned_*]  -- what the pinned commit did: arguments joined with spaces into a Go string,
     the string JSON-encoded (encoding/json replaces every byte that is not part of a valid
     UTF-8 sequence by U+FFFD), decoded, split on spaces.  Kept for the refutation theorem.
   * [encode_proposal]/[decode_proposal] -- the repaired code: the proposal holds the [][]byte
     argument vector; encoding/json writes a []byte as a base64 (StdEncoding, padded) JSON
     string.  Both directions are modelled concretely (no hypothesis about encoding/json). *)
Require Import Base.Bytes Base.GoInt Base.Reply Mem.Types Mem.Exec.
Local Open Scope N_scope.

(* ------------------------------------------------------------------ pinned encoding *)
Definition bSP : byte := " "%byte.

(* strings.Join(args, " ") *)
Fixpoint join_sp (l : list bytes) : bytes :=
  match l with
  | [] => []
  | [a] => a
  | a :: r => a ++ bSP :: join_sp r
  end.

(* strings.Split(s, " "): never empty, "" -> [""] *)
Fixpoint split_sp_aux (cur : bytes) (s : bytes) : list bytes :=
  match s with
  | [] => [rev cur]
  | c :: r => if beqb c bSP then rev cur :: split_sp_aux [] r else split_sp_aux (c :: cur) r
  end.
Definition split_sp (s : bytes) : list bytes := split_sp_aux [] s.

(* What a Go string looks like after json.Marshal + json.Unmarshal: the encoder walks the string
   with utf8.DecodeRuneInString; where that returns (RuneError, 1) it writes the escape of U+FFFD and advances
   ONE byte; everything else (escapes included) is restored by the decoder.  U+FFFD = EF BF BD. *)
Definition fffd : bytes := ["239"; "191"; "189"]%byte.
Definition in_rng (lo hi : N) (c : byte) : bool := (lo <=? bval c) && (bval c <=? hi).
Definition is_cont (c : byte) : bool := in_rng 128 191 c.

(* second-byte range of a 3- or 4-byte sequence, by lead byte (unicode/utf8 acceptRanges) *)
Definition second_ok (lead c2 : byte) : bool :=
  let v := bval lead in
  if v =? 224 then in_rng 160 191 c2            (* E0 *)
  else if v =? 237 then in_rng 128 159 c2       (* ED *)
  else if v =? 240 then in_rng 144 191 c2       (* F0 *)
  else if v =? 244 then in_rng 128 143 c2       (* F4 *)
  else is_cont c2.

Fixpoint utf8_sanitize (s : bytes) : bytes :=
  match s with
  | [] => []
  | c :: r =>
    let v := bval c in
    if v <? 128 then c :: utf8_sanitize r
    else if in_rng 194 223 c then
      match r with
      | c2 :: r2 => if is_cont c2 then c :: c2 :: utf8_sanitize r2 else fffd ++ utf8_sanitize r
      | [] => fffd
      end
    else if in_rng 224 239 c then
      match r with
      | c2 :: c3 :: r3 =>
        if second_ok c c2 && is_cont c3 then c :: c2 :: c3 :: utf8_sanitize r3
        else fffd ++ utf8_sanitize r
      | _ => fffd ++ utf8_sanitize r
      end
    else if in_rng 240 244 c then
      match r with
      | c2 :: c3 :: c4 :: r4 =>
        if second_ok c c2 && is_cont c3 && is_cont c4 then c :: c2 :: c3 :: c4 :: utf8_sanitize r4
        else fffd ++ utf8_sanitize r
      | _ => fffd ++ utf8_sanitize r
      end
    else fffd ++ utf8_sanitize r
  end.

(* HandleCluster -> ToBytes -> publishEntries -> ExecStrCommand at the pinned commit *)
Definition pinned_roundtrip (args : list bytes) : list bytes :=
  split_sp (utf8_sanitize (join_sp args)).

(* ------------------------------------------------------------------ base64 (StdEncoding) *)
Definition b64_alphabet : bytes :=
  B "ABCDEFGHIJKLMNOPQRSTUVWXYZabcdefghijklmnopqrstuvwxyz0123456789+/".
Definition bPAD : byte := "="%byte.
Definition b64_char (n : N) : byte := nth (N.to_nat n) b64_alphabet bPAD.
Definition b64_val (c : byte) : option N :=
  let v := bval c in
  if (65 <=? v) && (v <=? 90) then Some (v - 65)
  else if (97 <=? v) && (v <=? 122) then Some (v - 71)
  else if (48 <=? v) && (v <=? 57) then Some (v + 4)
  else if v =? 43 then Some 62
  else if v =? 47 then Some 63
  else None.

Definition byte_of (n : N) : byte := match Byte.of_N n with Some b => b | None => "000"%byte end.

Fixpoint b64_encode (l : bytes) : bytes :=
  match l with
  | [] => []
  | [a] =>
    [b64_char (bval a / 4); b64_char ((bval a mod 4) * 16); bPAD; bPAD]
  | [a; b] =>
    [b64_char (bval a / 4); b64_char ((bval a mod 4) * 16 + bval b / 16);
     b64_char ((bval b mod 16) * 4); bPAD]
  | a :: b :: c :: r =>
    b64_char (bval a / 4) :: b64_char ((bval a mod 4) * 16 + bval b / 16)
    :: b64_char ((bval b mod 16) * 4 + bval c / 64) :: b64_char (bval c mod 64)
    :: b64_encode r
  end.

Fixpoint b64_decode (s : bytes) : option bytes :=
  match s with
  | [] => Some []
  | c1 :: c2 :: c3 :: c4 :: r =>
    match b64_val c1, b64_val c2 with
    | Some v1, Some v2 =>
      let x := byte_of (v1 * 4 + v2 / 16) in
      if beqb c3 bPAD then
        if beqb c4 bPAD then match r with [] => Some [x] | _ => None end else None
      else
        match b64_val c3 with
        | Some v3 =>
          let y := byte_of ((v2 mod 16) * 16 + v3 / 4) in
          if beqb c4 bPAD then match r with [] => Some [x; y] | _ => None end
          else
            match b64_val c4 with
            | Some v4 =>
              let z := byte_of ((v3 mod 4) * 64 + v4) in
              match b64_decode r with
              | Some t => Some (x :: y :: z :: t)
              | None => None
              end
            | None => None
            end
        | None => None
        end
    | _, _ => None
    end
  | _ => None
  end.

(* ------------------------------------------------------------------ the JSON object *)
Definition bQ : byte := """"%byte.
Definition bCOMMA : byte := ","%byte.
Definition bRBR : byte := "]"%byte.

(* a []byte element: "<base64>" *)
Definition enc_arg (a : bytes) : bytes := bQ :: b64_encode a ++ [bQ].
Fixpoint enc_args (l : list bytes) : bytes :=
  match l with
  | [] => []
  | [a] => enc_arg a
  | a :: r => enc_arg a ++ bCOMMA :: enc_args r
  end.

Definition pre_data : bytes := B "{""Data"":[".
Definition mid_id : bytes := B ",""ID"":""".
Definition post_id : bytes := B """}".

(* json.Marshal(&RaftProposal{Data: args, ID: id}); [id] is a UUID: it needs no escaping
   (see [id_plain]) *)
Definition encode_proposal (args : list bytes) (id : bytes) : bytes :=
  pre_data ++ enc_args args ++ bRBR :: mid_id ++ id ++ post_id.

(* characters encoding/json writes unchanged inside a string: printable ASCII except the quote,
   the backslash and the three HTML characters it escapes by default *)
Definition plain_char (c : byte) : bool :=
  in_rng 32 126 c && negb (beqb c bQ) && negb (beqb c "\"%byte)
  && negb (beqb c "<"%byte) && negb (beqb c ">"%byte) && negb (beqb c "&"%byte).
Definition id_plain (id : bytes) : bool := forallb plain_char id.

Fixpoint strip_prefix (p s : bytes) : option bytes :=
  match p, s with
  | [], _ => Some s
  | x :: p', y :: s' => if beqb x y then strip_prefix p' s' else None
  | _ :: _, [] => None
  end.

(* up to the closing quote *)
Fixpoint until_quote (s : bytes) : option (bytes * bytes) :=
  match s with
  | [] => None
  | c :: r =>
    if beqb c bQ then Some ([], r)
    else match until_quote r with
         | Some (a, rest) => Some (c :: a, rest)
         | None => None
         end
  end.

(* the elements of a non-empty array, up to and including the closing bracket *)
Fixpoint dec_elems (fuel : nat) (s : bytes) : option (list bytes * bytes) :=
  match fuel with
  | O => None
  | S f =>
    match s with
    | c :: r =>
      if beqb c bQ then
        match until_quote r with
        | Some (b, rest) =>
          match b64_decode b with
          | Some a =>
            match rest with
            | d :: rest' =>
              if beqb d bCOMMA then
                match dec_elems f rest' with
                | Some (l, t) => Some (a :: l, t)
                | None => None
                end
              else if beqb d bRBR then Some ([a], rest')
              else None
            | [] => None
            end
          | None => None
          end
        | None => None
        end
      else None
    | [] => None
    end
  end.

Definition dec_array (s : bytes) : option (list bytes * bytes) :=
  match s with
  | c :: r => if beqb c bRBR then Some ([], r) else dec_elems (List.length s) s
  | [] => None
  end.

(* json.Unmarshal(entry.Data, &RaftProposal{}) on the image of the encoder; None = the
   panic(err) of publishEntries.  (encoding/json accepts more -- white space, other key orders --
   none of which the encoder produces; the log only ever holds encoder output.) *)
Definition decode_proposal (s : bytes) : option (list bytes * bytes) :=
  match strip_prefix pre_data s with
  | Some s1 =>
    match dec_array s1 with
    | Some (args, s2) =>
      match strip_prefix mid_id s2 with
      | Some s3 =>
        match until_quote s3 with
        | Some (id, s4) =>
          match s4 with
          | [c] => if beqb c "}"%byte then Some (args, id) else None
          | _ => None
          end
        | None => None
        end
      | None => None
      end
    | None => None
    end
  | None => None
  end.

(* ------------------------------------------------------------------ the request path *)
(* server/cmd_middleware.go ClusterCmdFilter: pub/sub is refused in cluster mode; every other
   command is handed on unchanged (the same slice) *)
Definition cluster_filter (args : list bytes) : option (list bytes) :=
  match args with
  | [] => Some args
  | name :: _ =>
    if is (lower name) (B "publish") || is (lower name) (B "subscribe") then None else Some args
  end.

Definition is_rconf (args : list bytes) : bool :=
  match args with
  | name :: _ => is (lower name) (B "rconf")
  | [] => false
  end.

Inductive route :=
| Refused                          (* "-command does not pass checks" *)
| Local (args : list bytes)        (* rconf: executed on the node, not replicated *)
| Proposed (entry : bytes).        (* payload of the log entry *)

Definition handle_cluster (args : list bytes) (id : bytes) : route :=
  match cluster_filter args with
  | None => Refused
  | Some a => if is_rconf a then Local a else Proposed (encode_proposal a id)
  end.

(* publishEntries + handleClusterCommits for one normal entry: decode, execute on the node's
   keyspace; the reply goes to the callback registered under the decoded id.
   None = publishEntries panics on an entry it cannot decode. *)
Definition apply_entry (d : db) (now nowms : Z) (entry : bytes) (hint : reply)
  : option (bytes * (reply * db)) :=
  match decode_proposal entry with
  | Some (args, id) => Some (id, exec d now nowms args hint)
  | None => None
  end.

(* what the client of a cluster node receives and the keyspace afterwards; None = refused by the
   filter.  (The entry is applied by every replica in the same way -- C07.) *)
Inductive cluster_result :=
| CRefused
| CPanic
| CDone (r : reply) (d : db).

Definition cluster_exec (d : db) (now nowms : Z) (args : list bytes) (id : bytes) (hint : reply)
  : cluster_result :=
  match handle_cluster args id with
  | Refused => CRefused
  | Local a => let '(r, d') := exec d now nowms a hint in CDone r d'
  | Proposed e =>
    match apply_entry d now nowms e hint with
    | Some (_, (r, d')) => CDone r d'
    | None => CPanic
    end
  end.

(* the same with the pinned encoding (ExecStrCommand on the split string) *)
Definition pinned_cluster_exec (d : db) (now nowms : Z) (args : list bytes) (hint : reply)
  : reply * db :=
  exec d now nowms (pinned_roundtrip args) hint.
