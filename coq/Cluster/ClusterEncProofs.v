(* C14 -- proofs about the proposal encoding (Cluster/ClusterEnc.v). *)
Require Import Base.Bytes Base.GoInt Base.Reply Mem.Types Mem.Exec Cluster.ClusterEnc.
Local Open Scope N_scope.

Ltac Zify.zify_post_hook ::= Z.to_euclidean_division_equations.

(* ------------------------------------------------------------------ pinned encoding: refuted *)
Definition w_space : list bytes := [B "SET"; B "k"; B "hello world"].
Definition w_nonutf8 : list bytes := [B "SET"; B "b"; ["255"; "254"]%byte].

Lemma pinned_space_witness :
  pinned_roundtrip w_space = [B "SET"; B "k"; B "hello"; B "world"].
Proof. vm_compute. reflexivity. Qed.

Lemma pinned_nonutf8_witness :
  pinned_roundtrip w_nonutf8 = [B "SET"; B "b"; ["239"; "191"; "189"; "239"; "191"; "189"]%byte].
Proof. vm_compute. reflexivity. Qed.

Lemma pinned_not_transparent :
  (exists args, Forall (fun a => ~ In bSP a) args /\ pinned_roundtrip args <> args) /\
  (exists args, Forall (fun a => utf8_sanitize a = a) args /\ pinned_roundtrip args <> args).
Proof.
  split.
  - exists w_nonutf8. split.
    + repeat constructor; vm_compute; intuition discriminate.
    + rewrite pinned_nonutf8_witness. vm_compute. discriminate.
  - exists w_space. split.
    + repeat constructor.
    + rewrite pinned_space_witness. vm_compute. discriminate.
Qed.

(* the observable consequence on an empty keyspace: the SET is applied with a different value
   vector (an option error instead of OK; a different stored value) *)
Lemma pinned_changes_meaning :
  exists args, forall now nowms hint,
      pinned_cluster_exec empty_db now nowms args hint <> exec empty_db now nowms args hint.
Proof.
  exists w_nonutf8. intros now nowms hint. unfold pinned_cluster_exec.
  rewrite pinned_nonutf8_witness. vm_compute. discriminate.
Qed.

(* ------------------------------------------------------------------ base64 *)
Definition all64 : list N := map N.of_nat (seq 0 64).

Lemma in_all64 n : n < 64 -> In n all64.
Proof.
  intros H. unfold all64. apply in_map_iff. exists (N.to_nat n). split.
  - apply N2Nat.id.
  - apply in_seq. lia.
Qed.

Definition char_ok (n : N) : bool :=
  match b64_val (b64_char n) with Some m => N.eqb m n | None => false end
  && negb (beqb (b64_char n) bPAD) && negb (beqb (b64_char n) bQ).

Lemma all64_ok : forallb char_ok all64 = true.
Proof. vm_compute. reflexivity. Qed.

Lemma char_ok_lt n : n < 64 -> char_ok n = true.
Proof. intros H. exact (proj1 (forallb_forall _ _) all64_ok n (in_all64 n H)). Qed.

Lemma b64_val_char n : n < 64 -> b64_val (b64_char n) = Some n.
Proof.
  intros H. pose proof (char_ok_lt n H) as K. unfold char_ok in K.
  apply andb_true_iff in K as [K _]. apply andb_true_iff in K as [K _].
  destruct (b64_val (b64_char n)) as [m|]; [|discriminate].
  apply N.eqb_eq in K. congruence.
Qed.
Lemma b64_char_not_pad n : n < 64 -> beqb (b64_char n) bPAD = false.
Proof.
  intros H. pose proof (char_ok_lt n H) as K. unfold char_ok in K.
  apply andb_true_iff in K as [K _]. apply andb_true_iff in K as [_ K].
  now apply negb_true_iff in K.
Qed.
Lemma b64_char_not_quote n : n < 64 -> b64_char n <> bQ.
Proof.
  intros H. pose proof (char_ok_lt n H) as K. unfold char_ok in K.
  apply andb_true_iff in K as [_ K]. apply negb_true_iff in K. now apply beqb_neq in K.
Qed.

Lemma byte_of_bval a : byte_of (bval a) = a.
Proof. unfold byte_of, bval. now rewrite Byte.of_to_N. Qed.

Lemma list_ind3 {A} (P : list A -> Prop) :
  P [] -> (forall a, P [a]) -> (forall a b, P [a; b]) ->
  (forall a b c r, P r -> P (a :: b :: c :: r)) -> forall l, P l.
Proof.
  intros H0 H1 H2 H3. fix IH 1.
  intros [|a [|b [|c r]]]; [exact H0|apply H1|apply H2|apply H3; apply IH].
Qed.

Lemma b64_decode_quad v1 v2 v3 v4 r :
  v1 < 64 -> v2 < 64 -> v3 < 64 -> v4 < 64 ->
  b64_decode (b64_char v1 :: b64_char v2 :: b64_char v3 :: b64_char v4 :: r) =
  match b64_decode r with
  | Some t => Some (byte_of (v1 * 4 + v2 / 16) :: byte_of ((v2 mod 16) * 16 + v3 / 4)
                    :: byte_of ((v3 mod 4) * 64 + v4) :: t)
  | None => None
  end.
Proof.
  intros L1 L2 L3 L4. cbn [b64_decode].
  rewrite (b64_val_char v1 L1), (b64_val_char v2 L2), (b64_val_char v3 L3), (b64_val_char v4 L4).
  rewrite (b64_char_not_pad v3 L3), (b64_char_not_pad v4 L4). reflexivity.
Qed.

Lemma b64_decode_pad2 v1 v2 :
  v1 < 64 -> v2 < 64 ->
  b64_decode [b64_char v1; b64_char v2; bPAD; bPAD] = Some [byte_of (v1 * 4 + v2 / 16)].
Proof.
  intros L1 L2. cbn [b64_decode].
  rewrite (b64_val_char v1 L1), (b64_val_char v2 L2), beqb_refl. reflexivity.
Qed.

Lemma b64_decode_pad1 v1 v2 v3 :
  v1 < 64 -> v2 < 64 -> v3 < 64 ->
  b64_decode [b64_char v1; b64_char v2; b64_char v3; bPAD] =
  Some [byte_of (v1 * 4 + v2 / 16); byte_of ((v2 mod 16) * 16 + v3 / 4)].
Proof.
  intros L1 L2 L3. cbn [b64_decode].
  rewrite (b64_val_char v1 L1), (b64_val_char v2 L2), (b64_val_char v3 L3).
  rewrite (b64_char_not_pad v3 L3), beqb_refl. reflexivity.
Qed.

(* every byte string survives base64 *)
Theorem b64_roundtrip : forall l, b64_decode (b64_encode l) = Some l.
Proof.
  induction l as [|a|a b|a b c r IH] using list_ind3.
  - reflexivity.
  - pose proof (bval_lt a) as La. cbn [b64_encode].
    rewrite b64_decode_pad2 by lia.
    replace (bval a / 4 * 4 + bval a mod 4 * 16 / 16) with (bval a) by lia.
    now rewrite byte_of_bval.
  - pose proof (bval_lt a) as La. pose proof (bval_lt b) as Lb. cbn [b64_encode].
    rewrite b64_decode_pad1 by lia.
    replace (bval a / 4 * 4 + (bval a mod 4 * 16 + bval b / 16) / 16) with (bval a) by lia.
    replace ((bval a mod 4 * 16 + bval b / 16) mod 16 * 16 + bval b mod 16 * 4 / 4) with (bval b) by lia.
    now rewrite !byte_of_bval.
  - pose proof (bval_lt a) as La. pose proof (bval_lt b) as Lb. pose proof (bval_lt c) as Lc.
    cbn [b64_encode]. rewrite b64_decode_quad by lia. rewrite IH.
    replace (bval a / 4 * 4 + (bval a mod 4 * 16 + bval b / 16) / 16) with (bval a) by lia.
    replace ((bval a mod 4 * 16 + bval b / 16) mod 16 * 16 + (bval b mod 16 * 4 + bval c / 64) / 4)
      with (bval b) by lia.
    replace ((bval b mod 16 * 4 + bval c / 64) mod 4 * 64 + bval c mod 64) with (bval c) by lia.
    now rewrite !byte_of_bval.
Qed.

Lemma pad_not_quote : bPAD <> bQ.
Proof. intros H. discriminate H. Qed.

Lemma b64_no_quote : forall l, Forall (fun c => c <> bQ) (b64_encode l).
Proof.
  induction l as [|a|a b|a b c r IH] using list_ind3.
  - constructor.
  - pose proof (bval_lt a). cbn [b64_encode].
    repeat constructor; try apply pad_not_quote; apply b64_char_not_quote; lia.
  - pose proof (bval_lt a). pose proof (bval_lt b). cbn [b64_encode].
    repeat constructor; try apply pad_not_quote; apply b64_char_not_quote; lia.
  - pose proof (bval_lt a). pose proof (bval_lt b). pose proof (bval_lt c). cbn [b64_encode].
    repeat (constructor; [apply b64_char_not_quote; lia|]). exact IH.
Qed.

(* ------------------------------------------------------------------ JSON framing *)
Lemma strip_prefix_app p s : strip_prefix p (p ++ s) = Some s.
Proof. induction p as [|x p IH]; [reflexivity|]. cbn [app strip_prefix]. now rewrite beqb_refl. Qed.

Lemma until_quote_app a rest :
  Forall (fun c => c <> bQ) a -> until_quote (a ++ bQ :: rest) = Some (a, rest).
Proof.
  induction 1 as [|c a Hc _ IH]; cbn [app until_quote].
  - now rewrite beqb_refl.
  - apply beqb_neq in Hc. rewrite Hc, IH. reflexivity.
Qed.

Lemma enc_arg_shape a rest :
  enc_arg a ++ rest = bQ :: b64_encode a ++ bQ :: rest.
Proof. unfold enc_arg. cbn. now rewrite <- app_assoc. Qed.

Lemma dec_one a d rest f :
  dec_elems (S f) (enc_arg a ++ d :: rest) =
  if beqb d bCOMMA then
    match dec_elems f rest with Some (l, t) => Some (a :: l, t) | None => None end
  else if beqb d bRBR then Some ([a], rest) else None.
Proof.
  rewrite enc_arg_shape. cbn [dec_elems]. rewrite beqb_refl.
  rewrite (until_quote_app _ _ (b64_no_quote a)), b64_roundtrip. reflexivity.
Qed.

Lemma dec_elems_enc : forall args rest fuel,
    args <> [] -> (List.length args <= fuel)%nat ->
    dec_elems fuel (enc_args args ++ bRBR :: rest) = Some (args, rest).
Proof.
  induction args as [|a args IH]; intros rest fuel Hne Hf; [congruence|].
  destruct fuel as [|f]; [cbn in Hf; lia|].
  destruct args as [|a2 args].
  - cbn [enc_args]. rewrite dec_one. reflexivity.
  - change (enc_args (a :: a2 :: args)) with (enc_arg a ++ bCOMMA :: enc_args (a2 :: args)).
    rewrite <- app_assoc. cbn [app]. rewrite dec_one. cbn [beqb].
    replace (beqb bCOMMA bCOMMA) with true by reflexivity.
    rewrite IH; [reflexivity|discriminate|cbn in *; lia].
Qed.

Lemma enc_args_len args rest : (List.length args <= List.length (enc_args args ++ rest))%nat.
Proof.
  induction args as [|a args IH]; [cbn; lia|].
  destruct args as [|a2 args].
  - cbn [enc_args]. rewrite enc_arg_shape. cbn. lia.
  - change (enc_args (a :: a2 :: args)) with (enc_arg a ++ bCOMMA :: enc_args (a2 :: args)).
    rewrite <- app_assoc, enc_arg_shape. cbn [app List.length].
    rewrite app_length. cbn [List.length]. cbn [List.length] in IH. lia.
Qed.

Lemma dec_array_enc args rest :
  dec_array (enc_args args ++ bRBR :: rest) = Some (args, rest).
Proof.
  destruct args as [|a args].
  - reflexivity.
  - unfold dec_array.
    assert (E : exists t, enc_args (a :: args) ++ bRBR :: rest = bQ :: t).
    { destruct args as [|a2 args];
        [cbn [enc_args]
        |change (enc_args (a :: a2 :: args)) with (enc_arg a ++ bCOMMA :: enc_args (a2 :: args));
         rewrite <- app_assoc];
        rewrite enc_arg_shape; eexists; reflexivity. }
    destruct E as [t E]. rewrite E at 1. cbn [beqb].
    replace (beqb bQ bRBR) with false by reflexivity.
    apply dec_elems_enc; [discriminate|apply enc_args_len].
Qed.

Lemma plain_no_quote id : id_plain id = true -> Forall (fun c => c <> bQ) id.
Proof.
  unfold id_plain. intros H. apply Forall_forall. intros c Hc.
  pose proof (proj1 (forallb_forall _ _) H c Hc) as K. unfold plain_char in K.
  repeat (apply andb_true_iff in K as [K ?]).
  match goal with X : negb (beqb c bQ) = true |- _ => apply negb_true_iff in X; now apply beqb_neq in X end.
Qed.

(* the log entry carries the argument vector and the id unaltered *)
Theorem decode_encode args id :
  id_plain id = true -> decode_proposal (encode_proposal args id) = Some (args, id).
Proof.
  intros Hid. unfold decode_proposal, encode_proposal.
  rewrite strip_prefix_app, dec_array_enc, strip_prefix_app.
  change post_id with (bQ :: ["}"%byte]).
  rewrite (until_quote_app _ _ (plain_no_quote id Hid)). reflexivity.
Qed.

(* ------------------------------------------------------------------ the request path *)
Lemma filter_identity args a : cluster_filter args = Some a -> a = args.
Proof.
  unfold cluster_filter. destruct args as [|n r]; [congruence|].
  destruct (is (lower n) (B "publish") || is (lower n) (B "subscribe")); congruence.
Qed.

Lemma filter_refuses_only_pubsub args :
  cluster_filter args = None <->
  exists n r, args = n :: r /\ (lower n = B "publish" \/ lower n = B "subscribe").
Proof.
  unfold cluster_filter. destruct args as [|n r].
  - split; [discriminate|]. intros (n & r & H & _). discriminate.
  - unfold is. split.
    + intros H. exists n, r. split; [reflexivity|].
      destruct (bytes_eqb_spec (lower n) (B "publish")) as [E1|E1]; [left; exact E1|].
      destruct (bytes_eqb_spec (lower n) (B "subscribe")) as [E2|E2]; [right; exact E2|].
      cbn [orb] in H. discriminate.
    + intros (n' & r' & H & K). inversion H; subst n' r'.
      destruct K as [K|K]; rewrite K.
      * rewrite bytes_eqb_refl. reflexivity.
      * rewrite bytes_eqb_refl, orb_true_r. reflexivity.
Qed.

Theorem cluster_exec_standalone d now nowms args id hint :
  id_plain id = true -> cluster_filter args <> None ->
  cluster_exec d now nowms args id hint =
  let '(r, d') := exec d now nowms args hint in CDone r d'.
Proof.
  intros Hid Hf. unfold cluster_exec, handle_cluster.
  destruct (cluster_filter args) as [a|] eqn:F; [|congruence].
  apply filter_identity in F. subst a.
  destruct (is_rconf args); [reflexivity|].
  unfold apply_entry. rewrite (decode_encode args id Hid).
  destruct (exec d now nowms args hint). reflexivity.
Qed.

(* the reply is delivered under the id the connection registered *)
Theorem apply_entry_id d now nowms args id hint :
  id_plain id = true ->
  apply_entry d now nowms (encode_proposal args id) hint = Some (id, exec d now nowms args hint).
Proof. intros Hid. unfold apply_entry. now rewrite decode_encode. Qed.

(* a UUID is plain *)
Example uuid_plain : id_plain (B "6856d61e-41ff-433d-a918-51ee77bfbf07") = true.
Proof. vm_compute. reflexivity. Qed.

(* The log as a whole.  [props]: the proposals a node handed to Raft, in log order, as values
   (argument vector, id).  [delivered]: the payloads the apply loop is given.  What is relied on
   between the two -- by this theorem and by every cluster property -- is the premise
   [delivered = map encode props]: the bytes returned by ToBytes for a proposal are still those
   bytes when its entry is applied (Raft keeps the slice it was given, it does not copy; nothing
   may write to it in between), and Raft delivers them in order (C15/C16). *)
Theorem log_carries_unaltered (props : list (list bytes * bytes)) (delivered : list bytes) :
  Forall (fun p => id_plain (snd p) = true) props ->
  delivered = map (fun p => encode_proposal (fst p) (snd p)) props ->
  forall i p, nth_error props i = Some p ->
              option_map decode_proposal (nth_error delivered i) = Some (Some p).
Proof.
  intros Hid -> i p Hp.
  rewrite nth_error_map, Hp. cbn [option_map].
  assert (Hpl : id_plain (snd p) = true).
  { rewrite Forall_forall in Hid. apply Hid. eapply nth_error_In; eauto. }
  destruct p as [args id]. cbn [fst snd] in *. now rewrite decode_encode.
Qed.

(* ... and the premise is needed: if a pending payload is overwritten by a later proposal's
   encoding (a recycled encode buffer), the entry applied at that index is the later command *)
Example aliased_buffer_applies_wrong_command :
  let p1 := ([B "INCR"; B "ctr:0"], B "id-1") in
  let p2 := ([B "INCR"; B "ctr:2"], B "id-2") in
  let delivered := [encode_proposal (fst p2) (snd p2); encode_proposal (fst p2) (snd p2)] in
  option_map decode_proposal (nth_error delivered 0) = Some (Some p2).
Proof. vm_compute. reflexivity. Qed.
