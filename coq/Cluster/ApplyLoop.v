(* C07 -- the apply loop of a cluster node (raftexample/raft.go entriesToApply, publishEntries;
   server/server.go handleClusterCommits; server/db_manager.go HandleCluster callback table),
   as executable functions.  Model only; proofs in Cluster/ApplyLoopProofs.v.

   A node is (appliedIndex, keyspace, callback table).  The Raft library hands it Ready batches
   of committed entries; the imported hypothesis (C15) is that all batches of all nodes are
   windows of ONE committed log. *)
Require Import Base.Bytes Base.GoInt Base.Reply Mem.Types Mem.Exec Cluster.ClusterEnc.
Local Open Scope N_scope.

(* what a log entry carries, after publishEntries looked at it *)
Inductive payload :=
| PEmpty                                   (* EntryNormal with len(Data) = 0: leader no-op; ignored *)
| PConf                                    (* EntryConfChange(V2): no effect on the keyspace *)
| PCmd (id : bytes) (args : list bytes).   (* a decoded RaftProposal *)

Record entry := mkE { eidx : N; epay : payload }.

(* consecutive indices from [from] *)
Fixpoint number_log (from : N) (pl : list payload) : list entry :=
  match pl with
  | [] => []
  | p :: r => mkE from p :: number_log (N.succ from) r
  end.

(* a Ready batch that is a window of the log *)
Definition log_window (L : list entry) (lo len : nat) : list entry := firstn len (skipn lo L).

(* uint64 arithmetic of Go *)
Definition W64 : N := 18446744073709551616.
Definition add64 (a b : N) : N := (a + b) mod W64.
Definition sub64 (a b : N) : N := (a + W64 - b) mod W64.

(* raft.go entriesToApply.  None = log.Fatalf ("first index of committed entry[%d] should <=
   progress.appliedIndex[%d]+1"): the node stops rather than skip an entry. *)
Definition entries_to_apply (applied : N) (ents : list entry) : option (list entry) :=
  match ents with
  | [] => Some []
  | e :: _ =>
    let first := eidx e in
    if add64 applied 1 <? first then None
    else
      (* rc.appliedIndex-firstIdx+1: when the batch starts exactly at appliedIndex+1 the
         subtraction wraps to 2^64-1 and the addition wraps back to 0 *)
      let off := add64 (sub64 applied first) 1 in
      if off <? N.of_nat (List.length ents) then Some (skipn (N.to_nat off) ents) else Some []
  end.

Definition cmd_of (e : entry) : list (bytes * list bytes) :=
  match epay e with PCmd id args => [(id, args)] | _ => [] end.
Definition cmds_of (ents : list entry) : list (bytes * list bytes) := flat_map cmd_of ents.

(* raft.go publishEntries for entries that passed entriesToApply: the proposals of the normal,
   non-empty entries go to commitC as one RaftCommit; appliedIndex becomes the last index *)
Definition publish_entries (applied : N) (ents : list entry) : N * list (bytes * list bytes) :=
  match ents with
  | [] => (applied, [])
  | _ => (eidx (last ents (mkE 0 PEmpty)), cmds_of ents)
  end.

(* one Ready: returns the new appliedIndex, the entries counted as applied, the published batch *)
Definition ready_step (applied : N) (ents : list entry)
  : option (N * list entry * list (bytes * list bytes)) :=
  match entries_to_apply applied ents with
  | None => None
  | Some nents => let '(a', batch) := publish_entries applied nents in Some (a', nents, batch)
  end.

(* a sequence of Ready batches; accumulates every entry counted as applied, in order *)
Fixpoint ready_run (applied : N) (done : list entry) (batches : list (list entry))
  : option (N * list entry) :=
  match batches with
  | [] => Some (applied, done)
  | b :: r =>
    match ready_step applied b with
    | None => None
    | Some (a', nents, _) => ready_run a' (done ++ nents) r
    end
  end.

(* ---- executing published commands: handleClusterCommits ---- *)
(* per-step environment of a node: its clock (s, ms) and the observed reply used as a hint by
   commands whose result depends on map order / randomness (acceptor form, see Mem/Exec.v) *)
Definition env := (Z * Z * reply)%type.

Definition conn := Z.
(* callback table: proposal id -> waiting connection *)
Definition cbtable := list (bytes * conn).

Record delivery := mkDel { dconn : option conn; did : bytes; dreply : reply }.

(* ExecCommand, then the reply goes to the channel registered under the entry's id, if any
   (entries replayed after a restart, or proposed on another node, have none) *)
Definition apply_cmd (step : db -> env -> list bytes -> reply * db)
           (cb : cbtable) (d : db) (e : env) (c : bytes * list bytes) : delivery * db :=
  let '(r, d') := step d e (snd c) in
  (mkDel (alookup (fst c) cb) (fst c) r, d').

Fixpoint apply_cmds (step : db -> env -> list bytes -> reply * db)
         (cb : cbtable) (d : db) (envs : list env) (cs : list (bytes * list bytes))
  : list delivery * db :=
  match cs, envs with
  | c :: cr, e :: er =>
    let '(dl, d1) := apply_cmd step cb d e c in
    let '(dls, d2) := apply_cmds step cb d1 er cr in
    (dl :: dls, d2)
  | _, _ => ([], d)
  end.

Definition exec_step : db -> env -> list bytes -> reply * db :=
  fun d e args => let '(now, nowms, hint) := e in exec d now nowms args hint.

(* keyspace of a node that has applied exactly these entries *)
Definition keyspace_after (d0 : db) (envs : list env) (ents : list entry) : db :=
  snd (apply_cmds exec_step [] d0 envs (cmds_of ents)).
