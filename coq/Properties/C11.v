(* C11 -- set commands implement exact set algebra (statements only; proofs in Mem/SetsProofs.v,
   Mem/SetsExec.v; model in Mem/Sets.v).
   Vocabulary (Mem/SetsProofs.v):  view d now k  is what a client can observe of key k at clock now
   (Mem/Inv.v);  set_of d now k  the set it holds (empty for a missing or expired key);
   mem_of d now k m  membership (false for a missing key);  card_of  its cardinality;
   wrong_at d now k  = the key holds a value of another type;  none_wrong / some_wrong  over an
   operand list;  unchanged d d' now  = every key has the same view;  sets_ok  = the value
   invariant (every stored set duplicate-free and non-empty);  sets_step d now nowms name args hint
   = one set command on database d at clock now, [hint] being the reply observed on the
   implementation (consulted by SPOP / SRANDMEMBER only: acceptor form).  All statements hold for
   ALL databases satisfying the shared invariant db_wf, all keys, members, operand lists, counts
   and hints. *)
Require Import Base.Bytes Base.GoInt Base.Reply Mem.Types Mem.Inv Mem.Sets Mem.Exec.
Require Import Mem.SetsProofs Mem.SetsExec.
Local Open Scope Z_scope.


(* ---------------------------------------------------------------- membership: SADD *)
(* after SADD k ms, m is in k iff it was before or is one of ms; other keys keep their view; the reply is the growth of the cardinality; the key exists with the deadline it had *)
Theorem C11_membership_sadd : forall d now nowms c k ms hint r d',
  db_wf d -> ms <> [] -> wrong_at d now k = false ->
  sets_step d now nowms (B "sadd") (c :: k :: ms) hint = Some (r, d') ->
  (forall m, mem_of d' now k m = mem_of d now k m || smem m ms) /\
  (forall k', k' <> k -> view d' now k' = view d now k') /\
  r = RInt (card_of d' now k - card_of d now k) /\
  view d' now k = Some (VSet (set_of d' now k), ttl_of d now k).
Proof. exact step_sadd. Qed.
Print Assumptions C11_membership_sadd.

(* SADD k m replies 1 exactly when m was not a member *)
Theorem C11_sadd_reply_one : forall d now nowms c k m hint r d',
  db_wf d -> wrong_at d now k = false ->
  sets_step d now nowms (B "sadd") [c; k; m] hint = Some (r, d') ->
  r = RInt (if mem_of d now k m then 0 else 1).
Proof. exact step_sadd_one. Qed.
Print Assumptions C11_sadd_reply_one.


(* ---------------------------------------------------------------- membership: SREM *)
(* after SREM k ms, m is in k iff it was and is none of ms; other keys untouched; reply = shrinkage; an emptied set leaves no key *)
Theorem C11_membership_srem : forall d now nowms c k ms hint r d',
  db_wf d -> ms <> [] -> wrong_at d now k = false ->
  sets_step d now nowms (B "srem") (c :: k :: ms) hint = Some (r, d') ->
  (forall m, mem_of d' now k m = mem_of d now k m && negb (smem m ms)) /\
  (forall k', k' <> k -> view d' now k' = view d now k') /\
  r = RInt (card_of d now k - card_of d' now k) /\
  (set_of d' now k = [] -> view d' now k = None).
Proof. exact step_srem. Qed.
Print Assumptions C11_membership_srem.

(* SREM k m replies 1 exactly when m was a member *)
Theorem C11_srem_reply_one : forall d now nowms c k m hint r d',
  db_wf d -> sets_ok d -> wrong_at d now k = false ->
  sets_step d now nowms (B "srem") [c; k; m] hint = Some (r, d') ->
  r = RInt (if mem_of d now k m then 1 else 0).
Proof. exact step_srem_one. Qed.
Print Assumptions C11_srem_reply_one.


(* ---------------------------------------------------------------- membership: reading commands *)
(* SISMEMBER replies mem_of and changes nothing *)
Theorem C11_membership_sismember : forall d now nowms c k m hint,
  db_wf d -> wrong_at d now k = false ->
  exists d', sets_step d now nowms (B "sismember") [c; k; m] hint
             = Some (RInt (if mem_of d now k m then 1 else 0), d') /\ unchanged d d' now.
Proof. exact step_sismember. Qed.
Print Assumptions C11_membership_sismember.

(* SCARD replies the cardinality (0 for a missing key) and changes nothing *)
Theorem C11_membership_scard : forall d now nowms c k hint,
  db_wf d -> wrong_at d now k = false ->
  exists d', sets_step d now nowms (B "scard") [c; k] hint = Some (RInt (card_of d now k), d') /\
             unchanged d d' now.
Proof. exact step_scard. Qed.
Print Assumptions C11_membership_scard.

(* SMEMBERS replies a duplicate-free list (bulk strings) of exactly the members *)
Theorem C11_membership_smembers : forall d now nowms c k hint,
  db_wf d -> sets_ok d -> wrong_at d now k = false ->
  exists d', sets_step d now nowms (B "smembers") [c; k] hint
             = Some (RArr (map RBulk (set_of d now k)), d') /\
             unchanged d d' now /\ NoDup (set_of d now k) /\
             (forall m, In m (set_of d now k) <-> mem_of d now k m = true).
Proof. exact step_smembers. Qed.
Print Assumptions C11_membership_smembers.


(* ---------------------------------------------------------------- membership: SMOVE *)
(* SMOVE moves m iff it is in src: gone from src (emptied src removed), present in dst, src = dst leaves everything as it is, other keys/members untouched *)
Theorem C11_membership_smove : forall d now nowms c src dst m hint r d',
  db_wf d -> wrong_at d now src = false -> wrong_at d now dst = false ->
  sets_step d now nowms (B "smove") [c; src; dst; m] hint = Some (r, d') ->
  if mem_of d now src m then
    r = RInt 1 /\
    (src = dst -> unchanged d d' now) /\
    (src <> dst ->
       (forall x, mem_of d' now src x = mem_of d now src x && negb (bytes_eqb x m)) /\
       (forall x, mem_of d' now dst x = mem_of d now dst x || bytes_eqb x m) /\
       (set_of d' now src = [] -> view d' now src = None) /\
       (forall k', k' <> src -> k' <> dst -> view d' now k' = view d now k'))
  else r = RInt 0 /\ unchanged d d' now.
Proof. exact step_smove. Qed.
Print Assumptions C11_membership_smove.

(* a missing source answers 0 whatever the destination holds *)
Theorem C11_smove_missing_src : forall d now nowms c src dst m hint,
  db_wf d -> view d now src = None ->
  exists d', sets_step d now nowms (B "smove") [c; src; dst; m] hint = Some (RInt 0, d') /\
             unchanged d d' now.
Proof. exact step_smove_missing_src. Qed.
Print Assumptions C11_smove_missing_src.

(* a set source with a destination of another type is WRONGTYPE *)
Theorem C11_smove_wrong_dst : forall d now nowms c src dst m s t hint,
  db_wf d -> view d now src = Some (VSet s, t) -> wrong_at d now dst = true ->
  sets_step d now nowms (B "smove") [c; src; dst; m] hint = Some (err_wrongtype, purge d now).
Proof. exact step_smove_wrong_dst. Qed.
Print Assumptions C11_smove_wrong_dst.


(* ---------------------------------------------------------------- algebra *)
(* m in SUNION ks iff some k in ks has m; duplicate-free; nothing changes (any number of keys, any mix of existing / missing / expired) *)
Theorem C11_algebra_union : forall d now nowms c ks hint,
  db_wf d -> ks <> [] -> none_wrong d now ks ->
  exists res d',
    sets_step d now nowms (B "sunion") (c :: ks) hint = Some (RArr (map RBulk res), d') /\
    unchanged d d' now /\ NoDup res /\
    (forall m, In m res <-> exists k, In k ks /\ mem_of d now k m = true).
Proof. exact step_sunion. Qed.
Print Assumptions C11_algebra_union.

(* m in SINTER ks iff every k in ks has m (so one missing key empties it) *)
Theorem C11_algebra_inter : forall d now nowms c ks hint,
  db_wf d -> sets_ok d -> ks <> [] -> none_wrong d now ks ->
  exists res d',
    sets_step d now nowms (B "sinter") (c :: ks) hint = Some (RArr (map RBulk res), d') /\
    unchanged d d' now /\ NoDup res /\
    (forall m, In m res <-> forall k, In k ks -> mem_of d now k m = true).
Proof. exact step_sinter. Qed.
Print Assumptions C11_algebra_inter.

(* m in SDIFF (k::ks) iff k has m and no later key has it *)
Theorem C11_algebra_diff : forall d now nowms c k ks hint,
  db_wf d -> sets_ok d -> none_wrong d now (k :: ks) ->
  exists res d',
    sets_step d now nowms (B "sdiff") (c :: k :: ks) hint = Some (RArr (map RBulk res), d') /\
    unchanged d d' now /\ NoDup res /\
    (forall m, In m res <-> mem_of d now k m = true /\ forall k', In k' ks -> mem_of d now k' m = false).
Proof. exact step_sdiff. Qed.
Print Assumptions C11_algebra_diff.

(* any operand of another type: WRONGTYPE, nothing changes *)
Theorem C11_algebra_wrongtype : forall d now nowms n c ks hint,
  In n [B "sunion"; B "sinter"; B "sdiff"] -> db_wf d -> some_wrong d now ks ->
  exists d', sets_step d now nowms n (c :: ks) hint = Some (err_wrongtype, d') /\ unchanged d d' now.
Proof. exact step_algebra_wrongtype. Qed.
Print Assumptions C11_algebra_wrongtype.


(* ---------------------------------------------------------------- STORE forms *)
(* SUNIONSTORE: destination (whatever it held, also when it is an operand) holds exactly the union, without deadline; no key when empty; no other key changes; reply = cardinality *)
Theorem C11_store_replaces_union : forall d now nowms c dst ks hint r d',
  db_wf d -> ks <> [] -> none_wrong d now ks ->
  sets_step d now nowms (B "sunionstore") (c :: dst :: ks) hint = Some (r, d') ->
  exists res, stored d d' now dst res r /\ NoDup res /\
    (forall m, In m res <-> exists k, In k ks /\ mem_of d now k m = true).
Proof. exact step_sunionstore. Qed.
Print Assumptions C11_store_replaces_union.

(* SINTERSTORE likewise with the intersection *)
Theorem C11_store_replaces_inter : forall d now nowms c dst ks hint r d',
  db_wf d -> sets_ok d -> ks <> [] -> none_wrong d now ks ->
  sets_step d now nowms (B "sinterstore") (c :: dst :: ks) hint = Some (r, d') ->
  exists res, stored d d' now dst res r /\ NoDup res /\
    (forall m, In m res <-> forall k, In k ks -> mem_of d now k m = true).
Proof. exact step_sinterstore. Qed.
Print Assumptions C11_store_replaces_inter.

(* SDIFFSTORE likewise with the difference *)
Theorem C11_store_replaces_diff : forall d now nowms c dst k ks hint r d',
  db_wf d -> sets_ok d -> none_wrong d now (k :: ks) ->
  sets_step d now nowms (B "sdiffstore") (c :: dst :: k :: ks) hint = Some (r, d') ->
  exists res, stored d d' now dst res r /\ NoDup res /\
    (forall m, In m res <-> mem_of d now k m = true /\ forall k', In k' ks -> mem_of d now k' m = false).
Proof. exact step_sdiffstore. Qed.
Print Assumptions C11_store_replaces_diff.

(* an operand of another type: WRONGTYPE and nothing (not even the destination) changes *)
Theorem C11_store_wrongtype : forall d now nowms n c dst ks hint,
  In n [B "sunionstore"; B "sinterstore"; B "sdiffstore"] -> db_wf d -> some_wrong d now ks ->
  exists d', sets_step d now nowms n (c :: dst :: ks) hint = Some (err_wrongtype, d') /\ unchanged d d' now.
Proof. exact step_store_wrongtype. Qed.
Print Assumptions C11_store_wrongtype.


(* ---------------------------------------------------------------- SPOP *)
(* SPOP k count: the accepted reply is min(count,card) distinct current members and exactly those are gone afterwards (emptied set removed, other keys untouched) *)
Theorem C11_spop_exact : forall d now nowms c k cnt n hint r d',
  db_wf d -> sets_ok d -> atoi64 cnt = Some n -> 0 <= n -> wrong_at d now k = false ->
  sets_step d now nowms (B "spop") [c; k; cnt] hint = Some (r, d') ->
  exists ms,
    r = RArr (map RBulk ms) /\ NoDup ms /\
    (forall m, In m ms -> mem_of d now k m = true) /\
    zlength ms = Z.min n (card_of d now k) /\
    (forall x, mem_of d' now k x = mem_of d now k x && negb (smem x ms)) /\
    (set_of d' now k = [] -> view d' now k = None) /\
    (forall k', k' <> k -> view d' now k' = view d now k').
Proof. exact step_spop_count. Qed.
Print Assumptions C11_spop_exact.

(* every such reply is accepted as it is (the acceptor refuses nothing the reference allows) *)
Theorem C11_spop_exact_accepts : forall d now nowms c k cnt n ms,
  db_wf d -> atoi64 cnt = Some n -> 0 <= n -> wrong_at d now k = false ->
  NoDup ms -> (forall m, In m ms -> mem_of d now k m = true) ->
  zlength ms = Z.min n (card_of d now k) ->
  exists d', sets_step d now nowms (B "spop") [c; k; cnt] (RArr (map RBulk ms))
             = Some (RArr (map RBulk ms), d').
Proof. exact step_spop_count_accepts. Qed.
Print Assumptions C11_spop_exact_accepts.

(* SPOP k: nil for a missing key, otherwise one current member, which is removed *)
Theorem C11_spop_one : forall d now nowms c k hint r d',
  db_wf d -> wrong_at d now k = false ->
  sets_step d now nowms (B "spop") [c; k] hint = Some (r, d') ->
  (set_of d now k = [] -> r = RNil /\ unchanged d d' now) /\
  (set_of d now k <> [] ->
     exists m, r = RBulk m /\ mem_of d now k m = true /\
       (forall x, mem_of d' now k x = mem_of d now k x && negb (bytes_eqb x m)) /\
       (set_of d' now k = [] -> view d' now k = None) /\
       (forall k', k' <> k -> view d' now k' = view d now k')).
Proof. exact step_spop_one. Qed.
Print Assumptions C11_spop_one.

(* every current member is an accepted reply of SPOP k *)
Theorem C11_spop_one_accepts : forall d now nowms c k m,
  db_wf d -> wrong_at d now k = false -> mem_of d now k m = true ->
  exists d', sets_step d now nowms (B "spop") [c; k] (RBulk m) = Some (RBulk m, d').
Proof. exact step_spop_one_accepts. Qed.
Print Assumptions C11_spop_one_accepts.

(* a negative or non-integer count is an error and changes nothing *)
Theorem C11_spop_bad_count : forall d now nowms c k cnt hint,
  db_wf d -> (atoi64 cnt = None \/ exists n, atoi64 cnt = Some n /\ n < 0) ->
  exists d', sets_step d now nowms (B "spop") [c; k; cnt] hint = Some (err_other, d') /\ unchanged d d' now.
Proof. exact step_spop_bad_count. Qed.
Print Assumptions C11_spop_bad_count.


(* ---------------------------------------------------------------- SRANDMEMBER *)
(* SRANDMEMBER k count: only current members; count >= 0: distinct, min(count,card) of them; count < 0: -count of them (none for a missing key); nothing changes *)
Theorem C11_srandmember_members_only : forall d now nowms c k cnt n hint r d',
  db_wf d -> sets_ok d -> atoi64 cnt = Some n -> - max_random_repeat <= n -> wrong_at d now k = false ->
  sets_step d now nowms (B "srandmember") [c; k; cnt] hint = Some (r, d') ->
  unchanged d d' now /\
  exists ms,
    r = RArr (map RBulk ms) /\
    (forall m, In m ms -> mem_of d now k m = true) /\
    (0 <= n -> NoDup ms /\ zlength ms = Z.min n (card_of d now k)) /\
    (n < 0 -> zlength ms = if card_of d now k =? 0 then 0 else - n).
Proof. exact step_srandmember_count. Qed.
Print Assumptions C11_srandmember_members_only.

(* every such reply is accepted as it is *)
Theorem C11_srandmember_accepts : forall d now nowms c k cnt n ms,
  db_wf d -> atoi64 cnt = Some n -> - max_random_repeat <= n -> wrong_at d now k = false ->
  (forall m, In m ms -> mem_of d now k m = true) ->
  (0 <= n -> NoDup ms /\ zlength ms = Z.min n (card_of d now k)) ->
  (n < 0 -> zlength ms = if card_of d now k =? 0 then 0 else - n) ->
  exists d', sets_step d now nowms (B "srandmember") [c; k; cnt] (RArr (map RBulk ms))
             = Some (RArr (map RBulk ms), d').
Proof. exact step_srandmember_count_accepts. Qed.
Print Assumptions C11_srandmember_accepts.

(* SRANDMEMBER k: nil for a missing key, otherwise a current member; nothing changes *)
Theorem C11_srandmember_one : forall d now nowms c k hint r d',
  db_wf d -> wrong_at d now k = false ->
  sets_step d now nowms (B "srandmember") [c; k] hint = Some (r, d') ->
  unchanged d d' now /\
  (set_of d now k = [] -> r = RNil) /\
  (set_of d now k <> [] -> exists m, r = RBulk m /\ mem_of d now k m = true).
Proof. exact step_srandmember_one. Qed.
Print Assumptions C11_srandmember_one.

(* a count that is not an integer is an error and changes nothing *)
Theorem C11_srandmember_bad_count : forall d now nowms c k cnt hint,
  db_wf d -> atoi64 cnt = None ->
  exists d', sets_step d now nowms (B "srandmember") [c; k; cnt] hint = Some (err_other, d') /\
             unchanged d d' now.
Proof. exact step_srandmember_bad_count. Qed.
Print Assumptions C11_srandmember_bad_count.

(* beyond the bound of the repaired code (count < -max_random_repeat): the reply is the refusal or exactly what the reference demands (-count current members), and nothing changes *)
Theorem C11_srandmember_bound : forall d now nowms c k cnt n hint r d',
  db_wf d -> atoi64 cnt = Some n -> n < - max_random_repeat -> wrong_at d now k = false ->
  sets_step d now nowms (B "srandmember") [c; k; cnt] hint = Some (r, d') ->
  unchanged d d' now /\
  (r = err_other \/
   exists ms, r = RArr (map RBulk ms) /\
     (forall m, In m ms -> mem_of d now k m = true) /\
     zlength ms = if card_of d now k =? 0 then 0 else - n).
Proof. exact step_srandmember_beyond. Qed.
Print Assumptions C11_srandmember_bound.

(* ... and the refusal is accepted whenever it is what the implementation answered *)
Theorem C11_srandmember_refusal_accepted : forall d now nowms c k cnt n e,
  db_wf d -> atoi64 cnt = Some n -> n < - max_random_repeat -> e <> B "WRONGTYPE" ->
  exists d', sets_step d now nowms (B "srandmember") [c; k; cnt] (RErr e) = Some (err_other, d') /\
             unchanged d d' now.
Proof. exact step_srandmember_refusal_accepted. Qed.
Print Assumptions C11_srandmember_refusal_accepted.


(* ---------------------------------------------------------------- WRONGTYPE *)
(* whatever the set command and its arguments: an error reply (WRONGTYPE in particular) leaves every key's view as it was *)
Theorem C11_wrongtype_changes_nothing : forall d now nowms n args hint e d',
  db_wf d -> sets_step d now nowms n args hint = Some (RErr e, d') -> unchanged d d' now.
Proof. exact step_error_unchanged. Qed.
Print Assumptions C11_wrongtype_changes_nothing.

(* the single-key commands answer WRONGTYPE for a key of another type *)
Theorem C11_wrongtype_key : forall d now nowms c k m ms dst hint,
  db_wf d -> wrong_at d now k = true ->
  let wt n args := sets_step d now nowms n args hint = Some (err_wrongtype, purge d now) in
  wt (B "sadd") (c :: k :: m :: ms) /\ wt (B "srem") (c :: k :: m :: ms) /\
  wt (B "sismember") [c; k; m] /\ wt (B "scard") [c; k] /\ wt (B "smembers") [c; k] /\
  wt (B "smove") [c; k; dst; m] /\ wt (B "spop") [c; k] /\ wt (B "srandmember") [c; k].
Proof. exact step_wrongtype_key. Qed.
Print Assumptions C11_wrongtype_key.


(* ---------------------------------------------------------------- invariants *)
(* every step (any name, arguments, clock, observed reply) preserves db_wf and the value invariant and yields a well-framed reply *)
Theorem C11_invariants_step : forall d now nowms n args hint r d',
  db_wf d -> sets_ok d -> sets_step d now nowms n args hint = Some (r, d') ->
  db_wf d' /\ sets_ok d' /\ reply_wf r = true.
Proof. exact step_invariants. Qed.
Print Assumptions C11_invariants_step.

(* hence every program does *)
Theorem C11_invariants_programs : forall prog,
  forall d, db_wf d -> sets_ok d -> db_wf (run prog d) /\ sets_ok (run prog d).
Proof. exact run_invariants. Qed.
Print Assumptions C11_invariants_programs.

(* after any program a key that holds a set holds a duplicate-free set with at least one member: an emptied set has ceased to exist *)
Theorem C11_emptied_set_removed : forall prog d now k s t,
  db_wf d -> sets_ok d -> view (run prog d) now k = Some (VSet s, t) -> NoDup s /\ s <> [].
Proof. exact emptied_set_removed. Qed.
Print Assumptions C11_emptied_set_removed.

(* CONVENTIONS: <family>_dispatch_wf_pres *)
Theorem C11_dispatch_wf_pres : forall d now nowms n args hint r d',
  db_wf d -> sets_dispatch d now nowms n args hint = Some (r, d') -> db_wf d'.
Proof. exact sets_dispatch_wf_pres. Qed.
Print Assumptions C11_dispatch_wf_pres.

(* CONVENTIONS: <family>_dispatch_reply_wf *)
Theorem C11_dispatch_reply_wf : forall d now nowms n args hint r d',
  sets_dispatch d now nowms n args hint = Some (r, d') -> reply_wf r = true.
Proof. exact sets_dispatch_reply_wf. Qed.
Print Assumptions C11_dispatch_reply_wf.

(* for the fourteen set command names one step of Exec.exec (the model the differential check runs) is sets_step *)
Theorem C11_exec_is_sets_step : forall d now nowms c args hint r d',
  In (lower c) sets_names ->
  (exec d now nowms (c :: args) hint = (r, d') <->
   sets_step d now nowms (lower c) (c :: args) hint = Some (r, d')).
Proof. exact exec_is_sets_step. Qed.
Print Assumptions C11_exec_is_sets_step.


(* ---------------------------------------------------------------- non-vacuity
   A database with two overlapping sets, a string, a set whose deadline (5) has passed at
   clock 10 and a set that is still alive: it satisfies every hypothesis used above, and the
   commands compute what the theorems say. *)
Definition ex_db : db :=
  mkDb [(B "s", VSet [B "a"; B "b"; []]); (B "t", VSet [B "b"; B "c"]); (B "str", VStr (B "v"));
        (B "old", VSet [B "z"]); (B "live", VSet [B "a"])]
       [(B "old", 5); (B "live", 50)].

Example ex_db_wf : db_wf ex_db.
Proof.
  repeat split; cbn.
  - repeat constructor; cbn; intuition discriminate.
  - repeat constructor; cbn; intuition discriminate.
  - intros k [<-|[<-|[]]]; intuition.
Qed.

Example ex_db_sets_ok : sets_ok ex_db.
Proof.
  intros k v H. unfold db_get, ex_db in H. cbn [kv alookup] in H.
  repeat (destruct (bytes_eqb k _) in H;
          [inversion H; subst; cbn;
           first [exact I | split; [repeat constructor; cbn; intuition discriminate|discriminate]]|]).
  discriminate.
Qed.

Example ex_none_wrong : none_wrong ex_db 10 [B "s"; B "t"; B "nokey"; B "old"; B "live"].
Proof. intros k [<-|[<-|[<-|[<-|[<-|[]]]]]]; reflexivity. Qed.
Example ex_some_wrong : some_wrong ex_db 10 [B "s"; B "str"].
Proof. exists (B "str"). split; [right; left; reflexivity|reflexivity]. Qed.
Example ex_expired_is_missing : view ex_db 10 (B "old") = None /\ mem_of ex_db 10 (B "old") (B "z") = false
                                /\ mem_of ex_db 4 (B "old") (B "z") = true.
Proof. repeat split; reflexivity. Qed.
Example ex_empty_member : mem_of ex_db 10 (B "s") [] = true /\ card_of ex_db 10 (B "s") = 3.
Proof. split; reflexivity. Qed.

Example ex_sinter :
  sets_step ex_db 10 10000 (B "sinter") [B "SINTER"; B "s"; B "t"] RNil
  = Some (RArr [RBulk (B "b")], purge ex_db 10).
Proof. reflexivity. Qed.
Example ex_sinter_missing :
  sets_step ex_db 10 10000 (B "sinter") [B "SINTER"; B "s"; B "nokey"] RNil = Some (RArr [], purge ex_db 10)
  /\ sets_step ex_db 10 10000 (B "sinter") [B "SINTER"; B "nokey"] RNil = Some (RArr [], purge ex_db 10)
  /\ sets_step ex_db 10 10000 (B "sinter") [B "SINTER"; B "s"; B "old"] RNil = Some (RArr [], purge ex_db 10).
Proof. repeat split; reflexivity. Qed.
Example ex_sdiff :
  sets_step ex_db 10 10000 (B "sdiff") [B "sdiff"; B "s"; B "t"; B "nokey"] RNil
  = Some (RArr [RBulk (B "a"); RBulk []], purge ex_db 10).
Proof. reflexivity. Qed.
Example ex_sunion_wrongtype :
  sets_step ex_db 10 10000 (B "sunion") [B "sunion"; B "nokey"; B "str"] RNil
  = Some (err_wrongtype, purge ex_db 10).
Proof. reflexivity. Qed.

(* STORE onto a string key, and with an empty result onto one of its own operands *)
Example ex_store_over_string :
  exists d', sets_step ex_db 10 10000 (B "sunionstore") [B "sunionstore"; B "str"; B "t"; B "live"] RNil
             = Some (RInt 3, d')
             /\ view d' 10 (B "str") = Some (VSet [B "b"; B "c"; B "a"], None)
             /\ view d' 10 (B "t") = view ex_db 10 (B "t").
Proof. eexists. repeat split; reflexivity. Qed.
Example ex_store_empty_removes :
  exists d', sets_step ex_db 10 10000 (B "sinterstore") [B "sinterstore"; B "live"; B "live"; B "t"] RNil
             = Some (RInt 0, d')
             /\ view d' 10 (B "live") = None /\ db_ttl d' (B "live") = None.
Proof. eexists. repeat split; reflexivity. Qed.

(* SPOP: an allowed observation is accepted and exactly it is removed; a forbidden one (a
   non-member) is answered with the model's own choice, which differs *)
Example ex_spop_accepts :
  exists d', sets_step ex_db 10 10000 (B "spop") [B "spop"; B "t"; B "5"] (RArr [RBulk (B "c"); RBulk (B "b")])
             = Some (RArr [RBulk (B "c"); RBulk (B "b")], d') /\ view d' 10 (B "t") = None.
Proof. eexists. split; reflexivity. Qed.
Example ex_spop_empty_member :
  exists d', sets_step ex_db 10 10000 (B "spop") [B "spop"; B "s"; B "1"] (RArr [RBulk []])
             = Some (RArr [RBulk []], d') /\ mem_of d' 10 (B "s") [] = false /\ card_of d' 10 (B "s") = 2.
Proof. eexists. repeat split; reflexivity. Qed.
Example ex_spop_rejects_non_member :
  exists r d', sets_step ex_db 10 10000 (B "spop") [B "spop"; B "t"] (RBulk (B "zz")) = Some (r, d')
               /\ r <> RBulk (B "zz").
Proof. eexists. eexists. split; [reflexivity|discriminate]. Qed.
Example ex_srandmember_repeats :
  exists d', sets_step ex_db 10 10000 (B "srandmember") [B "srandmember"; B "live"; B "-3"]
               (RArr [RBulk (B "a"); RBulk (B "a"); RBulk (B "a")])
             = Some (RArr [RBulk (B "a"); RBulk (B "a"); RBulk (B "a")], d').
Proof. eexists. reflexivity. Qed.
(* beyond the bound: the repaired code's refusal is accepted, so is the reference's answer; the
   last count within the bound is served *)
Example ex_srandmember_bound :
  sets_step ex_db 10 10000 (B "srandmember") [B "srandmember"; B "live"; B "-1048577"] (RErr (B "ERR"))
  = Some (err_other, purge ex_db 10)
  /\ sets_step ex_db 10 10000 (B "srandmember") [B "srandmember"; B "nokey"; B "-1048577"] (RArr [])
  = Some (RArr [], purge ex_db 10)
  /\ sets_step ex_db 10 10000 (B "srandmember") [B "srandmember"; B "nokey"; B "-1048576"] (RErr (B "ERR"))
  = Some (RArr [], purge ex_db 10).
Proof. repeat split; reflexivity. Qed.

(* SMOVE of the last member removes the source together with its deadline *)
Example ex_smove_last :
  exists d', sets_step ex_db 10 10000 (B "smove") [B "smove"; B "live"; B "t"; B "a"] RNil = Some (RInt 1, d')
             /\ view d' 10 (B "live") = None /\ db_ttl d' (B "live") = None
             /\ mem_of d' 10 (B "t") (B "a") = true.
Proof. eexists. repeat split; reflexivity. Qed.

(* a program from the empty database: the invariants hold at the end *)
Example ex_program :
  let prog : list sstep :=
    [(1, 1000, B "sadd", [B "sadd"; B "k"; B "x"; B "x"; []], RNil);
     (1, 1000, B "spop", [B "spop"; B "k"; B "9"], RArr [RBulk []; RBulk (B "x")]);
     (2, 2000, B "sadd", [B "sadd"; B "k"; B "y"], RNil)] in
  db_wf (run prog empty_db) /\ sets_ok (run prog empty_db)
  /\ view (run prog empty_db) 2 (B "k") = Some (VSet [B "y"], None).
Proof.
  cbn zeta. split; [|split]; [| |reflexivity];
    apply (run_invariants _ empty_db db_wf_empty sets_ok_empty).
Qed.

(* ---------------------------------------------------------------- all command families (Mem/SetsCompose.v) *)
Require Import Mem.SetsCompose.

(* every command of EVERY family (strings/keys, lists, hashes, sets, sorted sets, streams), at
   any clock and with any observed reply, preserves db_wf and the value invariant *)
Theorem C11_invariants_exec : forall d now nowms args hint,
  db_wf d -> sets_ok d ->
  db_wf (snd (exec d now nowms args hint)) /\ sets_ok (snd (exec d now nowms args hint)).
Proof. exact exec_all_invariants. Qed.
Print Assumptions C11_invariants_exec.

(* hence every program over all families does ([run_exec]: fold of Exec.exec) *)
Theorem C11_invariants_programs_all : forall prog d,
  db_wf d -> sets_ok d -> db_wf (run_exec prog d) /\ sets_ok (run_exec prog d).
Proof. exact run_exec_all_invariants. Qed.
Print Assumptions C11_invariants_programs_all.

(* after ANY program of ANY commands from the empty database, a key that holds a set holds a
   duplicate-free set with at least one member: an emptied set has ceased to exist *)
Theorem C11_emptied_set_removed_all : forall prog now k s t,
  view (run_exec prog empty_db) now k = Some (VSet s, t) -> NoDup s /\ s <> [].
Proof. exact emptied_set_removed_all. Qed.
Print Assumptions C11_emptied_set_removed_all.

(* deadlines: every set command except the three STORE forms leaves the deadline of every key
   that is still there as it was (the STORE forms remove that of the destination: the C11_store_replaces theorems) *)
Theorem C11_only_store_touches_deadlines : forall d now nowms n args hint r d',
  existsb (bytes_eqb n) sets_store_names = false ->
  sets_dispatch d now nowms n args hint = Some (r, d') -> keeps d d'.
Proof. exact sets_dispatch_keeps. Qed.
Print Assumptions C11_only_store_touches_deadlines.

Example ex_program_all_families :
  let prog : list (Z * Z * list bytes * reply) :=
    [(1, 1000, [B "SADD"; B "k"; B "x"], RNil);
     (1, 1000, [B "SET"; B "str"; B "v"], RNil);
     (1, 1000, [B "RENAME"; B "k"; B "k2"], RNil);
     (2, 2000, [B "SPOP"; B "k2"], RBulk (B "x"))] in
  view (run_exec prog empty_db) 2 (B "k2") = None /\ sets_ok (run_exec prog empty_db).
Proof.
  cbn zeta. split; [reflexivity|].
  apply (run_exec_all_invariants _ empty_db db_wf_empty sets_ok_empty).
Qed.

(* ---------------------------------------------------------------- one invariant for all families (Mem/AllInv.v) *)
Require Mem.AllInv.
Theorem C11_sets_ok_in_all_ok : forall d now nowms args hint,
  AllInv.all_ok d -> AllInv.all_ok (snd (exec d now nowms args hint)).
Proof. exact AllInv.exec_all_ok. Qed.
Print Assumptions C11_sets_ok_in_all_ok.
