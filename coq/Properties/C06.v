(* C06 -- expiring keys disappear at their deadline and not before (statements only; proofs in
   Mem/TtlProofs.v).

   Vocabulary (Mem/Types.v, Mem/Inv.v, Mem/Exec.v):
     db                 key -> value list + key -> deadline (unix seconds) list
     db_wf d            no duplicate keys/deadlines, every deadline belongs to a stored key
     view d now k       what a client may observe of k at clock now: Some (value, deadline) iff
                        k is stored and (no deadline or now < deadline)
     raw_view d k       the same without regard to time (used on states a step has produced)
     exec d now nowms args hint = exec_cmd (purge d now) ...    one command at clock now
     run d prog         a program = list of steps (clock s, clock ms, argument vector, hint)
   All theorems quantify over all well-formed databases, all clocks and all byte strings. *)
Require Import Base.Bytes Base.GoInt Base.Reply Mem.Types Mem.Inv Mem.Strings Mem.Lists Mem.Exec.
Require Import Mem.TtlProofs.
Require Import Mem.Server Mem.ServerProofs.
From Coq Require Import Permutation.
Local Open Scope Z_scope.

(* ------------------------------------------------------------------ C06_expired_invisible *)
(* A step is a function of the view at its clock: two databases that look the same at [now]
   give the same reply (KEYS: the same keys, in map order) and look the same afterwards at every
   clock.  Hence a key whose deadline is <= now cannot influence any reply or any later state:
   reads see a missing key, writes start from an empty one. *)
Theorem C06_expired_invisible : forall d1 d2 now nowms args hint,
  db_wf d1 -> db_wf d2 -> (forall k, view d1 now k = view d2 now k) ->
  let r1 := exec d1 now nowms args hint in
  let r2 := exec d2 now nowms args hint in
  (if is_keys (cmd_name args) then reply_perm (fst r1) (fst r2) else fst r1 = fst r2) /\
  (forall k, raw_view (snd r1) k = raw_view (snd r2) k) /\
  (forall t k, view (snd r1) t k = view (snd r2) t k).
Proof.
  intros d1 d2 now nowms args hint W1 W2 V. cbv zeta.
  destruct (exec_view_determined d1 d2 now nowms args hint W1 W2 V) as [R E].
  split; [exact R|]. split; [apply eqv_raw_view; exact E|intros t k; apply eqv_view; exact E].
Qed.
Print Assumptions C06_expired_invisible.

(* In particular: from its deadline on, a key is indistinguishable from a deleted key. *)
Theorem C06_expired_key_is_deleted_key : forall d now nowms args hint k t,
  db_wf d -> db_ttl d k = Some t -> t <= now ->
  let r1 := exec d now nowms args hint in
  let r2 := exec (db_del d k) now nowms args hint in
  (if is_keys (cmd_name args) then reply_perm (fst r1) (fst r2) else fst r1 = fst r2) /\
  (forall t' k', view (snd r1) t' k' = view (snd r2) t' k').
Proof.
  intros d now nowms args hint k t W E L.
  destruct (C06_expired_invisible d (db_del d k) now nowms args hint W (db_wf_del d k W)
              (veq_from_del_expired d k t W E now L)) as (R & _ & V).
  split; assumption.
Qed.
Print Assumptions C06_expired_key_is_deleted_key.

(* ------------------------------------------------------------------ C06_live_until_deadline *)
(* Before the deadline the key is visible with its value and TTL replies the remaining seconds;
   from the deadline on it is invisible and TTL replies -2; without deadline TTL replies -1. *)
Theorem C06_live_until_deadline : forall d now nowms k v t c hint,
  db_wf d -> db_get d k = Some v -> db_ttl d k = Some t -> lower c = B "ttl" ->
  (now < t -> view d now k = Some (v, Some t) /\
              fst (exec d now nowms [c; k] hint) = RInt (t - now)) /\
  (t <= now -> view d now k = None /\
               fst (exec d now nowms [c; k] hint) = RInt (-2)).
Proof.
  intros d now nowms k v t c hint W G T E. split; intros L.
  - pose proof (view_live d now k v t G T L) as V. split; [exact V|].
    rewrite (exec_ttl_reply d now nowms c k hint W E), V. reflexivity.
  - pose proof (view_dead d now k t T L) as V. split; [exact V|].
    rewrite (exec_ttl_reply d now nowms c k hint W E), V. reflexivity.
Qed.
Print Assumptions C06_live_until_deadline.

Theorem C06_ttl_reply : forall d now nowms k c hint,
  db_wf d -> lower c = B "ttl" ->
  fst (exec d now nowms [c; k] hint) =
  RInt (match view d now k with
        | None => -2 | Some (_, None) => -1 | Some (_, Some t) => t - now end).
Proof. intros d now nowms k c hint W E. rewrite (exec_ttl_reply d now nowms c k hint W E). reflexivity. Qed.
Print Assumptions C06_ttl_reply.

(* ------------------------------------------------------------------ C06_no_deadline_never_expires *)
(* A key without deadline is visible at every clock; and it stays stored, with the same value
   and without deadline, across every program none of whose commands names it. *)
Theorem C06_no_deadline_never_expires : forall d k v,
  db_wf d -> db_get d k = Some v -> db_ttl d k = None ->
  (forall now, view d now k = Some (v, None)) /\
  (forall p, Forall (fun s => ~ names_key k s) p ->
             forall now, view (snd (run d p)) now k = Some (v, None)).
Proof.
  intros d k v W G T. split.
  - intros now. apply view_nodeadline; assumption.
  - intros p N now. apply view_persistent. apply run_frame_persistent; [exact W|exact N|].
    unfold raw_view. rewrite G, T. reflexivity.
Qed.
Print Assumptions C06_no_deadline_never_expires.

(* Stronger on the deadline itself: whatever the program does with the key -- read it, append
   to it, increment it, push to / pop from it, delete and re-create it -- as long as no SET,
   MSET, SETEX, EXPIRE, PERSIST or RENAME names it, the key never acquires a deadline, so
   whenever it is stored it is visible at every clock. *)
Theorem C06_no_deadline_is_invariant : forall d k p,
  db_wf d -> db_ttl d k = None -> Forall (leaves_deadlines k) p ->
  db_ttl (snd (run d p)) k = None /\
  (forall v, db_get (snd (run d p)) k = Some v ->
             forall now, view (snd (run d p)) now k = Some (v, None)).
Proof.
  intros d k p W T L. pose proof (run_ttl_none p k d W L T) as E. split; [exact E|].
  intros v G now. apply view_nodeadline; assumption.
Qed.
Print Assumptions C06_no_deadline_is_invariant.

(* ------------------------------------------------------------------ C06_deadline_lifecycle *)
(* (keep) Every command other than SET, MSET, SETEX, EXPIRE, PERSIST, RENAME -- GET, GETRANGE,
   SETRANGE, APPEND, INCR*, DECR*, SETNX, STRLEN, MGET, DEL, EXISTS, KEYS, TTL, TYPE and every
   list (incl. the blocking pops), hash, set (SADD, SREM, SMOVE, SPOP, ...), sorted-set and stream
   command, i.e. every command of every family in [Exec.families] except the three *STORE forms
   below -- leaves every deadline alone: a key present after the step has the deadline
   it had in the view before the step, and none if the step created it. *)
Theorem C06_deadline_lifecycle_keep : forall d now nowms args hint k v' t',
  db_wf d -> changes_ttl (cmd_name args) = false ->
  raw_view (snd (exec d now nowms args hint)) k = Some (v', t') ->
  t' = deadline_of (view d now k).
Proof. exact exec_keeps_deadlines. Qed.
Print Assumptions C06_deadline_lifecycle_keep.

(* (SUNIONSTORE / SINTERSTORE / SDIFFSTORE) overwrite the destination: whatever it held, its
   deadline is gone *)
Theorem C06_deadline_lifecycle_store : forall d now nowms c dst ks hint z,
  store_name (lower c) = true ->
  fst (exec d now nowms (c :: dst :: ks) hint) = RInt z ->
  db_ttl (snd (exec d now nowms (c :: dst :: ks) hint)) dst = None.
Proof. exact exec_store_drops_deadline. Qed.
Print Assumptions C06_deadline_lifecycle_store.

(* (emptied keys) whatever the command -- LPOP/LREM/LTRIM/LMOVE/BLPOP, HDEL, SREM/SPOP/SMOVE, ZREM,
   DEL, RENAME -- a key that is absent after the step has no deadline left, so a key re-created
   under that name starts without one *)
Theorem C06_absent_key_has_no_deadline : forall d now nowms args hint k,
  db_wf d -> db_get (snd (exec d now nowms args hint)) k = None ->
  db_ttl (snd (exec d now nowms args hint)) k = None.
Proof. exact exec_absent_no_deadline. Qed.
Print Assumptions C06_absent_key_has_no_deadline.

(* (SET) When SET writes (NX/XX condition met; a key of another type only without GET; valid options) the key holds
   the new value and its deadline is [set_deadline]: EXAT n -> n, PX n -> now + ceil(n/1000),
   EX n -> now + n, KEEPTTL -> the deadline it had, none of these -> no deadline.  With GET the
   reply is the old value.  Other keys are untouched. *)
Theorem C06_deadline_lifecycle_set : forall d now nowms c k v opts o hint,
  db_wf d -> lower c = B "set" ->
  set_parse opts setopts0 = Some o ->
  set_conflict o || ex_overflow now (o_ex o) = false ->
  set_writes o (view d now k) ->
  let res := exec d now nowms (c :: k :: v :: opts) hint in
  fst res = set_reply o (view d now k) /\
  raw_view (snd res) k = Some (VStr v, set_deadline now o (deadline_of (view d now k))) /\
  forall k0, k0 <> k -> raw_view (snd res) k0 = view d now k0.
Proof. exact exec_set_writes. Qed.
Print Assumptions C06_deadline_lifecycle_set.

(* the four readings of [set_deadline] *)
Theorem C06_set_deadline_cases : forall now o cur,
  (o_exat o = None -> o_px o = None -> o_ex o = None -> o_keepttl o = false ->
     set_deadline now o cur = None) /\
  (o_exat o = None -> o_px o = None -> o_ex o = None -> o_keepttl o = true ->
     set_deadline now o cur = cur) /\
  (forall n, o_exat o = None -> o_px o = None -> o_ex o = Some n ->
     set_deadline now o cur = Some (now + n)) /\
  (forall n, o_exat o = None -> o_px o = Some n ->
     set_deadline now o cur = Some (now + (n + 999) / 1000)) /\
  (forall n, o_exat o = Some n -> set_deadline now o cur = Some n).
Proof.
  intros now o cur. unfold set_deadline. repeat split; intros; repeat
    match goal with H : _ = _ |- _ => rewrite H; clear H end; reflexivity.
Qed.
Print Assumptions C06_set_deadline_cases.

(* PX n: the deadline second is the second containing the instant now_ms + n, or the next one. *)
Theorem C06_px_granularity : forall nowms n, 0 < n ->
  (nowms + n) / 1000 <= nowms / 1000 + (n + 999) / 1000 <= (nowms + n) / 1000 + 1.
Proof. exact px_deadline_granularity. Qed.
Print Assumptions C06_px_granularity.

(* (PX rounding) SET k v PX n on an absent key or a string: for EVERY n >= 1 that is an int64 the
   deadline is exactly  now + n/1000 + (1 if n mod 1000 <> 0)  =  now + ceil(n/1000) -- the code's
   own formula; nothing overflows below MaxInt64 (ceil(n/1000) <= 9223372036854776), so huge
   accepted values are pinned as well: PX 9007199254740992 gives TTL 9007199254741, PX MaxInt64
   gives TTL 9223372036854776, never a deadline in the past. *)
Theorem C06_px_deadline_rounding : forall d now nowms c k v px nb n hint,
  db_wf d -> lower c = B "set" -> lower px = B "px" -> atoi64 nb = Some n -> 1 <= n ->
  match view d now k with None => True | Some (VStr _, _) => True | Some _ => False end ->
  let res := exec d now nowms [c; k; v; px; nb] hint in
  fst res = rOK /\
  raw_view (snd res) k = Some (VStr v, Some (now + n / 1000 + (if n mod 1000 =? 0 then 0 else 1))) /\
  n / 1000 + (if n mod 1000 =? 0 then 0 else 1) = (n + 999) / 1000 /\
  1 <= n / 1000 + (if n mod 1000 =? 0 then 0 else 1) <= 9223372036854776.
Proof. exact exec_set_px_deadline. Qed.
Print Assumptions C06_px_deadline_rounding.

(* (SET, not written) NX on a visible key, XX on an invisible one, GET on a key of another type, or
   an argument error: the step changes nothing -- in particular no deadline.  (Without GET a key of
   another type is overwritten like a string: [set_writes].) *)
Theorem C06_deadline_lifecycle_set_skips : forall d now nowms c k v opts hint,
  db_wf d -> lower c = B "set" ->
  (forall o, set_parse opts setopts0 = Some o ->
             set_conflict o || ex_overflow now (o_ex o) = false -> ~ set_writes o (view d now k)) ->
  snd (exec d now nowms (c :: k :: v :: opts) hint) = purge d now.
Proof. exact exec_set_skips. Qed.
Print Assumptions C06_deadline_lifecycle_set_skips.

(* (MSET) every key written is a string without deadline *)
Theorem C06_deadline_lifecycle_mset : forall d now nowms c kvs hint k,
  db_wf d -> lower c = B "mset" ->
  fst (exec d now nowms (c :: kvs) hint) = rOK -> In k (pair_keys kvs) ->
  exists v, raw_view (snd (exec d now nowms (c :: kvs) hint)) k = Some (VStr v, None).
Proof. exact exec_mset_plain. Qed.
Print Assumptions C06_deadline_lifecycle_mset.

(* (SETEX) value and deadline exactly now + n *)
Theorem C06_deadline_lifecycle_setex : forall d now nowms c k secs v n hint,
  db_wf d -> lower c = B "setex" ->
  atoi64 secs = Some n -> 0 < n -> in_int64 (now + n) = true ->
  let res := exec d now nowms [c; k; secs; v] hint in
  fst res = rOK /\ raw_view (snd res) k = Some (VStr v, Some (now + n)) /\
  forall k0, k0 <> k -> raw_view (snd res) k0 = view d now k0.
Proof. exact exec_setex_deadline. Qed.
Print Assumptions C06_deadline_lifecycle_setex.

(* (EXPIRE, with and without NX/XX/GT/LT) On a visible key the deadline becomes exactly now + n
   iff the option's stated condition [expire_applies] holds (reply 1, value and other keys
   untouched); otherwise, and on an invisible key, the reply is 0 and nothing changes.  A key
   without deadline counts as having an infinite one for GT and LT. *)
Theorem C06_deadline_lifecycle_expire : forall d now nowms c k v n rest e hint,
  db_wf d -> lower c = B "expire" ->
  atoi64 v = Some n -> in_int64 (now + n) = true -> parse_expopt rest = Some e ->
  let res := exec d now nowms (c :: k :: v :: rest) hint in
  match view d now k with
  | Some (val, cur) =>
    if expire_applies e cur (now + n)
    then fst res = RInt 1 /\ raw_view (snd res) k = Some (val, Some (now + n)) /\
         forall k0, k0 <> k -> raw_view (snd res) k0 = view d now k0
    else res = (RInt 0, purge d now)
  | None => res = (RInt 0, purge d now)
  end.
Proof. exact exec_expire_spec. Qed.
Print Assumptions C06_deadline_lifecycle_expire.

Theorem C06_expire_conditions : forall cur t,
  expire_applies ENone cur t = true /\
  (expire_applies ENX cur t = true <-> cur = None) /\
  (expire_applies EXX cur t = true <-> cur <> None) /\
  (expire_applies EGT cur t = true <-> exists c, cur = Some c /\ c < t) /\
  (expire_applies ELT cur t = true <-> (cur = None \/ exists c, cur = Some c /\ t < c)).
Proof.
  intros cur t. destruct cur as [c|]; cbn; repeat split; try congruence; try discriminate.
  - intros H. exists c. split; [reflexivity|]. apply Z.gtb_lt in H. lia.
  - intros [c' [E L]]. injection E as <-. apply Z.gtb_lt. lia.
  - intros H. right. exists c. split; [reflexivity|]. apply Z.ltb_lt in H. exact H.
  - intros [H|[c' [E L]]]; [discriminate|]. injection E as <-. apply Z.ltb_lt. exact L.
  - intros [c' [E _]]. discriminate.
  - intros _. left. reflexivity.
Qed.
Print Assumptions C06_expire_conditions.

(* (PERSIST) removes the deadline of a visible key that has one (reply 1); otherwise reply 0 and
   nothing changes *)
Theorem C06_deadline_lifecycle_persist : forall d now nowms c k hint,
  db_wf d -> lower c = B "persist" ->
  let res := exec d now nowms [c; k] hint in
  match view d now k with
  | Some (val, Some t) =>
    fst res = RInt 1 /\ raw_view (snd res) k = Some (val, None) /\
    forall k0, k0 <> k -> raw_view (snd res) k0 = view d now k0
  | _ => res = (RInt 0, purge d now)
  end.
Proof. exact exec_persist_spec. Qed.
Print Assumptions C06_deadline_lifecycle_persist.

(* (DEL) key and deadline are gone, so a key re-created later starts without deadline *)
Theorem C06_deadline_lifecycle_del : forall d now nowms c keys hint k,
  lower c = B "del" -> In k keys ->
  raw_view (snd (exec d now nowms (c :: keys) hint)) k = None /\
  db_ttl (snd (exec d now nowms (c :: keys) hint)) k = None.
Proof. exact exec_del_gone. Qed.
Print Assumptions C06_deadline_lifecycle_del.

(* (RENAME) value and deadline travel to the new name; whatever the new name held (value and
   deadline) is replaced; the old name is gone *)
Theorem C06_deadline_lifecycle_rename : forall d now nowms c old new hint,
  db_wf d -> lower c = B "rename" ->
  let res := exec d now nowms [c; old; new] hint in
  match view d now old with
  | Some (val, t) =>
    fst res = rOK /\ raw_view (snd res) new = Some (val, t) /\
    (old <> new -> raw_view (snd res) old = None) /\
    forall k0, k0 <> old -> k0 <> new -> raw_view (snd res) k0 = view d now k0
  | None => snd res = purge d now
  end.
Proof. exact exec_rename_carries. Qed.
Print Assumptions C06_deadline_lifecycle_rename.

(* ------------------------------------------------------------------ C06_monotone_clock_programs *)
(* Programs whose clocks never go back: once the clock has reached the deadline t of key k, the
   rest of the program -- whatever it does, including re-creating k -- runs exactly as if k had
   been deleted at that point (same replies up to the order of KEYS, same views afterwards). *)
Theorem C06_monotone_clock_programs : forall d0 p q k t,
  db_wf d0 -> clocks_nondecreasing (p ++ q) ->
  let d := snd (run d0 p) in
  db_ttl d k = Some t ->
  match q with s :: _ => t <= s_now s | [] => True end ->
  replies_rel q (fst (run d q)) (fst (run (db_del d k) q)) /\
  (forall now, t <= now -> forall k', view (snd (run d q)) now k' = view (snd (run (db_del d k) q)) now k').
Proof.
  intros d0 p q k t W N. cbv zeta. intros E H.
  apply run_expired_as_deleted; [apply run_wf; exact W|exact E|eapply nondecreasing_app_r; exact N|exact H].
Qed.
Print Assumptions C06_monotone_clock_programs.

(* ... and as long as no command names k it stays invisible, at every clock from the deadline on
   that is not earlier than [step_end] of the steps run so far (a step's own clock second; for
   BLPOP/BRPOP, which poll every 100 ms until their timer fires, the second of that timer). *)
Theorem C06_expired_stays_invisible : forall d k t p now,
  db_wf d -> db_ttl d k = Some t ->
  Forall (fun s => ~ names_key k s) p ->
  Forall (fun s => step_end (s_now s) (s_nowms s) (s_args s) <= now) p -> t <= now ->
  view (snd (run d p)) now k = None.
Proof. exact run_expired_stays_invisible. Qed.
Print Assumptions C06_expired_stays_invisible.

(* well-formedness is an invariant, so the hypothesis [db_wf] holds of every reachable state *)
Theorem C06_wf_invariant : forall p d, db_wf d -> db_wf (snd (run d p)).
Proof. exact run_wf. Qed.
Print Assumptions C06_wf_invariant.

(* ------------------------------------------------------------------ C06_deadlines_are_per_database *)
(* Server level (Mem/Server.v: databases [sdbs], per-connection selection).  A command issued by a
   connection that has database i selected changes no deadline, no value and no visibility in any
   database j <> i (and SELECT changes none at all): database j is literally the same afterwards,
   so every key has the deadline it had and is visible at exactly the clocks it was.  Deadlines
   belong to (database, key), never to the key name alone. *)
Theorem C06_deadlines_are_per_database : forall s conn now nowms args hint j dj,
  j <> sel_lookup conn (ssel s) \/ is_select args = true ->
  nth_error (sdbs s) j = Some dj ->
  let s' := snd (srv_exec s conn now nowms args hint) in
  nth_error (sdbs s') j = Some dj /\
  forall dj', nth_error (sdbs s') j = Some dj' ->
    (forall k, db_ttl dj' k = db_ttl dj k) /\ (forall t k, view dj' t k = view dj t k).
Proof.
  intros s conn now nowms args hint j dj H G. cbv zeta.
  rewrite (other_db_untouched s conn now nowms args hint j H). split; [exact G|].
  intros dj' G'. rewrite G in G'. injection G' as <-. split; reflexivity.
Qed.
Print Assumptions C06_deadlines_are_per_database.

(* Over interleaved programs of any number of connections: the deadlines (and everything else)
   of database j after the program are those produced by the commands addressed to j alone --
   issued while their connection had j selected -- run on database j by themselves; the lifecycle
   theorems above then say what each of them does.  In particular a database nobody addressed is
   unchanged, whatever happened to the same key names elsewhere. *)
Theorem C06_deadlines_follow_own_database : forall p j s dj,
  nth_error (sdbs s) j = Some dj ->
  nth_error (sdbs (snd (srv_run s p))) j = Some (snd (db_run dj (map fst (addressed j s p)))) /\
  (addressed j s p = [] -> nth_error (sdbs (snd (srv_run s p))) j = Some dj).
Proof.
  intros p j s dj G. split.
  - exact (proj1 (one_keyspace_per_index p j s dj G)).
  - apply unaddressed_db_unchanged. exact G.
Qed.
Print Assumptions C06_deadlines_follow_own_database.

(* ------------------------------------------------------------------ non-vacuity *)
Definition st (now : Z) (args : list bytes) : step := mkStep now (now * 1000) args RNil.

(* SET k v EX 10 at clock 100: visible with TTL 5 at 105, still there at 109, gone at 110 *)
Example ex_set_ex :
  let d := snd (run empty_db [st 100 [B "SET"; B "k"; B "v"; B "EX"; B "10"]]) in
  db_wf d /\ db_ttl d (B "k") = Some 110 /\
  view d 109 (B "k") = Some (VStr (B "v"), Some 110) /\ view d 110 (B "k") = None /\
  fst (run d [st 105 [B "TTL"; B "k"]; st 109 [B "GET"; B "k"]; st 110 [B "GET"; B "k"];
              st 110 [B "TTL"; B "k"]; st 110 [B "APPEND"; B "k"; B "x"]; st 111 [B "GET"; B "k"];
              st 111 [B "TTL"; B "k"]])
  = [RInt 5; RBulk (B "v"); RNil; RInt (-2); RInt 1; RBulk (B "x"); RInt (-1)].
Proof.
  cbv zeta. split; [apply run_wf, db_wf_empty|]. vm_compute. repeat split.
Qed.

(* EXPIRE options on a key with deadline 150 at clock 100: GT 10 -> 0, GT 100 -> 1 (200),
   LT 150 -> 0, LT 20 -> 1 (120), NX -> 0, XX 30 -> 1 (130); on a key without deadline GT -> 0,
   LT -> 1 *)
Example ex_expire_opts :
  fst (run empty_db
    [st 100 [B "SET"; B "k"; B "v"]; st 100 [B "EXPIRE"; B "k"; B "50"];
     st 100 [B "EXPIRE"; B "k"; B "10"; B "GT"]; st 100 [B "EXPIRE"; B "k"; B "100"; B "gt"];
     st 100 [B "EXPIRE"; B "k"; B "150"; B "LT"]; st 100 [B "EXPIRE"; B "k"; B "20"; B "LT"];
     st 100 [B "EXPIRE"; B "k"; B "5"; B "NX"]; st 100 [B "EXPIRE"; B "k"; B "30"; B "XX"];
     st 100 [B "TTL"; B "k"]; st 100 [B "PERSIST"; B "k"];
     st 100 [B "EXPIRE"; B "k"; B "30"; B "XX"]; st 100 [B "EXPIRE"; B "k"; B "30"; B "GT"];
     st 100 [B "EXPIRE"; B "k"; B "30"; B "LT"]; st 100 [B "TTL"; B "k"]])
  = [rOK; RInt 1; RInt 0; RInt 1; RInt 0; RInt 1; RInt 0; RInt 1; RInt 30; RInt 1;
     RInt 0; RInt 0; RInt 1; RInt 30].
Proof. vm_compute. reflexivity. Qed.

(* the hypotheses of the lifecycle theorems are satisfiable *)
Example ex_set_hyps :
  exists o, set_parse [B "PX"; B "1500"; B "GET"] setopts0 = Some o /\
            set_conflict o || ex_overflow 100 (o_ex o) = false /\
            set_writes o (view empty_db 100 (B "k")) /\
            set_deadline 100 o None = Some 102.
Proof. eexists. split; [reflexivity|]. vm_compute. repeat split. Qed.

Example ex_rename_carries :
  let d := snd (run empty_db [st 100 [B "RPUSH"; B "l"; B "a"; B "b"]; st 100 [B "EXPIRE"; B "l"; B "7"];
                              st 101 [B "RENAME"; B "l"; B "m"]]) in
  raw_view d (B "m") = Some (VList [B "a"; B "b"], Some 107) /\ raw_view d (B "l") = None.
Proof. vm_compute. split; reflexivity. Qed.

(* a program with nondecreasing clocks that passes the deadline and re-creates the key *)
Example ex_monotone :
  let p := [st 100 [B "SETEX"; B "k"; B "2"; B "v"]] in
  let q := [st 102 [B "GET"; B "k"]; st 102 [B "LPUSH"; B "k"; B "x"]; st 103 [B "TYPE"; B "k"];
            st 104 [B "KEYS"; B "*"]] in
  clocks_nondecreasing (p ++ q) /\ db_ttl (snd (run empty_db p)) (B "k") = Some 102 /\
  fst (run (snd (run empty_db p)) q) = [RNil; RInt 1; RSimple (B "list"); RArr [RBulk (B "k")]].
Proof. vm_compute. repeat split; discriminate. Qed.

Example ex_no_deadline :
  let d := snd (run empty_db [st 100 [B "SET"; B "k"; B "v"]]) in
  db_get d (B "k") = Some (VStr (B "v")) /\ db_ttl d (B "k") = None /\
  Forall (leaves_deadlines (B "k"))
         [st 5000 [B "APPEND"; B "k"; B "w"]; st 9000 [B "GET"; B "k"]; st 9000 [B "EXPIRE"; B "j"; B "1"]].
Proof.
  cbv zeta. split; [vm_compute; reflexivity|]. split; [vm_compute; reflexivity|].
  apply Forall_cons; [right; reflexivity|]. apply Forall_cons; [right; reflexivity|].
  apply Forall_cons; [left|apply Forall_nil].
  unfold names_key. cbn. intros [H|[H|[]]]; discriminate.
Qed.

(* hashes and sorted sets expire like everything else; a blocked BLPOP whose polls straddle the
   deadline (deadline 102, polls from 101.9 s on) finds nothing *)
Example ex_other_families :
  fst (run empty_db
    [st 100 [B "HSET"; B "h"; B "f"; B "v"]; st 100 [B "ZADD"; B "z"; B "1"; B "m"];
     st 100 [B "RPUSH"; B "l"; B "a"];
     st 100 [B "EXPIRE"; B "h"; B "2"]; st 100 [B "EXPIRE"; B "z"; B "2"]; st 100 [B "EXPIRE"; B "l"; B "2"];
     st 101 [B "HGET"; B "h"; B "f"]; st 101 [B "ZRANK"; B "z"; B "m"]; st 101 [B "HSET"; B "h"; B "g"; B "w"];
     st 101 [B "TTL"; B "h"];
     mkStep 101 101950 [B "BLPOP"; B "l"; B "1"] RNil;
     st 102 [B "HGET"; B "h"; B "f"]; st 102 [B "ZRANK"; B "z"; B "m"]; st 102 [B "HLEN"; B "h"];
     st 102 [B "ZADD"; B "z"; B "5"; B "n"]; st 102 [B "TTL"; B "z"]])
  = [RInt 1; RInt 1; RInt 1; RInt 1; RInt 1; RInt 1;
     RBulk (B "v"); RInt 0; RInt 1; RInt 1; RNil;
     RNil; RNil; RInt 0; RInt 1; RInt (-1)].
Proof. vm_compute. reflexivity. Qed.

(* sets and streams; SINTERSTORE replaces a destination that had a deadline; SPOP empties a set *)
Example ex_sets_streams :
  fst (run empty_db
    [st 100 [B "SADD"; B "s"; B "a"; B "b"]; st 100 [B "SADD"; B "t"; B "b"]; st 100 [B "SET"; B "dst"; B "v"; B "EX"; B "50"];
     st 100 [B "XADD"; B "x"; B "5-1"; B "f"; B "v"]; st 100 [B "EXPIRE"; B "s"; B "2"]; st 100 [B "EXPIRE"; B "x"; B "2"];
     st 101 [B "SINTERSTORE"; B "dst"; B "s"; B "t"]; st 101 [B "TTL"; B "dst"]; st 101 [B "SCARD"; B "s"];
     st 101 [B "XRANGE"; B "x"; B "-"; B "+"; B "COUNT"; B "0"];
     st 102 [B "SCARD"; B "s"]; st 102 [B "SISMEMBER"; B "s"; B "a"]; st 102 [B "SINTER"; B "s"; B "t"];
     st 102 [B "XRANGE"; B "x"; B "-"; B "+"]; st 102 [B "SADD"; B "s"; B "n"]; st 102 [B "TTL"; B "s"];
     mkStep 102 102000 [B "SPOP"; B "s"] (RBulk (B "n")); st 102 [B "EXISTS"; B "s"]])
  = [RInt 2; RInt 1; rOK; RBulk (B "5-1"); RInt 1; RInt 1;
     RInt 1; RInt (-1); RInt 2; RNilArr;
     RInt 0; RInt 0; RArr []; RArr []; RInt 1; RInt (-1); RBulk (B "n"); RInt 0].
Proof. vm_compute. reflexivity. Qed.

(* the same key name in three databases: SET k EX 100 in db0; plain SET k in db1 (must not drop
   db0's deadline); RPUSH k + EXPIRE k 1 in db2 (must not shorten db0's); at clock 102 db2's key is
   gone, db0's still has 98 s, db1's has no deadline *)
Definition sv (conn now : Z) (args : list bytes) : sstep := mkSStep conn now (now * 1000) args RNil.
Example ex_per_database :
  fst (srv_run (srv_init 3)
    [sv 1 100 [B "SELECT"; B "1"]; sv 2 100 [B "SELECT"; B "2"];
     sv 0 100 [B "SET"; B "k"; B "v"; B "EX"; B "100"]; sv 1 100 [B "SET"; B "k"; B "w"];
     sv 2 100 [B "RPUSH"; B "k"; B "x"]; sv 2 100 [B "EXPIRE"; B "k"; B "1"];
     sv 0 100 [B "TTL"; B "k"]; sv 1 100 [B "TTL"; B "k"]; sv 2 100 [B "TTL"; B "k"];
     sv 2 102 [B "EXISTS"; B "k"]; sv 0 102 [B "TTL"; B "k"]; sv 0 102 [B "GET"; B "k"];
     sv 1 102 [B "TTL"; B "k"]; sv 1 102 [B "DEL"; B "k"]; sv 0 102 [B "TTL"; B "k"]])
  = [rOK; rOK; rOK; rOK; RInt 1; RInt 1; RInt 100; RInt (-1); RInt 1;
     RInt 0; RInt 98; RBulk (B "v"); RInt (-1); RInt 1; RInt 98].
Proof. vm_compute. reflexivity. Qed.

(* the boundary values of the check, in the model *)
Example ex_px_boundaries :
  fst (run empty_db
    [st 100 [B "SET"; B "k"; B "v"; B "PX"; B "10000000000000"]; st 100 [B "TTL"; B "k"];
     st 100 [B "SET"; B "k"; B "v"; B "PX"; B "9007199254740992"]; st 100 [B "TTL"; B "k"];
     st 100 [B "SET"; B "k"; B "v"; B "PX"; B "9223372036854775807"]; st 100 [B "TTL"; B "k"];
     st 100 [B "SET"; B "k"; B "v"; B "PX"; B "9223372036854775808"]; st 100 [B "SET"; B "k"; B "v"; B "PX"; B "0"];
     st 100 [B "SET"; B "k"; B "v"; B "PX"; B "1"]; st 100 [B "TTL"; B "k"];
     st 100 [B "SET"; B "k"; B "v"; B "EX"; B "9223372036854775707"]; st 100 [B "SET"; B "k"; B "v"; B "EX"; B "9223372036854775708"]])
  = [rOK; RInt 10000000000; rOK; RInt 9007199254741; rOK; RInt 9223372036854776; err_other; err_other;
     rOK; RInt 1; rOK; err_other].
Proof. vm_compute. reflexivity. Qed.
