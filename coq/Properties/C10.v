(* C10 — hash commands maintain an exact field-to-value map (statements only; being filled in). *)
Require Import Base.Bytes Base.GoInt Base.Reply Mem.Types Mem.Hashes.
Local Open Scope Z_scope.

Theorem C10_hlen_counts : forall (d : db) (c k : bytes) (h : hash),
  db_get d k = Some (VHash h) -> exec_hlen d [c; k] = (RInt (zlength h), d).
Proof. intros d c k h H. unfold exec_hlen, hash_or_empty, get_hash. rewrite H. reflexivity. Qed.
Print Assumptions C10_hlen_counts.
