(* C10 — hash commands maintain an exact field-to-value map (statements only).

   Model: coq/Mem/Hashes.v (+ HashDec.v), the functional statement of memdb/hash.go and
   memdb/hash_struct.go after the fix commits; proofs: coq/Mem/HashesProofs.v.
   The abstract map of a hash h is  hview h : field -> option value  (hview h f = alookup f h);
   hfield d k f is the abstract map of the hash stored at key k of database d (no field when the
   key is missing or holds another type).  Executors run on a database from which the keys
   past their deadline have been purged (Exec.exec / hstep do that first), so "missing" includes
   "expired"; the step-level theorems below go through hstep, i.e. through purge.

   Trusted / not shown here: HINCRBYFLOAT is computed on the exact decimal domain of HashDec.v only
   (outside it the model follows the observed reply, C10_float_finite_or_rejected still holds);
   reply order of HGETALL/HKEYS/HVALS is the model's list order (the implementation's order is
   Go map order: compared as multisets by the check). *)
Require Import Base.Bytes Base.GoInt Base.Reply Mem.Types Mem.Inv Mem.HashDec Mem.Hashes Mem.HashesProofs.
Local Open Scope Z_scope.

(* ------------------------------------------------------------------ refinement, per command *)

(* HSET k f v as one step at any clock, on any well-formed database where k is not a key of
   another type (h = the live hash at k, [] when k is missing or expired): the reply is the number
   of fields not present before, f now maps to v, every other field and every other key is
   unchanged, the deadline of k is unchanged. *)
Theorem C10_refines_hset : forall d now nowms c0 k f v hint h,
  db_wf d -> lower c0 = B "hset" -> hash_or_empty (purge d now) k = Some h ->
  let r := fst (hstep d (mkH now nowms [c0; k; f; v] hint)) in
  let d' := snd (hstep d (mkH now nowms [c0; k; f; v] hint)) in
  r = RInt (if hview h f then 0 else 1) /\
  hfield d' k f = Some v /\
  (forall f0, f0 <> f -> hfield d' k f0 = hview h f0) /\
  (forall k0, k0 <> k -> raw_view d' k0 = view d now k0) /\
  db_ttl d' k = db_ttl (purge d now) k /\
  db_wf d'.
Proof. exact hstep_hset_refines. Qed.
Print Assumptions C10_refines_hset.

(* HSET with any number of pairs: the reply is the growth of the hash (= the number of distinct new
   fields), each field maps to the last value written to it by the command, others are unchanged *)
Theorem C10_refines_hset_many : forall d c k fvs ps h,
  pairs_of fvs = Some ps -> ps <> [] -> hash_or_empty d k = Some h ->
  exists h',
    exec_hset d (c :: k :: fvs) = (RInt (zlength h' - zlength h), db_set d k (VHash h')) /\
    (forall f, hview h' f = match alookup f (rev ps) with Some v => Some v | None => hview h f end) /\
    (NoDup (akeys h) -> NoDup (akeys h')) /\ h' <> [].
Proof. exact exec_hset_spec. Qed.
Print Assumptions C10_refines_hset_many.

Theorem C10_refines_hsetnx : forall d c k f v h, hash_or_empty d k = Some h ->
  exec_hsetnx d [c; k; f; v] =
  if amem f h then (RInt 0, d) else (RInt 1, db_set d k (VHash (aset f v h))).
Proof. exact exec_hsetnx_spec. Qed.
Print Assumptions C10_refines_hsetnx.

(* reads: HGET is nil exactly for a missing field; HMGET answers one element per requested field,
   also on a missing key (h = []) *)
Theorem C10_refines_hget : forall d c k f h, hash_or_empty d k = Some h ->
  exec_hget d [c; k; f] = (bulk_opt (hview h f), d).
Proof. exact exec_hget_spec. Qed.
Print Assumptions C10_refines_hget.

Theorem C10_refines_hmget : forall d c k f fs h, hash_or_empty d k = Some h ->
  exec_hmget d (c :: k :: f :: fs) = (RArr (map (fun x => bulk_opt (hview h x)) (f :: fs)), d).
Proof. exact exec_hmget_spec. Qed.
Print Assumptions C10_refines_hmget.

Theorem C10_refines_reads : forall d c k f h, hash_or_empty d k = Some h ->
  exec_hgetall d [c; k] = (RArr (flat_pairs h), d) /\
  exec_hkeys d [c; k] = (RArr (map (fun p => RBulk (fst p)) h), d) /\
  exec_hvals d [c; k] = (RArr (map (fun p => RBulk (snd p)) h), d) /\
  exec_hlen d [c; k] = (RInt (zlength h), d) /\
  exec_hexists d [c; k; f] = (RInt (if hview h f then 1 else 0), d) /\
  exec_hstrlen d [c; k; f] = (RInt (match hview h f with Some v => zlength v | None => 0 end), d).
Proof. exact exec_reads_spec. Qed.
Print Assumptions C10_refines_reads.

(* HDEL: the reply is the number of fields that existed, exactly the named fields are gone, and
   when no field is left the key and its deadline are gone *)
Theorem C10_refines_hdel : forall d c k f fs h,
  get_hash d k = HFound h -> NoDup (akeys h) ->
  exists h',
    exec_hdel d (c :: k :: f :: fs) = (RInt (zlength h - zlength h'), put_hash d k h') /\
    (forall x, hview h' x = if existsb (bytes_eqb x) (f :: fs) then None else hview h x) /\
    (h' = [] -> db_get (put_hash d k h') k = None /\ db_ttl (put_hash d k h') k = None) /\
    ((forall x, hview h x <> None -> In x (f :: fs)) -> h' = []).
Proof. exact exec_hdel_spec. Qed.
Print Assumptions C10_refines_hdel.

(* ------------------------------------------------------------------ last write wins *)
(* After any program p, HSET k f v (not WRONGTYPE), then any program q in which no write command
   on key k names f among its arguments and whose commands run before k's deadline (if k has one):
   HGET k f answers v. *)
Theorem C10_last_write_wins : forall d p k f v t tms c0 hint0 q t' tms' c1 hint1 r d2,
  db_wf d ->
  lower c0 = B "hset" -> lower c1 = B "hget" ->
  hstep (hrun d p) (mkH t tms [c0; k; f; v] hint0) = (r, d2) ->
  is_err r = false ->
  (forall c, In c q -> touches c k f = false /\ before_deadline d2 k (c_now c)) ->
  before_deadline d2 k t' ->
  fst (hstep (hrun d2 q) (mkH t' tms' [c1; k; f] hint1)) = RBulk v.
Proof. exact last_write_wins. Qed.
Print Assumptions C10_last_write_wins.

(* a field no command names, or any field of another key, is not affected by a hash command *)
Theorem C10_untouched : forall d now nowms n args hint r d' k0 f,
  hashes_dispatch d now nowms n args hint = Some (r, d') ->
  (k0 <> key_of args \/ ~ In f (fields_of args)) -> hfield d' k0 f = hfield d k0 f.
Proof. exact hashes_dispatch_untouched. Qed.
Print Assumptions C10_untouched.

(* ------------------------------------------------------------------ the empty string is a value *)
Theorem C10_empty_value_distinct : forall d c k f c1 c2 c3 r d',
  exec_hset d [c; k; f; []] = (r, d') -> is_err r = false ->
  exec_hget d' [c1; k; f] = (RBulk [], d') /\
  exec_hexists d' [c2; k; f] = (RInt 1, d') /\
  exec_hstrlen d' [c3; k; f] = (RInt 0, d') /\
  hfield d' k f = Some [] /\ RBulk [] <> RNil.
Proof. exact empty_value_distinct. Qed.
Print Assumptions C10_empty_value_distinct.

(* ------------------------------------------------------------------ numeric updates: exact or rejected *)
(* HINCRBY: a missing field counts as 0; a field holding an int64 is replaced by the exact sum when
   that is an int64; otherwise (not an integer, sum out of range) the reply is an error and nothing
   changes.  No wrap-around. *)
Theorem C10_numeric_exact_or_rejected : forall d c k f n h delta,
  hash_or_empty d k = Some h -> atoi64 n = Some delta ->
  exec_hincrby d [c; k; f; n] =
  match hview h f with
  | None => (RInt delta, db_set d k (VHash (aset f (z_to_dec delta) h)))
  | Some b =>
    match atoi64 b with
    | None => (err_other, d)
    | Some x => if in_int64 (x + delta)
                then (RInt (x + delta), db_set d k (VHash (aset f (z_to_dec (x + delta)) h)))
                else (err_other, d)
    end
  end.
Proof. exact exec_hincrby_spec. Qed.
Print Assumptions C10_numeric_exact_or_rejected.

(* the stored rendering reads back as the same integer (so the next HINCRBY continues exactly) *)
Theorem C10_numeric_reads_back : forall z, in_int64 z = true -> atoi64 (z_to_dec z) = Some z.
Proof. exact atoi64_z_to_dec. Qed.
Print Assumptions C10_numeric_reads_back.

Theorem C10_numeric_bad_increment : forall d c k f n, atoi64 n = None -> exec_hincrby d [c; k; f; n] = (err_other, d).
Proof. exact exec_hincrby_badarg. Qed.
Print Assumptions C10_numeric_bad_increment.

(* HINCRBYFLOAT on the exact decimal domain (HashDec.v): increment a = m/10^e, stored value
   b = m0/10^e0, the sum at the common scale is exact (C10_float_sum_exact) and, when it stays in the
   domain, it is what is replied and stored *)
Theorem C10_float_exact : forall d c k f a h b m e m0 e0 hint,
  hash_or_empty d k = Some h -> hview h f = Some b ->
  fclassify a = FDec m e -> fclassify b = FDec m0 e0 ->
  let s := dec_add m0 e0 m e in
  let s' := dec_norm (fst s) (snd s) in
  dec_in_dom (fst s') (snd s') = true ->
  exec_hincrbyfloat d [c; k; f; a] hint =
  (RBulk (fmt_dec (fst s') (snd s')), db_set d k (VHash (aset f (fmt_dec (fst s') (snd s')) h))).
Proof. exact exec_hincrbyfloat_exact. Qed.
Print Assumptions C10_float_exact.

Theorem C10_float_sum_exact : forall m1 e1 m2 e2,
  let E := N.max e1 e2 in
  let r := dec_add m1 e1 m2 e2 in
  (snd r <= E)%N /\ fst r * pow10 (E - snd r) = m1 * pow10 (E - e1) + m2 * pow10 (E - e2).
Proof. exact dec_add_exact. Qed.
Print Assumptions C10_float_sum_exact.

(* FDec m e really is the decimal the bytes denote *)
Theorem C10_float_reads_decimal : forall a m e, fclassify a = FDec m e ->
  exists neg mag, parse_dec a = Some (neg, mag, e) /\ m = (if neg then - mag else mag) /\ dec_in_dom mag e = true.
Proof. exact fclassify_dec. Qed.
Print Assumptions C10_float_reads_decimal.

(* For every argument, stored value and observation: HINCRBYFLOAT answers with an error and
   changes nothing, or answers with a plain finite decimal and stores exactly that in the field.
   nan / inf / infinity (no decimal digit) are always rejected. *)
Theorem C10_float_finite_or_rejected : forall d c k f a hint,
  let res := exec_hincrbyfloat d [c; k; f; a] hint in
  (is_err (fst res) = true /\ snd res = d) \/
  (exists b h, fst res = RBulk b /\ parse_dec b <> None /\ hash_or_empty d k = Some h /\
               snd res = db_set d k (VHash (aset f b h))).
Proof. exact exec_hincrbyfloat_finite_or_rejected. Qed.
Print Assumptions C10_float_finite_or_rejected.

Theorem C10_float_rejects_nan_inf : forall a, existsb is_digit a = false -> fclassify a = FBad.
Proof. exact fclassify_no_digit. Qed.
Print Assumptions C10_float_rejects_nan_inf.

(* ------------------------------------------------------------------ random selection *)
(* rand_ok h n ps: every (f, v) in ps is a field of h with its value; for n >= 0 the fields are
   pairwise distinct and there are min(n, len h) of them; for n < 0 there are exactly |n|.
   Whatever reply was observed (hint), the model's reply has that form; the database is unchanged. *)
Theorem C10_random_member : forall d c k cnt n h hint,
  hashes_ok d -> get_hash d k = HFound h -> atoi64 cnt = Some n -> - hrand_max <= n ->
  exists ps, rand_ok h n ps /\
    exec_hrandfield d [c; k; cnt] hint = (RArr (map (fun p => RBulk (fst p)) ps), d) /\
    forall o, lower o = B "withvalues" ->
      exists ps', rand_ok h n ps' /\ exec_hrandfield d [c; k; cnt; o] hint = (RArr (flat_pairs ps'), d).
Proof. exact exec_hrandfield_count_spec. Qed.
Print Assumptions C10_random_member.

Theorem C10_random_one : forall d c k h hint,
  hashes_ok d -> get_hash d k = HFound h ->
  exists f, exec_hrandfield d [c; k] hint = (RBulk f, d) /\ hview h f <> None.
Proof. exact exec_hrandfield_one_spec. Qed.
Print Assumptions C10_random_one.

Theorem C10_random_missing : forall d c k cnt n hint,
  get_hash d k = HMissing -> atoi64 cnt = Some n -> - hrand_max <= n ->
  exec_hrandfield d [c; k] hint = (RNil, d) /\ exec_hrandfield d [c; k; cnt] hint = (RArr [], d).
Proof. exact exec_hrandfield_missing. Qed.
Print Assumptions C10_random_missing.

Theorem C10_random_unchanged : forall d args hint, snd (exec_hrandfield d args hint) = d.
Proof. exact exec_hrandfield_same. Qed.
Print Assumptions C10_random_unchanged.

(* the repaired allocation bound: a count below -2^20 is an error before the key is looked at *)
Theorem C10_random_bounded : forall d c k cnt n hint,
  atoi64 cnt = Some n -> n < - hrand_max -> exec_hrandfield d [c; k; cnt] hint = (err_other, d).
Proof. exact exec_hrandfield_bounded. Qed.
Print Assumptions C10_random_bounded.

(* ------------------------------------------------------------------ an emptied hash ceases to exist *)
(* value invariant: no empty hash is stored and fields are not duplicated -- kept, together with
   db_wf, by every program of hash commands from every state that has it (in particular from the
   empty database) *)
Theorem C10_empty_hash_removed : forall p d,
  db_wf d -> hashes_ok d -> db_wf (hrun d p) /\ hashes_ok (hrun d p).
Proof. exact hrun_invariants. Qed.
Print Assumptions C10_empty_hash_removed.

Theorem C10_invariant_step : forall d now nowms n args hint r d',
  hashes_ok d -> hashes_dispatch d now nowms n args hint = Some (r, d') -> hashes_ok d'.
Proof. exact hashes_dispatch_ok_pres. Qed.
Print Assumptions C10_invariant_step.

(* ------------------------------------------------------------------ errors, wrong type, frame, expiry *)
Theorem C10_wrongtype_changes_nothing : forall d now nowms n args hint r d',
  hash_or_empty d (key_of args) = None ->
  hashes_dispatch d now nowms n args hint = Some (r, d') -> is_err r = true /\ d' = d.
Proof. exact hashes_dispatch_wrongtype. Qed.
Print Assumptions C10_wrongtype_changes_nothing.

Theorem C10_error_changes_nothing : forall d now nowms n args hint r d',
  hashes_dispatch d now nowms n args hint = Some (r, d') -> is_err r = true -> d' = d.
Proof. exact hashes_dispatch_error_unchanged. Qed.
Print Assumptions C10_error_changes_nothing.

Theorem C10_read_changes_nothing : forall d now nowms n args hint r d',
  hash_write_name n = false -> hashes_dispatch d now nowms n args hint = Some (r, d') -> d' = d.
Proof. exact hashes_dispatch_read_same. Qed.
Print Assumptions C10_read_changes_nothing.

Theorem C10_frame : forall d now nowms n args hint r d' k0,
  hashes_dispatch d now nowms n args hint = Some (r, d') -> k0 <> key_of args ->
  raw_view d' k0 = raw_view d k0.
Proof. exact hashes_dispatch_frame. Qed.
Print Assumptions C10_frame.

Theorem C10_keeps_deadline : forall d now nowms n args hint r d',
  hashes_dispatch d now nowms n args hint = Some (r, d') -> db_get d' (key_of args) <> None ->
  db_ttl d' (key_of args) = db_ttl d (key_of args).
Proof. exact hashes_dispatch_keeps_deadline. Qed.
Print Assumptions C10_keeps_deadline.

Theorem C10_expired_is_missing : forall d now k, expired d now k = true -> get_hash (purge d now) k = HMissing.
Proof. exact expired_is_missing. Qed.
Print Assumptions C10_expired_is_missing.

Theorem C10_hashes_dispatch_wf_pres : forall d now nowms n args hint r d',
  db_wf d -> hashes_dispatch d now nowms n args hint = Some (r, d') -> db_wf d'.
Proof. exact hashes_dispatch_wf_pres. Qed.
Print Assumptions C10_hashes_dispatch_wf_pres.

Theorem C10_hashes_dispatch_reply_wf : forall d now nowms n args hint r d',
  hashes_dispatch d now nowms n args hint = Some (r, d') -> reply_wf r = true.
Proof. exact hashes_dispatch_reply_wf. Qed.
Print Assumptions C10_hashes_dispatch_reply_wf.

(* ------------------------------------------------------------------ non-vacuity *)
Definition cmd (now : Z) (args : list bytes) : hcmd := mkH now (now * 1000) args RNil.
Definition run0 (p : list hcmd) : db := hrun empty_db p.

(* hypotheses of the step theorems are satisfiable: the empty database is well formed and ok *)
Example C10_ex_empty_ok : db_wf empty_db /\ hashes_ok empty_db.
Proof. split; [exact db_wf_empty|exact hashes_ok_empty]. Qed.

(* HSET h f "" then HGET / HSTRLEN / HEXISTS / HLEN: empty bulk, 0, 1, 1 *)
Example C10_ex_empty_value :
  let d := run0 [cmd 0 [B "HSET"; B "h"; B "f"; []]] in
  fst (hstep d (cmd 0 [B "hget"; B "h"; B "f"])) = RBulk [] /\
  fst (hstep d (cmd 0 [B "hget"; B "h"; B "g"])) = RNil /\
  fst (hstep d (cmd 0 [B "hstrlen"; B "h"; B "f"])) = RInt 0 /\
  fst (hstep d (cmd 0 [B "hexists"; B "h"; B "f"])) = RInt 1 /\
  fst (hstep d (cmd 0 [B "hmget"; B "nokey"; B "a"; B "b"])) = RArr [RNil; RNil].
Proof. vm_compute. repeat split. Qed.

(* HSET replies with the number of new fields; the last write to a field wins inside one command *)
Example C10_ex_hset_count :
  fst (hstep empty_db (cmd 0 [B "hset"; B "h"; B "a"; B "1"; B "b"; B "2"; B "a"; B "3"])) = RInt 2 /\
  let d := run0 [cmd 0 [B "hset"; B "h"; B "a"; B "1"; B "b"; B "2"; B "a"; B "3"]] in
  fst (hstep d (cmd 0 [B "hget"; B "h"; B "a"])) = RBulk (B "3") /\
  fst (hstep d (cmd 0 [B "hset"; B "h"; B "a"; B "4"; B "c"; B "5"])) = RInt 1.
Proof. vm_compute. repeat split. Qed.

(* the hypotheses of C10_last_write_wins are satisfiable with a non-trivial q *)
Example C10_ex_last_write_wins_hyps :
  let q := [cmd 1 [B "hset"; B "h"; B "g"; B "x"]; cmd 2 [B "hdel"; B "h"; B "g"; B "zz"];
            cmd 2 [B "hget"; B "h"; B "f"]; cmd 3 [B "hincrby"; B "other"; B "f"; B "1"];
            cmd 3 [B "hrandfield"; B "h"; B "-3"]] in
  let '(r, d2) := hstep (run0 [cmd 0 [B "hset"; B "h"; B "f"; B "old"]]) (cmd 0 [B "HSet"; B "h"; B "f"; B "v"]) in
  is_err r = false /\
  (forall c, In c q -> touches c (B "h") (B "f") = false /\ before_deadline d2 (B "h") (c_now c)) /\
  fst (hstep (hrun d2 q) (cmd 9 [B "HGET"; B "h"; B "f"])) = RBulk (B "v").
Proof.
  cbv zeta. match goal with |- context [hstep ?a ?b] => destruct (hstep a b) as [r d2] eqn:E end.
  vm_compute in E. inversion E; subst r d2; clear E.
  split; [reflexivity|]. split; [|vm_compute; reflexivity].
  intros c [<-|[<-|[<-|[<-|[<-|[]]]]]]; (split; [vm_compute; reflexivity|vm_compute; exact I]).
Qed.

(* HDEL of the last field removes the key *)
Example C10_ex_last_field :
  let d := run0 [cmd 0 [B "hset"; B "h"; B "a"; B "1"]; cmd 0 [B "hdel"; B "h"; B "a"; B "a"; B "zz"]] in
  db_get d (B "h") = None /\ fst (hstep d (cmd 0 [B "hlen"; B "h"])) = RInt 0.
Proof. vm_compute. split; reflexivity. Qed.

(* HINCRBY: exact at the edge, rejected beyond it, value unchanged after the rejection *)
Example C10_ex_hincrby :
  let d := run0 [cmd 0 [B "hset"; B "h"; B "n"; B "9223372036854775806"]] in
  fst (hstep d (cmd 0 [B "hincrby"; B "h"; B "n"; B "1"])) = RInt 9223372036854775807 /\
  let d1 := snd (hstep d (cmd 0 [B "hincrby"; B "h"; B "n"; B "1"])) in
  is_err (fst (hstep d1 (cmd 0 [B "hincrby"; B "h"; B "n"; B "1"]))) = true /\
  fst (hstep (snd (hstep d1 (cmd 0 [B "hincrby"; B "h"; B "n"; B "1"]))) (cmd 0 [B "hget"; B "h"; B "n"]))
  = RBulk (B "9223372036854775807").
Proof. vm_compute. repeat split. Qed.

(* HINCRBYFLOAT: 10.5 + 0.25 = 10.75 exactly; nan and inf are rejected; the domain is inhabited *)
Example C10_ex_hincrbyfloat :
  let d := run0 [cmd 0 [B "hincrbyfloat"; B "h"; B "x"; B "10.5"]] in
  fst (hstep d (cmd 0 [B "hincrbyfloat"; B "h"; B "x"; B "0.25"])) = RBulk (B "10.75") /\
  is_err (fst (hstep d (cmd 0 [B "hincrbyfloat"; B "h"; B "x"; B "nan"]))) = true /\
  is_err (fst (hstep d (cmd 0 [B "hincrbyfloat"; B "h"; B "x"; B "-Infinity"]))) = true /\
  fclassify (B "10.5") = FDec 105 1 /\ fclassify (B "0.1") = FOther /\ fclassify (B "inf") = FBad.
Proof. vm_compute. repeat split. Qed.

(* HRANDFIELD: an allowed observation is accepted as it is, a forbidden one (a field that does not
   exist; a repeated field for a positive count) is not; counts below -2^20 are errors *)
Example C10_ex_hrandfield :
  let d := run0 [cmd 0 [B "hset"; B "h"; B "a"; B "1"; B "b"; B ""; B "c"; B "3"]] in
  let ask args hint := fst (hstep d (mkH 0 0 args hint)) in
  ask [B "hrandfield"; B "h"; B "2"] (RArr [RBulk (B "c"); RBulk (B "a")]) = RArr [RBulk (B "c"); RBulk (B "a")] /\
  ask [B "hrandfield"; B "h"; B "2"] (RArr [RBulk (B "c"); RBulk (B "c")]) <> RArr [RBulk (B "c"); RBulk (B "c")] /\
  ask [B "hrandfield"; B "h"; B "-2"] (RArr [RBulk (B "c"); RBulk (B "c")]) = RArr [RBulk (B "c"); RBulk (B "c")] /\
  ask [B "hrandfield"; B "h"; B "1"] (RArr [RBulk (B "zz")]) <> RArr [RBulk (B "zz")] /\
  ask [B "hrandfield"; B "h"; B "5"; B "WITHVALUES"] (RArr [RBulk (B "b"); RBulk []; RBulk (B "a"); RBulk (B "1"); RBulk (B "c"); RBulk (B "3")])
    = RArr [RBulk (B "b"); RBulk []; RBulk (B "a"); RBulk (B "1"); RBulk (B "c"); RBulk (B "3")] /\
  ask [B "hrandfield"; B "h"] (RBulk (B "b")) = RBulk (B "b") /\
  is_err (ask [B "hrandfield"; B "h"; B "-1048577"] (RArr [])) = true.
Proof. vm_compute. repeat split; discriminate. Qed.

(* a key of another type; an expired hash *)
Example C10_ex_wrongtype_and_expiry :
  let d := mkDb [(B "s", VStr (B "v")); (B "h", VHash [(B "f", B "v")])] [(B "h", 10)] in
  db_wf d /\ hashes_ok d /\
  hstep d (cmd 5 [B "hset"; B "s"; B "f"; B "v"]) = (err_wrongtype, purge d 5) /\
  fst (hstep d (cmd 9 [B "hget"; B "h"; B "f"])) = RBulk (B "v") /\
  fst (hstep d (cmd 10 [B "hget"; B "h"; B "f"])) = RNil /\
  fst (hstep d (cmd 10 [B "hsetnx"; B "h"; B "f"; B "new"])) = RInt 1.
Proof.
  split; [|split].
  - repeat split; cbn; repeat constructor; cbn; intuition discriminate.
  - intros k v. cbn. destruct (bytes_eqb k (B "s")); [intros H; inversion H; exact I|].
    destruct (bytes_eqb k (B "h")); [intros H; inversion H; split; [discriminate|repeat constructor; intros []]|discriminate].
  - vm_compute. repeat split.
Qed.

(* ---------------------------------------------------------------- all command families (Mem/AllInv.v)
   The hash invariant is preserved by every command of EVERY family (RENAME moving a hash, DEL,
   SET overwriting it, expiry ...), hence by any interleaving of them. *)
Require Mem.AllInv Mem.ZSetsCompose Mem.Exec.

Theorem C10_invariants_all_commands : forall (prog : list (Z * Z * list bytes * reply)) (d : db),
  db_wf d -> hashes_ok d ->
  db_wf (ZSetsCompose.run_cmds prog d) /\ hashes_ok (ZSetsCompose.run_cmds prog d).
Proof. exact AllInv.hashes_ok_all_commands. Qed.
Print Assumptions C10_invariants_all_commands.

Theorem C10_invariants_any_command : forall d now nowms args hint,
  AllInv.all_ok d -> AllInv.all_ok (snd (Exec.exec d now nowms args hint)).
Proof. exact AllInv.exec_all_ok. Qed.
Print Assumptions C10_invariants_any_command.
