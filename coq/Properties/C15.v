(* C15 — the Raft core never violates election safety, log matching or commitment.
   Statements only; proofs live in Raft/QuorumProofs.v and Raft/RaftProofs*.v. *)
Require Import List Arith Bool.
Require Import Raft.Quorum Raft.QuorumProofs.
Import ListNotations.

(* ------------------------------------------------------------------ quorum layer
   (quorum/majority.go, quorum/joint.go; any finite voter list, no size bound) *)

(* Any two sets of nodes that each contain a majority of one non-empty voter set share a
   voter.  [maj_sat c p]: the nodes satisfying p contain a majority of c (positions are
   counted, so the statement does not even need c to be duplicate-free). *)
Theorem C15_quorum_intersect : forall c p q,
  c <> [] -> maj_sat c p -> maj_sat c q ->
  exists v, In v c /\ p v = true /\ q v = true.
Proof. exact majority_intersect. Qed.
Print Assumptions C15_quorum_intersect.

(* Joint configurations (membership change in progress): a decision needs a majority of
   BOTH halves, hence two joint quorums intersect in a voter of a non-empty half. *)
Theorem C15_joint_quorum_intersect : forall c0 c1 p q,
  (c0 <> [] \/ c1 <> []) -> joint_sat c0 c1 p -> joint_sat c0 c1 q ->
  exists v, In v (c0 ++ c1) /\ p v = true /\ q v = true.
Proof. exact joint_intersect. Qed.
Print Assumptions C15_joint_quorum_intersect.

(* MajorityConfig.CommittedIndex: the value returned is acknowledged by a majority and is
   the largest such index. *)
Theorem C15_committed_index_spec : forall c acked r,
  majority_committed_index c acked = Fin r ->
  maj_sat c (acked_ge acked r) /\
  (forall r', r < r' -> ~ maj_sat c (acked_ge acked r')).
Proof. exact majority_committed_index_spec. Qed.
Print Assumptions C15_committed_index_spec.

(* JointConfig.CommittedIndex = min of the halves = the largest index acknowledged by a
   majority of both halves; MaxUint64 (Top) only for the empty joint configuration. *)
Theorem C15_joint_committed_index_spec : forall c0 c1 acked,
  joint_committed_index c0 c1 acked =
    xmin (majority_committed_index c0 acked) (majority_committed_index c1 acked) /\
  (forall r, joint_committed_index c0 c1 acked = Fin r ->
     joint_sat c0 c1 (acked_ge acked r) /\
     (forall r', r < r' -> ~ joint_sat c0 c1 (acked_ge acked r'))) /\
  (joint_committed_index c0 c1 acked = Top <-> c0 = [] /\ c1 = []).
Proof. exact joint_committed_index_spec. Qed.
Print Assumptions C15_joint_committed_index_spec.

(* MajorityConfig.VoteResult: Won iff the grants contain a majority; Lost iff a majority of
   grants has become impossible; Pending otherwise. *)
Theorem C15_vote_result_spec : forall c votes,
  (majority_vote_result c votes = VoteWon <-> maj_sat c (granted votes)) /\
  (majority_vote_result c votes = VoteLost <-> ~ maj_sat c (not_rejected votes)) /\
  (majority_vote_result c votes = VotePending <->
     ~ maj_sat c (granted votes) /\ maj_sat c (not_rejected votes)).
Proof. exact majority_vote_result_spec. Qed.
Print Assumptions C15_vote_result_spec.

Theorem C15_joint_vote_result_spec : forall c0 c1 votes,
  (joint_vote_result c0 c1 votes = VoteWon <-> joint_sat c0 c1 (granted votes)) /\
  (joint_vote_result c0 c1 votes = VoteLost <-> ~ joint_sat c0 c1 (not_rejected votes)) /\
  (joint_vote_result c0 c1 votes = VotePending <->
     ~ joint_sat c0 c1 (granted votes) /\ joint_sat c0 c1 (not_rejected votes)).
Proof. exact joint_vote_result_spec. Qed.
Print Assumptions C15_joint_vote_result_spec.

(* non-vacuity of the quorum statements *)
Example C15_ex_quorum :
  majority_committed_index [1;2;3] (fun i => match i with 1 => Some 5 | 2 => Some 3 | _ => None end) = Fin 3
  /\ joint_committed_index [1;2;3] [3;4;5] (fun i => match i with 1 => Some 5 | 2 => Some 3 | 3 => Some 4 | _ => None end) = Fin 0
  /\ majority_vote_result [1;2;3] (fun i => match i with 1 => Some true | 2 => Some true | _ => None end) = VoteWon
  /\ joint_vote_result [1;2;3] [4] (fun i => match i with 1 => Some true | 2 => Some true | 4 => Some false | _ => None end) = VoteLost.
Proof. repeat split. Qed.
