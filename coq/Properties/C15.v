(* C15 — the Raft core never violates election safety, log matching or commitment.
   Statements only; proofs live in Raft/QuorumProofs.v and Raft/RaftProofs*.v. *)
Require Import List Arith Bool Lia.
Require Import Raft.Quorum Raft.QuorumProofs Raft.RaftModel Raft.RaftSys Raft.RaftLog Raft.RaftInv
               Raft.RaftInvBase Raft.RaftInvMain Raft.RaftRefine Raft.RaftSafety Raft.RaftStepProps Raft.RaftSafetySteps Raft.RaftCheck
               Raft.RaftCC Raft.RaftCCCheck Raft.RaftCCRefine Raft.RaftCCSafety Raft.RaftCCQuorum Raft.RaftCCInv Raft.RaftCCOne Raft.RaftCCChain
               Raft.RaftPV Raft.RaftPVCheck Raft.RaftPVRefine.
Import ListNotations.

(* ------------------------------------------------------------------ quorum layer
   (quorum/majority.go, quorum/joint.go; any finite voter list, no size bound) *)

(* Any two sets of nodes that each contain a majority of one non-empty voter set share a
   voter.  [maj_sat c p]: the nodes satisfying p contain a majority of c (positions are
   counted, so the statement does not even need c to be duplicate-free). *)
Theorem C15_quorum_intersect : forall c p q,
  c <> [] -> maj_sat c p -> maj_sat c q ->
  exists v, In v c /\ p v = true /\ q v = true.
Proof. exact majority_intersect. Qed.
Print Assumptions C15_quorum_intersect.

(* Joint configurations (membership change in progress): a decision needs a majority of
   BOTH halves, hence two joint quorums intersect in a voter of a non-empty half. *)
Theorem C15_joint_quorum_intersect : forall c0 c1 p q,
  (c0 <> [] \/ c1 <> []) -> joint_sat c0 c1 p -> joint_sat c0 c1 q ->
  exists v, In v (c0 ++ c1) /\ p v = true /\ q v = true.
Proof. exact joint_intersect. Qed.
Print Assumptions C15_joint_quorum_intersect.

(* MajorityConfig.CommittedIndex: the value returned is acknowledged by a majority and is
   the largest such index. *)
Theorem C15_committed_index_spec : forall c acked r,
  majority_committed_index c acked = Fin r ->
  maj_sat c (acked_ge acked r) /\
  (forall r', r < r' -> ~ maj_sat c (acked_ge acked r')).
Proof. exact majority_committed_index_spec. Qed.
Print Assumptions C15_committed_index_spec.

(* JointConfig.CommittedIndex = min of the halves = the largest index acknowledged by a
   majority of both halves; MaxUint64 (Top) only for the empty joint configuration. *)
Theorem C15_joint_committed_index_spec : forall c0 c1 acked,
  joint_committed_index c0 c1 acked =
    xmin (majority_committed_index c0 acked) (majority_committed_index c1 acked) /\
  (forall r, joint_committed_index c0 c1 acked = Fin r ->
     joint_sat c0 c1 (acked_ge acked r) /\
     (forall r', r < r' -> ~ joint_sat c0 c1 (acked_ge acked r'))) /\
  (joint_committed_index c0 c1 acked = Top <-> c0 = [] /\ c1 = []).
Proof. exact joint_committed_index_spec. Qed.
Print Assumptions C15_joint_committed_index_spec.

(* MajorityConfig.VoteResult: Won iff the grants contain a majority; Lost iff a majority of
   grants has become impossible; Pending otherwise. *)
Theorem C15_vote_result_spec : forall c votes,
  (majority_vote_result c votes = VoteWon <-> maj_sat c (granted votes)) /\
  (majority_vote_result c votes = VoteLost <-> ~ maj_sat c (not_rejected votes)) /\
  (majority_vote_result c votes = VotePending <->
     ~ maj_sat c (granted votes) /\ maj_sat c (not_rejected votes)).
Proof. exact majority_vote_result_spec. Qed.
Print Assumptions C15_vote_result_spec.

Theorem C15_joint_vote_result_spec : forall c0 c1 votes,
  (joint_vote_result c0 c1 votes = VoteWon <-> joint_sat c0 c1 (granted votes)) /\
  (joint_vote_result c0 c1 votes = VoteLost <-> ~ joint_sat c0 c1 (not_rejected votes)) /\
  (joint_vote_result c0 c1 votes = VotePending <->
     ~ joint_sat c0 c1 (granted votes) /\ joint_sat c0 c1 (not_rejected votes)).
Proof. exact joint_vote_result_spec. Qed.
Print Assumptions C15_joint_vote_result_spec.

(* non-vacuity of the quorum statements *)
Example C15_ex_quorum :
  majority_committed_index [1;2;3] (fun i => match i with 1 => Some 5 | 2 => Some 3 | _ => None end) = Fin 3
  /\ joint_committed_index [1;2;3] [3;4;5] (fun i => match i with 1 => Some 5 | 2 => Some 3 | 3 => Some 4 | _ => None end) = Fin 0
  /\ majority_vote_result [1;2;3] (fun i => match i with 1 => Some true | 2 => Some true | _ => None end) = VoteWon
  /\ joint_vote_result [1;2;3] [4] (fun i => match i with 1 => Some true | 2 => Some true | 4 => Some false | _ => None end) = VoteLost.
Proof. repeat split. Qed.

(* ------------------------------------------------------------------ protocol layer
   (raft.go / log.go as re-stated in Raft/RaftModel.v).

   [xreachable c0 c1 x]: x is reachable from the initial state (every node: term 0, empty
   log) by ANY finite sequence of events of RaftSys.xstep — on any node: Campaign, Propose,
   Tick, crash-and-restart from the persisted state, or Step of ANY message that was ever
   sent to it, snapshots (MsgSnap) included (the network is a bag that only grows: loss,
   duplication, reordering, delay and partitions are schedules).  Log compaction changes no
   handler's behaviour: the model keeps whole logs and a snapshot stands for a log prefix.
   Any number of nodes; the voter configuration (c0, c1) is a
   fixed joint configuration, c1 = [] giving a plain majority configuration; it must not be
   empty.  No bound on anything.  Membership change is not covered at this level (see the
   joint-quorum theorems above for what the quorum layer guarantees during one). *)

(* at most one leader per term *)
Theorem C15_election_safety : forall c0 c1, (c0 <> [] \/ c1 <> []) ->
  forall x, xreachable c0 c1 x ->
  forall a b, n_role (x_nodes x a) = Leader -> n_role (x_nodes x b) = Leader ->
    n_term (x_nodes x a) = n_term (x_nodes x b) -> a = b.
Proof. exact election_safety. Qed.
Print Assumptions C15_election_safety.

(* ... and over the whole run: a term has at most one leader EVER, across crashes, restarts
   and re-elections *)
Theorem C15_election_safety_forever : forall c0 c1, (c0 <> [] \/ c1 <> []) ->
  forall x x', xreachable c0 c1 x -> xsteps c0 c1 x x' ->
  forall a b, n_role (x_nodes x a) = Leader -> n_role (x_nodes x' b) = Leader ->
    n_term (x_nodes x a) = n_term (x_nodes x' b) -> a = b.
Proof. exact election_safety_forever. Qed.
Print Assumptions C15_election_safety_forever.

(* two logs holding an entry of the same term at the same index are identical up to it *)
Theorem C15_log_matching : forall c0 c1, (c0 <> [] \/ c1 <> []) ->
  forall x, xreachable c0 c1 x ->
  forall a b i, 1 <= i -> i <= length (n_log (x_nodes x a)) -> i <= length (n_log (x_nodes x b)) ->
    term_at (n_log (x_nodes x a)) i = term_at (n_log (x_nodes x b)) i ->
    firstn i (n_log (x_nodes x a)) = firstn i (n_log (x_nodes x b)).
Proof. exact log_matching. Qed.
Print Assumptions C15_log_matching.

(* term, vote and commit of every node never regress: the term and the commit index are
   monotone and the vote changes only together with a term increase or from "none" *)
Theorem C15_hardstate_monotone : forall c0 c1 x x', xreachable c0 c1 x -> xstep c0 c1 x x' ->
  forall y, n_term (x_nodes x y) <= n_term (x_nodes x' y) /\
            n_commit (x_nodes x y) <= n_commit (x_nodes x' y) /\
            (n_term (x_nodes x' y) = n_term (x_nodes x y) ->
             n_vote (x_nodes x' y) = n_vote (x_nodes x y) \/ n_vote (x_nodes x y) = None).
Proof. exact hardstate_monotone. Qed.
Print Assumptions C15_hardstate_monotone.

(* a leader moves its commit index only onto an entry of its own current term *)
Theorem C15_commit_current_term_only : forall c0 c1 x x', xreachable c0 c1 x -> xstep c0 c1 x x' ->
  forall y, n_role (x_nodes x' y) = Leader -> n_commit (x_nodes x y) < n_commit (x_nodes x' y) ->
    term_at (n_log (x_nodes x' y)) (n_commit (x_nodes x' y)) = n_term (x_nodes x' y).
Proof. exact commit_current_term_only. Qed.
Print Assumptions C15_commit_current_term_only.

(* ... and every commit index, on any node, is covered by an index k0 that a quorum
   acknowledged in the term t0 in which the leader of t0 created entry k0 (micro level:
   ga x t0 = what x acknowledged in term t0, LL t0 = the log of the leader of t0) *)
Theorem C15_commit_justified : forall c0 c1, (c0 <> [] \/ c1 <> []) ->
  forall s, mreachable [(c0, c1)] s ->
  forall y, n_commit (nodes s y) = 0 \/
    exists t0 k0, t0 <= n_term (nodes s y) /\ n_commit (nodes s y) <= k0 /\
      term_at (LL s t0) k0 = t0 /\ Qr [(c0, c1)] (ackedp s t0 k0) /\
      firstn (n_commit (nodes s y)) (n_log (nodes s y)) = firstn (n_commit (nodes s y)) (LL s t0).
Proof. exact commit_justified. Qed.
Print Assumptions C15_commit_justified.

(* Leader completeness.  Ghost form: an entry committed in term t is in the log of the
   leader of every later term. *)
Theorem C15_leader_completeness_ghost : forall c0 c1, (c0 <> [] \/ c1 <> []) ->
  forall s, mreachable [(c0, c1)] s ->
  forall t k t3, committed_at [(c0, c1)] s t k -> t < t3 -> LL s t3 <> [] ->
    k <= length (LL s t3) /\ firstn k (LL s t3) = firstn k (LL s t).
Proof. exact leader_completeness_ghost. Qed.
Print Assumptions C15_leader_completeness_ghost.

(* Observable form: a leader holds every entry committed by any node whose term does not
   exceed the leader's.  (A deposed leader of an old term need not hold entries committed in
   later terms — and by C15_commit_current_term_only / C15_state_machine_safety it cannot
   commit anything conflicting.) *)
Theorem C15_leader_completeness : forall c0 c1, (c0 <> [] \/ c1 <> []) ->
  forall x, xreachable c0 c1 x ->
  forall l y, n_role (x_nodes x l) = Leader -> n_term (x_nodes x y) <= n_term (x_nodes x l) ->
    n_commit (x_nodes x y) <= length (n_log (x_nodes x l)) /\
    firstn (n_commit (x_nodes x y)) (n_log (x_nodes x l)) = firstn (n_commit (x_nodes x y)) (n_log (x_nodes x y)).
Proof. exact leader_completeness. Qed.
Print Assumptions C15_leader_completeness.

(* State machine safety: two nodes never hold different entries at an index both have
   committed (their committed prefixes are equal) ... *)
Theorem C15_state_machine_safety : forall c0 c1, (c0 <> [] \/ c1 <> []) ->
  forall x, xreachable c0 c1 x ->
  forall a b i, i <= n_commit (x_nodes x a) -> i <= n_commit (x_nodes x b) ->
    i <= length (n_log (x_nodes x a)) /\ i <= length (n_log (x_nodes x b)) /\
    firstn i (n_log (x_nodes x a)) = firstn i (n_log (x_nodes x b)).
Proof. exact state_machine_safety. Qed.
Print Assumptions C15_state_machine_safety.

(* ... a step never removes or rewrites an entry its node has committed ... *)
Theorem C15_committed_never_removed : forall c0 c1, (c0 <> [] \/ c1 <> []) ->
  forall x x', xreachable c0 c1 x -> xstep c0 c1 x x' ->
  forall y, firstn (n_commit (x_nodes x y)) (n_log (x_nodes x' y))
            = firstn (n_commit (x_nodes x y)) (n_log (x_nodes x y)).
Proof. exact committed_prefix_kept. Qed.
Print Assumptions C15_committed_never_removed.

(* ... and so, over any continuation of the run: what one node has committed up to i now is
   what any node that has committed up to i holds at any later time *)
Theorem C15_committed_forever : forall c0 c1, (c0 <> [] \/ c1 <> []) ->
  forall x x', xreachable c0 c1 x -> xsteps c0 c1 x x' ->
  forall a b i, i <= n_commit (x_nodes x a) -> i <= n_commit (x_nodes x' b) ->
    firstn i (n_log (x_nodes x a)) = firstn i (n_log (x_nodes x' b)).
Proof. exact committed_forever. Qed.
Print Assumptions C15_committed_forever.

(* the inductive invariant behind all of the above (Raft/RaftInv.v, 32 components).  It is proved
   for a micro-step system in which every decision (vote tally, commit index) may be taken with
   ANY configuration of a family F whose quorums pairwise intersect; fixed membership is the
   family of one non-empty configuration. *)
Theorem C15_invariant : forall F, inter_family F ->
  forall s, mreachable F s -> Inv F s.
Proof. exact mreachable_inv. Qed.
Print Assumptions C15_invariant.

(* every run of the executable system is a run of the micro-step system *)
Theorem C15_refinement : forall c0 c1 F, In (c0, c1) F -> forall x, xreachable c0 c1 x ->
  exists s, mreachable F s /\ (forall y, nodes s y = x_nodes x y) /\ msgs s = x_msgs x.
Proof. exact xreachable_sim. Qed.
Print Assumptions C15_refinement.

(* the trace validator is sound: a step it accepts is a step of the transition relation, and
   leaves the model in the observed state *)
Theorem C15_check_step_sound : forall c0 c1 x id ev obs_out obs x',
  check_step c0 c1 x id ev obs_out obs = VOk x' -> xstep c0 c1 x x'.
Proof. exact check_step_sound. Qed.
Print Assumptions C15_check_step_sound.

Theorem C15_safety_okb_reachable : forall c0 c1, (c0 <> [] \/ c1 <> []) ->
  forall ids x, xreachable c0 c1 x -> safety_okb ids x = true.
Proof. exact safety_okb_reachable. Qed.
Print Assumptions C15_safety_okb_reachable.

(* CONTIGUITY.  Every MsgApp a node may put on the wire (the emission rule emit_okb of [xstep],
   decided by the trace validator on every message of the implementation) carries a CONTIGUOUS slice
   of the sender's log: exactly the entries at indexes prevIndex+1 .. prevIndex+length, no hole, no
   reordering; a size limit (MaxSizePerMsg) may only shorten it to a prefix of the available
   suffix, which is again such a slice. *)
Theorem C15_msgapp_is_contiguous_log_slice : forall id n m,
  emit_okb id n m = true -> m_type m = MsgApp ->
  m_ents m = firstn (length (m_ents m)) (skipn (m_index m) (n_log n)) /\
  m_index m + length (m_ents m) <= length (n_log n) /\
  firstn (m_index m) (n_log n) ++ m_ents m = firstn (m_index m + length (m_ents m)) (n_log n).
Proof.
  intros id n m H Hty. unfold emit_okb in H. rewrite Hty in H.
  apply andb_true_iff in H as [_ H]. apply andb_true_iff in H as [H _]. apply andb_true_iff in H as [_ Hseg].
  destruct (is_segment_spec _ _ _ Hseg) as [H1 H2]. split; [|split; assumption].
  unfold is_segment in Hseg. apply andb_true_iff in Hseg as [Hs _]. apply log_eqb_eq in Hs. exact Hs.
Qed.
Print Assumptions C15_msgapp_is_contiguous_log_slice.

(* ... and in every reachable state every MsgApp in flight, old or new, duplicated or delayed, is a
   contiguous slice of the log of the leader of its term, starting right after its prevIndex *)
Theorem C15_msgapp_in_flight_is_leader_log_slice : forall c0 c1, (c0 <> [] \/ c1 <> []) ->
  forall x, xreachable c0 c1 x ->
  exists s, (forall y, nodes s y = x_nodes x y) /\
    forall m, In m (x_msgs x) -> m_type m = MsgApp ->
      firstn (m_index m) (LL s (m_term m)) ++ m_ents m
        = firstn (m_index m + length (m_ents m)) (LL s (m_term m)) /\
      m_index m + length (m_ents m) <= length (LL s (m_term m)).
Proof.
  intros c0 c1 Hne x Hx.
  destruct (xreachable_sim c0 c1 [(c0, c1)] (or_introl eq_refl) x Hx) as (s & Hr & Hn & Hm).
  exists s. split; [exact Hn|]. intros m Hin Hty.
  pose proof (mreachable_inv [(c0, c1)] (inter_family_single c0 c1 Hne) s Hr) as I.
  rewrite <- Hm in Hin. destruct (hW9 _ _ I m Hin Hty) as (_ & H1 & H2 & _). split; assumption.
Qed.
Print Assumptions C15_msgapp_in_flight_is_leader_log_slice.

(* the committed entries the membership-change model hands to the application in one round of the
   Ready loop are the contiguous block applied+1 .. rdc of the node's log ([ready_iter] folds
   apply_entry over firstn (rdc - applied) (skipn applied log) and returns rdc as the new cursor):
   the cursor never jumps.  (The fixed-membership model has no application; there the harness
   checks the Ready contract directly: CommittedEntries and Entries carry consecutive indexes.) *)
Theorem C15_cc_applied_entries_contiguous : forall page1 id n c pend applied,
  applied <= n_commit n ->
  let '(_, c', _, applied') := ready_iter page1 id (n, c, pend, applied) in
  applied <= applied' /\ applied' <= n_commit n /\
  c' = snd (fold_left (apply_entry id) (firstn (applied' - applied) (skipn applied (n_log n))) (n, c)).
Proof.
  intros page1 id n c pend applied Ha. unfold ready_iter.
  set (rdc := if applied <? n_commit n then (if page1 then S applied else n_commit n) else applied).
  assert (Hr : applied <= rdc /\ rdc <= n_commit n).
  { unfold rdc. destruct (Nat.ltb_spec applied (n_commit n)); [destruct page1; lia|lia]. }
  destruct (fold_left (apply_entry id) (firstn (rdc - applied) (skipn applied (n_log n))) (n, c)) as [n1 c1] eqn:Ef.
  destruct ((applied <? rdc) && c_auto c1 && (applied <=? pend) && (pend <=? rdc) && role_eqb (n_role n1) Leader);
    cbv beta iota zeta; fold rdc; (split; [lia|split; [lia|rewrite Ef; reflexivity]]).
Qed.
Print Assumptions C15_cc_applied_entries_contiguous.

(* ------------------------------------------------------------------ non-vacuity: a concrete
   3-node run (election of node 1 by node 2's vote, two entries replicated to node 2,
   committed on both) is reachable. *)
Definition ex_vote (to : nat) : msg := mkMsg MsgVote 1 to 1 0 0 [] 0 false.
Definition ex_grant : msg := mkMsg MsgVoteResp 2 1 1 0 0 [] 0 false.
Definition ex_app : msg := mkMsg MsgApp 1 2 1 0 0 [(1, 0); (1, 7)] 0 false.
Definition ex_ack : msg := mkMsg MsgAppResp 2 1 1 0 2 [] 0 false.
Definition ex_app_commit : msg := mkMsg MsgApp 1 2 1 1 2 [] 2 false.
Definition ex_trace : list (nat * event * list msg) :=
  [ (1, EvCampaign, [ex_vote 2; ex_vote 3]);
    (2, EvRecv (ex_vote 2), []);
    (1, EvRecv ex_grant, []);
    (1, EvPropose 7, [ex_app]);
    (2, EvRecv ex_app, []);
    (1, EvRecv ex_ack, [ex_app_commit]);
    (2, EvRecv ex_app_commit, []) ].

Example C15_ex_run : exists x,
  xreachable [1; 2; 3] [] x /\
  n_role (x_nodes x 1) = Leader /\ n_term (x_nodes x 1) = 1 /\
  n_log (x_nodes x 1) = [(1, 0); (1, 7)] /\ n_log (x_nodes x 2) = [(1, 0); (1, 7)] /\
  n_commit (x_nodes x 1) = 2 /\ n_commit (x_nodes x 2) = 2 /\ n_vote (x_nodes x 2) = Some 1 /\
  n_log (x_nodes x 3) = [].
Proof.
  assert (H : exists x, run [1; 2; 3] [] x_init ex_trace = Some x /\
    n_role (x_nodes x 1) = Leader /\ n_term (x_nodes x 1) = 1 /\
    n_log (x_nodes x 1) = [(1, 0); (1, 7)] /\ n_log (x_nodes x 2) = [(1, 0); (1, 7)] /\
    n_commit (x_nodes x 1) = 2 /\ n_commit (x_nodes x 2) = 2 /\ n_vote (x_nodes x 2) = Some 1 /\
    n_log (x_nodes x 3) = []).
  { eexists. split; [vm_compute; reflexivity|]. vm_compute. repeat split. }
  destruct H as (x & Hrun & Hrest). exists x. split; [|exact Hrest].
  apply (run_reachable [1; 2; 3] [] ex_trace x_init x); [apply XR_init|exact Hrun].
Qed.

(* the hypotheses of the step theorems are satisfiable: the run above contains a step in which
   the leader's commit index moves *)
Example C15_ex_commit_moves : exists x x',
  xreachable [1; 2; 3] [] x /\ xstep [1; 2; 3] [] x x' /\
  n_role (x_nodes x' 1) = Leader /\ n_commit (x_nodes x 1) < n_commit (x_nodes x' 1).
Proof.
  assert (H : exists x x', run [1; 2; 3] [] x_init (firstn 5 ex_trace) = Some x /\
     model_step [1; 2; 3] [] x 1 (EvRecv ex_ack) [ex_app_commit] = Some x' /\
     n_role (x_nodes x' 1) = Leader /\ n_commit (x_nodes x 1) < n_commit (x_nodes x' 1)).
  { eexists. eexists. split; [vm_compute; reflexivity|]. split; [vm_compute; reflexivity|]. vm_compute. split; [reflexivity|lia]. }
  destruct H as (x & x' & Hrun & Hstep & Hrest). exists x, x'.
  split; [apply (run_reachable [1; 2; 3] [] (firstn 5 ex_trace) x_init x); [apply XR_init|exact Hrun]|].
  split; [eapply model_step_sound; exact Hstep|exact Hrest].
Qed.

(* ------------------------------------------------------------------ membership changes
   Raft/RaftCC.v is an executable model of raft WITH membership changes as etcd/raft implements
   them (conf-change entries in the log, at most one pending through pendingConfIndex, a
   configuration applied when its entry is applied — i.e. once committed, by the application
   calling ApplyConfChange while it processes the Ready, as raftexample does —, joint
   configurations with automatic leave, every decision taken with the node's current
   configuration).  [cxstep boot page1] is its transition relation (same network and events as
   xstep).  It is tied to the code by trace validation (check_step_cc, configurations compared).

   FULL STATEMENTS (NOT PROVED).  For every well-formed boot configuration and every
   [cxreachable boot page1 x]:
     cc_election_safety        two leaders of one term are the same node
     cc_log_matching
     cc_state_machine_safety   committed prefixes of any two nodes are equal
     cc_leader_completeness    a leader holds what any node of a term <= its own has committed
     cc_committed_never_removed
   i.e. the theorems below without the restriction to a family F.

   PROVED (the _partial theorems below): the same statements for every run all of whose
   COMMITTED configurations — those of the prefixes of a node's log up to its commit index, the
   only ones a node ever decides with; configuration changes that are appended but never
   committed do not count — lie in a family F whose quorums pairwise intersect ([cxreachableF F]), and
   (C15_conf_step_quorums_intersect) a configuration together with its successor under ONE
   change — add a voter, remove a voter, enter a joint configuration, leave it — is such a
   family.  So each single step of a membership change, taken alone, is proved safe, for any
   cluster size and any schedule.

   MISSING for the full statements: the composition along a chain C_0, C_1, C_2, ... of changes,
   where non-adjacent configurations need not intersect.  The argument needs (a) the invariant
   that no log ever holds two uncommitted configuration changes (from pendingConfIndex, from
   becomeLeader's pendingConfIndex = lastIndex, and from the commit index carried by MsgApp), so
   that a node's configuration is at most one step behind the last change in its own log;
   (b) C15_conf_step_quorums_intersect for adjacent configurations; (c) a case analysis of the
   distance between the configuration of a candidate and the configuration under which an entry
   was committed, inside the leader-completeness induction (a candidate two or more steps behind
   would have to hold two uncommitted changes, contradicting (a); one two or more steps ahead
   already holds the entry by log matching).  The invariant of Raft/RaftInv.v would have to carry
   the configuration with every recorded quorum (votes of a term, acknowledgements of an entry,
   "never" quorums).  Not done, except the leader-local half of (a): C15_cc_pending_discipline and
   C15_cc_conf_proposal_fresh below, and the two preservation lemmas the global half needs at the
   append steps (RaftCCInv.cc_ok_pending for the leader, RaftCCInv.append_cc_ok for a follower,
   stated with the hypotheses the invariant supplies at M_append).  Until then schedules with arbitrary chains of changes are
   validated against the model and monitored (no violation seen), not proved. *)

Theorem C15_conf_step_quorums_intersect : forall c op c', wfc c -> apply_cc c op = Some c' ->
  wfc c' /\ inter_family [(c_in c, c_out c); (c_in c', c_out c')].
Proof. intros c op c' H1 H2. split; [exact (conf_step_wf c op c' H1 H2)|exact (conf_step_inter c op c' H1 H2)]. Qed.
Print Assumptions C15_conf_step_quorums_intersect.

(* the hypothesis "the configuration is not empty" of the fixed-membership theorems is implied by
   a valid bootstrap: whatever conf-change entries a log holds, the configuration derived from a
   well-formed boot configuration is well formed (etcd refuses to remove the last voter) *)
Theorem C15_configuration_never_empty : forall boot l, wfc boot ->
  c_in (cfg_of boot l) <> [] \/ c_out (cfg_of boot l) <> [].
Proof. exact cfg_of_nonempty. Qed.
Print Assumptions C15_configuration_never_empty.

Theorem C15_check_step_cc_sound : forall boot page1 x id ev obs_out obs obs_cfg x',
  check_step_cc boot page1 x id ev obs_out obs obs_cfg = CVOk x' -> cxstep boot page1 x x'.
Proof. exact check_step_cc_sound. Qed.
Print Assumptions C15_check_step_cc_sound.

(* every run with membership changes whose configurations stay in F is a run of the micro-step
   system with family F *)
Theorem C15_cc_refinement_partial : forall F, inter_family F -> forall boot page1 x,
  cxreachableF F boot page1 x ->
  exists s, mreachable F s /\ (forall y, nodes s y = fst (cx_nodes x y)) /\ msgs s = cx_msgs x.
Proof. exact cc_sim. Qed.
Print Assumptions C15_cc_refinement_partial.

Theorem C15_cc_election_safety_partial : forall F, inter_family F -> forall boot page1 x,
  cxreachableF F boot page1 x ->
  forall a b, n_role (fst (cx_nodes x a)) = Leader -> n_role (fst (cx_nodes x b)) = Leader ->
    n_term (fst (cx_nodes x a)) = n_term (fst (cx_nodes x b)) -> a = b.
Proof. exact cc_election_safety. Qed.
Print Assumptions C15_cc_election_safety_partial.

Theorem C15_cc_log_matching_partial : forall F, inter_family F -> forall boot page1 x,
  cxreachableF F boot page1 x ->
  forall a b i, 1 <= i -> i <= length (n_log (fst (cx_nodes x a))) -> i <= length (n_log (fst (cx_nodes x b))) ->
    term_at (n_log (fst (cx_nodes x a))) i = term_at (n_log (fst (cx_nodes x b))) i ->
    firstn i (n_log (fst (cx_nodes x a))) = firstn i (n_log (fst (cx_nodes x b))).
Proof. exact cc_log_matching. Qed.
Print Assumptions C15_cc_log_matching_partial.

Theorem C15_cc_state_machine_safety_partial : forall F, inter_family F -> forall boot page1 x,
  cxreachableF F boot page1 x ->
  forall a b i, i <= n_commit (fst (cx_nodes x a)) -> i <= n_commit (fst (cx_nodes x b)) ->
    i <= length (n_log (fst (cx_nodes x a))) /\ i <= length (n_log (fst (cx_nodes x b))) /\
    firstn i (n_log (fst (cx_nodes x a))) = firstn i (n_log (fst (cx_nodes x b))).
Proof. exact cc_state_machine_safety. Qed.
Print Assumptions C15_cc_state_machine_safety_partial.

Theorem C15_cc_leader_completeness_partial : forall F, inter_family F -> forall boot page1 x,
  cxreachableF F boot page1 x ->
  forall l y, n_role (fst (cx_nodes x l)) = Leader -> n_term (fst (cx_nodes x y)) <= n_term (fst (cx_nodes x l)) ->
    n_commit (fst (cx_nodes x y)) <= length (n_log (fst (cx_nodes x l))) /\
    firstn (n_commit (fst (cx_nodes x y))) (n_log (fst (cx_nodes x l)))
      = firstn (n_commit (fst (cx_nodes x y))) (n_log (fst (cx_nodes x y))).
Proof. exact cc_leader_completeness. Qed.
Print Assumptions C15_cc_leader_completeness_partial.

Theorem C15_cc_committed_never_removed_partial : forall F, inter_family F -> forall boot page1 x x',
  cxreachableF F boot page1 x -> cxstep boot page1 x x' ->
  forall y, firstn (n_commit (fst (cx_nodes x y))) (n_log (fst (cx_nodes x' y)))
            = firstn (n_commit (fst (cx_nodes x y))) (n_log (fst (cx_nodes x y))).
Proof. exact cc_committed_prefix_kept. Qed.
Print Assumptions C15_cc_committed_never_removed_partial.

(* FULL (no restriction on the configurations): in every step of the membership-change system
   each node's persisted term and commit index never regress and its vote changes only with a
   term increase or from none *)
Theorem C15_cc_hardstate_monotone : forall boot page1 x x', cxstep boot page1 x x' ->
  forall y, n_term (fst (cx_nodes x y)) <= n_term (fst (cx_nodes x' y)) /\
            n_commit (fst (cx_nodes x y)) <= n_commit (fst (cx_nodes x' y)) /\
            (n_term (fst (cx_nodes x' y)) = n_term (fst (cx_nodes x y)) ->
             n_vote (fst (cx_nodes x' y)) = n_vote (fst (cx_nodes x y)) \/ n_vote (fst (cx_nodes x y)) = None).
Proof.
  intros boot page1 x x' H y. destruct H as [id ev extra _ _]. cbn [cx_nodes].
  destruct (Nat.eq_dec y id) as [->|Hy]; [rewrite RaftInvBase.upd_same|rewrite RaftInvBase.upd_other by exact Hy; split; [lia|split; [lia|intros _; left; reflexivity]]].
  destruct (cx_nodes x id) as [n pend]. destruct (exec_cce_hs_mono boot page1 id ev n pend) as (H1 & H2 & H3).
  cbn [fst]. split; [exact H1|split; [exact H3|exact H2]].
Qed.
Print Assumptions C15_cc_hardstate_monotone.

(* the instance "one membership change": while the configurations of a run are the boot
   configuration c or its successor c' under one change, the run is safe *)
Theorem C15_cc_one_change_safe_partial : forall c op c' page1, wfc c -> apply_cc c op = Some c' ->
  forall x, cxreachableF [(c_in c, c_out c); (c_in c', c_out c')] c page1 x ->
  forall a b i, i <= n_commit (fst (cx_nodes x a)) -> i <= n_commit (fst (cx_nodes x b)) ->
    firstn i (n_log (fst (cx_nodes x a))) = firstn i (n_log (fst (cx_nodes x b))).
Proof.
  intros c op c' page1 Hw Ha x Hx a b i H1 H2.
  apply (cc_state_machine_safety _ (conf_step_inter c op c' Hw Ha) c page1 x Hx a b i H1 H2).
Qed.
Print Assumptions C15_cc_one_change_safe_partial.

(* ingredient (a) of the chain argument, leader-local half, for EVERY reachable state of the
   membership-change model (no envelope): the configuration-change entries a leader holds above
   its commit index all lie at or below its pendingConfIndex ... *)
Theorem C15_cc_pending_discipline : forall boot page1 x, cxreachable boot page1 x ->
  forall id, n_role (fst (cx_nodes x id)) = Leader ->
  forall j e, nth_error (n_log (fst (cx_nodes x id))) j = Some e -> isconf (snd e) = true ->
    n_commit (fst (cx_nodes x id)) <= j -> S j <= snd (cx_nodes x id).
Proof. intros boot page1 x H id. exact (cc_pending_discipline boot page1 x H id). Qed.
Print Assumptions C15_cc_pending_discipline.

(* ... hence a leader that accepts a proposed configuration change (appends it as proposed, not
   as the empty entry a refused change is turned into) holds no uncommitted change at all.  The
   automatic leave of a joint configuration is covered the same way (RaftCCInv.ready_iter_PD). *)
Theorem C15_cc_conf_proposal_fresh : forall boot page1 x, cxreachable boot page1 x ->
  forall id c p, n_role (fst (cx_nodes x id)) = Leader -> isconf p = true ->
  n_log (fst (fst (handle_cc id c (EvPropose p) (fst (cx_nodes x id)) (snd (cx_nodes x id)))))
    = n_log (fst (cx_nodes x id)) ++ [(n_term (fst (cx_nodes x id)), p)] ->
  forall j e, nth_error (n_log (fst (cx_nodes x id))) j = Some e -> isconf (snd e) = true ->
    j < n_commit (fst (cx_nodes x id)).
Proof.
  intros boot page1 x H id c p Hl Hp Hlog.
  exact (propose_conf_fresh id c p _ _ (cc_pending_discipline boot page1 x H id) Hl Hp Hlog).
Qed.
Print Assumptions C15_cc_conf_proposal_fresh.

(* ingredient (a) in full, inside the envelope: in every state reachable with configurations from a
   family with pairwise intersecting quorums, NO log holds two uncommitted configuration changes
   (of two configuration-change entries of a node's log the earlier one is below its commit index).
   The envelope is needed because a follower's half rests on log matching, which is part of the
   invariant proved for intersecting quorums; the statement for ALL cxreachable states is exactly
   as hard as the chain argument itself (log matching needs election safety, election safety needs
   quorum intersection along the chain, and that needs this statement): they have to be proved
   together.  The messages' half (RaftCCOne.C2) is enforced on emission by RaftCC.emit_cc_okb,
   which the trace validator checks on every MsgApp of the implementation. *)
Theorem C15_cc_at_most_one_uncommitted_conf_change_partial : forall F boot page1, inter_family F ->
  forall x, cxreachableF F boot page1 x ->
  forall y j j' e e', j < j' ->
    nth_error (n_log (fst (cx_nodes x y))) j = Some e -> nth_error (n_log (fst (cx_nodes x y))) j' = Some e' ->
    isconf (snd e) = true -> isconf (snd e') = true -> S j <= n_commit (fst (cx_nodes x y)).
Proof. intros F boot page1 HF x Hx. exact (cc_at_most_one_uncommitted F HF boot page1 x Hx). Qed.
Print Assumptions C15_cc_at_most_one_uncommitted_conf_change_partial.

(* BATCHED PROPOSALS.  A step of [cxstep] is one event of RaftModel or one MsgProp carrying several
   entries ([CBatch ps], RaftCC.exec_batch): stepLeader examines the entries in order, an admitted
   configuration change at position i sets pendingConfIndex to lastIndex + i + 1 — so a later change
   of the same proposal, and any change proposed before that index is applied, is replaced by an
   empty entry — and all entries are appended at once.  The theorem above is about [cxreachableF],
   hence about runs with such batches; the step itself, on any node value: whatever the positions of
   the configuration changes among the entries of one proposal, a node that respects the
   pendingConfIndex discipline and holds at most one uncommitted change still does afterwards. *)
Theorem C15_cc_batched_proposal_keeps_one_uncommitted : forall id c ps n pend,
  PD n pend -> cc_ok (n_log n) (n_commit n) ->
  PD (fst (batch_cc id c ps n pend)) (snd (batch_cc id c ps n pend)) /\
  cc_ok (n_log (fst (batch_cc id c ps n pend))) (n_commit (fst (batch_cc id c ps n pend))).
Proof. intros id c ps n pend H1 H2. exact (batch_cc_nok id c ps n pend H1 H2). Qed.
Print Assumptions C15_cc_batched_proposal_keeps_one_uncommitted.

(* pendingConfIndex of a batch is lastIndex + i + 1 (model index of the admitted change), and the
   second change of one proposal becomes an empty entry: leader 1 of {1,2,3} at term 1 with log
   [(1,0)] gets [7; remove 3; remove 2] in one proposal *)
Example C15_ex_batch :
  let l := fst (fst (exec_cc (mkC [1] [] false []) false 1 EvCampaign (init_node, 0))) in
  let l3 := set_commit 1 l in
  let r := batch_cc 1 (mkC [1; 2; 3] [] false []) [7; 113; 112] l3 1 in
  n_role l3 = Leader /\ n_log l3 = [(1, 0)] /\
  n_log (fst r) = [(1, 0); (1, 7); (1, 113); (1, 0)] /\ snd r = 3.
Proof. vm_compute. repeat split. Qed.

(* ingredient (b) along a log, for any log at all: the configurations after a prefix P and after
   P ++ S, S holding at most one configuration-change entry, are equal or one change apart, so all
   their quorums pairwise intersect *)
Theorem C15_cc_chain_adjacent : forall boot, wfc boot -> forall P S, nconf S <= 1 ->
  inter_family [(c_in (cfg_of boot P), c_out (cfg_of boot P));
                (c_in (cfg_of boot (P ++ S)), c_out (cfg_of boot (P ++ S)))].
Proof. intros boot Hb P S H. exact (chain_adjacent boot Hb S P H). Qed.
Print Assumptions C15_cc_chain_adjacent.

(* (a) + (b), inside the envelope: the configuration a node decides with (that of its committed
   prefix) and the configuration of any longer prefix of its own log, the whole log included, have
   pairwise intersecting quorums: a node is at most one configuration change behind its own log *)
Theorem C15_cc_config_one_step_behind_partial : forall F boot page1, inter_family F -> wfc boot ->
  forall x, cxreachableF F boot page1 x ->
  forall y j, n_commit (fst (cx_nodes x y)) <= j ->
    inter_family [(c_in (node_cfg boot (fst (cx_nodes x y))), c_out (node_cfg boot (fst (cx_nodes x y))));
                  (c_in (cfg_of boot (firstn j (n_log (fst (cx_nodes x y))))),
                   c_out (cfg_of boot (firstn j (n_log (fst (cx_nodes x y))))))].
Proof. intros F boot page1 HF Hb x Hx y j Hj. exact (node_cfg_one_step_behind F HF boot Hb page1 x Hx y j Hj). Qed.
Print Assumptions C15_cc_config_one_step_behind_partial.

(* inside the envelope all deciding configurations lie on ONE chain: the configuration of a node
   whose commit index is not larger is the configuration of a prefix of the other node's committed
   log (from state-machine safety) *)
Theorem C15_cc_configs_on_one_chain_partial : forall F boot page1, inter_family F ->
  forall x, cxreachableF F boot page1 x ->
  forall a b, n_commit (fst (cx_nodes x a)) <= n_commit (fst (cx_nodes x b)) ->
    node_cfg boot (fst (cx_nodes x a))
    = cfg_of boot (firstn (n_commit (fst (cx_nodes x a))) (n_log (fst (cx_nodes x b)))).
Proof.
  intros F boot page1 HF x Hx a b Hab. unfold node_cfg. f_equal.
  destruct (cc_state_machine_safety F HF boot page1 x Hx a b (n_commit (fst (cx_nodes x a))) (le_n _) Hab) as (_ & _ & E).
  exact E.
Qed.
Print Assumptions C15_cc_configs_on_one_chain_partial.

(* the configurations that are ACTIVE at one node at one moment — the one it decides with and those
   of every longer prefix of its own log (what it will decide with once more of its log commits) —
   pairwise intersect: the premise [inter_family] is DERIVED for them from the
   one-uncommitted-change rule.  What is still ASSUMED by the _partial theorems is intersection
   ACROSS nodes: between the committed configurations of a node that lags two or more committed
   changes behind and those of the others (the chain argument: such a node cannot win an election
   nor commit; see WHAT REMAINS below). *)
Theorem C15_cc_active_configurations_intersect_partial : forall F boot page1, inter_family F -> wfc boot ->
  forall x, cxreachableF F boot page1 x ->
  forall y j1 j2, n_commit (fst (cx_nodes x y)) <= j1 -> j1 <= j2 ->
    inter_family [(c_in (cfg_of boot (firstn j1 (n_log (fst (cx_nodes x y))))),
                   c_out (cfg_of boot (firstn j1 (n_log (fst (cx_nodes x y))))));
                  (c_in (cfg_of boot (firstn j2 (n_log (fst (cx_nodes x y))))),
                   c_out (cfg_of boot (firstn j2 (n_log (fst (cx_nodes x y))))))].
Proof. intros F boot page1 HF Hb x Hx y j1 j2 H1 H2. exact (node_active_family F HF boot Hb page1 x Hx y j1 j2 H1 H2). Qed.
Print Assumptions C15_cc_active_configurations_intersect_partial.

(* the distance analysis at the level of one log, for ANY log (no run, no envelope): two prefixes
   are at most one change apart — then all their quorums intersect — or the log holds two
   configuration-change entries between them (which, above a commit index, the
   one-uncommitted-change rule forbids) *)
Theorem C15_cc_prefix_distance : forall boot, wfc boot -> forall L c c3, c <= c3 ->
  inter_family [(c_in (cfg_of boot (firstn c L)), c_out (cfg_of boot (firstn c L)));
                (c_in (cfg_of boot (firstn c3 L)), c_out (cfg_of boot (firstn c3 L)))] \/
  exists j1 j2 e1 e2, c <= j1 /\ j1 < j2 /\ j2 < c3 /\
    nth_error L j1 = Some e1 /\ nth_error L j2 = Some e2 /\ isconf (snd e1) = true /\ isconf (snd e2) = true.
Proof. intros boot Hb L c c3 H. exact (prefix_distance boot Hb L c c3 H). Qed.
Print Assumptions C15_cc_prefix_distance.

(* WHAT REMAINS for the full statements (no envelope).  Everything above is proved for the
   invariant Inv F of Raft/RaftInv.v, whose quorum records are "a quorum of SOME configuration of
   F" (Qr F) and whose only two uses of intersection are
     (P1) RaftInvBase.committed_not_never : committed_at t k -> neverq t k -> False
     (P2) RaftInvLeader (Pun)             : lof t = Some l, a second vote quorum of term t -> same node.
   A continuation has to
   1. tag every quorum record with the committed log prefix its configuration comes from:
        QrP P p := joint_sat (c_in (cfg_of boot P)) (c_out (cfg_of boot P)) p
        committed_at t k := valid t k /\ exists c, c < k /\ cc_ok (firstn k (LL t)) c /\ covered t c k
                            /\ QrP (firstn c (LL t)) (ackedp t k)
                            (c = the leader's commit index when it committed k)
        iA6a, neverq     := the same with the winner's commit index c3 at the moment it won term t3,
                            cc_ok restricted to the entries of LL t3 of terms < t3, covered with t0 < t3
        covered t c k    := c = 0 \/ exists t0 k0, committed_at t0 k0 /\ c <= k0 /\ (t0 < t \/ (t0 = t /\ k0 < k))
      and let M_win / M_commit use cfg_of boot (firstn (n_commit n) (n_log n)) instead of "In cfg F";
   2. carry C1/C2 of RaftCCOne.v inside that invariant (they are needed by the case analysis, and
      they need log matching: one joint induction);
   3. prove leader completeness  committed_at t k -> t < t3 -> LL t3 <> [] -> has (LL t3) t k
      by induction on (t + t3, k), lexicographically, in one state: iK7 gives has or neverq t k with
      a tag (t3', c3); the two tagged prefixes are comparable by the induction hypothesis applied to
      the entries covering them; with a, b their numbers of configuration-change entries:
        |a - b| <= 1        C15_cc_chain_adjacent gives a node that acknowledged k in t and left t
                            without acknowledging k: contradiction;
        b >= a + 2, k <= c3 the never-tag's prefix covers k: has, by the induction hypothesis;
        b >= a + 2, k > c3  LL t holds two changes above c below k: contradicts cc_ok (firstn k (LL t)) c;
        a >= b + 2          LL t3' holds, by the induction hypothesis, the two changes of terms < t3'
                            above c3: contradicts the winner's cc_ok.
      NOTE: with reconfiguration neverq t k no longer implies that (t,k) is never committed (the
      committing configuration may be far from the one that left): every consumer of "has \/
      neverq" (iK6, iK8 in step_append, step_grant, step_win, step_commit) needs this analysis,
      not only (P1);
   4. (P2) with the same three cases, after leader completeness for the winning candidate.
   Estimated at several days; not started beyond the ingredients above.
   STATUS (r7): the premise [inter_family F] now only concerns the COMMITTED configurations of the
   run (cxreachableF constrains prefixes up to the commit index; uncommitted changes that are later
   overwritten no longer count).  DERIVED rather than assumed: intersection among all
   configurations active at one node (C15_cc_active_configurations_intersect_partial), the log-level
   distance dichotomy used by the three cases of step 3 (C15_cc_prefix_distance), and that all
   deciding configurations lie on one chain (C15_cc_configs_on_one_chain_partial).  STILL ASSUMED:
   intersection between committed configurations two or more changes apart, i.e. exactly the pairs
   for which step 3 needs leader completeness inside the induction; no safety theorem was closed
   without the premise, so all keep the _partial suffix. *)

(* non-vacuity of the membership-change model: in a 3-voter cluster node 1 is elected, proposes
   "add voter 4" (payload 104), replicates it to node 2, commits it and from then on decides with
   the configuration {1,2,3,4} *)
Definition ccx_boot : conf := mkC [1; 2; 3] [] false [].
Definition ccx_app : msg := mkMsg MsgApp 1 2 1 0 0 [(1, 0); (1, 104)] 0 false.
Definition ccx_ack : msg := mkMsg MsgAppResp 2 1 1 0 2 [] 0 false.
Definition ccx_trace : list (nat * cevent * list msg) :=
  [ (1, CEv EvCampaign, [ex_vote 2; ex_vote 3]);
    (2, CEv (EvRecv (ex_vote 2)), []);
    (1, CEv (EvRecv ex_grant), []);
    (1, CEv (EvPropose 104), [ccx_app]);
    (2, CEv (EvRecv ccx_app), []);
    (1, CEv (EvRecv ccx_ack), []) ].

Example C15_ex_cc_run : exists x,
  cxreachable ccx_boot false x /\
  n_role (fst (cx_nodes x 1)) = Leader /\ n_commit (fst (cx_nodes x 1)) = 2 /\
  n_log (fst (cx_nodes x 1)) = [(1, 0); (1, 104)] /\
  node_cfg ccx_boot (fst (cx_nodes x 1)) = mkC [1; 2; 3; 4] [] false [] /\
  node_cfg ccx_boot (fst (cx_nodes x 2)) = ccx_boot.
Proof.
  assert (H : exists x, run_cc ccx_boot false cx_init ccx_trace = Some x /\
    n_role (fst (cx_nodes x 1)) = Leader /\ n_commit (fst (cx_nodes x 1)) = 2 /\
    n_log (fst (cx_nodes x 1)) = [(1, 0); (1, 104)] /\
    node_cfg ccx_boot (fst (cx_nodes x 1)) = mkC [1; 2; 3; 4] [] false [] /\
    node_cfg ccx_boot (fst (cx_nodes x 2)) = ccx_boot).
  { eexists. split; [vm_compute; reflexivity|]. vm_compute. repeat split. }
  destruct H as (x & Hrun & Hrest). exists x. split; [|exact Hrest].
  apply (run_cc_reachable ccx_boot false ccx_trace cx_init x); [apply CXR_init|exact Hrun].
Qed.

Example C15_ex_conf_step : apply_cc ccx_boot (CcJoint 4 3) = Some (mkC [1; 2; 4] [1; 2; 3] true [])
  /\ apply_cc (mkC [1; 2; 4] [1; 2; 3] true []) CcLeave = Some (mkC [1; 2; 4] [] false [])
  /\ apply_cc ccx_boot (CcRemove 2) = Some (mkC [1; 3] [] false [])
  /\ apply_cc ccx_boot (CcAddLearner 4) = Some (mkC [1; 2; 3] [] false [4])
  /\ apply_cc (mkC [1; 2; 3] [] false [4]) (CcAdd 4) = Some (mkC [1; 2; 3; 4] [] false [])
  /\ apply_cc ccx_boot (CcAddLearner 2) = Some (mkC [1; 3] [] false [2]).
Proof. repeat split. Qed.

(* ------------------------------------------------------------------ Config.PreVote
   Raft/RaftPV.v models raft with PreVote = true (pre-candidate, MsgPreVote, MsgPreVoteResp, the
   term rules of raft.Step for them, the empty MsgAppResp sent to leaders of a lower term);
   [pxstep c0 c1] is its transition relation, tied to the code by trace validation
   (check_step_pv).  Pre-votes change no persisted state and their messages carry no authority:
   every PreVote run is a run of the micro-step system, so all safety theorems hold with PreVote
   (fixed membership).  Config.CheckQuorum is part of the same model as two choices of the
   environment: the event PvStepDown (a leader that finds no active quorum on a tick becomes a
   follower of its term) and the non-delivery of a vote request (leader lease); the model does
   not say WHEN they happen, so the theorems below hold for every CheckQuorum run, while
   CheckQuorum's liveness is not covered.  Leadership transfer likewise: MsgTimeoutNow (PT) and the
   forwarded MsgTransferLeader (PL) are messages of the model, a leader may send PT at any time, a
   follower that receives it campaigns for real at once. *)
Theorem C15_prevote_transparent : forall c0 c1 F, In (c0, c1) F -> forall x, pxreachable c0 c1 x ->
  exists s, mreachable F s /\ (forall y, nodes s y = fst (px_nodes x y)) /\ msgs s = base_of (px_msgs x).
Proof.
  intros c0 c1 F H x Hx. destruct (pv_sim c0 c1 F H x Hx) as (s & Hr & Hn & Hm & _).
  exists s. split; [exact Hr|split; assumption].
Qed.
Print Assumptions C15_prevote_transparent.

Theorem C15_pv_election_safety : forall c0 c1, (c0 <> [] \/ c1 <> []) ->
  forall x, pxreachable c0 c1 x ->
  forall a b, n_role (fst (px_nodes x a)) = Leader -> n_role (fst (px_nodes x b)) = Leader ->
    n_term (fst (px_nodes x a)) = n_term (fst (px_nodes x b)) -> a = b.
Proof. exact pv_election_safety. Qed.
Print Assumptions C15_pv_election_safety.

Theorem C15_pv_log_matching : forall c0 c1, (c0 <> [] \/ c1 <> []) ->
  forall x, pxreachable c0 c1 x ->
  forall a b i, 1 <= i -> i <= length (n_log (fst (px_nodes x a))) -> i <= length (n_log (fst (px_nodes x b))) ->
    term_at (n_log (fst (px_nodes x a))) i = term_at (n_log (fst (px_nodes x b))) i ->
    firstn i (n_log (fst (px_nodes x a))) = firstn i (n_log (fst (px_nodes x b))).
Proof. exact pv_log_matching. Qed.
Print Assumptions C15_pv_log_matching.

Theorem C15_pv_state_machine_safety : forall c0 c1, (c0 <> [] \/ c1 <> []) ->
  forall x, pxreachable c0 c1 x ->
  forall a b i, i <= n_commit (fst (px_nodes x a)) -> i <= n_commit (fst (px_nodes x b)) ->
    i <= length (n_log (fst (px_nodes x a))) /\ i <= length (n_log (fst (px_nodes x b))) /\
    firstn i (n_log (fst (px_nodes x a))) = firstn i (n_log (fst (px_nodes x b))).
Proof. exact pv_state_machine_safety. Qed.
Print Assumptions C15_pv_state_machine_safety.

Theorem C15_pv_leader_completeness : forall c0 c1, (c0 <> [] \/ c1 <> []) ->
  forall x, pxreachable c0 c1 x ->
  forall l y, n_role (fst (px_nodes x l)) = Leader -> n_term (fst (px_nodes x y)) <= n_term (fst (px_nodes x l)) ->
    n_commit (fst (px_nodes x y)) <= length (n_log (fst (px_nodes x l))) /\
    firstn (n_commit (fst (px_nodes x y))) (n_log (fst (px_nodes x l)))
      = firstn (n_commit (fst (px_nodes x y))) (n_log (fst (px_nodes x y))).
Proof. exact pv_leader_completeness. Qed.
Print Assumptions C15_pv_leader_completeness.

Theorem C15_check_step_pv_sound : forall c0 c1 x id ev obs_out obs obs_pre x',
  check_step_pv c0 c1 x id ev obs_out obs obs_pre = PVOk x' -> pxstep c0 c1 x x'.
Proof. exact check_step_pv_sound. Qed.
Print Assumptions C15_check_step_pv_sound.

(* non-vacuity of the CheckQuorum event: a (single-voter) leader steps down and keeps term and vote *)
Example C15_ex_checkquorum_stepdown :
  let l := fst (exec_pv [1] [] 1 PvCampaign (init_node, false)) in
  let f := fst (exec_pv [1] [] 1 PvStepDown l) in
  n_role (fst l) = Leader /\ n_role (fst f) = Follower /\ n_term (fst f) = n_term (fst l) /\ n_vote (fst f) = n_vote (fst l) /\ n_log (fst f) = n_log (fst l) /\ n_commit (fst f) = n_commit (fst l).
Proof. vm_compute. repeat split. Qed.

(* non-vacuity of the leadership-transfer messages: a follower that receives MsgTimeoutNow of a
   higher term becomes a candidate of the term after it (no pre-vote) *)
Example C15_ex_timeout_now :
  let f := fst (exec_pv [1; 2; 3] [] 2 (PvRecv (PT 1 2 3)) (init_node, false)) in
  n_role (fst f) = Candidate /\ n_term (fst f) = 4 /\ n_vote (fst f) = Some 2 /\ snd f = false.
Proof. vm_compute. repeat split. Qed.
