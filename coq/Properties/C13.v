(* C13 -- multi-key commands are deadlock-free and atomic.  Statements only. *)
Require Import List Arith Bool.
Import ListNotations.
Require Import Conc.TwoPLDefs Conc.TwoPL Conc.DeadlockDefs Conc.Deadlock.

(* Any number of threads, any number of reader-writer locks with Go's writer preference (an
   announced Lock() refuses new readers), any schedule: if every thread's lock program follows
   the ordered discipline, every reachable state in which somebody has not finished has a step. *)
Theorem C13_deadlock_free :
  forall progs s, Forall (fun p => ordered p = true) progs ->
    reachable (init progs) s -> unfinished s -> exists s', DeadlockDefs.step s s'.
Proof. exact deadlock_free. Qed.
Print Assumptions C13_deadlock_free.
