(* C13 -- multi-key commands are deadlock-free and atomic.  Statements only (proofs in Conc/). *)
Require Import List Arith Bool NArith String.
Import ListNotations.
Require Import Base.Bytes.
Require Import Conc.TwoPLDefs Conc.TwoPL Conc.DeadlockDefs Conc.Deadlock.
Require Import Conc.LockModel Conc.LockOrder Conc.Skel Conc.SkelSem Conc.SkelSound Conc.GroundBridge
               Conc.Corollaries Conc.Chain Conc.EraseSim.

(* sortedLockPoses (model: the set of stripe indexes of the keys, insertion-sorted): strictly
   ascending, and exactly the stripes of the keys -- whatever the keys, repetitions included *)
Theorem C13_sorted_dedup : forall nlocks keys,
  Sorted.StronglySorted N.lt (poses nlocks keys) /\
  (forall p, In p (poses nlocks keys) <-> In p (map (stripe nlocks) keys)).
Proof. exact sorted_dedup. Qed.
Print Assumptions C13_sorted_dedup.

(* Any number of threads, any number of reader-writer locks with Go's writer preference (an
   announced Lock() refuses new readers), any schedule: if every thread's lock program follows
   the ordered discipline (requests only above everything it holds, releases what it holds, ends
   holding nothing), every reachable state in which some thread has not finished has a step. *)
Theorem C13_deadlock_free :
  forall progs s, Forall (fun p => ordered p = true) progs ->
    reachable (init progs) s -> unfinished s -> exists s', DeadlockDefs.step s s'.
Proof. exact deadlock_free. Qed.
Print Assumptions C13_deadlock_free.

(* ... and every step consumes work, so every maximal run is finite and ends with all finished *)
Theorem C13_all_runs_finish :
  forall progs s, Forall (fun p => ordered p = true) progs -> reachable (init progs) s ->
    (~ exists s', DeadlockDefs.step s s') -> Forall (fun th => th_prog th = []) s.
Proof. exact all_runs_finish. Qed.
Print Assumptions C13_all_runs_finish.
Theorem C13_step_decreases : forall s s', DeadlockDefs.step s s' -> measure s' < measure s.
Proof. exact step_decreases. Qed.
Print Assumptions C13_step_decreases.

(* the step rules really enforce reader-writer exclusion *)
Theorem C13_mutual_exclusion : forall progs s, reachable (init progs) s -> exclusive s.
Proof. exact exclusive_invariant. Qed.
Print Assumptions C13_mutual_exclusion.

(* the discipline is needed: opposite acquisition orders (LockMulti without the sort) and a
   re-entrant read lock behind a waiting writer (a lock call inside a held region, e.g. CheckTTL)
   both reach stuck states *)
Theorem C13_unordered_refuted :
  exists s, reachable (init [prog_ab; prog_ba]) s /\ unfinished s /\ ~ exists s', DeadlockDefs.step s s'.
Proof. exact ordered_needed. Qed.
Print Assumptions C13_unordered_refuted.
Theorem C13_reentrant_read_refuted :
  exists s, reachable (init [prog_rr; prog_w]) s /\ unfinished s /\ ~ exists s', DeadlockDefs.step s s'.
Proof. exact reentrant_read_stuck. Qed.
Print Assumptions C13_reentrant_read_refuted.

(* the executors follow the discipline: an executor accepted by the (regenerated, vm_compute-
   decided) obligation well_locked -- one Lock/RLock or one *Multi per critical section, nothing
   that locks inside one -- yields, on every argument vector and every path, an ordered lock
   program (LockMulti expands to the strictly ascending [poses]) *)
Theorem C13_multi_is_ordered : forall nlocks lower sk args t,
  well_locked sk = true -> run_of nlocks lower sk args t -> ordered (lockprog t) = true.
Proof. exact multi_is_ordered. Qed.
Print Assumptions C13_multi_is_ordered.

(* the lock-only obligation alone suffices for the discipline (used for executors whose data
   accesses are the subject of an open finding): a run has the lock program of a run of the erased
   skeleton; depth_ok 64 = nesting depth within the fuel of [erase], itself an obligation *)
Theorem C13_ordered_acquisition_sound : forall nlocks lower sk args t,
  depth_ok 64 sk = true -> ordered_acquisition sk = true ->
  run_of nlocks lower sk args t -> ordered (lockprog t) = true.
Proof. exact ordered_acquisition_sound. Qed.
Print Assumptions C13_ordered_acquisition_sound.

(* hence: any number of clients, each issuing any sequence of accepted commands with any
   arguments (any key overlap, repeated keys, stripe collisions), in any interleaving: never stuck *)
Theorem C13_executors_deadlock_free : forall nlocks lower (threads : list (list cmd_run)) s,
  Forall (Forall (good_run nlocks lower)) threads ->
  reachable (init (map (fun th => lockprog (thread_trace th)) threads)) s ->
  unfinished s -> exists s', DeadlockDefs.step s s'.
Proof. exact executors_deadlock_free. Qed.
Print Assumptions C13_executors_deadlock_free.

(* atomicity of multi-location transactions = the two-phase-locking theorem, which puts no bound on
   the number of locations or locks a transaction uses; instance: moves between two locations
   (LMOVE / SMOVE / RENAME shape) in any interleaving lose and duplicate nothing *)
Theorem C13_atomic :
  forall (Loc Lk Val Lst : Type) (Loc_eqb : Loc -> Loc -> bool) (Lk_eqb : Lk -> Lk -> bool),
    (forall a b, reflect (a = b) (Loc_eqb a b)) -> (forall a b, reflect (a = b) (Lk_eqb a b)) ->
    forall (guard : Loc -> Lk) (s : schedule Loc Lk Val Lst),
      legal Loc Lk Val Lst Lk_eqb s ->
      (forall t, In t (tids Loc Lk Val Lst s) -> wl Loc Lk Val Lst Lk_eqb guard (proj Loc Lk Val Lst t s) = true) ->
      forall st, state_eq Loc Val Lst (run Loc Lk Val Lst Loc_eqb (serial Loc Lk Val Lst s) st)
                          (run Loc Lk Val Lst Loc_eqb s st).
Proof. exact twopl_serializable. Qed.
Print Assumptions C13_atomic.

Theorem C13_move_conserves :
  forall (guard : nat -> nat) (s : schedule nat nat (list nat) (option (option nat))) (a b : nat) st,
    a <> b -> legal nat nat (list nat) (option (option nat)) Nat.eqb s -> WL guard s ->
    (forall t, In t (tids nat nat (list nat) (option (option nat)) s) -> data t s = move a b \/ data t s = move b a) ->
    Permutation.Permutation
      (store nat (list nat) (option (option nat)) st a ++ store nat (list nat) (option (option nat)) st b)
      (store nat (list nat) (option (option nat)) (run nat nat (list nat) (option (option nat)) Nat.eqb s st) a ++
       store nat (list nat) (option (option nat)) (run nat nat (list nat) (option (option nat)) Nat.eqb s st) b).
Proof. exact move_atomic. Qed.
Print Assumptions C13_move_conserves.

(* ---- the hypotheses are satisfiable ---- *)
Example C13_ex_ordered : ordered [IAcq W 3; IAcq W 7; IRel 7; IRel 3] = true /\ ordered prog_ba = false.
Proof. split; reflexivity. Qed.
Example C13_ex_poses :   (* two keys on one stripe, one elsewhere, one repeated *)
  poses 32 [["a"%byte]; ["b"%byte]; ["a"%byte]] = [1%N; 22%N].
Proof. vm_compute. reflexivity. Qed.
Local Open Scope string_scope.
Example C13_ex_skeleton :   (* the shape of RENAME; and what happens when only one key is locked *)
  well_locked [ECheckTTL (KArg 1); ELockMulti W [TKey (KArg 1); TKey (KArg 2)];
               EDefer [EUnlockMulti W [TKey (KArg 1); TKey (KArg 2)]];
               EDb ARead "Get" (KArg 1); EDb AWrite "Delete" (KArg 1); EDb AWrite "Set" (KArg 2); EReturn] = true /\
  well_locked [ELockMulti W [TKey (KArg 1)]; EDefer [EUnlockMulti W [TKey (KArg 1)]];
               EDb AWrite "Set" (KArg 2); EReturn] = false /\
  ordered_acquisition [ELock R (KArg 1); ECheckTTL (KArg 1); EUnlock R (KArg 1)] = false.
Proof. vm_compute. repeat split; reflexivity. Qed.
