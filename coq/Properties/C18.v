(* C18 — stream IDs strictly increase; XRANGE returns what was added.
   Statements only; the proofs are in Mem/StreamsProofs.v, the model in Mem/Streams.v.
   Conventions: d ranges over all databases, nowms over all clocks (Z), args over all argument
   vectors; [streams_ok d] says every stored stream has strictly increasing 64-bit ids
   (value_ok_stream); [stream_at d k x] says key k holds stream x, or is missing and x = []. *)
Require Import Base.Bytes Base.GoInt Base.Reply Mem.Types Mem.Inv Mem.Streams Mem.Exec Mem.StreamsProofs.
From Coq Require Import Sorting.Sorted.
Local Open Scope Z_scope.

(* ---------------------------------------------------------------- the invariant *)
(* The stored id list of every stream is strictly increasing (so no id occurs twice) and every
   component is an unsigned 64-bit number.  It holds in the empty database, every stream command
   preserves it from every database that has it -- for all clocks and argument vectors -- and so
   does anything that only keeps, moves or deletes values; hence it holds after every program.
   An empty stream may be stored (XADD ... MAXLEN 0 leaves one, as in Redis): the invariant does
   not force removal. *)
Theorem C18_ids_strictly_increasing :
  forall d now nowms n args hint r d',
    streams_ok d -> streams_dispatch d now nowms n args hint = Some (r, d') -> streams_ok d'.
Proof. exact streams_dispatch_streams_ok. Qed.
Print Assumptions C18_ids_strictly_increasing.

Theorem C18_ids_strictly_increasing_all_programs :
  forall prog : list (Z * Z * list bytes),
    db_wf (run_streams prog empty_db) /\ streams_ok (run_streams prog empty_db).
Proof. intros prog. apply run_streams_inv. split; [exact db_wf_empty|exact streams_ok_empty]. Qed.
Print Assumptions C18_ids_strictly_increasing_all_programs.

Theorem C18_invariant_meaning :
  forall d k x, streams_ok d -> db_get d k = Some (VStream x) ->
    StronglySorted sid_ltP (map fst x) /\ NoDup (map fst x) /\ Forall in_u64 (map fst x).
Proof.
  intros d k x OK G. destruct (OK k _ G) as [S F].
  split; [exact S|]. split; [apply increasing_NoDup; exact S|exact F].
Qed.
Print Assumptions C18_invariant_meaning.

Theorem C18_invariant_survives_moves_and_deletes :
  forall d d', streams_ok d ->
    (forall k v, db_get d' k = Some v -> exists k0, db_get d k0 = Some v) -> streams_ok d'.
Proof. exact streams_ok_no_new_values. Qed.
Print Assumptions C18_invariant_survives_moves_and_deletes.

(* ---------------------------------------------------------------- accepted XADD *)
(* Whatever the options, the id form and the clock: if XADD replies an id, that id is greater than
   the top item and than every stored id, the argument vector is <options> <id> <fields>, and key k
   now holds the old entries followed by (id, fields), trimmed as requested; other keys and all
   deadlines are untouched. *)
Theorem C18_xadd_id_greater :
  forall d nowms args idb d',
    streams_ok d -> exec_xadd d nowms args = (RBulk idb, d') ->
    exists c k pre idt fields o spec x id,
      args = c :: k :: pre ++ idt :: fields /\ parse_add_id idt = Some spec /\
      xadd_parse (pre ++ idt :: fields) xopts0 = XOk o spec fields /\
      stream_at d k x /\ idb = fmt_id id /\ in_u64 id /\
      sid_ltP (last_id x) id /\ Forall (fun e => sid_ltP (fst e) id) x /\
      db_get d' k = Some (VStream (trim o (x ++ [(id, fields)]))) /\
      (forall k0, k0 <> k -> db_get d' k0 = db_get d k0) /\ ttl d' = ttl d.
Proof. exact p_xadd_id_greater. Qed.
Print Assumptions C18_xadd_id_greater.

(* XADD key <id> f v ... without options: exactly (id, fields) is appended, nothing else changes *)
Theorem C18_xadd_plain_appends :
  forall d nowms c k idt fields spec x id,
    streams_ok d -> parse_add_id idt = Some spec -> fields_ok fields = true -> is_zero_id spec = false ->
    stream_at d k x -> new_id spec nowms (last_id x) = Some id ->
    exec_xadd d nowms (c :: k :: idt :: fields) =
      (RBulk (fmt_id id), db_set d k (VStream (x ++ [(id, fields)]))) /\
    Forall (fun e => sid_ltP (fst e) id) x.
Proof. exact p_xadd_plain_appends. Qed.
Print Assumptions C18_xadd_plain_appends.

(* ---------------------------------------------------------------- refused XADD *)
(* Any reply other than an id -- an error, WRONGTYPE, the nil of NOMKSTREAM -- leaves the database
   exactly as it was: no entry, no key, no deadline. *)
Theorem C18_rejected_changes_nothing :
  forall d nowms args r d',
    exec_xadd d nowms args = (r, d') -> (forall b, r <> RBulk b) -> d' = d.
Proof. exact p_rejected_changes_nothing. Qed.
Print Assumptions C18_rejected_changes_nothing.

(* an explicit id equal to or smaller than the top item (0-0 for an empty or missing stream) is
   refused and changes nothing *)
Theorem C18_explicit_not_greater_rejected :
  forall d nowms c k idt fields i x,
    parse_add_id idt = Some (IdFull i) -> stream_at d k x -> sid_leP i (last_id x) ->
    exec_xadd d nowms (c :: k :: idt :: fields) = (err_other, d).
Proof. exact p_explicit_not_greater_rejected. Qed.
Print Assumptions C18_explicit_not_greater_rejected.

(* ---------------------------------------------------------------- automatic ids *)
(* XADD key * f v ...: for every clock value -- not advancing, or behind the top item -- the
   generated id exceeds every stored id.  (The one stream that cannot take another entry is the
   one whose top item is the greatest id 2^64-1 - 2^64-1.) *)
Theorem C18_auto_id_exceeds_last :
  forall d nowms c k fields x,
    streams_ok d -> stream_at d k x -> fields_ok fields = true -> last_id x <> (u64max, u64max) ->
    exists id, sid_ltP (last_id x) id /\ Forall (fun e => sid_ltP (fst e) id) x /\
      exec_xadd d nowms (c :: k :: B "*" :: fields) =
        (RBulk (fmt_id id), db_set d k (VStream (x ++ [(id, fields)]))).
Proof. exact p_auto_id_exceeds_last. Qed.
Print Assumptions C18_auto_id_exceeds_last.

(* every form of the id argument: an assigned id is above the top item *)
Theorem C18_assigned_id_above_top :
  forall spec nowms top i, new_id spec nowms top = Some i -> sid_ltP top i.
Proof. exact new_id_gt. Qed.
Print Assumptions C18_assigned_id_above_top.

(* ---------------------------------------------------------------- XRANGE *)
(* The reply is exactly the stored entries with lo <= id <= hi (both inclusive), in stream order
   = id order, each as [id, [f1, v1, ...]] in bulk strings, cut to the first COUNT entries;
   COUNT 0 (or negative) is the nil array.  [-] is 0-0, [+] is max-max, an id without sequence
   number is ms-0 as start and ms-max as end. *)
Theorem C18_xrange_exact :
  forall d c k s e opts x lo hi cnt,
    streams_ok d -> db_get d k = Some (VStream x) ->
    parse_bound s 0 = Some lo -> parse_bound e u64max = Some hi -> parse_count opts None = Some cnt ->
    exec_xrange d (c :: k :: s :: e :: opts) =
    (match cnt with
     | None => RArr (map entry_reply (filter (in_range lo hi) x))
     | Some n => if n =? 0 then RNilArr
                 else RArr (map entry_reply (firstn (Z.to_nat n) (filter (in_range lo hi) x)))
     end, d).
Proof. exact p_xrange_exact. Qed.
Print Assumptions C18_xrange_exact.

Theorem C18_xrange_bounds :
  (forall m, parse_bound (B "-") m = Some (0, 0)) /\
  (forall m, parse_bound (B "+") m = Some (u64max, u64max)) /\
  (forall s ms m, parse_u64 s = Some ms -> parse_bound s m = Some (ms, m)) /\
  (forall lo hi e, in_range lo hi e = true <-> sid_leP lo (fst e) /\ sid_leP (fst e) hi).
Proof.
  split; [exact parse_bound_minus|]. split; [exact parse_bound_plus|]. split; [exact parse_bound_ms_only|].
  intros lo hi e. unfold in_range. rewrite andb_true_iff, !sid_le_spec. tauto.
Qed.
Print Assumptions C18_xrange_bounds.

Theorem C18_xrange_count :
  forall cw nb v, is (lower cw) (B "count") = true -> atoi64 nb = Some v ->
    parse_count [cw; nb] None = Some (Some (if v <? 0 then 0 else v)).
Proof. exact parse_count_one. Qed.
Print Assumptions C18_xrange_count.

(* XRANGE key - + returns every stored entry *)
Theorem C18_xrange_all :
  forall d c k x, streams_ok d -> db_get d k = Some (VStream x) ->
    exec_xrange d [c; k; B "-"; B "+"] = (RArr (map entry_reply x), d).
Proof. exact p_xrange_all. Qed.
Print Assumptions C18_xrange_all.

(* what was added is read back with its fields, under the id that XADD reported *)
Theorem C18_xadd_then_xrange :
  forall d nowms c k idt fields spec x idb d' c2,
    streams_ok d -> parse_add_id idt = Some spec -> stream_at d k x ->
    exec_xadd d nowms (c :: k :: idt :: fields) = (RBulk idb, d') ->
    exec_xrange d' [c2; k; B "-"; B "+"] =
      (RArr (map entry_reply x ++ [RArr [RBulk idb; RArr (map RBulk fields)]]), d').
Proof. exact p_xadd_then_xrange. Qed.
Print Assumptions C18_xadd_then_xrange.

(* ---------------------------------------------------------------- trimming *)
(* Trimming only ever removes a prefix -- the oldest entries.  MAXLEN n (no LIMIT): exactly the
   newest min(len, n) remain.  MINID th (no LIMIT): exactly the entries with id >= th remain.
   The code trims `~` exactly like `=` (the reference allows `~` to trim less); LIMIT l > 0, which
   is only accepted together with `~`, caps the evictions of one command at l. *)
Theorem C18_trim_oldest_only :
  (forall o x, exists n, trim o x = skipn n x) /\
  (forall o x n, x_maxlen o = Some n -> x_minid o = None -> x_limit o = None -> 0 <= n ->
     trim o x = skipn (Z.to_nat (zlength x - n)) x /\ zlength (trim o x) = Z.min (zlength x) n) /\
  (forall o x th, x_maxlen o = None -> x_minid o = Some th -> x_limit o = None ->
     StronglySorted sid_ltP (map fst x) ->
     trim o x = filter (fun e => sid_le th (fst e)) x) /\
  (forall o x l, x_limit o = Some l -> 0 < l -> xadd_conflict o = false ->
     zlength x - zlength (trim o x) <= l).
Proof.
  split; [exact trim_suffix|]. split; [exact trim_maxlen_exact|].
  split; [exact trim_minid_exact|exact trim_limit_bound].
Qed.
Print Assumptions C18_trim_oldest_only.

(* through the command: XADD key MAXLEN n id f v ... *)
Theorem C18_xadd_maxlen :
  forall d nowms c k kw nb idt fields n spec x id,
    is (lower kw) (B "maxlen") = true -> atoi64 nb = Some n -> 0 <= n ->
    parse_add_id idt = Some spec -> fields_ok fields = true -> is_zero_id spec = false ->
    stream_at d k x -> new_id spec nowms (last_id x) = Some id ->
    let y := x ++ [(id, fields)] in
    let y' := skipn (Z.to_nat (zlength y - n)) y in
    exec_xadd d nowms (c :: k :: kw :: nb :: idt :: fields) = (RBulk (fmt_id id), db_set d k (VStream y'))
    /\ zlength y' = Z.min (zlength y) n.
Proof. exact p_xadd_maxlen. Qed.
Print Assumptions C18_xadd_maxlen.

(* through the command: XADD key MINID th id f v ... *)
Theorem C18_xadd_minid :
  forall d nowms c k kw tb idt fields th spec x id,
    streams_ok d ->
    is (lower kw) (B "minid") = true -> parse_id tb 0 = Some th ->
    parse_add_id idt = Some spec -> fields_ok fields = true -> is_zero_id spec = false ->
    stream_at d k x -> new_id spec nowms (last_id x) = Some id ->
    exec_xadd d nowms (c :: k :: kw :: tb :: idt :: fields) =
      (RBulk (fmt_id id),
       db_set d k (VStream (filter (fun e => sid_le th (fst e)) (x ++ [(id, fields)])))).
Proof. exact p_xadd_minid. Qed.
Print Assumptions C18_xadd_minid.

(* ---------------------------------------------------------------- reads create nothing *)
Theorem C18_read_creates_nothing :
  forall d args, snd (exec_xrange d args) = d.
Proof. exact exec_xrange_db. Qed.
Print Assumptions C18_read_creates_nothing.

Theorem C18_xrange_missing_key :
  forall d c k s e opts lo hi cnt,
    db_get d k = None ->
    parse_bound s 0 = Some lo -> parse_bound e u64max = Some hi -> parse_count opts None = Some cnt ->
    exec_xrange d (c :: k :: s :: e :: opts) = (RArr [], d).
Proof. exact exec_xrange_missing. Qed.
Print Assumptions C18_xrange_missing_key.

(* ---------------------------------------------------------------- keys of another type *)
Theorem C18_wrongtype_changes_nothing :
  (forall d nowms c k rest v r d',
     db_get d k = Some v -> (forall x, v <> VStream x) ->
     exec_xadd d nowms (c :: k :: rest) = (r, d') -> d' = d /\ (r = err_other \/ r = err_wrongtype)) /\
  (forall d c k s e opts lo hi cnt v,
     db_get d k = Some v -> (forall x, v <> VStream x) ->
     parse_bound s 0 = Some lo -> parse_bound e u64max = Some hi -> parse_count opts None = Some cnt ->
     exec_xrange d (c :: k :: s :: e :: opts) = (err_wrongtype, d)).
Proof. split; [exact exec_xadd_wrongtype|exact exec_xrange_wrongtype]. Qed.
Print Assumptions C18_wrongtype_changes_nothing.

(* ---------------------------------------------------------------- composition (CONVENTIONS.md) *)
Theorem C18_streams_dispatch_wf_pres :
  forall d now nowms n args hint r d',
    db_wf d -> streams_dispatch d now nowms n args hint = Some (r, d') -> db_wf d'.
Proof. exact streams_dispatch_wf_pres. Qed.
Print Assumptions C18_streams_dispatch_wf_pres.

Theorem C18_streams_dispatch_reply_wf :
  forall d now nowms n args hint r d',
    streams_dispatch d now nowms n args hint = Some (r, d') -> reply_wf r = true.
Proof. exact streams_dispatch_reply_wf. Qed.
Print Assumptions C18_streams_dispatch_reply_wf.

(* through the purge of Exec.exec: commands see the semantic view, so an expired stream is a
   missing stream *)
Theorem C18_expired_stream_is_missing :
  forall d now nowms c k s e lo hi,
    db_wf d -> view d now k = None ->
    parse_bound s 0 = Some lo -> parse_bound e u64max = Some hi ->
    exec d now nowms [B "xrange"; k; s; e] c = (RArr [], purge d now).
Proof.
  intros d now nowms c k s e lo hi W V Ps Pe. unfold exec, exec_cmd. cbn [lower map lower_byte].
  change (dispatch families (purge d now) now nowms (B "xrange") [B "xrange"; k; s; e] c)
    with (exec_xrange (purge d now) [B "xrange"; k; s; e]).
  eapply exec_xrange_missing; [|exact Ps|exact Pe|reflexivity].
  pose proof (raw_view_purge d now k W) as R. rewrite V in R. unfold raw_view in R.
  destruct (db_get (purge d now) k); [discriminate|reflexivity].
Qed.
Print Assumptions C18_expired_stream_is_missing.

(* ================================================================ non-vacuity: concrete runs *)
Definition s1 : db := mkDb [(B "s", VStream [((5, 1), [B "a"; B "b"])])] [].
Definition s3 : db :=
  mkDb [(B "s", VStream [((1, 1), [B "a"; B "1"]); ((2, 1), [B "a"; B "2"]); ((3, 1), [B "a"; B "3"])])] [].

Example ex_hypotheses_satisfiable : db_wf s3 /\ streams_ok s3 /\ stream_at s3 (B "s") [((1, 1), [B "a"; B "1"]); ((2, 1), [B "a"; B "2"]); ((3, 1), [B "a"; B "3"])] /\ stream_at s3 (B "nokey") [].
Proof.
  split.
  { split; [|split]; cbn.
    - constructor; [intros []|constructor].
    - constructor.
    - intros k []. }
  split.
  { intros k v G. unfold db_get in G. cbn in G. destruct (bytes_eqb k (B "s")); [|discriminate].
    inversion G; subst. split; cbn; repeat constructor; cbn; unfold u64max; lia. }
  split; [left; reflexivity|right; split; reflexivity].
Qed.

(* the former counterexamples, through the whole dispatcher (Exec.exec) *)
Example ex_first_entry_keeps_its_seq :       (* pinned code: stored and reported 5-0 *)
  exec empty_db 1257894000 1257894000000 [B "xadd"; B "s"; B "5-1"; B "a"; B "b"] RNil = (RBulk (B "5-1"), s1).
Proof. vm_compute. reflexivity. Qed.

Example ex_equal_id_refused :                (* pinned code: a second 5-1 was accepted *)
  exec s1 1257894000 1257894000000 [B "xadd"; B "s"; B "5-1"; B "c"; B "d"] RNil = (err_other, s1).
Proof. vm_compute. reflexivity. Qed.

Example ex_smaller_id_refused :
  exec s1 1257894000 1257894000000 [B "XADD"; B "s"; B "5-0"; B "c"; B "d"] RNil = (err_other, s1)
  /\ exec s1 1257894000 1257894000000 [B "xadd"; B "s"; B "4-9"; B "c"; B "d"] RNil = (err_other, s1)
  /\ exec s1 1257894000 1257894000000 [B "xadd"; B "s"; B "5"; B "c"; B "d"] RNil = (err_other, s1).
Proof. vm_compute. repeat split. Qed.

Example ex_zero_id_refused_creates_nothing :
  exec empty_db 1 1000 [B "xadd"; B "s"; B "0-0"; B "a"; B "b"] RNil = (err_other, empty_db)
  /\ fst (exec empty_db 1 1000 [B "xadd"; B "s"; B "0-*"; B "a"; B "b"] RNil) = RBulk (B "0-1")
  /\ fst (exec empty_db 1 1000 [B "xadd"; B "s"; B "0-1"; B "a"; B "b"] RNil) = RBulk (B "0-1").
Proof. vm_compute. repeat split. Qed.

Example ex_auto_seq_accepted :               (* pinned code: 6-* was refused *)
  fst (exec s1 1257894000 1257894000000 [B "xadd"; B "s"; B "6-*"; B "c"; B "d"] RNil) = RBulk (B "6-0")
  /\ fst (exec s1 1257894000 1257894000000 [B "xadd"; B "s"; B "5-*"; B "c"; B "d"] RNil) = RBulk (B "5-2")
  /\ fst (exec s1 1257894000 1257894000000 [B "xadd"; B "s"; B "4-*"; B "c"; B "d"] RNil) = err_other.
Proof. vm_compute. repeat split. Qed.

Example ex_auto_id_same_millisecond_and_clock_behind :
  let a := [B "xadd"; B "t"; B "*"; B "f"; B "v"] in
  let '(r1, d1) := exec empty_db 1257894000 1257894000000 a RNil in
  let '(r2, d2) := exec d1 1257894000 1257894000000 a RNil in          (* clock stands still *)
  let '(r3, d3) := exec d2 1257893999 1257893999000 a RNil in          (* clock runs backwards *)
  let '(r4, d4) := exec d3 1257894001 1257894001000 a RNil in          (* clock advances *)
  (r1, r2, r3, r4) = (RBulk (B "1257894000000-0"), RBulk (B "1257894000000-1"),
                      RBulk (B "1257894000000-2"), RBulk (B "1257894001000-0")).
Proof. vm_compute. reflexivity. Qed.

Example ex_seq_overflow :
  let top := B "7-18446744073709551615" in
  let '(_, d1) := exec empty_db 1 1000 [B "xadd"; B "t"; top; B "f"; B "v"] RNil in
  fst (exec d1 1 1000 [B "xadd"; B "t"; B "*"; B "f"; B "v"] RNil) = RBulk (B "1000-0")
  /\ fst (exec d1 0 6 [B "xadd"; B "t"; B "*"; B "f"; B "v"] RNil) = RBulk (B "8-0")
  /\ exec d1 0 6 [B "xadd"; B "t"; B "7-*"; B "f"; B "v"] RNil = (err_other, d1).
Proof. vm_compute. repeat split. Qed.

Example ex_xrange_incomplete_bounds_inclusive :   (* pinned code: XRANGE s 5 5 -> no reply value *)
  exec s1 0 0 [B "xrange"; B "s"; B "5"; B "5"] RNil
  = (RArr [RArr [RBulk (B "5-1"); RArr [RBulk (B "a"); RBulk (B "b")]]], s1)
  /\ fst (exec s1 0 0 [B "xrange"; B "s"; B "5-1"; B "5-1"] RNil)
     = RArr [RArr [RBulk (B "5-1"); RArr [RBulk (B "a"); RBulk (B "b")]]]
  /\ fst (exec s1 0 0 [B "xrange"; B "s"; B "5-2"; B "+"] RNil) = RArr []
  /\ fst (exec s1 0 0 [B "xrange"; B "s"; B "-"; B "5-0"] RNil) = RArr [].
Proof. vm_compute. repeat split. Qed.

Example ex_xrange_missing_key_creates_nothing :   (* pinned code: error reply, and the key existed afterwards *)
  exec empty_db 0 0 [B "xrange"; B "nokey"; B "-"; B "+"] RNil = (RArr [], empty_db).
Proof. vm_compute. reflexivity. Qed.

Example ex_xrange_count :
  fst (exec s3 0 0 [B "xrange"; B "s"; B "-"; B "+"; B "COUNT"; B "2"] RNil)
  = RArr [RArr [RBulk (B "1-1"); RArr [RBulk (B "a"); RBulk (B "1")]];
          RArr [RBulk (B "2-1"); RArr [RBulk (B "a"); RBulk (B "2")]]]
  /\ fst (exec s3 0 0 [B "xrange"; B "s"; B "2"; B "+"; B "count"; B "9"] RNil)
  = RArr [RArr [RBulk (B "2-1"); RArr [RBulk (B "a"); RBulk (B "2")]];
          RArr [RBulk (B "3-1"); RArr [RBulk (B "a"); RBulk (B "3")]]]
  /\ fst (exec s3 0 0 [B "xrange"; B "s"; B "-"; B "+"; B "count"; B "0"] RNil) = RNilArr
  /\ fst (exec s3 0 0 [B "xrange"; B "s"; B "-"; B "+"; B "bogus"; B "1"] RNil) = err_other.
Proof. vm_compute. repeat split. Qed.

Example ex_tilde_is_not_an_option :              (* pinned code: looped forever *)
  exec s1 0 0 [B "xadd"; B "s"; B "~"; B "a"; B "b"] RNil = (err_other, s1).
Proof. vm_compute. reflexivity. Qed.

Example ex_option_loop_runs_out_of_arguments :   (* pinned code: index out of range, panic *)
  exec s1 0 0 [B "xadd"; B "k"; B "nomkstream"; B "nomkstream"; B "nomkstream"; B "nomkstream"] RNil = (err_other, s1)
  /\ exec s1 0 0 [B "xadd"; B "k"; B "maxlen"; B "5"; B "minid"] RNil = (err_other, s1).
Proof. vm_compute. repeat split. Qed.

Example ex_nomkstream :
  exec empty_db 0 5 [B "xadd"; B "k"; B "NOMKSTREAM"; B "*"; B "a"; B "b"] RNil = (RNil, empty_db)
  /\ fst (exec s1 0 5 [B "xadd"; B "s"; B "nomkstream"; B "*"; B "a"; B "b"] RNil) = RBulk (B "5-2").
Proof. vm_compute. repeat split. Qed.

Example ex_minid_uses_the_threshold :            (* pinned code: MINID was unusable *)
  exec s3 0 0 [B "xadd"; B "s"; B "MINID"; B "2"; B "4-1"; B "a"; B "4"] RNil
  = (RBulk (B "4-1"),
     mkDb [(B "s", VStream [((2, 1), [B "a"; B "2"]); ((3, 1), [B "a"; B "3"]); ((4, 1), [B "a"; B "4"])])] []).
Proof. vm_compute. reflexivity. Qed.

Example ex_maxlen_and_limit :
  snd (exec s3 0 0 [B "xadd"; B "s"; B "maxlen"; B "2"; B "4-1"; B "a"; B "4"] RNil)
  = mkDb [(B "s", VStream [((3, 1), [B "a"; B "3"]); ((4, 1), [B "a"; B "4"])])] []
  /\ snd (exec s3 0 0 [B "xadd"; B "s"; B "maxlen"; B "~"; B "1"; B "limit"; B "2"; B "4-1"; B "a"; B "4"] RNil)
  = mkDb [(B "s", VStream [((3, 1), [B "a"; B "3"]); ((4, 1), [B "a"; B "4"])])] []
  /\ exec s3 0 0 [B "xadd"; B "s"; B "maxlen"; B "1"; B "limit"; B "2"; B "4-1"; B "a"; B "4"] RNil = (err_other, s3)
  (* an emptied stream stays: *)
  /\ snd (exec s3 0 0 [B "xadd"; B "s"; B "maxlen"; B "0"; B "4-1"; B "a"; B "4"] RNil) = mkDb [(B "s", VStream [])] [].
Proof. vm_compute. repeat split. Qed.

Example ex_fields_must_be_pairs :
  exec s1 0 0 [B "xadd"; B "s"; B "*"; B "a"; B "b"; B "c"] RNil = (err_other, s1)
  /\ exec s1 0 0 [B "xadd"; B "s"; B "maxlen"; B "5"; B "*"] RNil = (err_other, s1).
Proof. vm_compute. repeat split. Qed.

Example ex_wrongtype :
  let d := mkDb [(B "s", VStr (B "x"))] [] in
  exec d 0 0 [B "xadd"; B "s"; B "*"; B "a"; B "b"] RNil = (err_wrongtype, d)
  /\ exec d 0 0 [B "xrange"; B "s"; B "-"; B "+"] RNil = (err_wrongtype, d).
Proof. vm_compute. repeat split. Qed.

Example ex_expired_stream_is_gone :
  let d := mkDb [(B "s", VStream [((5, 1), [B "a"; B "b"])])] [(B "s", 100)] in
  fst (exec d 99 99000 [B "xrange"; B "s"; B "-"; B "+"] RNil) = RArr [RArr [RBulk (B "5-1"); RArr [RBulk (B "a"); RBulk (B "b")]]]
  /\ exec d 100 100000 [B "xrange"; B "s"; B "-"; B "+"] RNil = (RArr [], empty_db)
  /\ exec d 100 100000 [B "xadd"; B "s"; B "1-1"; B "c"; B "d"] RNil
     = (RBulk (B "1-1"), mkDb [(B "s", VStream [((1, 1), [B "c"; B "d"])])] []).
Proof. vm_compute. repeat split. Qed.

Example ex_greatest_id :
  let m := B "18446744073709551615-18446744073709551615" in
  let '(r1, d1) := exec empty_db 0 5 [B "xadd"; B "s"; m; B "a"; B "b"] RNil in
  r1 = RBulk m
  /\ exec d1 0 5 [B "xadd"; B "s"; B "*"; B "a"; B "b"] RNil = (err_other, d1)
  /\ fst (exec d1 0 5 [B "xrange"; B "s"; B "18446744073709551615"; B "+"] RNil)
     = RArr [RArr [RBulk m; RArr [RBulk (B "a"); RBulk (B "b")]]]
  /\ exec empty_db 0 5 [B "xadd"; B "s"; B "18446744073709551616-0"; B "a"; B "b"] RNil = (err_other, empty_db).
Proof. vm_compute. repeat split. Qed.

(* ---------------------------------------------------------------- all command families (Mem/AllInv.v)
   Strictly increasing ids are preserved by every command of EVERY family (RENAME moving a
   stream, DEL, SET overwriting it, expiry ...), hence by any interleaving of them. *)
Require Mem.AllInv Mem.ZSetsCompose.

Theorem C18_streams_ok_all_commands : forall (prog : list (Z * Z * list bytes * reply)) (d : db),
  db_wf d -> streams_ok d ->
  db_wf (ZSetsCompose.run_cmds prog d) /\ streams_ok (ZSetsCompose.run_cmds prog d).
Proof. exact AllInv.streams_ok_all_commands. Qed.
Print Assumptions C18_streams_ok_all_commands.
