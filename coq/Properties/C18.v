(* C18 — stream IDs strictly increase; XRANGE returns what was added (statements only). *)
Require Import Base.Bytes Base.GoInt Base.Reply Mem.Types Mem.Streams.
Local Open Scope Z_scope.
