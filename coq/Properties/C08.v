(* C08 -- acknowledged cluster writes survive crashes and restarts (PARTIAL).
   Statements only; model in Cluster/Durability.v, proofs in Cluster/DurabilityProofs.v.

   Proved: the ordering/recovery logic of ONE node's Ready loop for every Ready sequence, every
   crash point between two statements of the loop, every clock.  Imported (named below):
   what the Raft library promises about a Ready ([ready_ok], C15), that the WAL gives back what
   was saved (C16), and -- for the cluster-wide statement -- that an entry is only committed once
   a quorum has saved it and that every later leader holds it (C15).  Exercised by
   checks/c08.py, not modelled: the file system, kill -9 of real processes, rafthttp.
   The snapshot path violates the property at the pinned commit: two refutations below, both
   open findings (they need a real snapshot format and a load path, not a patch). *)
Require Import Base.Bytes Base.GoInt Base.Reply Mem.Types Mem.Exec.
Require Import Cluster.ClusterEnc Cluster.ApplyLoop Cluster.ApplyLoopProofs.
Require Import Cluster.Durability Cluster.DurabilityProofs.
Local Open Scope N_scope.

(* A reply is handed to a client only after its entry is in the local WAL and covered by the saved
   commit index: whatever statement of the Ready case the process dies after (p = 0..8), every id
   acknowledged so far has its entry in the durable state.  This is the step order
   wal.Save -> ... -> publishEntries of raft.go; checks/c08.py re-reads that order from the
   source on every run. *)
Theorem C08_ack_implies_durable : forall sc rd envs d v p,
    ready_ok d rd -> acked_durable d (v_acked v) ->
    let n' := run_ready_crash sc rd envs p (Up d v) in
    acked_durable (durable_of n') (acked_of n').
Proof. exact ack_implies_durable. Qed.
Print Assumptions C08_ack_implies_durable.

(* ... as an invariant of any number of Readys, snapshots included *)
Theorem C08_ack_durable_invariant : forall sc rds n,
    acked_durable (durable_of n) (acked_of n) -> readys_ok sc n rds ->
    acked_durable (durable_of (run_readys sc rds n)) (acked_of (run_readys sc rds n)).
Proof. exact acked_durable_invariant. Qed.
Print Assumptions C08_ack_durable_invariant.

(* No snapshot taken (log shorter than the threshold): from whatever durable state a crash left
   -- WAL L, saved commit index c -- a restart replays exactly the first c entries of L into an
   empty keyspace; every acknowledged id is among them.  So the recovered keyspace is the one a
   replica that never crashed holds after the same log prefix (C07_replicas_agree). *)
Theorem C08_restart_recovers : forall sc envs pl commit acked,
    let L := number_log 1 pl in
    let d := mkDur L commit None in
    commit <= N.of_nat (List.length pl) -> commit <= sc ->
    acked_durable d acked ->
    let prefix := firstn (N.to_nat commit) L in
    keyspace_of (restart sc envs d) = Some (keyspace_after empty_db envs prefix) /\
    (forall id, In id acked -> In id (ids_of prefix)).
Proof. exact restart_recovers. Qed.
Print Assumptions C08_restart_recovers.

(* Once a snapshot has been taken the state machine is never reloaded: threshold 2, four
   acknowledged SETs, snapshot at index 3, crash, restart -> k1, k2, k3 are gone.
   (Replayed on the real code with hook H3 lowering the threshold.) *)
Theorem C08_snapshot_refuted :
  acked_of w_after = [B "k1"; B "k2"; B "k3"; B "k4"] /\
  d_snap (durable_of w_after) = Some 3 /\
  exists ks, keyspace_of (restart 2 w_env (durable_of (crash w_after))) = Some ks /\
             db_get ks (B "k1") = None /\ db_get ks (B "k2") = None /\ db_get ks (B "k3") = None /\
             db_get ks (B "k4") = Some (VStr (B "v")).
Proof. exact snapshot_loses_acked_writes. Qed.
Print Assumptions C08_snapshot_refuted.

(* Taking a snapshot while any list key exists takes the node down (json.Marshal reports a
   pointer cycle via *memdb.ListNode, maybeTriggerSnapshot panics) -- on every node, since all of
   them reach the threshold at the same index. *)
Theorem C08_snapshot_panics_refuted :
  exists d a, run_readys 2 w_list_readys w_start = Down d a /\ a = [B "a"; B "k2"; B "k3"].
Proof. exact snapshot_with_list_panics. Qed.
Print Assumptions C08_snapshot_panics_refuted.

(* non-vacuity: the Raft contract holds of a concrete run *)
Example C08_ex_readys_ok : readys_ok 2 w_start w_readys.
Proof. exact readys_ok_witness. Qed.
