(* C02 — RESP request decoding is exact, binary-safe and fragmentation-independent.
   Statements only; proofs live in Resp/Resp{Proofs,Roundtrip,Chunking,Handle}.v.

   Model (Resp/RespModel.v): resp/parser.go with the bounds/limit repair, as the function
   `events : bytes -> list event` (what ParseStream sends on its channel for a byte stream
   followed by EOF), `events_chunked : list bytes -> list event` (the same when the
   connection's Read calls return the given chunks) and `handle` (the loop of
   server.Manager.Handle: which commands reach ExecCommand, how the connection ends).
   Spec (Resp/RespSpec.v): `encode_cmd`, the client-side encoding of a command.

   cmd_ok c := c <> [] /\ |c| <= maxint64 /\ every argument is at most 512 MB (the server's
   bulk limit).  Nothing is assumed about the bytes of the arguments. *)
Require Import Base.Bytes Base.GoInt Base.Reply.
Require Import Resp.RespSpec Resp.RespModel Resp.RespProofs Resp.RespRoundtrip
               Resp.RespChunking Resp.RespHandle.
Local Open Scope Z_scope.

(* Every pipeline of well-formed commands, whatever bytes the arguments contain, is decoded
   into exactly those commands, in order, followed by EOF. *)
Theorem C02_roundtrip : forall cmds : list (list bytes),
  Forall cmd_ok cmds ->
  events (encode_pipeline cmds) = map EvCmd cmds ++ [EvEof].
Proof. exact events_roundtrip. Qed.
Print Assumptions C02_roundtrip.

(* Stronger: the same holds in front of ANY continuation (more commands, garbage, a truncated
   command): the well-formed prefix is decoded exactly and the parser meets the continuation in
   its initial state. *)
Theorem C02_roundtrip_then_anything : forall (cmds : list (list bytes)) (rest : bytes),
  Forall cmd_ok cmds ->
  events (encode_pipeline cmds ++ rest) = map EvCmd cmds ++ events rest.
Proof. exact events_pipeline_then. Qed.
Print Assumptions C02_roundtrip_then_anything.

(* What Handle passes to ExecCommand for such a pipeline is exactly the encoded argument
   vectors; the connection ends only because the client closed it. *)
Theorem C02_executed_exact : forall cmds : list (list bytes),
  Forall cmd_ok cmds ->
  executed (encode_pipeline cmds) = cmds /\ conn_end_of (encode_pipeline cmds) = ClosedOnEof.
Proof. exact executed_roundtrip. Qed.
Print Assumptions C02_executed_exact.

(* However the byte stream is split across network reads, the events are those of the
   concatenation. *)
Theorem C02_chunking : forall chunks : list bytes,
  events_chunked chunks = events (concat chunks).
Proof. exact events_chunked_flat. Qed.
Print Assumptions C02_chunking.

(* The two together: all command sequences x all argument bytes x all partitions. *)
Theorem C02_fragmentation_independent : forall (cmds : list (list bytes)) (chunks : list bytes),
  Forall cmd_ok cmds -> concat chunks = encode_pipeline cmds ->
  events_chunked chunks = map EvCmd cmds ++ [EvEof].
Proof.
  intros cmds chunks Hok Hcat. rewrite events_chunked_flat, Hcat. exact (events_roundtrip cmds Hok).
Qed.
Print Assumptions C02_fragmentation_independent.

(* Every byte stream whatsoever: no index/slice/allocation panic, no allocation above the
   limit, and the loop always makes progress.  (Each Go expression that can panic is an
   explicit partial operation of the model; EvCrash/EvBlowup are what they yield when they
   fail.  With the unrepaired guards this theorem is false: "\n" and
   "*1\r\n$9223372036854775807\r\n" crash the process.) *)
Theorem C02_total : forall bs : bytes,
  ~ In EvCrash (events bs) /\ ~ In EvBlowup (events bs) /\ ~ In EvHang (events bs).
Proof. exact events_total. Qed.
Print Assumptions C02_total.

Theorem C02_total_chunked : forall chunks : list bytes,
  ~ In EvCrash (events_chunked chunks) /\ ~ In EvBlowup (events_chunked chunks) /\
  ~ In EvHang (events_chunked chunks).
Proof. intros chunks. rewrite events_chunked_flat. exact (events_total (concat chunks)). Qed.
Print Assumptions C02_total_chunked.

(* Every event sequence consists of data / protocol-error events and ends with exactly one EOF. *)
Theorem C02_ends_with_eof : forall bs : bytes,
  exists body, events bs = body ++ [EvEof] /\
               Forall (fun e => match e with EvData _ | EvProtoErr => True | _ => False end) body.
Proof. exact events_end_with_eof. Qed.
Print Assumptions C02_ends_with_eof.

(* Malformed input: the commands executed are exactly the array events strictly before the
   first protocol error, and the connection is then closed by the server; nothing the parser
   finds after the error is executed. *)
Theorem C02_nothing_after_error : forall (bs : bytes) (pre post : list event),
  events bs = pre ++ EvProtoErr :: post -> ~ In EvProtoErr pre ->
  executed bs = cmds_in pre /\ conn_end_of bs = ClosedOnError.
Proof. exact nothing_after_error. Qed.
Print Assumptions C02_nothing_after_error.

Theorem C02_no_error_all_executed : forall bs : bytes,
  ~ In EvProtoErr (events bs) ->
  executed bs = cmds_in (events bs) /\ conn_end_of bs = ClosedOnEof.
Proof. exact no_error_all_executed. Qed.
Print Assumptions C02_no_error_all_executed.

(* The number of a "*" / "$" header is read as an UNBOUNDED decimal integer and then range-checked:
   no arithmetic modulo 2^64.  For every integer z, its decimal rendering is accepted by the
   model's strconv (atoi64, used by header_num) iff z itself is an int64 -- and then denotes z.
   (The array header then requires 0 <= z, the bulk header -1 <= z <= 512 MB: RespModel.step.)
   In particular 2^64 + 4, which a wrapping parser reads as 4, is not a length. *)
Theorem C02_header_number_exact : forall z : Z,
  atoi64 (z_to_dec z) = (if in_int64 z then Some z else None).
Proof. intros z. unfold atoi64. rewrite parse_int_z_to_dec. reflexivity. Qed.
Print Assumptions C02_header_number_exact.

Theorem C02_header_number_in_range : forall (d : bytes) (z : Z),
  atoi64 d = Some z <-> (parse_int_unbounded d = Some z /\ in_int64 z = true).
Proof.
  intros d z. unfold atoi64. destruct (parse_int_unbounded d) as [y|]; [|split; [discriminate|intros [H _]; discriminate H]].
  destruct (in_int64 y) eqn:E; split.
  - intros H; inversion H; subst; split; [reflexivity|exact E].
  - intros [H _]; exact H.
  - discriminate.
  - intros [H H2]. inversion H; subst. rewrite E in H2. discriminate H2.
Qed.
Print Assumptions C02_header_number_in_range.

(* ---------------------------------------------------------------- non-vacuity *)

(* arguments holding NUL, CR, LF, 0xff, a fake header, and an empty argument satisfy cmd_ok *)
Example C02_ex_cmd_ok :
  cmd_ok [["S"; "E"; "T"]%byte; ["000"; "013"; "010"; "255"; "$"; "1"; "013"; "010"]%byte; []].
Proof.
  unfold cmd_ok, max_bulk_len, int64_max. split; [discriminate|]. split; [cbn; lia|].
  repeat constructor; cbn; lia.
Qed.

Example C02_ex_roundtrip :
  events (encode_pipeline [[["S"; "E"; "T"]%byte; ["000"; "013"; "010"; "255"]%byte; []];
                           [["G"; "E"; "T"]%byte]])
  = [EvCmd [["S"; "E"; "T"]%byte; ["000"; "013"; "010"; "255"]%byte; []];
     EvCmd [["G"; "E"; "T"]%byte]; EvEof].
Proof. vm_compute. reflexivity. Qed.

(* the two former crashers are now protocol errors; the connection is closed *)
Example C02_ex_bare_lf : events ["010"%byte] = [EvProtoErr; EvEof]
                         /\ conn_end_of ["010"%byte] = ClosedOnError.
Proof. split; vm_compute; reflexivity. Qed.

Example C02_ex_huge_bulk :
  events (bStar :: "1"%byte :: CRLF ++ bDollar :: z_to_dec int64_max ++ CRLF)
  = [EvProtoErr; EvEof].
Proof. vm_compute. reflexivity. Qed.

(* lengths that are small only modulo 2^64 are protocol errors: nothing is executed *)
Example C02_ex_wrapped_lengths :
  let ping := ["P"; "I"; "N"; "G"]%byte in
  executed (bStar :: "1"%byte :: CRLF ++ bDollar :: z_to_dec (2^64 + 4) ++ CRLF ++ ping ++ CRLF) = []
  /\ executed (bStar :: z_to_dec (2^64 + 1) ++ CRLF ++ bDollar :: "4"%byte :: CRLF ++ ping ++ CRLF) = []
  /\ executed (bStar :: "1"%byte :: CRLF ++ bDollar :: z_to_dec (2 * 2^64 + 4) ++ CRLF ++ ping ++ CRLF) = []
  /\ atoi64 (z_to_dec (2^64 + 4)) = None.
Proof. repeat split; vm_compute; reflexivity. Qed.

(* a command after the malformed part is parsed by the goroutine but never executed *)
Example C02_ex_nothing_after_error :
  let bad := ["x"; "010"]%byte in
  let ping := encode_cmd [["P"; "I"; "N"; "G"]%byte] in
  events (ping ++ bad ++ ping) = [EvCmd [["P"; "I"; "N"; "G"]%byte]; EvProtoErr;
                                   EvCmd [["P"; "I"; "N"; "G"]%byte]; EvEof]
  /\ executed (ping ++ bad ++ ping) = [[["P"; "I"; "N"; "G"]%byte]].
Proof. split; vm_compute; reflexivity. Qed.

(* a cut inside a CRLF pair and inside the payload *)
Example C02_ex_chunked :
  events_chunked [[bStar; "1"; bCR]%byte; [bLF; bDollar; "2"; bCR; bLF; bCR]%byte; [bLF; bCR]%byte; [bLF]]
  = [EvCmd [[bCR; bLF]]; EvEof].
Proof. vm_compute. reflexivity. Qed.
