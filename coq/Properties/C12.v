(* C12 — sorted sets keep one score per member, ordered output, valid AVL (statements only).

   Model: Mem/Avl.v (memdb/btree.go) and Mem/ZSets.v (memdb/sorted_set.go), proofs in
   Mem/AvlProofs.v and Mem/ZSetsProofs.v.  Scores enter the proofs through [score_cmp] and four
   order lemmas only (reflexive, equality is identity, antisymmetric, transitive), so every
   statement covers every score: exact decimals of any size and both infinities.
   The order of ZRANGE/ZRANK is [elt_lt]: by score, members sharing a score by name
   (byte-wise lexicographic, what the repaired code does and the command reference says). *)
Require Import Base.Bytes Base.GoInt Base.Reply Mem.Types Mem.Inv.
Require Import Mem.Avl Mem.AvlProofs Mem.ZSets Mem.ZSetsProofs Mem.Exec Mem.ZSetsCompose.
From Coq Require Import Sorting.Sorted.
Local Open Scope Z_scope.

(* ------------------------------------------------------------------ the AVL invariant *)
(* What [zset_inv] (Appendix A.2 of DESIGN.md) says, in the words of the property: binary search
   tree strictly ordered by score; every stored height is the real height; the two subtrees of
   every node differ in height by at most one; len is the number of nodes and the dictionary has
   exactly one entry per member; no node is empty, no name occurs twice in a node or in two
   nodes; dict m = sc exactly when m is a name of the node with score sc. *)
Theorem C12_avl_inv_means : forall z : zset,
  zset_inv z ->
  StronglySorted slt (map fst (elems (zroot z))) /\
  stored_ok (zroot z) /\ balanced (zroot z) /\
  zlen z = zlength (elems (zroot z)) /\
  zlength (zdict z) = zlength (members (zroot z)) /\
  Forall (fun e => snd e <> [] /\ NoDup (snd e)) (elems (zroot z)) /\
  NoDup (map fst (members (zroot z))) /\
  NoDup (akeys (zdict z)) /\
  (forall m sc, alookup m (zdict z) = Some sc <-> exists ns, In (sc, ns) (elems (zroot z)) /\ In m ns).
Proof. exact zset_inv_meaning. Qed.
Print Assumptions C12_avl_inv_means.

(* the empty tree satisfies it *)
Theorem C12_avl_inv_empty : zset_inv empty_zset.
Proof. exact zset_inv_empty. Qed.
Print Assumptions C12_avl_inv_empty.

(* Btree.Insert of a member that is not in the set, and Btree.Delete, preserve it *)
Theorem C12_avl_inv_insert : forall (z : zset) (sc : score) (m : bytes),
  zset_inv z -> alookup m (zdict z) = None -> zset_inv (bt_insert z sc m).
Proof. exact bt_insert_inv. Qed.
Print Assumptions C12_avl_inv_insert.

Theorem C12_avl_inv_delete : forall (z : zset) (m : bytes) (z' : zset),
  zset_inv z -> bt_delete z m = Some z' -> zset_inv z'.
Proof. exact bt_delete_inv. Qed.
Print Assumptions C12_avl_inv_delete.

(* ZADD with any argument vector (every option combination, any number of pairs, malformed
   input included) and ZREM keep every stored sorted set valid and non-empty *)
Theorem C12_avl_inv_zadd : forall (d : db) (args : list bytes) (r : reply) (d' : db),
  db_zsets_ok d -> exec_zadd d args = (r, d') -> db_zsets_ok d'.
Proof. exact exec_zadd_ok. Qed.
Print Assumptions C12_avl_inv_zadd.

Theorem C12_avl_inv_zrem : forall (d : db) (args : list bytes) (r : reply) (d' : db),
  db_zsets_ok d -> exec_zrem d args = (r, d') -> db_zsets_ok d'.
Proof. exact exec_zrem_ok. Qed.
Print Assumptions C12_avl_inv_zrem.

(* hence for ALL programs of sorted-set commands (each with its clock; expired keys vanish before
   the command runs), in the final and in every intermediate state, every stored sorted set
   satisfies the invariant *)
Theorem C12_avl_inv : forall (prog : list (Z * list bytes)) (k : bytes) (z : zset),
  db_get (zrun prog) k = Some (VZSet z) -> zset_inv z /\ zroot z <> Leaf.
Proof. exact zrun_inv. Qed.
Print Assumptions C12_avl_inv.

Theorem C12_avl_inv_intermediate : forall (prog : list (Z * list bytes)) (n : nat) (k : bytes) (z : zset),
  db_get (zrun (firstn n prog)) k = Some (VZSet z) -> zset_inv z /\ zroot z <> Leaf.
Proof. exact zrun_prefix_inv. Qed.
Print Assumptions C12_avl_inv_intermediate.

(* the required corollary: |balance| <= 1 at every node of every stored tree, in real heights *)
Theorem C12_balanced_everywhere : forall (prog : list (Z * list bytes)) (k : bytes) (z : zset),
  db_get (zrun prog) k = Some (VZSet z) -> balanced (zroot z) /\ stored_ok (zroot z).
Proof. exact zrun_balanced. Qed.
Print Assumptions C12_balanced_everywhere.

(* composition with the other command families (Mem/Exec.v [families]) *)
Theorem C12_dispatch_keeps_zsets : forall d now nowms n args hint r d',
  db_zsets_ok d -> zsets_dispatch d now nowms n args hint = Some (r, d') -> db_zsets_ok d'.
Proof. exact zsets_dispatch_ok. Qed.
Print Assumptions C12_dispatch_keeps_zsets.

(* ... and through the whole dispatcher: if every family of [families] keeps stored sorted sets
   valid (zsets_dispatch does: C12_dispatch_keeps_zsets), every sequence of commands of every
   family does *)
Theorem C12_all_families_compose : forall (prog : list (Z * Z * list bytes * reply)) (d : db),
  Forall family_keeps_zsets families -> db_zsets_ok d -> db_zsets_ok (run_cmds prog d).
Proof. exact run_cmds_keeps_zsets. Qed.
Print Assumptions C12_all_families_compose.

(* optional corollary: the height is logarithmic, h <= 2*log2(nodes + 1) + 1 *)
Theorem C12_height_logarithmic : forall t : tree, avl t -> 2 ^ (ht t / 2) <= nodes t + 1.
Proof. exact avl_height_log. Qed.
Print Assumptions C12_height_logarithmic.

(* ------------------------------------------------------------------ one score per member *)
(* each member is listed exactly once in the tree, with the score the dictionary gives it *)
Theorem C12_one_score_per_member : forall z : zset,
  zset_inv z ->
  NoDup (map fst (members (zroot z))) /\
  (forall m s1 s2, In (m, s1) (members (zroot z)) -> In (m, s2) (members (zroot z)) -> s1 = s2) /\
  (forall m sc, In (m, sc) (members (zroot z)) <-> alookup m (zdict z) = Some sc).
Proof. exact zset_one_score_per_member. Qed.
Print Assumptions C12_one_score_per_member.

(* one score/member pair of ZADD under any options: either nothing changes (blocked by
   NX/XX/GT/LT), or the member carries the new score afterwards -- the argument, or with INCR the
   old score plus the argument -- and that is the score INCR reports; no other member changes *)
Theorem C12_last_score_wins : forall (o : zopts) (a : zacc) (sc : score) (m : bytes) (a' : zacc),
  zadd_step o a (sc, m) = Some a' ->
  (forall m', m' <> m -> alookup m' (zdict (a_z a')) = alookup m' (zdict (a_z a))) /\
  (a' = a \/
   exists new, new_score_of o (alookup m (zdict (a_z a))) sc = Some new /\
               a_incr a' = Some new /\ alookup m (zdict (a_z a')) = Some new).
Proof. exact zadd_step_spec. Qed.
Print Assumptions C12_last_score_wins.

(* the plain command ZADD key score member: afterwards the member has that score whatever it had
   before; no other member and no other key is touched *)
Theorem C12_zadd_assigns : forall (d : db) (name k s m : bytes) (sc : score),
  db_zsets_ok d -> get_zset d k <> ZWrong -> parse_score s = Some sc ->
  exists r d', exec_zadd d [name; k; s; m] = (r, d') /\
    zscore d' k m = Some sc /\
    (forall m', m' <> m -> zscore d' k m' = zscore d k m') /\
    (forall k', k' <> k -> db_get d' k' = db_get d k').
Proof. exact exec_zadd_plain. Qed.
Print Assumptions C12_zadd_assigns.

(* ------------------------------------------------------------------ removal is local *)
Theorem C12_remove_local : forall (d : db) (name k m : bytes) (ms : list bytes) (z : zset) (r : reply) (d' : db),
  db_zsets_ok d -> get_zset d k = ZFound z -> exec_zrem d (name :: k :: m :: ms) = (r, d') ->
  (forall m', In m' (m :: ms) -> zscore d' k m' = None) /\
  (forall m', ~ In m' (m :: ms) -> zscore d' k m' = zscore d k m') /\
  (forall k', k' <> k -> db_get d' k' = db_get d k').
Proof. exact exec_zrem_local. Qed.
Print Assumptions C12_remove_local.

(* ------------------------------------------------------------------ ZRANGE *)
(* The member list of a valid set is strictly sorted by (score, name) and holds exactly the
   dictionary; ZRANGE start stop [REV] [WITHSCORES] replies with the requested window of that list
   (of its reverse with REV), each member followed by its own score with WITHSCORES, and changes
   nothing. *)
Theorem C12_zrange_sorted_exact :
  forall (d : db) (name k a b : bytes) (optl : list bytes) (o : ropts) (z : zset) (s e : Z),
  get_zset d k = ZFound z -> zset_inv z ->
  atoi64 a = Some s -> atoi64 b = Some e ->
  zrange_opts optl ropts0 = ROk o -> r_bylex o = false -> r_limit o = false ->
  let L := members (zroot z) in
  exec_zrange d (name :: k :: a :: b :: optl) =
    (zrange_reply (r_ws o) (zwindow (if r_rev o then rev L else L) (zlength L) s e), d) /\
  StronglySorted elt_lt L /\
  NoDup (map fst L) /\
  (forall m sc, In (m, sc) L <-> alookup m (zdict z) = Some sc).
Proof. exact exec_zrange_sorted_exact. Qed.
Print Assumptions C12_zrange_sorted_exact.

(* ... and that list is the only one: any strictly (score, name)-sorted listing of the dictionary
   is the member list ZRANGE reads *)
Theorem C12_zrange_order_unique : forall (z : zset) (l : list (bytes * score)),
  zset_inv z -> StronglySorted elt_lt l ->
  (forall m sc, In (m, sc) l <-> alookup m (zdict z) = Some sc) -> l = members (zroot z).
Proof. exact members_unique. Qed.
Print Assumptions C12_zrange_order_unique.

(* the window: element j of the reply list is element lo + j of the list while lo + j <= hi, where
   negative indexes count from the end, lo is clamped to 0 and hi to the last index *)
Theorem C12_zrange_window : forall (l : list (bytes * score)) (start stop : Z) (j : nat),
  nth_error (zwindow l (zlength l) start stop) j =
  if win_lo (zlength l) start + Z.of_nat j <=? win_hi (zlength l) stop
  then nth_error l (Z.to_nat (win_lo (zlength l) start) + j)
  else None.
Proof. exact zwindow_nth. Qed.
Print Assumptions C12_zrange_window.

(* ------------------------------------------------------------------ ZRANK *)
(* nil for a non-member; otherwise the number of members listed before it in that same order *)
Theorem C12_zrank_position : forall (d : db) (name k m : bytes) (z : zset),
  get_zset d k = ZFound z -> zset_inv z ->
  match alookup m (zdict z) with
  | None => exec_zrank d [name; k; m] = (RNil, d)
  | Some sc =>
    exists pre post i,
      exec_zrank d [name; k; m] = (RInt i, d) /\
      members (zroot z) = pre ++ (m, sc) :: post /\ i = zlength pre
  end.
Proof. exact exec_zrank_position. Qed.
Print Assumptions C12_zrank_position.

(* ------------------------------------------------------------------ other types, global invariants *)
Theorem C12_wrongtype_changes_nothing :
  forall d n args hint r d' k rest a0 now nowms,
  args = a0 :: k :: rest -> get_zset d k = ZWrong ->
  zsets_dispatch d now nowms n args hint = Some (r, d') -> d' = d.
Proof. exact zset_wrongtype_unchanged. Qed.
Print Assumptions C12_wrongtype_changes_nothing.

Theorem C12_wrongtype_reply : forall (d : db) (name k : bytes),
  get_zset d k = ZWrong ->
  (forall m ms, exec_zrem d (name :: k :: m :: ms) = (err_wrongtype, d)) /\
  (forall m, exec_zrank d [name; k; m] = (err_wrongtype, d)) /\
  (forall a b optl o s e, atoi64 a = Some s -> atoi64 b = Some e ->
     zrange_opts optl ropts0 = ROk o -> r_bylex o = false -> r_limit o = false ->
     exec_zrange d (name :: k :: a :: b :: optl) = (err_wrongtype, d)) /\
  (forall s m sc, parse_score s = Some sc -> exec_zadd d [name; k; s; m] = (err_wrongtype, d)).
Proof. exact zset_wrongtype_reply. Qed.
Print Assumptions C12_wrongtype_reply.

Theorem C12_zsets_dispatch_wf_pres : forall d now nowms n args hint r d',
  db_wf d -> zsets_dispatch d now nowms n args hint = Some (r, d') -> db_wf d'.
Proof. exact zsets_dispatch_wf_pres. Qed.
Print Assumptions C12_zsets_dispatch_wf_pres.

Theorem C12_zsets_dispatch_reply_wf : forall d now nowms n args hint r d',
  zsets_dispatch d now nowms n args hint = Some (r, d') -> reply_wf r = true.
Proof. exact zsets_dispatch_reply_wf. Qed.
Print Assumptions C12_zsets_dispatch_reply_wf.

(* ------------------------------------------------------------------ the order is a strict total order *)
Theorem C12_score_order_total : forall a b c : score,
  score_cmp a a = Eq /\ (score_cmp a b = Eq -> a = b) /\
  score_cmp b a = CompOpp (score_cmp a b) /\
  (score_cmp a b = Lt -> score_cmp b c = Lt -> score_cmp a c = Lt).
Proof. exact score_order_total. Qed.
Print Assumptions C12_score_order_total.

(* on the normal forms the model builds (every parsed score, every INCR result) [score_cmp] is
   the numeric order of the decimals: the refinement by exponent is never consulted *)
Theorem C12_score_order_numeric :
  (forall s sc, parse_score s = Some sc -> snormal sc) /\
  (forall a b c, snormal a -> snormal b -> score_add a b = Some c -> snormal c) /\
  (forall a b, snormal a -> snormal b -> score_cmp a b = svalue_cmp a b) /\
  (forall s, svalue_cmp (snorm s) s = Eq).
Proof. exact (conj parse_score_normal (conj score_add_normal (conj score_cmp_normal snorm_value))). Qed.
Print Assumptions C12_score_order_numeric.

(* ------------------------------------------------------------------ non-vacuity: the former counterexamples *)
Definition cmd (d : db) (args : list bytes) : reply * db := exec d 0 0 args RNil.
Definition after (prog : list (list bytes)) : db := fold_left (fun d a => snd (cmd d a)) prog empty_db.

Definition d312 : db :=
  after [[B "zadd"; B "z"; B "3"; B "c"]; [B "zadd"; B "z"; B "1"; B "a"]; [B "zadd"; B "z"; B "2"; B "b"]].

(* ZADD 3 c, 1 a, 2 b: a balanced tree with b at the root (the pinned code left a chain) *)
Example C12_ex_312_balanced :
  db_get d312 (B "z") =
  Some (VZSet (mkZ (Node (Node Leaf (SFin 1 0) [B "a"] 1 Leaf) (SFin 2 0) [B "b"] 2
                         (Node Leaf (SFin 3 0) [B "c"] 1 Leaf))
                   3 [(B "c", SFin 3 0); (B "a", SFin 1 0); (B "b", SFin 2 0)])).
Proof. vm_compute. reflexivity. Qed.

(* ... and ZRANGE z 0 -1 lists all three (it was empty) *)
Example C12_ex_zrange_negative :
  fst (cmd d312 [B "zrange"; B "z"; B "0"; B "-1"]) = RArr [RBulk (B "a"); RBulk (B "b"); RBulk (B "c")].
Proof. vm_compute. reflexivity. Qed.

Example C12_ex_zrange_rev_withscores :
  fst (cmd d312 [B "ZRANGE"; B "z"; B "0"; B "0"; B "REV"; B "withscores"]) = RArr [RBulk (B "c"); RBulk (B "3")].
Proof. vm_compute. reflexivity. Qed.

(* ZADD 1 a 1 b 2 c; ZREM a keeps b *)
Example C12_ex_zrem_keeps_tied :
  fst (cmd (after [[B "zadd"; B "z"; B "1"; B "a"; B "1"; B "b"; B "2"; B "c"]; [B "zrem"; B "z"; B "a"]])
           [B "zrange"; B "z"; B "0"; B "-1"; B "withscores"]) =
  RArr [RBulk (B "b"); RBulk (B "1"); RBulk (B "c"); RBulk (B "2")].
Proof. vm_compute. reflexivity. Qed.

(* seven members: the rank of the last one is 6 (it was 5) *)
Example C12_ex_rank_seven :
  fst (cmd (after [[B "zadd"; B "z"; B "1"; B "a"; B "2"; B "b"; B "3"; B "c"; B "4"; B "d"; B "5"; B "e";
                    B "6"; B "f"; B "7"; B "g"]])
           [B "zrank"; B "z"; B "g"]) = RInt 6.
Proof. vm_compute. reflexivity. Qed.

(* INCR on a new member reports its score; NaN is refused *)
Example C12_ex_incr_new : fst (cmd empty_db [B "zadd"; B "z"; B "incr"; B "5"; B "a"]) = RBulk (B "5").
Proof. vm_compute. reflexivity. Qed.
Example C12_ex_nan_refused : cmd empty_db [B "zadd"; B "z"; B "nan"; B "a"] = (err_other, empty_db).
Proof. vm_compute. reflexivity. Qed.

(* the hypotheses of the theorems are satisfiable: the same three commands as a [zrun] program
   reach the same state, whose key is found, valid and non-empty *)
Definition prog312 : list (Z * list bytes) :=
  [(0, [B "zadd"; B "z"; B "3"; B "c"]); (0, [B "zadd"; B "z"; B "1"; B "a"]); (0, [B "zadd"; B "z"; B "2"; B "b"])].

Example C12_ex_zrun_is_exec : zrun prog312 = d312.
Proof. vm_compute. reflexivity. Qed.

Example C12_ex_hyps :
  exists z, get_zset (zrun prog312) (B "z") = ZFound z /\ zset_inv z /\ zroot z <> Leaf /\
            alookup (B "b") (zdict z) = Some (SFin 2 0) /\ db_zsets_ok (zrun prog312).
Proof.
  eexists. split; [vm_compute; reflexivity|].
  split; [apply (C12_avl_inv prog312 (B "z")); vm_compute; reflexivity|].
  split; [discriminate|]. split; [vm_compute; reflexivity|apply zrun_ok].
Qed.

(* an expired sorted set is gone for every command: ZADD after the deadline starts a new set *)
Example C12_ex_expired_invisible :
  let d := snd (exec d312 0 0 [B "expire"; B "z"; B "1"] RNil) in
  fst (exec d 0 0 [B "zrank"; B "z"; B "c"] RNil) = RInt 2 /\
  fst (exec d 1 1000 [B "zrank"; B "z"; B "c"] RNil) = RNil /\
  fst (exec (snd (exec d 1 1000 [B "zadd"; B "z"; B "9"; B "q"] RNil)) 1 1000 [B "zrange"; B "z"; B "0"; B "-1"] RNil)
    = RArr [RBulk (B "q")].
Proof. vm_compute. repeat split; reflexivity. Qed.

(* ---------------------------------------------------------------- unconditional (Mem/AllInv.v)
   The hypothesis [Forall family_keeps_zsets families] of C12_all_families_compose holds: every
   other family stores only values of its own type, moves a value it found, deletes or edits a
   deadline (AllInv.families_keep_zsets). *)
Require Mem.AllInv Mem.Server Mem.Total.

Theorem C12_every_family_keeps_zsets : Forall family_keeps_zsets families.
Proof. exact AllInv.families_keep_zsets. Qed.
Print Assumptions C12_every_family_keeps_zsets.

(* after ANY sequence of commands of ANY family, every stored sorted set is a valid AVL tree with
   consistent dict / len and is not empty *)
Theorem C12_avl_inv_all_commands : forall (prog : list (Z * Z * list bytes * reply)) (d : db),
  db_zsets_ok d -> db_zsets_ok (run_cmds prog d).
Proof. exact AllInv.zsets_all_commands. Qed.
Print Assumptions C12_avl_inv_all_commands.

(* ... on every numbered database of the server, from the initial state, any connections *)
Theorem C12_avl_inv_server : forall n prog d k z,
  In d (Server.sdbs (snd (Total.run_srv (Server.srv_init n) prog))) ->
  db_get d k = Some (VZSet z) -> zset_inv z /\ zroot z <> Leaf.
Proof. intros n prog d k z Hd G. exact (AllInv.run_srv_init_value n prog d k (VZSet z) Hd G). Qed.
Print Assumptions C12_avl_inv_server.

(* ---------------------------------------------------------------- scores as text (Mem/ZSetsScores.v, ZSetsScoresAll.v)
   The scores the model can store are the normal forms [snormal] (no trailing zero in the
   fraction, zero is 0*10^0, the two infinities): parse_score and score_add return nothing else
   (C12_score_order_numeric), and after ANY sequence of commands of ANY family every score in every
   stored sorted set is one. *)
Require Mem.ZSetsScores Mem.ZSetsScoresAll.

Theorem C12_stored_scores_normal : forall (prog : list (Z * Z * list bytes * reply)) (k m : bytes) (z : zset) (sc : score),
  db_get (run_cmds prog empty_db) k = Some (VZSet z) -> alookup m (zdict z) = Some sc -> snormal sc.
Proof.
  intros prog k m z sc G H.
  exact (ZSetsScoresAll.scores_normal_all_commands prog empty_db db_wf_empty
           ZSetsScoresAll.db_scores_normal_empty k (VZSet z) G m sc H).
Qed.
Print Assumptions C12_stored_scores_normal.

(* every score the model can store prints (formatScore) to bytes that parse back (ParseFloat on the
   decimal domain) to the same score *)
Theorem C12_score_print_parse_roundtrip : forall s : score,
  snormal s -> parse_score (score_to_bytes s) = Some s.
Proof. exact ZSetsScores.score_print_parse. Qed.
Print Assumptions C12_score_print_parse_roundtrip.

(* ZRANGE ... WITHSCORES replies member, printed score, ... over dictionary entries, and each printed
   score parses back to exactly the stored score *)
Theorem C12_zrange_withscores_reparse :
  forall (d : db) (name k a b : bytes) (optl : list bytes) (o : ropts) (z : zset) (s e : Z),
  get_zset d k = ZFound z -> zset_inv z -> ZSetsScoresAll.zset_scores_normal z ->
  atoi64 a = Some s -> atoi64 b = Some e ->
  zrange_opts optl ropts0 = ROk o -> r_bylex o = false -> r_limit o = false -> r_ws o = true ->
  exists W : list (bytes * score),
    exec_zrange d (name :: k :: a :: b :: optl) =
      (RArr (flat_map (fun p => [RBulk (fst p); RBulk (score_to_bytes (snd p))]) W), d) /\
    Forall (fun p => alookup (fst p) (zdict z) = Some (snd p) /\
                     parse_score (score_to_bytes (snd p)) = Some (snd p)) W.
Proof. exact ZSetsScoresAll.zrange_withscores_reparse. Qed.
Print Assumptions C12_zrange_withscores_reparse.

(* ZADD ... INCR (not blocked): the bulk reply parses back to the score the member now carries *)
Theorem C12_zadd_incr_reply_reparse : forall (o : zopts) (a : zacc) (sc : score) (m : bytes) (a' : zacc),
  snormal sc -> ZSetsScoresAll.zset_scores_normal (a_z a) -> zadd_step o a (sc, m) = Some a' -> a' <> a ->
  exists new, a_incr a' = Some new /\ alookup m (zdict (a_z a')) = Some new /\
              parse_score (score_to_bytes new) = Some new.
Proof. exact ZSetsScoresAll.zadd_incr_reply_reparse. Qed.
Print Assumptions C12_zadd_incr_reply_reparse.

(* non-vacuity: normal forms print and re-parse; a non-normal representation (10*10^-1) would not,
   which is why the model never builds one *)
Example C12_ex_roundtrip :
  score_to_bytes (SFin (-25) 1) = B "-2.5" /\ parse_score (B "-2.5") = Some (SFin (-25) 1) /\
  score_to_bytes (SFin 5 3) = B "0.005" /\ parse_score (B "0.005") = Some (SFin 5 3) /\
  parse_score (score_to_bytes SNegInf) = Some SNegInf /\
  parse_score (score_to_bytes (SFin 10 1)) = Some (SFin 1 0) /\ snormal (SFin (-25) 1).
Proof. vm_compute. repeat split; try reflexivity; try (intros H; discriminate H). intros _ H; discriminate H. Qed.

(* ---------------------------------------------------------------- ZRANGE options that are not supported
   BYSCORE, BYLEX and LIMIT (and any word other than WITHSCORES / REV) anywhere among the options:
   the reply is an error and nothing changes, whatever the key holds (missing, other type, sorted
   set) and whatever start and stop are. *)
Theorem C12_zrange_unsupported_option_rejected : forall (d : db) (name k a b : bytes) (optl : list bytes),
  existsb (fun w => negb (zrange_supported w)) optl = true ->
  exec_zrange d (name :: k :: a :: b :: optl) = (err_other, d).
Proof. exact exec_zrange_unsupported. Qed.
Print Assumptions C12_zrange_unsupported_option_rejected.

Theorem C12_zrange_by_words_unsupported :
  forallb (fun w => negb (zrange_supported w))
          [B "byscore"; B "BYSCORE"; B "bylex"; B "ByLex"; B "limit"; B "LIMIT"] = true.
Proof. exact zrange_by_words_unsupported. Qed.
Print Assumptions C12_zrange_by_words_unsupported.

(* conversely an option list of WITHSCORES / REV words only is accepted, and the accepted options
   never carry a BYLEX or LIMIT flag (the two hypotheses of C12_zrange_sorted_exact always hold) *)
Theorem C12_zrange_options_exact : forall (l : list bytes),
  (forallb zrange_supported l = true -> exists o, zrange_opts l ropts0 = ROk o) /\
  (forall o, zrange_opts l ropts0 = ROk o -> r_bylex o = false /\ r_limit o = false) /\
  zrange_opts l ropts0 <> RByScore.
Proof. exact zrange_options_exact. Qed.
Print Assumptions C12_zrange_options_exact.

Example C12_ex_byscore_rejected :
  fst (cmd d312 [B "zrange"; B "z"; B "0"; B "10"; B "BYSCORE"]) = err_other /\
  fst (cmd d312 [B "zrange"; B "z"; B "0"; B "1"; B "rev"; B "limit"; B "0"; B "1"]) = err_other /\
  fst (cmd d312 [B "zrange"; B "nokey"; B "a"; B "b"; B "bylex"]) = err_other.
Proof. vm_compute. repeat split; reflexivity. Qed.
