(* C16 — Raft log (etcd WAL) and snapshot files recover to a consistent prefix after any crash.
   Statements only; proofs live in Wal/*Proofs.v.  The executable model is Wal/WalModel.v
   (encoder, decoder, ReadAll, Verify, Repair, crash images), Wal/SnapModel.v, Wal/Crc32c.v +
   Wal/CrcTab.v, Wal/Pb.v; it is tied to the Go code by the differential run of ./check C16. *)
Require Import Base.Bytes Wal.Crc32c Wal.CrcTab Wal.Pb Wal.WalModel Wal.WalSpec Wal.SnapModel.
Require Import Wal.FrameProofs Wal.CrcProofs Wal.PbProofs Wal.WalProofs Wal.WalRefuted Wal.SnapProofs.
Require Import Wal.TornProofs Wal.RepairProofs Wal.ReadAllProofs Wal.RoundtripProofs Wal.SnapFlipProofs Wal.FlipReadProofs Wal.DurableProofs Wal.FlipClassProofs Wal.FlipCrcProofs Wal.FlipAllProofs Wal.TruncProofs Wal.SecondLifeProofs Wal.SessionProofs.
Local Open Scope N_scope.

(* ------------------------------------------------------------------ frames *)

(* encodeFrameSize / decodeFrameSize: for every record size that fits the 56-bit length the
   decoder recovers size and padding, the padding is below 8, record+padding and the whole
   frame are multiples of 8 (so the 8-byte length field never straddles a 512-byte sector),
   the length field fits a uint64 and is zero only for an empty record (a zero length field
   is how the decoder recognises the preallocated tail). *)
Theorem C16_frame_arith : forall n, n < two56 ->
  let '(lenf, p) := encode_frame_size n in
  decode_frame_size lenf = (n, p) /\ p < 8 /\ (n + p) mod 8 = 0 /\ (8 + n + p) mod 8 = 0
  /\ lenf < two64 /\ (lenf = 0 <-> n = 0).
Proof. exact frame_arith. Qed.
Print Assumptions C16_frame_arith.

(* ------------------------------------------------------------------ CRC-32C *)

(* one byte step of the CRC is injective in the state (for a fixed byte) and in the byte (for
   a fixed state): a shift-xor round is invertible on 32-bit states because bit 31 of the
   reflected Castagnoli polynomial is set *)
Theorem C16_crc_step_injective :
  (forall b s t, s < lim32 -> t < lim32 -> crc_step s b = crc_step t b -> s = t)
  /\ (forall s a b, s < lim32 -> crc_step s a = crc_step s b -> a = b).
Proof. split; [exact crc_step_injective_state | exact crc_step_injective_byte]. Qed.
Print Assumptions C16_crc_step_injective.

(* two equal-length byte strings that differ in exactly one position have different CRCs,
   from any start value (crc32.Update(c, castagnoli, ·)) *)
Theorem C16_crc_one_byte : forall c pre a b suf, c < lim32 -> a <> b ->
  crc_update c (pre ++ a :: suf) <> crc_update c (pre ++ b :: suf).
Proof. exact crc_update_one_byte. Qed.
Print Assumptions C16_crc_one_byte.

(* digests that differ stay different over any common continuation *)
Theorem C16_crc_diverge : forall c d p, c < lim32 -> d < lim32 -> c <> d ->
  crc_update c p <> crc_update d p.
Proof. exact crc_update_diverge. Qed.
Print Assumptions C16_crc_diverge.

(* the table-driven update the model executes (Go's simpleUpdate: tab[byte(crc)^v] ^ crc>>8)
   is the bitwise definition the theorems are about *)
Theorem C16_crc_table : forall c p, digest_write c p = crc_update c p.
Proof. exact digest_write_eq. Qed.
Print Assumptions C16_crc_table.

(* ------------------------------------------------------------------ wire format *)

Theorem C16_pb_roundtrip :
  (forall r, rec_ok r -> rec_unmarshal (rec_marshal r) = POk r)
  /\ (forall e, entry_ok e -> entry_unmarshal (entry_marshal e) = POk e)
  /\ (forall h, hs_ok h -> hs_unmarshal (hs_marshal h) = POk h)
  /\ (forall s, walsnap_ok s -> walsnap_unmarshal (walsnap_marshal s) = POk s).
Proof.
  split; [exact rec_unmarshal_marshal|]. split; [exact entry_unmarshal_marshal|].
  split; [exact hs_unmarshal_marshal | exact walsnap_unmarshal_marshal].
Qed.
Print Assumptions C16_pb_roundtrip.

(* ------------------------------------------------------------------ records *)

(* any list of records (arbitrary types and payloads below 2^56 bytes) written through the
   encoder into a segment, followed by k zero bytes of preallocation (k = 0: a closed
   segment), is read back by the decode loop exactly and in order, stamped with the CRCs of
   the rolling chain; the file ends in a clean EOF at the end of the data and the decoder's
   digest equals the encoder's (so the chain continues into the next segment) *)
Theorem C16_record_roundtrip : forall rs last crc k,
  Forall raw_ok rs -> Forall crc_rec_wf rs -> crc < lim32 -> (k = 0 \/ 8 <= k) ->
  let '(rs', bs, crc') := encode_recs crc rs in
  decode_whole last crc (bs ++ zerosN k) = (rs', FEnd, blen bs, crc').
Proof. exact record_roundtrip. Qed.
Print Assumptions C16_record_roundtrip.

(* C16_roundtrip: ANY sequence of Save / SaveSnapshot / segment cuts (the cut Save performs when
   the tail passed SegmentSizeBytes), with arbitrary payloads, written by Create+Save+
   SaveSnapshot+cut into segment files of any size that is a multiple of 8, is read back by
   Open+ReadAll exactly: the metadata, the last non-empty hard state, and the entry log the
   saves define (spec_run: every entry cuts the log at its index and is appended — plain append
   for entries that continue the log, replacement of the suffix for a new leader's overwrite).
   op_ok only bounds sizes (fields below 2^64, messages below 2^56 bytes) and asks later
   snapshots to have a non-zero index. *)
Theorem C16_roundtrip : forall meta ops segsize log hs,
  meta_ok meta -> Forall op_ok ops -> segsize mod 8 = 0 ->
  spec_run ops = Some (log, hs) ->
  read_all true 0 0 (map file_bytes (w_files segsize (w_run meta ops))) = RAOk meta hs log true.
Proof. exact roundtrip. Qed.
Print Assumptions C16_roundtrip.

(* what spec_run means *)
Theorem C16_roundtrip_spec :
  (forall ents log, contiguous (N.of_nat (length log) + 1) ents -> log_puts log ents = Some (log ++ ents))
  /\ (forall log e j, e_index e = N.of_nat j + 1 -> (j <= length log)%nat ->
                      log_put log e = Some (firstn j log ++ [e])).
Proof. split; [exact log_puts_append | exact log_put_overwrite]. Qed.
Print Assumptions C16_roundtrip_spec.

(* non-vacuity: three saves with a cut in between and an overwrite of entry 2 *)
Definition ex_e (t i : N) (d : bytes) : entry := mkentry 0 t i (Some d).
Definition ex_ops : list wop :=
  [OpSave (mkhs 1 1 0) [ex_e 1 1 [x61]; ex_e 1 2 [x62]];
   OpCut;
   OpSnap (mkwalsnap 1 1 (Some []));
   OpSave (mkhs 2 2 1) [ex_e 2 2 [x63; x64]; ex_e 2 3 []]].
Example C16_roundtrip_ex :
  spec_run ex_ops = Some ([ex_e 1 1 [x61]; ex_e 2 2 [x63; x64]; ex_e 2 3 []], mkhs 2 2 1)
  /\ length (w_files 4096 (w_run (Some [x6d]) ex_ops)) = 2%nat
  /\ read_all true 0 0 (map file_bytes (w_files 4096 (w_run (Some [x6d]) ex_ops)))
     = RAOk (Some [x6d]) (mkhs 2 2 1) [ex_e 1 1 [x61]; ex_e 2 2 [x63; x64]; ex_e 2 3 []] true.
Proof. vm_compute. repeat split; reflexivity. Qed.

(* C16_completed_save_durable: the SYNC DECISION.  op_syncs mirrors the code: Create,
   SaveSnapshot and cut end with w.sync(); Save syncs iff raft.MustSync(st, w.state, len(ents)) =
   entries <> 0 \/ Vote changed \/ Term changed.  w_run_d carries, next to the writer state, the
   durable state = the state at the last sync (what a crash between two calls leaves: later
   records are still in the encoder's page buffer).  For ANY operation sequence, reading the
   durable state returns exactly the entry log defined by ALL completed saves, and a hard state
   whose Term and Vote are those of the last completed save.
   Commit may lag: a Save that changes only Commit is deliberately not synced by etcd (Raft's
   persistent state is currentTerm, votedFor, log[]; the commit index is recomputed), so the
   theorem does not and must not promise it (C16_commit_may_lag_ex). *)
Theorem C16_completed_save_durable : forall meta ops segsize log hs,
  meta_ok meta -> Forall op_ok ops -> segsize mod 8 = 0 ->
  spec_run ops = Some (log, hs) ->
  exists hs_d,
    read_all true 0 0 (map file_bytes (w_files segsize (snd (w_run_d meta ops)))) = RAOk meta hs_d log true
    /\ hs_term hs_d = hs_term hs /\ hs_vote hs_d = hs_vote hs.
Proof. exact completed_save_durable. Qed.
Print Assumptions C16_completed_save_durable.

(* the predicate ./check C16 evaluates on every process-kill image is implied by it *)
Theorem C16_completed_ok_durable : forall meta ops segsize,
  meta_ok meta -> Forall op_ok ops -> segsize mod 8 = 0 ->
  completed_ok ops (read_all true 0 0 (map file_bytes (w_files segsize (snd (w_run_d meta ops))))) = true.
Proof. exact completed_ok_durable. Qed.
Print Assumptions C16_completed_ok_durable.

(* the ops-level oracle of the runner: a read of the directory the writer produced satisfies the
   specification of the script (spec_read_ok compares metadata, hard state and entry log with
   spec_run); ./check C16 applies it to every read of a fully synced real directory *)
Theorem C16_spec_read_ok : forall meta ops segsize,
  meta_ok meta -> Forall op_ok ops -> segsize mod 8 = 0 ->
  spec_read_ok meta ops (read_all true 0 0 (map file_bytes (w_files segsize (w_run meta ops)))) = true.
Proof. exact spec_read_ok_written. Qed.
Print Assumptions C16_spec_read_ok.

(* a vote granted in an already known term (no entries) is durable when Save returns … *)
Example C16_vote_only_durable_ex :
  let ops := [OpSave (mkhs 2 0 0) []; OpSave (mkhs 2 3 0) []] in
  read_all true 0 0 (map file_bytes (w_files 4096 (snd (w_run_d None ops)))) = RAOk None (mkhs 2 3 0) [] true.
Proof. vm_compute. reflexivity. Qed.
(* … a commit-only update is not: after the crash the old commit index is read *)
Example C16_commit_may_lag_ex :
  let ops := [OpSave (mkhs 1 1 0) [ex_e 1 1 [x61]]; OpSave (mkhs 1 1 1) []] in
  spec_run ops = Some ([ex_e 1 1 [x61]], mkhs 1 1 1)
  /\ read_all true 0 0 (map file_bytes (w_files 4096 (snd (w_run_d None ops))))
     = RAOk None (mkhs 1 1 0) [ex_e 1 1 [x61]] true.
Proof. vm_compute. split; reflexivity. Qed.

(* a single changed byte inside the CRC-covered data of a stored record: the stored bytes are
   the original frame with that one byte replaced, and decodeRecord rejects them — with
   io.ErrUnexpectedEOF when the torn-write test fires, with ErrCRCMismatch otherwise; the
   record is never returned *)
Theorem C16_byte_flip_in_data : forall last size off crc t pre a b suf rest,
  let d := pre ++ a :: suf in
  let d' := pre ++ b :: suf in
  let r := stamp crc (mkrec t 0 (Some d)) in
  let r' := mkrec t (r_crc r) (Some d') in
  a <> b -> t <> crcType -> crc < lim32 -> raw_ok (mkrec t 0 (Some d)) ->
  off + frame_len r <= size ->
  frame_of r' = set_byte (data_off t (r_crc r) (blen d) + blen pre) b (frame_of r)
  /\ (decode_one last size off crc (frame_of r' ++ rest) = DStop FUnexp
      \/ decode_one last size off crc (frame_of r' ++ rest) = DStop (FErr DRecCrc)).
Proof. exact byte_flip_in_data. Qed.
Print Assumptions C16_byte_flip_in_data.

(* … and the rolling chain cannot hide it: whatever records follow, the digest computed over
   the changed data never meets the digest the later records were stamped with *)
Theorem C16_byte_flip_chain : forall crc pre a b suf (later : list bytes) d2,
  a <> b -> crc < lim32 ->
  let c1 := digest_write crc (pre ++ a :: suf) in
  let c1' := digest_write crc (pre ++ b :: suf) in
  let chain c := fold_left digest_write later c in
  digest_write (chain c1) d2 <> digest_write (chain c1') d2.
Proof. exact byte_flip_chain. Qed.
Print Assumptions C16_byte_flip_chain.

(* the same seen through the whole decode loop of a segment: records rs_before, then a record
   with data d, then rs_after were written; one byte of d is changed in the file.  The loop
   returns exactly the records before the damaged one (the first |rs_before| of what was
   written, in order and unmodified) and stops with io.ErrUnexpectedEOF or ErrCRCMismatch:
   an unmodified prefix and an error, never the damaged record or anything behind it. *)
Theorem C16_byte_flip_readback : forall rs_before t pre a b suf rs_after last crc0 kz,
  let d := pre ++ a :: suf in
  let r := mkrec t 0 (Some d) in
  let rs := rs_before ++ r :: rs_after in
  Forall raw_ok rs -> Forall crc_rec_wf rs -> crc0 < lim32 -> t <> crcType -> a <> b ->
  let '(rs', bs, _) := encode_recs crc0 rs in
  let '(rsB', bsB, cB) := encode_recs crc0 rs_before in
  let file := bs ++ zerosN kz in
  let off := blen bsB + (data_off t (digest_write cB d) (blen d) + blen pre) in
  exists st crc',
    decode_whole last crc0 (set_byte off b file) = (rsB', st, blen bsB, crc')
    /\ (st = FUnexp \/ st = FErr DRecCrc)
    /\ rsB' = firstn (length rs_before) rs'.
Proof. exact byte_flip_readback. Qed.
Print Assumptions C16_byte_flip_readback.

(* ------------------------------------------------------------------ one changed byte anywhere in a frame *)

(* confinement: the bytes of one frame are replaced by ANY bytes X of the same length; the
   records in front of it are returned unchanged and the rest of the outcome is what the decode
   loop does on X followed by the untouched remainder *)
Theorem C16_flip_confined : forall rs_before r rs_after last crc0 kz X,
  let rs := rs_before ++ r :: rs_after in
  Forall raw_ok rs -> Forall crc_rec_wf rs -> crc0 < lim32 ->
  let '(rsB', bsB, cB) := encode_recs crc0 rs_before in
  let '(rsA', bsA, _) := encode_recs (digest_write cB (data_of r)) rs_after in
  blen X = frame_len (stamp cB r) ->
  let file' := bsB ++ X ++ bsA ++ zerosN kz in
  let f := (S (length file') - length rs_before)%nat in
  (length rs_after < f)%nat /\
    decode_whole last crc0 file' =
    let '(rs2, st, off, c) := decode_file f last (blen file') (blen bsB) cB (X ++ bsA ++ zerosN kz) in
    (rsB' ++ rs2, st, off, c).
Proof. exact flip_confined. Qed.
Print Assumptions C16_flip_confined.

(* C16_any_single_byte_flip.  A segment holds rs_before, r, rs_after (then kz zero bytes); the
   byte at offset i of r's frame is changed to v.  (1) Always: the loop stops at that frame and
   returns exactly the records in front of it — an unmodified prefix, with EOF or an error — or
   decodeRecord ACCEPTED the damaged bytes as a record.  (2) By class of the offset
   (part_in_record, the classification ./check C16 prints for every corruption case):
   padding: the read is identical; length field: EOF (shorter prefix) when it now reads zero,
   identical when it decodes to the same sizes (the four unused bits of its top byte,
   C16_length_field_unused_bits); stored-crc varint with the continuation bit of the changed
   byte kept: identical (only bits >= 2^32 changed) or ErrCRCMismatch/UnexpectedEOF.
   Data bytes: C16_byte_flip_readback (always an error).  For the remaining classes acceptance
   cannot be excluded: type byte (C16_type_byte_refuted) and data-length byte
   (C16_data_length_byte_refuted) do return modified data as valid; tags, continuation bits and
   other length-field values are covered by the dichotomy + the differential run only. *)
Theorem C16_any_single_byte_flip : forall rs_before r rs_after last crc0 kz,
  Forall raw_ok (rs_before ++ r :: rs_after) -> Forall crc_rec_wf (rs_before ++ r :: rs_after) ->
  crc0 < lim32 ->
  let rsB' := fst (fst (encode_recs crc0 rs_before)) in
  let bsB := snd (fst (encode_recs crc0 rs_before)) in
  let cB := snd (encode_recs crc0 rs_before) in
  let rS := stamp cB r in
  let rest := snd (fst (encode_recs (digest_write cB (data_of r)) rs_after)) ++ zerosN kz in
  let sf := seg_file rs_before r rs_after crc0 kz in            (* X |-> bsB ++ X ++ rest *)
  let n := blen (rec_marshal rS) in
  let hdr := le_enc 8 (fst (encode_frame_size n)) in
  forall i v, i < frame_len rS ->
  let X := set_byte i v (frame_of rS) in
  let part := part_in_record rS i in
  ((exists s, decode_whole last crc0 (sf X) = (rsB', s, blen bsB, cB))
   \/ (exists r2 n2 c2, decode_one last (blen (sf X)) (blen bsB) cB (X ++ rest) = DRec r2 n2 c2))
  /\ (part = PPad -> decode_whole last crc0 (sf X) = decode_whole last crc0 (sf (frame_of rS)))
  /\ (part = PLen ->
        (le_dec (set_byte i v hdr) = 0 -> decode_whole last crc0 (sf X) = (rsB', FEnd, blen bsB, cB))
        /\ (decode_frame_size (le_dec (set_byte i v hdr)) = (n, pad_of n) ->
            decode_whole last crc0 (sf X) = decode_whole last crc0 (sf (frame_of rS))))
  /\ (part = PCrc -> r_type r <> crcType ->
        (forall b, nth_error (varint_enc (r_crc rS)) (N.to_nat (i - crc_off (r_type r))) = Some b ->
                   (bval v <? 128) = (bval b <? 128)) ->
        decode_whole last crc0 (sf X) = decode_whole last crc0 (sf (frame_of rS))
        \/ decode_whole last crc0 (sf X) = (rsB', FUnexp, blen bsB, cB)
        \/ decode_whole last crc0 (sf X) = (rsB', FErr DRecCrc, blen bsB, cB)).
Proof. exact any_single_byte_flip. Qed.
Print Assumptions C16_any_single_byte_flip.

(* the classes one by one (corollaries of the above, kept under the names of the brief) *)
Theorem C16_byte_flip_in_padding : forall rs_before r rs_after last crc0 kz,
  Forall raw_ok (rs_before ++ r :: rs_after) -> Forall crc_rec_wf (rs_before ++ r :: rs_after) ->
  crc0 < lim32 ->
  let rS := stamp (snd (encode_recs crc0 rs_before)) r in
  let sf := seg_file rs_before r rs_after crc0 kz in
  forall i v, 8 + blen (rec_marshal rS) <= i -> i < frame_len rS ->
  decode_whole last crc0 (sf (set_byte i v (frame_of rS))) = decode_whole last crc0 (sf (frame_of rS)).
Proof. exact seg_flip_pad. Qed.
Print Assumptions C16_byte_flip_in_padding.

Theorem C16_byte_flip_in_length_field : forall rs_before r rs_after last crc0 kz,
  Forall raw_ok (rs_before ++ r :: rs_after) -> Forall crc_rec_wf (rs_before ++ r :: rs_after) ->
  crc0 < lim32 ->
  let rS := stamp (snd (encode_recs crc0 rs_before)) r in
  let sf := seg_file rs_before r rs_after crc0 kz in
  let n := blen (rec_marshal rS) in
  let hdr := le_enc 8 (fst (encode_frame_size n)) in
  forall i v, i < 8 ->
  let hdr' := set_byte i v hdr in
  (le_dec hdr' = 0 ->
     decode_whole last crc0 (sf (set_byte i v (frame_of rS)))
     = (fst (fst (encode_recs crc0 rs_before)), FEnd, blen (snd (fst (encode_recs crc0 rs_before))),
        snd (encode_recs crc0 rs_before)))
  /\ (decode_frame_size (le_dec hdr') = (n, pad_of n) ->
     decode_whole last crc0 (sf (set_byte i v (frame_of rS))) = decode_whole last crc0 (sf (frame_of rS))).
Proof. exact seg_flip_len. Qed.
Print Assumptions C16_byte_flip_in_length_field.

(* decodeFrameSize ignores bits 3..6 of the top byte of the length field *)
Theorem C16_length_field_unused_bits : forall b0 b1 b2 b3 b4 b5 b6 b7 v,
  bval v / 128 = bval b7 / 128 -> bval v mod 8 = bval b7 mod 8 ->
  decode_frame_size (le_dec [b0; b1; b2; b3; b4; b5; b6; v])
  = decode_frame_size (le_dec [b0; b1; b2; b3; b4; b5; b6; b7]).
Proof. exact len_unused_bits. Qed.
Print Assumptions C16_length_field_unused_bits.

Theorem C16_byte_flip_in_crc_field : forall rs_before r rs_after last crc0 kz,
  Forall raw_ok (rs_before ++ r :: rs_after) -> Forall crc_rec_wf (rs_before ++ r :: rs_after) ->
  crc0 < lim32 ->
  let rsB' := fst (fst (encode_recs crc0 rs_before)) in
  let bsB := snd (fst (encode_recs crc0 rs_before)) in
  let cB := snd (encode_recs crc0 rs_before) in
  let rS := stamp cB r in
  let sf := seg_file rs_before r rs_after crc0 kz in
  forall j v, r_type r <> crcType ->
  j < blen (varint_enc (r_crc rS)) ->
  (forall b, nth_error (varint_enc (r_crc rS)) (N.to_nat j) = Some b -> (bval v <? 128) = (bval b <? 128)) ->
  let X := set_byte (crc_off (r_type r) + j) v (frame_of rS) in
  decode_whole last crc0 (sf X) = decode_whole last crc0 (sf (frame_of rS))
  \/ decode_whole last crc0 (sf X) = (rsB', FUnexp, blen bsB, cB)
  \/ decode_whole last crc0 (sf X) = (rsB', FErr DRecCrc, blen bsB, cB).
Proof. exact seg_flip_crc. Qed.
Print Assumptions C16_byte_flip_in_crc_field.

(* a segment that is not the last one ends early with a clean EOF — e.g. a length field inside
   it was zeroed — which nothing inside that file notices.  The crcType record at the head of the
   next segment holds the digest the writer had at the cut (cE); the decode loop compares it
   with its own digest c1 and ReadAll fails with ErrCRCMismatch — PROVIDED c1 <> 0 (the loop
   skips the comparison for a fresh decoder) and c1 <> cE, i.e. the skipped records moved the
   digest.  This is the only thing that catches it: the side conditions are exactly when. *)
Theorem C16_zero_length_mid_segment_detected_by_chain : forall f1 rs1 off1 c1 cE rest2 more crc0,
  decode_whole false crc0 f1 = (rs1, FEnd, off1, c1) ->
  cE < two32 -> c1 <> 0 -> c1 <> cE ->
  let head := mkrec crcType cE None in
  let f2 := frame_of head ++ rest2 in
  decode_files (f1 :: f2 :: more) crc0 = (rs1, FErr DChainCrc, frame_len head, c1)
  /\ forall write si st, crc0 = 0 -> (exists s, interp_all si st rs_init rs1 = SOk s) ->
       read_all write si st (f1 :: f2 :: more) = RAErr CChainCrc.
Proof. exact chain_detects_short_segment. Qed.
Print Assumptions C16_zero_length_mid_segment_detected_by_chain.

(* ------------------------------------------------------------------ crash images *)

(* The tail segment holds the records rs_synced (written, then synced) followed by rs_unsynced
   (written after the last sync), then kz zero bytes of preallocation.  A crash leaves ANY set
   `lost` of 512-byte sectors unwritten (zero); bytes below the sync point are durable.  Under
   the explicit, decidable side condition no_crc_coincidence (a record whose stored bytes were
   changed by the crash is rejected by parser + CRC: a 32-bit checksum cannot exclude an
   accidental match after a 512-byte erasure; the check evaluates it on every generated crash
   image), the decode loop returns every synced record, then a whole prefix of the unsynced
   records — firstn m of what was written, never anything else — and stops with a clean EOF or
   with io.ErrUnexpectedEOF (the repairable error), never with a fatal one. *)
Theorem C16_torn_tail : forall rs_synced rs_unsynced crc0 (lost : N -> bool) kz,
  Forall raw_ok (rs_synced ++ rs_unsynced) -> Forall crc_rec_wf (rs_synced ++ rs_unsynced) ->
  crc0 < lim32 -> (kz = 0 \/ 8 <= kz) ->
  let '(rs', bs, _) := encode_recs crc0 (rs_synced ++ rs_unsynced) in
  let synced := blen (snd (fst (encode_recs crc0 rs_synced))) in
  let f := bs ++ zerosN kz in
  let img := crash_image synced lost f in
  no_crc_coincidence synced f img 0 crc0 rs' = true ->
  exists m st crc',
    decode_whole true crc0 img = (firstn m rs', st, frames_len (firstn m rs'), crc')
    /\ (st = FEnd \/ st = FUnexp)
    /\ (length rs_synced <= m <= length rs')%nat.
Proof. exact torn_tail. Qed.
Print Assumptions C16_torn_tail.

(* the same at the level of Open+ReadAll over the whole directory (closed segments chained
   into the tail): the result is ReadAll's result on a prefix of the written records that
   contains every synced one — the entries and the hard state whose save had completed — or,
   in write mode, io.ErrUnexpectedEOF; read mode (OpenForRead) tolerates the torn tail *)
Theorem C16_torn_tail_readall : forall segs rs_synced rs_unsynced (lost : N -> bool) kz s_full,
  Forall (Forall raw_ok) segs -> Forall (Forall crc_rec_wf) segs ->
  Forall raw_ok (rs_synced ++ rs_unsynced) -> Forall crc_rec_wf (rs_synced ++ rs_unsynced) ->
  (kz = 0 \/ 8 <= kz) ->
  let '(fs, rsC, c) := closed_files 0 segs in
  let '(rsT, bs, _) := encode_recs c (rs_synced ++ rs_unsynced) in
  let synced := blen (snd (fst (encode_recs c rs_synced))) in
  let f := bs ++ zerosN kz in
  let img := crash_image synced lost f in
  no_crc_coincidence synced f img 0 c rsT = true ->
  interp_all 0 0 rs_init (rsC ++ rsT) = SOk s_full ->
  exists m s_m,
    (length rs_synced <= m <= length rsT)%nat
    /\ interp_all 0 0 rs_init (rsC ++ firstn m rsT) = SOk s_m
    /\ (read_all true 0 0 (fs ++ [img]) = result_w true s_m
        \/ read_all true 0 0 (fs ++ [img]) = RAErr CUnexpEOF)
    /\ read_all false 0 0 (fs ++ [img]) = result_w false s_m.
Proof. exact torn_tail_readall. Qed.
Print Assumptions C16_torn_tail_readall.

(* A crash in the middle of cut() — and, more generally, a tail file that ENDS inside the unsynced
   records instead of being followed by zero-filled preallocation.  cut() does: Truncate(tail, flushed
   offset); sync (flush + fdatasync: the records of the current Save are appended past the new
   end of file); create/fill/sync the next segment under a .tmp name; rename it to <seq+1>-<index>.wal;
   fsync the directory.  A reader only sees *.wal files, so the directory states a crash can leave
   are: (a) the old tail ending at ANY byte offset t between the sync point (state right after
   Truncate) and the end of the data (state after the sync), no new segment; (b) the old tail
   complete and the new segment present (= w_files (w_cut w), covered by C16_roundtrip).  For (a):
   whatever t is, the decode loop returns the synced records and a whole prefix of the unsynced ones
   and stops with EOF or io.ErrUnexpectedEOF — unconditionally (no CRC side condition: nothing is
   misread, the record that runs past the end of the file is recognised by the size check).
   Before fix 951f2b4 the size check returned a fatal error and such a log could not be opened
   nor repaired (KNOWN_FINDINGS: fixed). *)
Theorem C16_truncated_tail : forall rs_synced rs_unsynced crc0 t,
  Forall raw_ok (rs_synced ++ rs_unsynced) -> Forall crc_rec_wf (rs_synced ++ rs_unsynced) ->
  crc0 < lim32 ->
  let '(rs', bs, _) := encode_recs crc0 (rs_synced ++ rs_unsynced) in
  let synced := blen (snd (fst (encode_recs crc0 rs_synced))) in
  synced <= t -> t <= blen bs ->
  exists m st crc',
    decode_whole true crc0 (firstn (N.to_nat t) bs) = (firstn m rs', st, frames_len (firstn m rs'), crc')
    /\ (st = FEnd \/ st = FUnexp)
    /\ (length rs_synced <= m <= length rs')%nat.
Proof. exact truncated_tail. Qed.
Print Assumptions C16_truncated_tail.

Theorem C16_cut_crash_readall : forall segs rs_synced rs_unsynced t s_full,
  Forall (Forall raw_ok) segs -> Forall (Forall crc_rec_wf) segs ->
  Forall raw_ok (rs_synced ++ rs_unsynced) -> Forall crc_rec_wf (rs_synced ++ rs_unsynced) ->
  let '(fs, rsC, c) := closed_files 0 segs in
  let '(rsT, bs, _) := encode_recs c (rs_synced ++ rs_unsynced) in
  let synced := blen (snd (fst (encode_recs c rs_synced))) in
  synced <= t -> t <= blen bs ->
  interp_all 0 0 rs_init (rsC ++ rsT) = SOk s_full ->
  exists m s_m,
    (length rs_synced <= m <= length rsT)%nat
    /\ interp_all 0 0 rs_init (rsC ++ firstn m rsT) = SOk s_m
    /\ (read_all true 0 0 (fs ++ [firstn (N.to_nat t) bs]) = result_w true s_m
        \/ read_all true 0 0 (fs ++ [firstn (N.to_nat t) bs]) = RAErr CUnexpEOF)
    /\ read_all false 0 0 (fs ++ [firstn (N.to_nat t) bs]) = result_w false s_m.
Proof. exact truncated_tail_readall. Qed.
Print Assumptions C16_cut_crash_readall.

(* a torn final record is repairable rather than fatal: Repair (which opens the last segment
   with a fresh decoder; every segment starts with a crcType record) succeeds on every such
   crash image, only cuts behind the last valid record, and the repaired segment reads back
   the same records with a clean EOF *)
Theorem C16_repair : forall rs_synced rs_unsynced crc0 (lost : N -> bool) kz,
  let head := mkrec crcType 0 None in
  Forall raw_ok (head :: rs_synced ++ rs_unsynced) -> Forall crc_rec_wf (head :: rs_synced ++ rs_unsynced) ->
  crc0 < lim32 -> (kz = 0 \/ 8 <= kz) ->
  let '(rs', bs, _) := encode_recs crc0 ((head :: rs_synced) ++ rs_unsynced) in
  let synced := blen (snd (fst (encode_recs crc0 (head :: rs_synced)))) in
  let f := bs ++ zerosN kz in
  let img := crash_image synced lost f in
  no_crc_coincidence synced f img 0 crc0 rs' = true ->
  exists m off crc',
    (S (length rs_synced) <= m <= length rs')%nat
    /\ fst (repair img) = true
    /\ decode_whole true crc0 (snd (repair img)) = (firstn m rs', FEnd, off, crc')
    /\ (snd (repair img) = img \/ snd (repair img) = takeN off img).
Proof. exact repair_torn_tail. Qed.
Print Assumptions C16_repair.

(* TWO LIVES.  (1) Open + ReadAll in write mode leaves the tail segment all-zero behind the last
   valid record: whatever a crash left there (sectors of a torn write that happened to persist
   beyond lost ones) is cleared before anything is appended. *)
Theorem C16_open_zeroes_tail : forall si st files rs off c s,
  decode_files files 0 = (rs, FEnd, off, c) -> interp_all si st rs_init rs = SOk s ->
  read_all_w si st files = (result_w true s, map_last (zero_tail off) files)
  /\ forall f, zero_tail off f = firstn (N.to_nat off) f ++ zerosN (blen f - off)
               /\ all_zero (zerosN (blen f - off)) = true.
Proof. exact open_zeroes_tail. Qed.
Print Assumptions C16_open_zeroes_tail.

(* (2) f is the tail segment as found at a restart — ANY bytes — that decodes to the records rs
   with a clean EOF at off; it is opened for append (zeroed behind off) and the records rs2 are
   appended.  The next restart reads exactly rs followed by rs2: nothing of what lay behind off
   can be read again. *)
Theorem C16_second_life : forall f crc0 rs off c rs2 k,
  crc0 < lim32 ->
  decode_whole true crc0 f = (rs, FEnd, off, c) ->
  Forall raw_ok rs2 -> Forall crc_rec_wf rs2 -> (k = 0 \/ 8 <= k) ->
  let '(rs2', bs2, c2) := encode_recs c rs2 in
  decode_whole true crc0 (firstn (N.to_nat off) f ++ bs2 ++ zerosN k)
  = (rs ++ rs2', FEnd, off + blen bs2, c2).
Proof. exact second_life. Qed.
Print Assumptions C16_second_life.

(* (3) C16_second_life_roundtrip: crash image with ANY sector subset lost -> Repair (no-op unless
   torn) -> open for append -> any further records -> read back = recovered prefix (containing
   every synced record) ++ the new records, exactly *)
Theorem C16_second_life_roundtrip : forall rs_synced rs_unsynced crc0 (lost : N -> bool) kz,
  let head := mkrec crcType 0 None in
  Forall raw_ok (head :: rs_synced ++ rs_unsynced) -> Forall crc_rec_wf (head :: rs_synced ++ rs_unsynced) ->
  crc0 < lim32 -> (kz = 0 \/ 8 <= kz) ->
  let '(rs', bs, _) := encode_recs crc0 ((head :: rs_synced) ++ rs_unsynced) in
  let synced := blen (snd (fst (encode_recs crc0 (head :: rs_synced)))) in
  let img := crash_image synced lost (bs ++ zerosN kz) in
  no_crc_coincidence synced (bs ++ zerosN kz) img 0 crc0 rs' = true ->
  exists m off c,
    (S (length rs_synced) <= m <= length rs')%nat
    /\ fst (repair img) = true
    /\ forall rs2 k, Forall raw_ok rs2 -> Forall crc_rec_wf rs2 -> (k = 0 \/ 8 <= k) ->
         let '(rs2', bs2, c2) := encode_recs c rs2 in
         decode_whole true crc0 (firstn (N.to_nat off) (snd (repair img)) ++ bs2 ++ zerosN k)
         = (firstn m rs' ++ rs2', FEnd, off + blen bs2, c2).
Proof. exact second_life_after_crash. Qed.
Print Assumptions C16_second_life_roundtrip.

(* SESSIONS: segment names across Close / Open(snapshot) / ReadAll.  (1) cut names the new tail
   <seq+1>-<enti+1> and closes the old one under its own name. *)
Theorem C16_cut_names : forall w,
  w_seq (w_cut w) = w_seq w + 1 /\ w_idx (w_cut w) = w_enti w + 1
  /\ map fst (w_closed (w_cut w)) = map fst (w_closed w) ++ [(w_seq w, w_idx w)].
Proof. exact cut_names. Qed.
Print Assumptions C16_cut_names.

(* (2) after Close; Open(snapshot si/st); ReadAll, the writer has the same files, names and digest,
   and enti = the index of the LAST entry record of the selected segments (enti_of_records),
   whatever si is: entries at or below the start snapshot count (C16_enti_last_entry), so the
   next cut is named after the last stored entry, not after 0 *)
Theorem C16_reopen_enti : forall segsize w si st w',
  w_reopen segsize w si st = Some w' ->
  exists sel rs off c,
    select_files (w_files segsize w) si = Some sel /\ decode_files sel 0 = (rs, FEnd, off, c)
    /\ w_enti w' = enti_of_records rs 0
    /\ w_seq w' = w_seq w /\ w_idx w' = w_idx w /\ w_closed w' = w_closed w /\ w_cur w' = w_cur w
    /\ w_crc w' = w_crc w.
Proof. exact reopen_enti. Qed.
Print Assumptions C16_reopen_enti.

Theorem C16_enti_last_entry :
  (forall a b acc, enti_of_records (a ++ b) acc = enti_of_records b (enti_of_records a acc))
  /\ (forall e acc, entry_ok e -> enti_of_records [entry_rec e] acc = e_index e)
  /\ (forall r acc, r_type r <> entryType -> enti_of_records [r] acc = acc).
Proof. split; [exact enti_of_records_app|]. split; [exact enti_of_records_entry|exact enti_of_records_other]. Qed.
Print Assumptions C16_enti_last_entry.

(* (3) searchIndex (file selection of Open/Verify): the LAST segment whose name index is <= the
   snapshot index, every later name index being above it *)
Theorem C16_search_index : forall names index pos best k,
  search_index names index pos best = Some k ->
  (best = Some k /\ forall j idx sq, nth_error names j = Some (sq, idx) -> index < idx)
  \/ (exists j sq idx, k = (pos + j)%nat /\ nth_error names j = Some (sq, idx) /\ idx <= index
        /\ forall j' sq' idx', (j < j')%nat -> nth_error names j' = Some (sq', idx') -> index < idx').
Proof. exact search_index_spec. Qed.
Print Assumptions C16_search_index.

(* the history of seed readall-skips-enti-at-snapshot on the model: names 0-0, 1-6; reads from
   snapshot 5 and from 0 find everything *)
Example C16_session_naming_ex :
  let w := fst (s_run_d 512 None sess_ops) in
  let files := w_files 512 w in
  (512 <=? blen (snd (hd (0, 0, []) files))) = true
  /\ map fst files = [(0, 0); (1, 6)]
  /\ (match select_files files 5 with Some sel => read_all true 5 1 sel | None => RAErr CBadType end)
     = RAOk None (mkhs 2 2 6) [mkentry 0 2 6 (Some [x42])] true
  /\ (match select_files files 0 with
      | Some sel => match read_all true 0 0 sel with RAOk _ _ ents _ => length ents | RAErr _ => 0%nat end
      | None => 0%nat end) = 6%nat.
Proof. exact session_naming_ex. Qed.

(* non-vacuity: a segment head, a metadata record (both synced), then an entry record of 600
   bytes written after the sync; the crash loses sector 1 (bytes 512..1023).  The side condition
   holds, the image reads back the two synced records and stops with ErrUnexpectedEOF, Repair
   succeeds. *)
Definition ex_synced : list wrec := [mkrec crcType 0 None; mkrec metadataType 0 (Some [x6d])].
Definition ex_unsynced : list wrec := [mkrec entryType 0 (Some (repeat x37 600))].
Definition ex_img : bytes :=
  let '(_, bs, _) := encode_recs 0 (ex_synced ++ ex_unsynced) in
  crash_image (blen (snd (fst (encode_recs 0 ex_synced)))) (fun s => s =? 1) (bs ++ zerosN 64).
Example C16_torn_tail_ex :
  let '(rs', bs, _) := encode_recs 0 (ex_synced ++ ex_unsynced) in
  let synced := blen (snd (fst (encode_recs 0 ex_synced))) in
  synced = 40
  /\ no_crc_coincidence synced (bs ++ zerosN 64) ex_img 0 0 rs' = true
  /\ fst (fst (decode_whole true 0 ex_img)) = (firstn 2 rs', FUnexp)
  /\ fst (repair ex_img) = true
  /\ fst (fst (decode_whole true 0 (snd (repair ex_img)))) = (firstn 2 rs', FEnd).
Proof. vm_compute. repeat split; reflexivity. Qed.

(* ------------------------------------------------------------------ the open finding *)

(* the record TYPE byte is not covered by any checksum: changing entryType to stateType in a
   stored entry record makes Open+ReadAll (and Verify) return, without error, a HardState
   nobody saved.  KNOWN_FINDINGS.txt: open record-type-byte. *)
Theorem C16_type_byte_refuted :
  exists (files : list bytes) (written : list wrec) (off : N) (v : byte) hs ents meta,
    files = map file_bytes (w_files 4096 (w_run wit_meta wit_ops))
    /\ written = concat (decode_each files 0)
    /\ snd (locate written 0 off) = PType
    /\ read_all true 0 0 (map (set_byte off v) files) = RAOk meta hs ents true
    /\ hs = mkhs 0 7 3
    /\ prefix_ok 0 0 written 0 (RAOk meta hs ents true) = false.
Proof. exact type_byte_refuted_ex. Qed.
Print Assumptions C16_type_byte_refuted.

(* the data-LENGTH byte is outside the CRC as well, and Unmarshal skips unknown fields: with
   metadata "ab" ++ s, where the 5 bytes s parse as an unknown fixed32 field and leave the
   CRC-32C digest unchanged (crc("ab"++s) = crc("ab")), changing the length byte 7 -> 2 makes
   Open+ReadAll return err = nil and the metadata "ab" — the record's CRC and the whole rolling
   chain still match.  KNOWN_FINDINGS.txt: open record-data-length-byte. *)
Theorem C16_data_length_byte_refuted :
  exists (files : list bytes) (written : list wrec) (off : N) (v : byte) meta meta' hs ents,
    files = map file_bytes (w_files 4096 (w_run (Some meta) []))
    /\ written = concat (decode_each files 0)
    /\ locate written 0 off = (1, PDataLen)
    /\ crc_update 0 meta = crc_update 0 meta'
    /\ read_all true 0 0 files = RAOk (Some meta) hs ents true
    /\ read_all true 0 0 (map (set_byte off v) files) = RAOk (Some meta') hs ents true
    /\ meta' <> meta
    /\ prefix_ok 0 0 written 0 (RAOk (Some meta') hs ents true) = false.
Proof. exact data_length_byte_refuted_ex. Qed.
Print Assumptions C16_data_length_byte_refuted.

(* ------------------------------------------------------------------ snapshot files *)

(* Snapshotter.Load: the snapshot returned is the NEWEST file (suffix .snap, by name) that passes
   snap.Read (wrapper parses, data non-empty, CRC matches, inner message parses); every newer
   file is damaged and exactly those are renamed to .broken; no snapshot is returned only when
   none is intact *)
Theorem C16_snap_fallback : forall dir, NoDup (map fst dir) ->
  match snap_load dir with
  | (Some (n, d), broken) =>
      In n (map fst dir) /\ is_snap_name n = true /\ intact dir n
      /\ (exists c, lookup n dir = Some c /\ snap_read c = SnOk d)
      /\ (forall m, In m (map fst dir) -> is_snap_name m = true -> newer m n -> ~ intact dir m)
      /\ (forall m, In m broken <-> (In m (map fst dir) /\ is_snap_name m = true /\ newer m n))
  | (None, broken) =>
      (forall m, In m (map fst dir) -> is_snap_name m = true -> ~ intact dir m)
      /\ (forall m, In m broken <-> (In m (map fst dir) /\ is_snap_name m = true))
  end.
Proof. exact snap_load_fallback. Qed.
Print Assumptions C16_snap_fallback.

(* what SaveSnap wrote, Read accepts (so a saved snapshot is `intact`) … *)
Theorem C16_snap_roundtrip : forall b,
  b <> [] -> blen b + 64 < two56 -> crc_update 0 b <> 0 -> raftsnap_check b = POk tt ->
  snap_read (snap_file_of b) = SnOk b.
Proof. exact snap_roundtrip. Qed.
Print Assumptions C16_snap_roundtrip.

(* … and a single changed byte inside the checksummed snapshot bytes makes Read fail: the
   damaged file is not `intact`, Load renames it and falls back to the next one *)
Theorem C16_snap_byte_flip : forall pre a v suf,
  let b := pre ++ a :: suf in
  let c := crc_update_tab 0 b in
  a <> v -> blen b + 64 < two56 ->
  set_byte (snap_data_off c (blen b) + blen pre) v (snap_file_of b)
    = snapfile_marshal (mksnapfile c (Some (pre ++ v :: suf)))
  /\ exists e, snap_read (set_byte (snap_data_off c (blen b) + blen pre) v (snap_file_of b)) = SnErr e.
Proof. exact snap_byte_flip. Qed.
Print Assumptions C16_snap_byte_flip.

(* non-vacuity: a directory whose newest file is garbage and whose older file is intact *)
Example C16_snap_fallback_ex : snap_load ex_dir = (Some (ex_old, ex_d0), [ex_new]).
Proof. vm_compute. reflexivity. Qed.
