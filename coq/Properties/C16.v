(* C16 — Raft log (etcd WAL) and snapshot files recover to a consistent prefix after any crash.
   Statements only; proofs live in Wal/*Proofs.v.  The executable model is Wal/WalModel.v
   (encoder, decoder, ReadAll, Verify, Repair, crash images), Wal/SnapModel.v, Wal/Crc32c.v,
   Wal/Pb.v; it is tied to the Go code by the differential run of ./check C16. *)
Require Import Base.Bytes Wal.Crc32c Wal.Pb Wal.WalModel Wal.SnapModel.
Require Import Wal.FrameProofs.
Local Open Scope N_scope.

(* encodeFrameSize / decodeFrameSize: for every record size that fits the 56-bit length the
   decoder recovers size and padding, the padding is below 8, record+padding and the whole
   frame are multiples of 8 (so the 8-byte length field never straddles a 512-byte sector),
   the length field fits a uint64 and is zero only for an empty record (a zero length field
   is how the decoder recognises the preallocated tail). *)
Theorem C16_frame_arith : forall n, n < two56 ->
  let '(lenf, p) := encode_frame_size n in
  decode_frame_size lenf = (n, p) /\ p < 8 /\ (n + p) mod 8 = 0 /\ (8 + n + p) mod 8 = 0
  /\ lenf < two64 /\ (lenf = 0 <-> n = 0).
Proof. exact frame_arith. Qed.
Print Assumptions C16_frame_arith.
