(* C03 — each command gets exactly one well-formed RESP reply, in request order; payload bytes
   are framed so that a conforming client decodes exactly the stored bytes.
   Statements only; proofs live in Resp/ReplyCodecProofs.v, Mem/ReplyWf.v, Resp/ReplyLoop.v,
   Resp/ReplySrv.v.

   Objects:
   * `encode_reply` (Resp/ReplyCodec.v): every ToBytes of resp/structure.go;
     `decode_reply`/`decode_all`/`decode_stream`: an independent streaming RESP2 decoder, written
     as a client reads replies; shares no code with the request parser model.
   * `reply_wf` (Base/Reply.v): simple strings and error lines contain no CR/LF, at every
     nesting depth; bulk strings are unrestricted.
   * `srv_exec` (Mem/Server.v, Mem/Exec.v): the command model, dispatching over `families`.
   * `serve`/`conn_output` (Resp/ReplyLoop.v): the loop of server.Manager.Handle — one
     conn.Write(ToBytes) per executed command, a nil result written as the error reply
     "unknown error"; `executed` (Resp/RespModel.v) is the list of commands the loop passes to
     the executor for a byte stream (C02). *)
Require Import Base.Bytes Base.GoInt Base.Reply.
Require Import Resp.RespSpec Resp.RespModel Resp.ReplyCodec Resp.ReplyCodecProofs Resp.ReplyLoop.
Require Import Mem.Types Mem.Exec Mem.Server Mem.ReplyWf Resp.ReplySrv.
Local Open Scope Z_scope.

(* ---------------------------------------------------------------- (a) framing *)

(* Any well-formed reply, whatever bytes its bulk strings hold, followed by anything at all, is
   decoded to exactly that reply and exactly that continuation. *)
Theorem C03_decode_encode : forall (r : reply) (rest : bytes),
  reply_wf r = true -> decode_reply (encode_reply r ++ rest) = Some (r, rest).
Proof. exact decode_encode. Qed.
Print Assumptions C03_decode_encode.

(* A bulk string round-trips for every byte content (no side condition at all). *)
Theorem C03_bulk_binary_safe : forall (b rest : bytes),
  decode_reply (encode_reply (RBulk b) ++ rest) = Some (RBulk b, rest).
Proof. intros b rest. apply decode_encode. reflexivity. Qed.
Print Assumptions C03_bulk_binary_safe.

Theorem C03_decode_all : forall rs : list reply,
  Forall (fun r => reply_wf r = true) rs -> decode_all (encode_replies rs) = Some rs.
Proof. exact decode_all_encode. Qed.
Print Assumptions C03_decode_all.

Theorem C03_decode_stream : forall rs : list reply,
  Forall (fun r => reply_wf r = true) rs -> decode_stream (encode_replies rs) = (rs, []).
Proof. exact decode_stream_encode. Qed.
Print Assumptions C03_decode_stream.

(* reply_wf is exactly what is needed: a simple string holding CRLF does not round-trip, and an
   error line holding CRLF makes the client see two replies for one command. *)
Theorem C03_wf_needed :
  (let r := RSimple ["a"; "013"; "010"; "b"]%byte in decode_reply (encode_reply r) <> Some (r, []))
  /\ decode_stream (encode_reply (RErr ["x"; "013"; "010"; "+"; "O"; "K"]%byte))
     = ([RErr ["x"%byte]; RSimple ["O"; "K"]%byte], []).
Proof. split; [exact (proj2 simple_with_crlf_desyncs)|exact error_with_crlf_injects_reply]. Qed.
Print Assumptions C03_wf_needed.

(* ---------------------------------------------------------------- (b) the command model *)

(* Every reply of the command model is well formed: for every server state, connection, clock,
   argument vector (any bytes) and hint.  Bytes supplied by clients reach a reply only inside
   bulk strings. *)
Theorem C03_replies_wf : forall (s : server) (conn now nowms : Z) (args : list bytes) (hint : reply),
  reply_wf (fst (srv_exec s conn now nowms args hint)) = true.
Proof. exact srv_exec_wf. Qed.
Print Assumptions C03_replies_wf.

(* per family, and generically over the list of families (how further families plug in) *)
Theorem C03_families_wf : Forall family_wf families.
Proof. exact families_wf. Qed.
Print Assumptions C03_families_wf.

Theorem C03_dispatch_wf : forall fs : list family, Forall family_wf fs ->
  forall d now nowms n args hint, reply_wf (fst (dispatch fs d now nowms n args hint)) = true.
Proof. exact dispatch_wf. Qed.
Print Assumptions C03_dispatch_wf.

(* resp.MakeErrorData: whatever texts are concatenated into an error (client bytes included), the
   reply is one line. *)
Theorem C03_error_text_sanitised : forall parts : list bytes,
  reply_wf (RErr (sanitize_err (List.concat parts))) = true.
Proof. exact sanitize_err_wf. Qed.
Print Assumptions C03_error_text_sanitised.

(* ---------------------------------------------------------------- (c) the connection loop *)

(* For ANY executor (any state type; a result may be nil) whose non-nil replies are well formed,
   and for EVERY byte stream a client may send: what the connection loop writes decodes, with
   nothing left over, to exactly the replies of the executed commands, one each, in order. *)
Theorem C03_one_reply_in_order :
  forall (St : Type) (exec1 : St -> list bytes -> option reply * St),
  (forall s c r s', exec1 s c = (Some r, s') -> reply_wf r = true) ->
  forall (s : St) (bs : bytes),
    decode_stream (conn_output St exec1 s bs) = (replies St exec1 s (executed bs), [])
    /\ List.length (replies St exec1 s (executed bs)) = List.length (executed bs).
Proof. exact one_reply_in_order. Qed.
Print Assumptions C03_one_reply_in_order.

(* Premise about the transport, made explicit.  `conn_output` models every reply write as complete.
   `emit close plan rs` is what the client can read when the successive conn.Write calls have
   the outcomes `plan` (None = complete, Some n = error after n bytes) and the loop, after a
   failed write, closes the connection (close = true) or carries on (false).
   write_atomic_or_close close plan := close = true \/ every write of the plan is complete.
   Under it the client reads complete replies to a prefix of the commands, in order, then at
   most a fragment of the next one, then nothing; with complete writes exactly `conn_output`.
   The premise is re-read from server/db_manager.go on every run (`harness_resp writecheck`)
   and exercised by the slow-reader scenario of checks/c03.py. *)
Theorem C03_write_atomic_or_close : forall (close : bool) (plan : wplan) (rs : list reply),
  write_atomic_or_close close plan ->
  emit close plan rs = encode_replies rs
  \/ exists k r n, nth_error rs k = Some r
       /\ emit close plan rs = encode_replies (firstn k rs) ++ firstn n (encode_reply r).
Proof. exact write_atomic_or_close_sound. Qed.
Print Assumptions C03_write_atomic_or_close.

Theorem C03_atomic_writes_are_the_model :
  forall (St : Type) (exec1 : St -> list bytes -> option reply * St) (close : bool) (plan : wplan)
         (s : St) (bs : bytes),
  Forall (fun w => w = None) plan ->
  conn_output St exec1 s bs = emit close plan (replies St exec1 s (executed bs)).
Proof. exact conn_output_emit. Qed.
Print Assumptions C03_atomic_writes_are_the_model.

(* Without the premise the property fails: a write that gives up after 7 bytes, followed by the
   next reply, leaves "$5 CRLF hel+PONG CRLF" -- the client decodes no reply at all. *)
Theorem C03_splice_refutes_without_premise :
  let rs := [RBulk ["h"; "e"; "l"; "l"; "o"]%byte; RSimple ["P"; "O"; "N"; "G"]%byte] in
  emit false [Some 7%nat] rs
    = ["$"; "5"; "013"; "010"; "h"; "e"; "l"; "+"; "P"; "O"; "N"; "G"; "013"; "010"]%byte
  /\ decode_stream (emit false [Some 7%nat] rs) <> (rs, [])
  /\ fst (decode_stream (emit false [Some 7%nat] rs)) = []
  /\ ~ write_atomic_or_close false [Some 7%nat]
  /\ emit true [Some 7%nat] rs = ["$"; "5"; "013"; "010"; "h"; "e"; "l"]%byte.
Proof. exact splice_counterexample. Qed.
Print Assumptions C03_splice_refutes_without_premise.

(* the same however the stream is split across reads *)
Theorem C03_one_reply_in_order_chunked :
  forall (St : Type) (exec1 : St -> list bytes -> option reply * St),
  (forall s c r s', exec1 s c = (Some r, s') -> reply_wf r = true) ->
  forall (s : St) (chunks : list bytes),
    decode_stream (conn_output_chunked St exec1 s chunks)
    = (replies St exec1 s (executed (List.concat chunks)), []).
Proof. exact one_reply_in_order_chunked. Qed.
Print Assumptions C03_one_reply_in_order_chunked.

(* "in order": the i-th reply is the answer to the i-th executed command, run in the state left
   by exactly the commands before it *)
Theorem C03_reply_matches_command :
  forall (St : Type) (exec1 : St -> list bytes -> option reply * St)
         (pre : list (list bytes)) (c : list bytes) (post : list (list bytes)) (s : St),
    nth_error (replies St exec1 s (pre ++ c :: post)) (List.length pre)
    = Some (reply_or_err (fst (exec1 (state_after St exec1 s pre) c))).
Proof. exact replies_nth. Qed.
Print Assumptions C03_reply_matches_command.

(* a nil result is answered by exactly one (well-formed) error reply *)
Theorem C03_nil_result_one_error :
  forall (St : Type) (exec1 : St -> list bytes -> option reply * St) (s s' : St) (c : list bytes),
    exec1 s c = (None, s') ->
    replies St exec1 s [c] = [unknown_error] /\ reply_wf unknown_error = true.
Proof.
  intros St exec1 s s' c H. split; [|reflexivity]. cbn [replies]. rewrite H. reflexivity.
Qed.
Print Assumptions C03_nil_result_one_error.

(* The command model as executor (clock and hint of every step universally quantified through
   the environment carried in the state): every byte stream, every initial state. *)
Theorem C03_one_reply_in_order_srv : forall (conn : Z) (st : srv_state) (bs : bytes),
  decode_stream (conn_output srv_state (srv_step conn) st bs)
  = (replies srv_state (srv_step conn) st (executed bs), [])
  /\ List.length (replies srv_state (srv_step conn) st (executed bs)) = List.length (executed bs).
Proof. exact srv_one_reply_in_order. Qed.
Print Assumptions C03_one_reply_in_order_srv.

(* with C02: a pipeline of well-formed commands (arguments of any bytes) gets exactly one reply
   per command, in order *)
Theorem C03_pipeline_replies : forall (conn : Z) (st : srv_state) (cmds : list (list bytes)),
  Forall cmd_ok cmds ->
  decode_stream (conn_output srv_state (srv_step conn) st (encode_pipeline cmds))
  = (replies srv_state (srv_step conn) st cmds, []).
Proof. exact srv_pipeline_replies. Qed.
Print Assumptions C03_pipeline_replies.

(* ---------------------------------------------------------------- non-vacuity *)

(* a nested reply with binary payloads is well formed and round-trips *)
Example C03_ex_roundtrip :
  let r := RArr [RBulk ["013"; "010"; "000"; "255"; "+"; "O"; "K"; "013"; "010"]%byte; RNil; RInt (-42);
                 RArr [RSimple ["O"; "K"]%byte]; RNilArr; RErr ["E"; "R"; "R"]%byte] in
  reply_wf r = true /\ decode_reply (encode_reply r) = Some (r, []).
Proof. split; vm_compute; reflexivity. Qed.

(* SET k "a\r\nb"; GET k; an unknown command whose name holds CRLF; LPUSH/LRANGE with a CRLF
   element: four replies for four commands, the payloads come back byte for byte *)
Example C03_ex_pipeline :
  let crlf := ["a"; "013"; "010"; "b"]%byte in
  let cmds := [[B "SET"; B "k"; crlf]; [B "GET"; B "k"];
               [["x"; "013"; "010"; "+"; "O"; "K"]%byte]; [B "RPUSH"; B "l"; crlf]; [B "LRANGE"; B "l"; B "0"; B "-1"]] in
  decode_stream (conn_output srv_state (srv_step 0) (srv_init 1, []) (encode_pipeline cmds))
  = ([rOK; RBulk crlf; err_other; RInt 1; RArr [RBulk crlf]], []).
Proof. vm_compute. reflexivity. Qed.

(* an executor that returns nil: one error reply, the next command still gets its own *)
Example C03_ex_nil_result :
  let ex := fun (s : unit) (c : list bytes) =>
              (match c with [] => None | _ => Some (RInt 1) end, s) in
  decode_stream (conn_output unit ex tt ("*"%byte :: "0"%byte :: CRLF ++ encode_cmd [B "X"]))
  = ([unknown_error; RInt 1], []).
Proof. vm_compute. reflexivity. Qed.
