(* C07 -- cluster mode is linearizable and all replicas apply the same history (PARTIAL).
   Statements only; model in Cluster/ApplyLoop.v, proofs in Cluster/ApplyLoopProofs.v.

   Proved here: the logic of the apply loop of a node (entriesToApply / publishEntries /
   handleClusterCommits / the callback table) for all logs, all Ready sequences, all clocks.
   Imported as named hypotheses: Raft gives every node batches that are windows of ONE committed
   log ([is_window], C15) and orders a later proposal behind an earlier commit ([raft_order], C15).
   Exercised by checks/c07.py but not modelled: rafthttp, goroutines and channels, process
   faults, membership changes. *)
Require Import Base.Bytes Base.GoInt Base.Reply Mem.Types Mem.Exec.
Require Import Cluster.ClusterEnc Cluster.ApplyLoop Cluster.ApplyLoopProofs.
Local Open Scope N_scope.

(* For ANY sequence of Ready batches that are pieces of one committed log -- contiguous,
   overlapping, repeated, entirely old, empty, of any size -- if the node does not stop, the
   entries it applied, in order, are exactly a prefix of the log: indices base+1, base+2, ...,
   no gap, no repeat; appliedIndex is the length of that prefix.  (Index arithmetic is Go's
   uint64, wrap-around included; the log fits into uint64.) *)
Theorem C07_exactly_once_in_order : forall base pl batches applied' done,
    base + N.of_nat (List.length pl) + 1 < W64 ->
    Forall (is_window (number_log (base + 1) pl)) batches ->
    ready_run base [] batches = Some (applied', done) ->
    exists k, (k <= List.length pl)%nat /\ applied' = base + N.of_nat k /\
              done = firstn k (number_log (base + 1) pl) /\
              map eidx done = map (fun i => base + 1 + N.of_nat i) (seq 0 k).
Proof. exact exactly_once_in_order. Qed.
Print Assumptions C07_exactly_once_in_order.

(* The node stops (log.Fatalf) exactly when a batch starts beyond appliedIndex+1, i.e. when
   continuing would skip an entry -- which the Raft library never hands out. *)
Theorem C07_stops_only_on_gap : forall base pl k pre b post,
    base + N.of_nat (List.length pl) + 1 < W64 ->
    number_log (base + 1) pl = pre ++ b ++ post -> (k <= List.length pl)%nat ->
    (ready_step (base + N.of_nat k) b = None <-> b <> [] /\ (k < List.length pre)%nat).
Proof. exact stops_only_on_gap. Qed.
Print Assumptions C07_stops_only_on_gap.

(* Nodes that applied the same entries hold identical keyspaces, whatever their clocks and
   whatever they drew at random, provided every command of the prefix is deterministic in the
   state it is applied to ([det_prog]).  By induction on the prefix. *)
Theorem C07_replicas_agree : forall d0 ents envs1 envs2,
    det_prog exec_step d0 (cmds_of ents) ->
    List.length envs1 = List.length (cmds_of ents) -> List.length envs2 = List.length (cmds_of ents) ->
    keyspace_after d0 envs1 ents = keyspace_after d0 envs2 ents.
Proof. exact replicas_agree. Qed.
Print Assumptions C07_replicas_agree.

(* Commands are replicated by statement, so the proviso is necessary: a relative expiry is
   evaluated against the clock of the applying node (witness: SET k v EX 1; GET k applied at
   100 s/102 s on one node and at 102 s/102 s on a lagging or restarted one).  The same holds on
   the real code for SETEX, EXPIRE, SPOP, SRANDMEMBER and XADD with '*' (open findings, replayed
   by checks/c07.py on a three-node cluster). *)
Theorem C07_replicas_agree_refuted :
  keyspace_after empty_db w_envs_a w_ttl_log <> keyspace_after empty_db w_envs_b w_ttl_log /\
  map dreply (fst (apply_cmds exec_step [] empty_db w_envs_a (cmds_of w_ttl_log))) <>
  map dreply (fst (apply_cmds exec_step [] empty_db w_envs_b (cmds_of w_ttl_log))).
Proof. exact replicas_disagree_ttl. Qed.
Print Assumptions C07_replicas_agree_refuted.

(* Each client receives the reply to its own command: with unique proposal ids, the delivery
   made when the i-th command of the log is executed goes to the connection that registered its
   id, and carries the reply computed for that command in the state the log prefix produced. *)
Theorem C07_own_reply : forall (step : db -> env -> list bytes -> reply * db) cb cs d envs i id args e c,
    NoDup (map fst cb) -> In (id, c) cb ->
    List.length envs = List.length cs ->
    nth_error cs i = Some (id, args) -> nth_error envs i = Some e ->
    nth_error (fst (apply_cmds step cb d envs cs)) i =
    Some (mkDel (Some c) id (fst (step (state_at step d envs cs i) e args))).
Proof. exact own_reply. Qed.
Print Assumptions C07_own_reply.

(* One log entry per acknowledged command.  C07_exactly_once_in_order applies every ENTRY once; that
   every COMMAND takes effect once needs the premise that the proposal ids of the committed log are
   pairwise different -- a proposal is handed to Raft once, however slow its commit is.  Then the
   apply loop executes exactly one thing under the id of an acknowledged command.  The premise is
   checked on every run (checks/c07.py: ids of two process lives; slow commits through the held
   loop-back; a frozen quorum on real nodes); C07_ex_duplicate shows what happens without it. *)
Theorem C07_one_entry_per_ack : forall (cs : list (bytes * list bytes)) id args,
    NoDup (map fst cs) -> In (id, args) cs -> executions id cs = 1%nat.
Proof. exact one_entry_per_ack. Qed.
Print Assumptions C07_one_entry_per_ack.

Example C07_ex_duplicate :
  executions (B "p1") (cmds_of w_dup_log) = 2%nat /\
  db_get (keyspace_after empty_db [(0, 0, RNil); (0, 0, RNil)]%Z w_dup_log) (B "n") = Some (VStr (B "2")) /\
  map dreply (fst (apply_cmds exec_step [(B "p1", 7%Z)] empty_db [(0, 0, RNil); (0, 0, RNil)]%Z (cmds_of w_dup_log)))
  = [RInt 1; RInt 2].
Proof. exact duplicated_entry_applied_twice. Qed.

(* A late result never answers a later command.  A connection gave up on proposal [i] (time-out; its
   registration is gone) and waits for its next proposal [i'], its only registration: the result of
   [i], whenever its entry is applied, is delivered to nobody, and everything ever delivered to the
   connection is the result of [i'].  This follows from delivery by lookup under the entry's id
   (foreign_reply) and is C14_reply_routed_by_origin seen from a waiter that re-registers; it is
   stated separately because it names the implementation facts it needs -- the registration is removed
   before the connection does anything else, and a result channel belongs to ONE proposal -- which
   checks/c07.py pins (late_tie: commit released around the time-out, slow-reading client, follow-up
   commands).  C07_ex_stale_registration: what a registration that outlives the give-up does. *)
Theorem C07_late_result_never_answers_later_command :
  forall (step : db -> env -> list bytes -> reply * db) cb cs d envs j i i' args e c,
    ~ In i (map fst cb) -> (forall id, In (id, c) cb -> id = i') ->
    List.length envs = List.length cs ->
    nth_error cs j = Some (i, args) -> nth_error envs j = Some e ->
    (exists r, nth_error (fst (apply_cmds step cb d envs cs)) j = Some (mkDel None i r)) /\
    (forall k dl, nth_error (fst (apply_cmds step cb d envs cs)) k = Some dl -> dconn dl = Some c -> did dl = i').
Proof. exact late_result_never_answers_later_command. Qed.
Print Assumptions C07_late_result_never_answers_later_command.

Example C07_ex_stale_registration :
  let cs := [(B "i", [B "RPUSH"; B "l"; B "late"]); (B "i2", [B "STRLEN"; B "s"])] in
  let cb := [(B "i", 7%Z); (B "i2", 7%Z)] in
  map (fun dl => (dconn dl, did dl, dreply dl)) (fst (apply_cmds exec_step cb empty_db [(0, 0, RNil); (0, 0, RNil)]%Z cs))
  = [(Some 7%Z, B "i", RInt 1); (Some 7%Z, B "i2", RInt 0)].
Proof. exact stale_registration_answers_next_command. Qed.

(* Log order is a linearization: replies are those of executing the commands in log order
   (C07_own_reply), and log order respects real time -- if a's reply was received before b was
   sent, a is before b in the log -- because the reply follows the apply, the apply follows the
   commit, the proposal follows the invocation (code_*: order of statements in HandleCluster /
   publishEntries / handleClusterCommits) and Raft places a proposal made after a commit behind
   it (raft_order: imported from C15). *)
Theorem C07_linearizable : forall (op : Type) (inv prop com app resp : op -> nat) (idx : op -> N),
    (forall o, (inv o <= prop o)%nat) ->
    (forall o, (com o <= app o)%nat) ->
    (forall o, (app o <= resp o)%nat) ->
    (forall a b, (com a < prop b)%nat -> idx a < idx b) ->
    forall a b, (resp a < inv b)%nat -> idx a < idx b.
Proof. exact log_order_respects_real_time. Qed.
Print Assumptions C07_linearizable.

(* non-vacuity *)
Example C07_ex_det :
  det_prog exec_step empty_db
           [(B "1", [B "SET"; B "k"; B "hello world"]); (B "2", [B "RPUSH"; B "l"; B "a"; B ""]);
            (B "3", [B "GET"; B "k"]); (B "4", [B "LRANGE"; B "l"; B "0"; B "-1"]); (B "5", [B "INCR"; B "n"])].
Proof. exact det_example. Qed.
Example C07_ex_run :
  let L := number_log 6 [PCmd (B "a") []; PEmpty; PCmd (B "b") []; PCmd (B "c") []] in
  ready_run 5 [] [log_window L 0 2; log_window L 1 2; log_window L 0 1; log_window L 3 5; []]
  = Some (9, L).
Proof. vm_compute. reflexivity. Qed.
