(* C09 — list commands preserve order, multiplicity and length exactly (statements only).
   Spec: Mem/ListsSpec.v (reference clauses over the abstract list value, key absent <-> []).
   Model: Mem/Lists.v (executors of memdb/list.go, list_struct.go), dispatched by Mem/Exec.v.
   Proofs: Mem/ListsProofs.v, Mem/ListsLposProofs.v, Mem/ListsLremProofs.v (executors vs clauses),
           Mem/ListsBlock.v (blocking pops), Mem/ListsRefine.v (dispatcher, programs). *)
Require Import Base.Bytes Base.GoInt Base.Reply Mem.Types Mem.Inv Mem.Lists Mem.Exec.
Require Import Mem.ListsSpec Mem.ListsProofs Mem.ListsBlock Mem.ListsRefine.
Require Import Mem.Server Mem.ListsBg Mem.ListsBgProofs Mem.ListsMulti Mem.ListsMultiProofs.
Require Import Permutation.
Local Open Scope Z_scope.

(* ---------------------------------------------------------------- one command *)
(* Every non-blocking list executor, on every keyspace satisfying the invariants, for every
   argument vector (all lists, indexes beyond both ends, min/max int64, counts, byte strings,
   malformed arity, keys of other types): the clause the reference gives for that argument
   vector accepts the reply and the change of the observable keyspace.  [step_ok] =
   exists c, ref_clause n args = Some c /\ accepts c (raw_view d) (raw_view d') r /\ lupd d d'. *)
Theorem C09_command_conforms : forall d now nowms n args hint r d',
  db_wf d -> lists_ok d -> is_bpop_name n = false ->
  lists_dispatch d now nowms n args hint = Some (r, d') ->
  step_ok n args d r d'.
Proof. exact lists_step. Qed.
Print Assumptions C09_command_conforms.

(* the reference clauses fix the reply and the resulting keyspace *)
Theorem C09_reference_deterministic : forall c a b1 b2 r1 r2,
  accepts c a b1 r1 -> accepts c a b2 r2 ->
  (forall k, b1 k = b2 k) /\ r1 = r2.
Proof. exact accepts_deterministic. Qed.
Print Assumptions C09_reference_deterministic.

(* the reported length is the number of elements *)
Theorem C09_llen_is_length : forall d c k,
  db_wf d -> lists_ok d ->
  match as_list (raw_view d k) with
  | Some l => exec_llen d [c; k] = (RInt (zlength l), d)
  | None => exec_llen d [c; k] = (err_wrongtype, d)
  end.
Proof. exact llen_is_length. Qed.
Print Assumptions C09_llen_is_length.

(* a WRONGTYPE reply changes nothing *)
Theorem C09_wrongtype_changes_nothing : forall d now nowms n args hint d',
  db_wf d -> lists_ok d -> is_bpop_name n = false ->
  lists_dispatch d now nowms n args hint = Some (err_wrongtype, d') ->
  forall k, raw_view d' k = raw_view d k.
Proof. exact lists_wrongtype_changes_nothing. Qed.
Print Assumptions C09_wrongtype_changes_nothing.

(* frame: keys the command does not name keep value and deadline *)
Theorem C09_frame : forall d now nowms n args hint r d' c,
  db_wf d -> lists_ok d -> is_bpop_name n = false ->
  lists_dispatch d now nowms n args hint = Some (r, d') -> ref_clause n args = Some c ->
  forall k, ~ In k (clause_keys c) -> raw_view d' k = raw_view d k.
Proof. exact lists_frame. Qed.
Print Assumptions C09_frame.

Theorem C09_frame_blocking : forall left d nowms args keys t r d' tend,
  db_wf d -> lists_ok d -> bpop_parse args = Some (keys, t) ->
  bpop_run left d nowms args = (r, d', tend) ->
  forall k, ~ In k keys -> view d' ((nowms + 100) / 1000) k = view d ((nowms + 100) / 1000) k.
Proof. exact bpop_frame. Qed.
Print Assumptions C09_frame_blocking.

(* ---------------------------------------------------------------- invariants (shapes of CONVENTIONS.md) *)
Theorem C09_dispatch_wf_pres : forall d now nowms n args hint r d',
  db_wf d -> lists_dispatch d now nowms n args hint = Some (r, d') -> db_wf d'.
Proof. exact lists_dispatch_wf_pres. Qed.
Print Assumptions C09_dispatch_wf_pres.

Theorem C09_dispatch_reply_wf : forall d now nowms n args hint r d',
  db_wf d -> lists_dispatch d now nowms n args hint = Some (r, d') -> reply_wf r = true.
Proof. exact lists_dispatch_reply_wf. Qed.
Print Assumptions C09_dispatch_reply_wf.

(* the value invariant: no empty list is ever stored (an emptied list's key and deadline are gone);
   it holds initially and every command, blocking or not, preserves it *)
Theorem C09_inv_initial : lists_ok empty_db.
Proof. exact lists_ok_empty. Qed.
Print Assumptions C09_inv_initial.

Theorem C09_inv_step : forall d now nowms n args hint r d',
  db_wf d -> lists_ok d -> lists_dispatch d now nowms n args hint = Some (r, d') ->
  db_wf d' /\ lists_ok d' /\ reply_wf r = true.
Proof. exact lists_dispatch_inv. Qed.
Print Assumptions C09_inv_step.

(* ---------------------------------------------------------------- programs *)
(* For all programs of list commands (through the real dispatcher [Exec.exec], expiry included),
   from any keyspace satisfying the invariants: the model's run is a run of the reference
   ([ref_run]: abstract keyspace, time passing by [age], each step accepted by its clause) with
   exactly the model's replies, ending in the abstract keyspace of the model's final state; the
   invariants hold at the end (hence, by induction, throughout). *)
Theorem C09_refines : forall p d,
  db_wf d -> lists_ok d -> Forall list_step p ->
  ref_run (raw_view d) p (fst (run d p)) (raw_view (snd (run d p))) /\
  db_wf (snd (run d p)) /\ lists_ok (snd (run d p)).
Proof. exact list_programs_refine. Qed.
Print Assumptions C09_refines.

(* ---------------------------------------------------------------- blocking pops *)
(* A client alone.  With the keyspace as it is at the first polling instant (100 ms after the
   call): if a listed key of another type comes first, WRONGTYPE; if some listed key holds a
   non-empty list, the reply is [first such key in argument order, its head (BLPOP) / tail (BRPOP)
   element] at that instant, that element removed, an emptied list deleted, nothing else touched;
   otherwise nil, with the clock advanced by exactly the timeout and nothing changed. *)
Theorem C09_blocking : forall left d nowms args keys t,
  db_wf d -> lists_ok d -> bpop_parse args = Some (keys, t) ->
  let t1 := (nowms + 100) / 1000 in
  match first_ready left (view d t1) keys with
  | RdNone => bpop_run left d nowms args = (RNil, d, nowms + block_timer_ms t)
  | _ => exists r d', bpop_run left d nowms args = (r, d', nowms + 100) /\
                      served left keys (view d t1) (view d' t1) r /\
                      db_wf d' /\ lists_ok d'
  end.
Proof. exact bpop_blocking. Qed.
Print Assumptions C09_blocking.

(* Whatever other connections do meanwhile ([evs]: any actions at any instants), a blocked pop
   with timeout t returns no earlier than the first tick and no later than t seconds after the
   call, and it returns nil exactly when that instant is reached.  (timeout 0: the timer is
   math.MaxInt ns, so it returns only when a poll succeeds.) *)
Theorem C09_blocking_bound : forall (O : Type) left keys t0 t (evs : list (Z * (db -> O * db))) d res tend evs' d' outs,
  0 <= t ->
  block (bpop_poll left keys) t0 t evs d = (res, tend, evs', d', outs) ->
  t0 + 100 <= tend <= t0 + block_timer_ms t /\ (res = None <-> tend = t0 + block_timer_ms t).
Proof. exact bpop_block_end. Qed.
Print Assumptions C09_blocking_bound.

(* Promptness: another connection acts once, at instant te, while the pop is blocked.  If nothing
   could be popped before and the first poll after te succeeds, the pop returns at that tick:
   after te and at most one polling period (100 ms) later. *)
Theorem C09_blocking_prompt : forall (O : Type) left keys t0 t te (f : db -> O * db) d d' r,
  t0 <= te ->
  let i := (te - t0) / 100 + 1 in
  i <= Z.pos (block_ticks t) ->
  (forall tt, t0 < tt <= te -> bpop_poll left keys d tt = None) ->
  bpop_poll left keys (snd (f d)) (t0 + 100 * i) = Some (r, d') ->
  block (bpop_poll left keys) t0 t [(te, f)] d = (Some r, t0 + 100 * i, [], d', [fst (f d)])
  /\ te < t0 + 100 * i <= te + 100.
Proof. exact bpop_block_prompt. Qed.
Print Assumptions C09_blocking_prompt.

(* Each element goes to exactly one popper (two poppers one after the other; the concurrent
   version is C05): a successful poll returns the end element of one listed key and removes
   exactly it, so the second popper can never be handed the same element; together they remove
   exactly the two elements they return. *)
Theorem C09_two_poppers : forall left1 left2 d keys1 keys2 k1 x1 d1 k2 x2 d2,
  bpop_try left1 d keys1 = Some (RArr [RBulk k1; RBulk x1], d1) ->
  bpop_try left2 d1 keys2 = Some (RArr [RBulk k2; RBulk x2], d2) ->
  elems d k1 = put_end left1 x1 (elems d1 k1) /\
  elems d1 k2 = put_end left2 x2 (elems d2 k2) /\
  (forall k, k <> k1 -> k <> k2 -> elems d2 k = elems d k) /\
  (k1 = k2 -> zlength (elems d2 k1) = zlength (elems d k1) - 2) /\
  (k1 <> k2 -> zlength (elems d2 k1) = zlength (elems d k1) - 1 /\
               zlength (elems d2 k2) = zlength (elems d k2) - 1).
Proof. exact two_poppers. Qed.
Print Assumptions C09_two_poppers.

(* The replay model used by the tie for steps during which other connections may act
   ([srv_exec_bg], Mem/ListsBg.v) is the plain dispatcher step when nobody else acts: exactly for
   every command that is not a well-formed blocking pop; for BLPOP/BRPOP (watchdog not involved)
   the same reply, the return instant of [bpop_run], and a server that looks the same at every
   later clock (the dispatcher has additionally dropped keys already expired at [now]). *)
Theorem C09_bg_no_events_is_plain_nonblocking : forall s conn now nowms args hint wd,
  blocking_form args = None ->
  srv_exec_bg s conn now nowms args hint [] wd =
  (fst (srv_exec s conn now nowms args hint), [], snd (srv_exec s conn now nowms args hint), nowms).
Proof. exact bg_no_events_plain_nonblocking. Qed.
Print Assumptions C09_bg_no_events_is_plain_nonblocking.

Theorem C09_bg_no_events_is_plain : forall s conn now nowms args hint wd lft keys t d,
  blocking_form args = Some (lft, keys, t) ->
  block_timer_ms t <= wd ->
  now = nowms / 1000 ->
  nth_error (sdbs s) (sel_lookup conn (ssel s)) = Some d -> db_wf d ->
  let '(r, outs, s_bg, tend) := srv_exec_bg s conn now nowms args hint [] wd in
  let '(r', s_pl) := srv_exec s conn now nowms args hint in
  r = r' /\ outs = [] /\ srv_equiv now s_bg s_pl /\
  tend = snd (bpop_run lft (purge d now) nowms args).
Proof. exact bg_no_events_plain_blocking. Qed.
Print Assumptions C09_bg_no_events_is_plain.

(* ---------------------------------------------------------------- several blocked poppers at once
   (Mem/ListsMulti.v: every popper has its own 100 ms ticker started at its own call, other
   connections push at arbitrary instants; [mrun] runs ANY sequence of atomic events, so every
   phase offset and every tie order is covered; [msim] is the scheduler the tie replays) *)

(* For any order of events, from a keyspace without deadlines, when the other connections only push
   or start blocking pops: per key, what was there plus what was pushed (acknowledged) is a
   permutation of what the poppers were handed plus what is still there. *)
Theorem C09_blocked_poppers_conservation : forall wd d0 evs,
  ttl d0 = [] -> Forall ok_ev evs ->
  let st := mrun wd evs (mkM d0 [] [] []) in
  forall k, Permutation (elems d0 k ++ vals_of k (m_pushed st)) (rets_of k (m_ps st) ++ elems (m_d st) k).
Proof. exact multi_conservation. Qed.
Print Assumptions C09_blocked_poppers_conservation.

(* Two different blocked poppers that were both handed value x from key k: x was there or was
   pushed at least twice.  So an element pushed once is returned to at most one popper. *)
Theorem C09_two_blocked_poppers_each_element_once : forall wd d0 evs i j pi pj ti tj k x,
  ttl d0 = [] -> Forall ok_ev evs ->
  let st := mrun wd evs (mkM d0 [] [] []) in
  i <> j ->
  nth_error (m_ps st) i = Some (pi, PDone (RArr [RBulk k; RBulk x]) ti) ->
  nth_error (m_ps st) j = Some (pj, PDone (RArr [RBulk k; RBulk x]) tj) ->
  (2 <= cnt (elems d0 k ++ vals_of k (m_pushed st)) x)%nat.
Proof. exact multi_each_element_once. Qed.
Print Assumptions C09_two_blocked_poppers_each_element_once.

(* While a key listed by a blocked popper holds elements, that popper's next tick finds some popper
   served (with a poll result, not by a timer) -- whatever happens in between, in any order:
   other poppers' polls at any phase, their timers, pushes, new blocked pops. *)
Theorem C09_blocked_popper_served_any_order : forall wd st0 mid i p n k t',
  ttl (m_d st0) = [] ->
  nth_error (m_ps st0) i = Some (p, PBlocked n) -> In k (pp_keys p) -> elems (m_d st0) k <> [] ->
  Forall (quiet i) mid ->
  served_now (m_ps st0) (m_ps (mrun wd (mid ++ [EPoll i t']) st0)).
Proof. exact multi_prompt. Qed.
Print Assumptions C09_blocked_popper_served_any_order.

(* ... and on the scheduler: the next tick n of a blocked popper is 100 ms after its previous poll
   or its call ([C09_tick_period]); the scheduler lets only events not later than n happen before
   that tick; so some popper is served within one polling period. *)
Theorem C09_blocked_popper_served_promptly : forall wd fuel st cmds log st' log' i p n k,
  msim wd fuel st cmds log = (st', log') ->
  ttl (m_d st) = [] -> nth_error (m_ps st) i = Some (p, PBlocked n) -> n < pp_t0 p + pp_timer p ->
  In k (pp_keys p) -> elems (m_d st) k <> [] -> Forall cmd_ok cmds ->
  exists rest, log' = log ++ rest /\
    ((exists mid post, rest = mid ++ EPoll i n :: post /\ Forall (fun e => ev_time e <= n) mid /\
                       served_now (m_ps st) (m_ps (mrun wd (mid ++ [EPoll i n]) st))) \/
     List.length rest = fuel).
Proof. exact sim_prompt. Qed.
Print Assumptions C09_blocked_popper_served_promptly.

Theorem C09_tick_period : forall wd e st j p m,
  nth_error (m_ps (mstep wd e st)) j = Some (p, PBlocked m) ->
  nth_error (m_ps st) j = Some (p, PBlocked m) \/ m = ev_time e + 100.
Proof. exact next_tick_100. Qed.
Print Assumptions C09_tick_period.

Theorem C09_scheduler_runs_its_log : forall wd fuel st cmds log st' log',
  msim wd fuel st cmds log = (st', log') -> exists evs, log' = log ++ evs /\ st' = mrun wd evs st.
Proof. exact msim_is_mrun. Qed.
Print Assumptions C09_scheduler_runs_its_log.

(* ---------------------------------------------------------------- the reference on the documentation's examples
   (sanity of the transcription; closed computations) *)
Definition L (ss : list bytes) := ss.
Example ref_lrange_doc :
  fst (ref_lrange (-100) 100 [B "one"; B "two"; B "three"]) = RArr [RBulk (B "one"); RBulk (B "two"); RBulk (B "three")]
  /\ fst (ref_lrange 5 10 [B "one"; B "two"; B "three"]) = RArr []
  /\ fst (ref_lrange (-3) 2 [B "one"; B "two"; B "three"]) = RArr [RBulk (B "one"); RBulk (B "two"); RBulk (B "three")].
Proof. repeat split; reflexivity. Qed.
Example ref_ltrim_doc : snd (ref_ltrim 1 (-1) [B "one"; B "two"; B "three"]) = [B "two"; B "three"].
Proof. reflexivity. Qed.
Example ref_lrem_doc :
  ref_lrem (-2) (B "hello") [B "hello"; B "hello"; B "foo"; B "hello"] = (RInt 2, [B "hello"; B "foo"]).
Proof. reflexivity. Qed.
Example ref_lpos_doc :
  let l := [B "a"; B "b"; B "c"; B "1"; B "2"; B "3"; B "c"; B "c"] in
  fst (ref_lpos (mkRefLpos 1 None 0) (B "c") l) = RInt 2 /\
  fst (ref_lpos (mkRefLpos (-1) None 0) (B "c") l) = RInt 7 /\
  fst (ref_lpos (mkRefLpos 1 (Some 2) 0) (B "c") l) = RArr [RInt 2; RInt 6] /\
  fst (ref_lpos (mkRefLpos (-1) (Some 2) 0) (B "c") l) = RArr [RInt 7; RInt 6] /\
  fst (ref_lpos (mkRefLpos 1 (Some 0) 0) (B "c") l) = RArr [RInt 2; RInt 6; RInt 7] /\
  fst (ref_lpos (mkRefLpos 1 (Some 0) 3) (B "c") l) = RArr [RInt 2] /\
  fst (ref_lpos (mkRefLpos 4 None 0) (B "c") l) = RNil.
Proof. repeat split; reflexivity. Qed.
Example ref_pop_doc :
  ref_popn true 2 [B "one"; B "two"; B "three"] = (RArr [RBulk (B "one"); RBulk (B "two")], [B "three"]) /\
  ref_popn false 2 [B "one"; B "two"; B "three"] = (RArr [RBulk (B "three"); RBulk (B "two")], [B "one"]) /\
  ref_popn false 9 [B "one"; B "two"] = (RArr [RBulk (B "two"); RBulk (B "one")], []) /\
  ref_popn true 0 [B "one"; B "two"] = (RArr [], [B "one"; B "two"]) /\
  ref_popn false 0 [] = (RNil, []).
Proof. repeat split; reflexivity. Qed.
Example ref_push_doc :
  snd (ref_push true [B "a"; B "b"; B "c"] []) = [B "c"; B "b"; B "a"] /\
  snd (ref_push false [B "a"; B "b"; B "c"] [B "x"]) = [B "x"; B "a"; B "b"; B "c"].
Proof. split; reflexivity. Qed.

(* the hypotheses are satisfiable, and a run computes: RPUSH k a b c; EXPIRE is not a list
   command, so deadlines come from the initial state here; LMOVE k k LEFT RIGHT; LRANGE k 0 -1;
   LPOP k 3; LLEN k (the emptied list is gone) *)
Definition demo_prog : list step :=
  [ mkStep 10 10000 [B "rpush"; B "k"; B "a"; B "b"; B "c"] RNil
  ; mkStep 10 10000 [B "LMOVE"; B "k"; B "k"; B "left"; B "RIGHT"] RNil
  ; mkStep 10 10000 [B "lrange"; B "k"; B "0"; B "-1"] RNil
  ; mkStep 11 11500 [B "blpop"; B "nokey"; B "k"; B "1"] RNil
  ; mkStep 11 11600 [B "lpop"; B "k"; B "3"] RNil
  ; mkStep 11 11600 [B "llen"; B "k"] RNil
  ; mkStep 11 11600 [B "brpop"; B "k"; B "1"] RNil ].
Example demo_is_list_prog : Forall list_step demo_prog.
Proof. repeat constructor; discriminate. Qed.
Example demo_run :
  run empty_db demo_prog =
  ([ RInt 3; RBulk (B "a"); RArr [RBulk (B "b"); RBulk (B "c"); RBulk (B "a")];
     RArr [RBulk (B "k"); RBulk (B "b")]; RArr [RBulk (B "c"); RBulk (B "a")]; RInt 0; RNil ], empty_db).
Proof. vm_compute. reflexivity. Qed.
Example demo_blocking_time :
  bpop_run false empty_db 11600 [B "brpop"; B "k"; B "1"] = (RNil, empty_db, 12600).
Proof. vm_compute. reflexivity. Qed.
(* promptness hypotheses are satisfiable: another connection pushes at +250 ms; served at +300 ms *)
Example demo_prompt :
  block (bpop_poll true [B "k"]) 20000 5
        [(20250, fun d => exec d 20 20250 [B "rpush"; B "k"; B "x"] RNil)] empty_db
  = (Some (RArr [RBulk (B "k"); RBulk (B "x")]), 20300, [], empty_db, [RInt 1]).
Proof. vm_compute. reflexivity. Qed.

(* ---------------------------------------------------------------- all command families (Mem/AllInv.v)
   "No empty list is stored" is preserved by every command of EVERY family (RENAME moving a
   list, DEL, SET overwriting it, expiry ...), hence by any interleaving of them. *)
Require Mem.AllInv Mem.ZSetsCompose.

Theorem C09_inv_all_commands : forall (prog : list (Z * Z * list bytes * reply)) (d : db),
  db_wf d -> lists_ok d ->
  db_wf (ZSetsCompose.run_cmds prog d) /\ lists_ok (ZSetsCompose.run_cmds prog d).
Proof. exact AllInv.lists_ok_all_commands. Qed.
Print Assumptions C09_inv_all_commands.

(* two poppers blocked on k with tickers 37 ms out of phase, a third connection pushes one element
   at +262 ms and two more at +571 ms: the first element goes to connection 0 at +300 (its tick
   comes first), connection 1 (BRPOP) takes the tail of the second push at +637; nothing twice *)
Example demo_two_blocked_poppers :
  db_exec_multi empty_db
    [ mkBg 0 50000 [B "blpop"; B "k"; B "3"] RNil; mkBg 1 50037 [B "brpop"; B "k"; B "2"] RNil;
      mkBg 9 50262 [B "rpush"; B "k"; B "x"] RNil; mkBg 9 50571 [B "rpush"; B "k"; B "y"; B "z"] RNil ] 20050
  = ([ (RArr [RBulk (B "k"); RBulk (B "x")], 50300); (RArr [RBulk (B "k"); RBulk (B "z")], 50637);
       (RInt 1, 50262); (RInt 2, 50571) ],
     mkDb [(B "k", VList [B "y"])] []).
Proof. vm_compute. reflexivity. Qed.
