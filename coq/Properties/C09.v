(* C09 — list commands preserve order, multiplicity and length exactly (statements only). *)
Require Import Base.Bytes Base.GoInt Base.Reply Mem.Types Mem.Lists.
Local Open Scope Z_scope.

(* LLEN reports the number of stored elements and changes nothing. *)
Theorem C09_llen_counts : forall (d : db) (c k : bytes) (l : list bytes),
  db_get d k = Some (VList l) -> exec_llen d [c; k] = (RInt (zlength l), d).
Proof. intros d c k l H. unfold exec_llen, get_list. rewrite H. reflexivity. Qed.
Print Assumptions C09_llen_counts.
