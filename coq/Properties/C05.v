(* C05 -- concurrent clients observe linearizable single-key operations.  Statements only.
   These theorems are about the lock model (transactions of Acq/Rel/Rd/Wr under reader-writer
   exclusion, arbitrary interleavings); the Go scheduler and memory model are not modelled. *)
Require Import List Arith Bool NArith ZArith String.
Import ListNotations.
Require Import Base.Bytes.
Require Import Conc.TwoPLDefs Conc.TwoPL Conc.LockModel Conc.Skel Conc.SkelSem Conc.SkelSound
               Conc.GroundBridge Conc.Corollaries Conc.Chain Conc.Alias Conc.KeysScan.

(* Two-phase locking => serializable, for any number of transactions and any interleaving that
   respects reader-writer exclusion: the final store and everything every transaction read
   (its local state = its reply) equal those of the serial execution in lock-point order. *)
Theorem C05_twopl_serializable :
  forall (Loc Lk Val Lst : Type) (Loc_eqb : Loc -> Loc -> bool) (Lk_eqb : Lk -> Lk -> bool),
    (forall a b, reflect (a = b) (Loc_eqb a b)) -> (forall a b, reflect (a = b) (Lk_eqb a b)) ->
    forall (guard : Loc -> Lk) (s : schedule Loc Lk Val Lst),
      legal Loc Lk Val Lst Lk_eqb s ->
      (forall t, In t (tids Loc Lk Val Lst s) -> wl Loc Lk Val Lst Lk_eqb guard (proj Loc Lk Val Lst t s) = true) ->
      forall st, state_eq Loc Val Lst (run Loc Lk Val Lst Loc_eqb (serial Loc Lk Val Lst s) st)
                          (run Loc Lk Val Lst Loc_eqb s st).
Proof. exact twopl_serializable. Qed.
Print Assumptions C05_twopl_serializable.

(* the serial order contains every transaction exactly once ... *)
Theorem C05_serial_order_complete :
  forall (Loc Lk Val Lst : Type) (Lk_eqb : Lk -> Lk -> bool) (guard : Loc -> Lk) (s : schedule Loc Lk Val Lst),
    (forall t, In t (tids Loc Lk Val Lst s) -> wl Loc Lk Val Lst Lk_eqb guard (proj Loc Lk Val Lst t s) = true) ->
    NoDup (commit_order Loc Lk Val Lst s) /\
    (forall t, In t (commit_order Loc Lk Val Lst s) <-> In t (tids Loc Lk Val Lst s)).
Proof. exact commit_order_complete. Qed.
Print Assumptions C05_serial_order_complete.

(* ... and respects real time: a transaction whose last event precedes the first event of
   another one comes first (the lock point lies between invocation and response) *)
Theorem C05_serial_order_real_time :
  forall (Loc Lk Val Lst : Type) (Lk_eqb : Lk -> Lk -> bool) (guard : Loc -> Lk) (s : schedule Loc Lk Val Lst) t t',
    (forall t0, In t0 (tids Loc Lk Val Lst s) -> wl Loc Lk Val Lst Lk_eqb guard (proj Loc Lk Val Lst t0 s) = true) ->
    precedes Loc Lk Val Lst s t t' -> before (commit_order Loc Lk Val Lst s) t t'.
Proof. exact commit_order_realtime. Qed.
Print Assumptions C05_serial_order_real_time.

(* the boolean abstract interpreter is sound: an accepted skeleton has only monitor-accepted runs
   (every access under the key's stripe in a sufficient mode, two-phase, ascending acquisition,
   every exit path releases), for every argument vector, variable valuation, branch, loop count *)
Theorem C05_well_locked_sound : forall nlocks lower sk args t,
  well_locked sk = true -> run_of nlocks lower sk args t -> gsafe nlocks t = true.
Proof. exact well_locked_sound. Qed.
Print Assumptions C05_well_locked_sound.

Theorem C05_goroutines_sound : forall nlocks lower sk b args t,
  well_locked sk = true -> In b (go_bodies sk) -> run_of nlocks lower b args t -> gsafe nlocks t = true.
Proof. exact go_bodies_sound. Qed.
Print Assumptions C05_goroutines_sound.

(* monitor-accepted runs split into well-locked two-phase transactions (hypothesis wl above) *)
Theorem C05_sections_well_locked :
  forall nlocks (Val Lst : Type) (fr : bytes -> Lst -> Val -> Lst) (fw : bytes -> Lst -> Val -> Lst * Val) t,
    gsafe nlocks t = true ->
    Forall (fun sec => wl bytes N Val Lst N.eqb (stripe nlocks) (to_tx Val Lst fr fw sec) = true) (sections nlocks t).
Proof. exact gsafe_wl. Qed.
Print Assumptions C05_sections_well_locked.

(* the chain: any interleaving (respecting RW exclusion of the stripes) of critical sections of
   executors accepted by the obligation is equivalent to the serial execution of those sections
   in lock-point order, which contains each once and respects real time = linearizable, each
   command (section) taking effect at one instant between its request and its reply *)
Theorem C05_linearizable :
  forall nlocks lower (Val Lst : Type) (fr : bytes -> Lst -> Val -> Lst) (fw : bytes -> Lst -> Val -> Lst * Val)
         (s : schedule bytes N Val Lst),
    legal bytes N Val Lst N.eqb s -> from_executors nlocks lower Val Lst fr fw s ->
    (forall st, state_eq bytes Val Lst (run bytes N Val Lst bytes_eqb (serial bytes N Val Lst s) st)
                                        (run bytes N Val Lst bytes_eqb s st)) /\
    NoDup (commit_order bytes N Val Lst s) /\
    (forall t, In t (commit_order bytes N Val Lst s) <-> In t (tids bytes N Val Lst s)) /\
    (forall t t', precedes bytes N Val Lst s t t' -> before (commit_order bytes N Val Lst s) t t').
Proof. exact executors_serializable. Qed.
Print Assumptions C05_linearizable.

(* Premise of all the above for REPLIES: [wl] demands that a read happens while the guard is held,
   but the executors hand the stored byte slice to the reply, which is serialised after the lock is
   released.  The premise replies_do_not_alias_mutable_state (Conc/Alias.v: no in-place write into a
   stored byte slice, or no reply handing one out) makes the late read equal to the read at the
   lock point; it is discharged on every run by the regenerated obligation obl_replies.  Without
   it: a reader that releases the read lock before reading two positions of a value, interleaved
   with a writer holding the write lock for both its writes, is lock-legal, the writer is wl, the
   reader is not, and it observes (old, new) -- a value no serial order produces. *)
Theorem C05_aliasing_reply_refuted :
  legal nat nat nat (nat * nat) Nat.eqb torn_schedule /\
  wl nat nat nat (nat * nat) Nat.eqb guard0 (proj nat nat nat (nat * nat) 2 torn_schedule) = true /\
  wl nat nat nat (nat * nat) Nat.eqb guard0 (proj nat nat nat (nat * nat) 1 torn_schedule) = false /\
  locals nat nat (nat * nat) (run nat nat nat (nat * nat) Nat.eqb torn_schedule st0) 1 = (0, 1) /\
  locals nat nat (nat * nat) (run nat nat nat (nat * nat) Nat.eqb (on 1 late_reader ++ on 2 writer) st0) 1 = (0, 0) /\
  locals nat nat (nat * nat) (run nat nat nat (nat * nat) Nat.eqb (on 2 writer ++ on 1 late_reader) st0) 1 = (1, 1) /\
  wl nat nat nat (nat * nat) Nat.eqb guard0 good_reader = true.
Proof. exact aliasing_reply_refuted. Qed.
Print Assumptions C05_aliasing_reply_refuted.

(* ---- corollaries: instances for arbitrary schedules (locations may share a lock) ---- *)
Theorem C05_no_lost_increment :
  forall (guard : nat -> nat) (s : schedule nat nat Z unit) (x : nat) (st : state nat Z unit),
    legal nat nat Z unit Nat.eqb s -> WL guard s ->
    (forall t, In t (tids nat nat Z unit s) -> data t s = [Wr x incr]) ->
    store nat Z unit (run nat nat Z unit Nat.eqb s st) x
    = (store nat Z unit st x + Z.of_nat (List.length (commit_order nat nat Z unit s)))%Z.
Proof. exact no_lost_increment. Qed.
Print Assumptions C05_no_lost_increment.

Theorem C05_no_lost_incrby :
  forall (guard : nat -> nat) (s : schedule nat nat Z unit) (x : nat) (d : nat -> Z) (st : state nat Z unit),
    legal nat nat Z unit Nat.eqb s -> WL guard s ->
    (forall t, In t (tids nat nat Z unit s) -> data t s = [Wr x (incrby (d t))]) ->
    store nat Z unit (run nat nat Z unit Nat.eqb s st) x
    = (store nat Z unit st x + zsum (map d (commit_order nat nat Z unit s)))%Z.
Proof. exact no_lost_incrby. Qed.
Print Assumptions C05_no_lost_incrby.

Theorem C05_setnx_one_winner :
  forall (guard : nat -> nat) (s : schedule nat nat (option nat) (option bool)) (x : nat) (tag : nat -> nat) st,
    legal nat nat (option nat) (option bool) Nat.eqb s -> WL guard s ->
    (forall t, In t (tids nat nat (option nat) (option bool) s) -> data t s = [Wr x (setnx_f (tag t))]) ->
    store nat (option nat) (option bool) st x = None -> s <> [] ->
    exists t, In t (commit_order nat nat (option nat) (option bool) s) /\
      locals nat (option nat) (option bool) (run nat nat (option nat) (option bool) Nat.eqb s st) t = Some true /\
      (forall t', In t' (commit_order nat nat (option nat) (option bool) s) -> t' <> t ->
         locals nat (option nat) (option bool) (run nat nat (option nat) (option bool) Nat.eqb s st) t' = Some false) /\
      store nat (option nat) (option bool) (run nat nat (option nat) (option bool) Nat.eqb s st) x = Some (tag t).
Proof. exact setnx_one_winner. Qed.
Print Assumptions C05_setnx_one_winner.

Theorem C05_each_element_popped_once :
  forall (guard : nat -> nat) (x : nat) (kind : nat -> option nat)
         (s : schedule nat nat (list nat) (option (option nat))) st,
    legal nat nat (list nat) (option (option nat)) Nat.eqb s -> WL guard s ->
    (forall t, In t (tids nat nat (list nat) (option (option nat)) s) -> data t s = [Wr x (qop kind t)]) ->
    NoDup (store nat (list nat) (option (option nat)) st x ++ pushed kind (commit_order nat nat (list nat) (option (option nat)) s)) ->
    forall t t' h h',
      In t (commit_order nat nat (list nat) (option (option nat)) s) ->
      In t' (commit_order nat nat (list nat) (option (option nat)) s) -> t <> t' ->
      kind t = None -> kind t' = None ->
      locals nat (list nat) (option (option nat)) (run nat nat (list nat) (option (option nat)) Nat.eqb s st) t = Some (Some h) ->
      locals nat (list nat) (option (option nat)) (run nat nat (list nat) (option (option nat)) Nat.eqb s st) t' = Some (Some h') ->
      h <> h'.
Proof. exact each_element_popped_once. Qed.
Print Assumptions C05_each_element_popped_once.

(* pushed + initial = popped + remaining, as multisets *)
Theorem C05_queue_conservation :
  forall (guard : nat -> nat) (x : nat) (kind : nat -> option nat)
         (s : schedule nat nat (list nat) (option (option nat))) st,
    legal nat nat (list nat) (option (option nat)) Nat.eqb s -> WL guard s ->
    (forall t, In t (tids nat nat (list nat) (option (option nat)) s) -> data t s = [Wr x (qop kind t)]) ->
    Permutation.Permutation
      (store nat (list nat) (option (option nat)) st x ++ pushed kind (commit_order nat nat (list nat) (option (option nat)) s))
      (popped kind (run nat nat (list nat) (option (option nat)) Nat.eqb s st) (commit_order nat nat (list nat) (option (option nat)) s) ++
       store nat (list nat) (option (option nat)) (run nat nat (list nat) (option (option nat)) Nat.eqb s st) x).
Proof. exact queue_conservation. Qed.
Print Assumptions C05_queue_conservation.

(* the key counter of ConcurrentMap after the repair: atomic adds commute, so the count is the
   initial value plus the sum of the deltas in every interleaving ... *)
Theorem C05_count_atomic_adds : forall (l l' : list Z) (a : Z),
  Permutation.Permutation l l' -> fold_left Z.add l' a = (a + zsum l)%Z.
Proof. exact atomic_adds_sum. Qed.
Print Assumptions C05_count_atomic_adds.
(* ... whereas the pinned code's read-then-write under different shard locks loses updates *)
Theorem C05_count_plain_increment_refuted : forall c : Z,
  let st := crun [false; true; false; true] (cinit c) in finished st /\ count st = (c + 1)%Z.
Proof. exact lost_update_possible. Qed.
Print Assumptions C05_count_plain_increment_refuted.

(* KEYS walks the shards one after the other while others insert and delete: whatever the
   interleaving (any sequence of states, any snapshot instants), a key present in its shard at every
   instant is in the reply, and everything in the reply was stored at an instant the scan looked at *)
Theorem C05_keys_contains_stable :
  forall (key : Type) (nshards : nat) (shard_of : key -> nat), (forall k, shard_of k < nshards) ->
  forall (st : nat -> nat -> list key) (ts : nat -> nat) (k : key),
    (forall t, In k (st t (shard_of k))) -> In k (scan key nshards st ts).
Proof. exact keys_contains_stable. Qed.
Print Assumptions C05_keys_contains_stable.
Theorem C05_keys_only_present :
  forall (key : Type) (nshards : nat) (st : nat -> nat -> list key) (ts : nat -> nat) (k : key),
    In k (scan key nshards st ts) -> exists j, j < nshards /\ In k (st (ts j) j).
Proof. exact keys_only_present. Qed.
Print Assumptions C05_keys_only_present.

(* ---- the hypotheses are satisfiable / the checkers are not vacuous ---- *)
Example C05_ex_wl :
  wl nat nat Z unit Nat.eqb (fun x => x) [Acq W 3; Commit; Wr 3 incr; Rel 3] = true /\
  wl nat nat Z unit Nat.eqb (fun x => x) [Acq R 3; Commit; Wr 3 incr; Rel 3] = false /\
  wl nat nat Z unit Nat.eqb (fun x => x) [Acq W 3; Commit; Rel 3; Wr 3 incr] = false.
Proof. repeat split; reflexivity. Qed.
Local Open Scope string_scope.
Example C05_ex_skeleton :   (* the shape of INCR; INCR without its lock; INCR releasing early *)
  well_locked [ECheckTTL (KArg 1); ELock W (KArg 1); EDefer [EUnlock W (KArg 1)];
               EDb ARead "Get" (KArg 1); EBranch [[EDb AWrite "Set" (KArg 1); EReturn]; []];
               EDb AWrite "Set" (KArg 1); EReturn] = true /\
  well_locked [ECheckTTL (KArg 1); EDb ARead "Get" (KArg 1); EDb AWrite "Set" (KArg 1); EReturn] = false /\
  well_locked [ELock W (KArg 1); EDb ARead "Get" (KArg 1); EUnlock W (KArg 1); EDb AWrite "Set" (KArg 1)] = false /\
  well_locked [ELock R (KArg 1); EDefer [EUnlock R (KArg 1)]; EDb AWrite "Set" (KArg 1)] = false.
Proof. vm_compute. repeat split; reflexivity. Qed.
Example C05_ex_monitor : forall nlocks k,
  gsafe nlocks [GAcq W (stripe nlocks k); GRd k; GWr k; GRel (stripe nlocks k)] = true.
Proof. exact gsafe_ex_ok. Qed.
