(* C05 -- concurrent clients observe linearizable single-key operations.  Statements only. *)
Require Import List Arith Bool.
Import ListNotations.
Require Import Conc.TwoPLDefs Conc.TwoPL.

Theorem C05_twopl_serializable :
  forall (Loc Lk Val Lst : Type) (Loc_eqb : Loc -> Loc -> bool) (Lk_eqb : Lk -> Lk -> bool),
    (forall a b, reflect (a = b) (Loc_eqb a b)) -> (forall a b, reflect (a = b) (Lk_eqb a b)) ->
    forall (guard : Loc -> Lk) (s : schedule Loc Lk Val Lst),
      legal Loc Lk Val Lst Lk_eqb s ->
      (forall t, In t (tids Loc Lk Val Lst s) -> wl Loc Lk Val Lst Lk_eqb guard (proj Loc Lk Val Lst t s) = true) ->
      forall st, state_eq Loc Val Lst (run Loc Lk Val Lst Loc_eqb (serial Loc Lk Val Lst s) st)
                          (run Loc Lk Val Lst Loc_eqb s st).
Proof. exact twopl_serializable. Qed.
Print Assumptions C05_twopl_serializable.
