(* C19 — published messages reach exactly the current subscribers, once, intact, in order;
   PUBLISH reports how many received it; concurrent operations are linearizable.
   Statements only; proofs live in PubSub/PubSubProofs.v and PubSub/PubSubConc.v.

   Vocabulary (PubSub/PubSubSpec.v, PubSub/PubSubModel.v):
     program            : list op, any number of connections, channels, messages, any payload bytes
     run init p         : the state of the model (repaired memdb/pubsub_struct.go) after p
     outq st c          : every reply the server wrote to connection c, in order
     chan_msgs ch q     : the payloads of the `message` pushes for channel ch in q, in order
     subscribed pre c ch: defined from the operations of the prefix alone (no table)
     expected p c ch    : the payloads published to ch at moments at which c was subscribed to ch *)
Require Import Base.Bytes Base.Reply Resp.ReplyCodec.
Require Import PubSub.PubSubSpec PubSub.PubSubModel PubSub.PubSubProofs PubSub.PubSubConc.

(* "subscribed at that moment", spelled out: never closed, and some SUBSCRIBE c ch of the
   prefix has no UNSUBSCRIBE c ch after it *)
Theorem C19_subscribed_meaning : forall pre c ch,
  subscribed pre c ch = true <->
  (exists p1 p2, pre = p1 ++ Subscribe c ch :: p2 /\ ~ In (Unsubscribe c ch) p2) /\
  ~ In (Close c) pre /\ ~ In (Disconnect c) pre.
Proof. exact subscribed_characterization. Qed.
Print Assumptions C19_subscribed_meaning.

(* for ALL programs: what connection c received for channel ch is, in order and each exactly
   once, the payloads published to ch during the intervals in which c was subscribed to ch *)
Theorem C19_delivery_exact : forall (p : list op) (c : conn) (ch : chan),
  chan_msgs ch (outq (run init p) c) = expected p c ch.
Proof. exact delivery_exact. Qed.
Print Assumptions C19_delivery_exact.

(* one PUBLISH after any prefix: every connection subscribed at that moment gets exactly one
   push carrying the channel and the payload verbatim, every other connection gets nothing, and
   the publisher then gets an integer *)
Theorem C19_publish_step : forall pre p ch m c,
  exists n,
    outq (run init (pre ++ [Publish p ch m])) c =
    outq (run init pre) c
      ++ (if subscribed pre c ch then [msg_reply ch m] else [])
      ++ (if N.eqb c p then [RInt n] else []).
Proof. exact publish_step_exact. Qed.
Print Assumptions C19_publish_step.

(* a connection that is subscribed to ch at none of the PUBLISHes to ch receives nothing for ch *)
Theorem C19_no_other_connection : forall p c ch,
  (forall p1 pb m p2, p = p1 ++ Publish pb ch m :: p2 -> subscribed p1 c ch = false) ->
  chan_msgs ch (outq (run init p) c) = [].
Proof. exact no_other_connection. Qed.
Print Assumptions C19_no_other_connection.

(* the reply of PUBLISH is the number of connections subscribed at that moment (and open) *)
Theorem C19_publish_count : forall pre p ch m,
  exists l : list conn,
    NoDup l /\ (forall c, In c l <-> subscribed pre c ch = true) /\
    exists q, outq (run init (pre ++ [Publish p ch m])) p = q ++ [RInt (Z.of_nat (length l))].
Proof. exact publish_count_exact. Qed.
Print Assumptions C19_publish_count.

(* a repeated SUBSCRIBE changes neither the table nor the id counter, and the connection has
   exactly one entry in the channel *)
Theorem C19_idempotent_subscribe : forall st c ch,
  let st1 := step st (Subscribe c ch) in
  let st2 := step st1 (Subscribe c ch) in
  (forall ch', tab st2 ch' = tab st1 ch') /\ nextid st2 = nextid st1 /\
  (forall c' ch', in_tab st2 c' ch' = in_tab st1 c' ch').
Proof. exact subscribe_idempotent. Qed.
Print Assumptions C19_idempotent_subscribe.

Theorem C19_subscribe_one_entry : forall pre c ch cr,
  tab (run init (pre ++ [Subscribe c ch])) ch = Some cr ->
  length (filter (fun e => N.eqb (snd e) c) (conns cr)) = 1%nat.
Proof. exact subscribe_one_entry. Qed.
Print Assumptions C19_subscribe_one_entry.

(* a SUBSCRIBE of a channel the connection is subscribed to already — the channel named twice in
   one command (SUBSCRIBE a a, SUBSCRIBE a b a: one Subscribe operation per occurrence, each with
   its own confirmation) or again in a later command — changes no delivery to anybody *)
Theorem C19_subscribe_command_duplicates : forall pre c ch q c' ch',
  subscribed pre c ch = true ->
  chan_msgs ch' (outq (run init (pre ++ Subscribe c ch :: q)) c') =
  chan_msgs ch' (outq (run init (pre ++ q)) c').
Proof. exact resubscribe_no_effect. Qed.
Print Assumptions C19_subscribe_command_duplicates.

(* after a disconnect the connection is in no channel's table ... *)
Theorem C19_disconnect_removes_everywhere : forall pre c ch,
  in_tab (run init (pre ++ [Disconnect c])) c ch = false.
Proof. exact disconnect_removes_everywhere. Qed.
Print Assumptions C19_disconnect_removes_everywhere.

(* ... a dead connection still registered is dropped by the next PUBLISH to the channel ... *)
Theorem C19_publish_prunes_closed : forall pre c p ch m,
  is_closed (run init pre) c = true ->
  in_tab (run init (pre ++ [Publish p ch m])) c ch = false.
Proof. exact publish_prunes_closed. Qed.
Print Assumptions C19_publish_prunes_closed.

(* ... but a PUBLISH never removes an open connection from any table: a stalled or dead subscriber
   does not take the healthy ones with it (they get this message by C19_publish_step and, still being
   subscribed, every later one by C19_delivery_exact) *)
Theorem C19_publish_keeps_open_subscribers : forall pre p ch m c ch',
  is_closed (run init pre) c = false ->
  in_tab (run init (pre ++ [Publish p ch m])) c ch' = in_tab (run init pre) c ch'.
Proof. exact publish_keeps_open_subscribers. Qed.
Print Assumptions C19_publish_keeps_open_subscribers.

(* ... and in both cases nothing is delivered to it ever again, whatever follows *)
Theorem C19_closed_receives_nothing : forall pre o c q ch,
  o = Close c \/ o = Disconnect c ->
  chan_msgs ch (outq (run init (pre ++ o :: q)) c) = chan_msgs ch (outq (run init pre) c).
Proof. exact closed_receives_nothing. Qed.
Print Assumptions C19_closed_receives_nothing.

(* the table invariant holds in every reachable state: unique ids, no duplicate
   (connection, channel) pair, numSubs = number of entries *)
Theorem C19_table_invariant : forall p ch cr,
  tab (run init p) ch = Some cr ->
  NoDup (map fst (conns cr)) /\ NoDup (map snd (conns cr)) /\
  numSubs cr = Z.of_nat (length (conns cr)).
Proof.
  intros p ch cr T. destruct (run_wf p init wf_init ch cr T) as (H1 & H2 & H3 & _).
  repeat split; assumption.
Qed.
Print Assumptions C19_table_invariant.

(* intact: for every channel name and payload (any bytes, any length) the bytes on the wire decode,
   with the client-side decoder of Resp/ReplyCodec.v, to exactly the replies of the model queue *)
Theorem C19_wire_intact : forall p c,
  decode_stream (encode_replies (outq (run init p) c)) = (outq (run init p) c, []).
Proof. exact wire_intact. Qed.
Print Assumptions C19_wire_intact.

(* concurrency, model level.  Assumed (hist_wf): every operation takes effect atomically at one
   instant between its invocation and its response — for the operations on one channel this is
   what holding the channel lock around every table access and around Send's writes gives
   (checked on the source by the lock obligation of checks/c19.py).  Then the concurrent result is
   the result of a sequential program: the operations in the order of their effect instants, each
   once, and that order respects real time. *)
Theorem C19_atomic_ops_linearizable : forall ops st h,
  hist_wf h ->
  exec_hist ops st h = run st (seq_of ops (lin h))
  /\ NoDup (lin h) /\ (forall i, In i (lin h) <-> In (ETake i) h)
  /\ (forall i j, before (ERes i) (EInv j) h -> In (ETake j) h -> before i j (lin h)).
Proof. exact atomic_ops_linearizable. Qed.
Print Assumptions C19_atomic_ops_linearizable.

(* operations on other channels (not ordered by any lock with those on ch) cannot influence what
   is delivered for ch or who is subscribed to ch: only ch's operations and closes matter *)
Theorem C19_channel_projection : forall p c ch,
  chan_msgs ch (outq (run init p) c) = chan_msgs ch (outq (run init (filter (relevant ch) p)) c).
Proof. exact channel_projection. Qed.
Print Assumptions C19_channel_projection.

Theorem C19_subscribed_projection : forall pre c ch,
  subscribed pre c ch = subscribed (filter (relevant ch) pre) c ch.
Proof. exact subscribed_projection. Qed.
Print Assumptions C19_subscribed_projection.

(* concurrent deliveries of one channel = the specification on the linearization *)
Theorem C19_atomic_channel_deliveries : forall ops h c ch,
  hist_wf h ->
  chan_msgs ch (outq (exec_hist ops init h) c) = expected (seq_of ops (lin h)) c ch.
Proof. exact atomic_channel_deliveries. Qed.
Print Assumptions C19_atomic_channel_deliveries.

(* ---------------------------------------------------------------- non-vacuity *)
Definition cx : chan := ["x"]%byte.
Definition cy : chan := ["y"]%byte.
Definition m1 : bytes := ["a"; "013"; "010"; "000"; "255"]%byte.   (* CR LF NUL 0xff inside *)
Definition m2 : bytes := [].
Definition demo : list op :=
  [Subscribe 1 cx; Subscribe 1 cx; Subscribe 2 cx; Publish 3 cx m1; Unsubscribe 1 cx;
   Publish 3 cx m2; Publish 3 cy m1; Disconnect 2; Publish 3 cx m1]%N.

(* 1 subscribed twice and gets m1 once; after its unsubscribe only 2 gets m2; nobody listens to y;
   after 2 left nobody is subscribed to x *)
Example C19_ex_deliveries :
  expected demo 1%N cx = [m1] /\ expected demo 2%N cx = [m1; m2] /\ expected demo 3%N cx = [] /\
  chan_msgs cx (outq (run init demo) 1%N) = [m1] /\
  outq (run init demo) 3%N = [RInt 2; RInt 1; RInt 0; RInt 0]%Z /\
  outq (run init demo) 2%N = [sub_reply cx; msg_reply cx m1; msg_reply cx m2].
Proof. vm_compute. repeat split; reflexivity. Qed.

(* hist_wf is satisfiable by a history with overlapping operations: 0 and 1 overlap, 2 is invoked
   after 0 returned; the effect order is 1, 0, 2 *)
Example C19_ex_history :
  hist_wf [EInv 0; EInv 1; ETake 1; ETake 0; ERes 0; EInv 2; ERes 1; ETake 2; ERes 2]
  /\ lin [EInv 0; EInv 1; ETake 1; ETake 0; ERes 0; EInv 2; ERes 1; ETake 2; ERes 2] = [1; 0; 2]%nat.
Proof.
  split; [|reflexivity]. constructor.
  - repeat (constructor; [cbn; intuition discriminate|]). constructor.
  - intros i H. cbn in H. repeat (destruct H as [H|H]; [try discriminate; inversion H; subst|]); try contradiction.
    + exists [EInv 0], [], [ETake 0; ERes 0; EInv 2; ERes 1; ETake 2; ERes 2]. reflexivity.
    + exists [], [EInv 1; ETake 1], [ERes 0; EInv 2; ERes 1; ETake 2; ERes 2]. reflexivity.
    + exists [EInv 0; EInv 1; ETake 1; ETake 0; ERes 0], [ERes 1], [ERes 2]. reflexivity.
  - intros i H. cbn in H. repeat (destruct H as [H|H]; [try discriminate; inversion H; subst|]); try contradiction.
    + exists [EInv 0; EInv 1; ETake 1], [], [EInv 2; ERes 1; ETake 2; ERes 2]. reflexivity.
    + exists [EInv 0; EInv 1], [ETake 0; ERes 0; EInv 2], [ETake 2; ERes 2]. reflexivity.
    + exists [EInv 0; EInv 1; ETake 1; ETake 0; ERes 0; EInv 2; ERes 1], [], []. reflexivity.
Qed.
