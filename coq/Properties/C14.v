(* C14 -- cluster mode does not change what a command means.
   Statements only; model in Cluster/ClusterEnc.v, proofs in Cluster/ClusterEncProofs.v.
   [exec] is the sequential meaning of a command (Mem/Exec.v), the same function the
   standalone properties (C01, C09, ...) are stated about. *)
Require Import Base.Bytes Base.GoInt Base.Reply Mem.Types Mem.Exec.
Require Import Cluster.ClusterEnc Cluster.ClusterEncProofs.
Require Import Cluster.ApplyLoop Cluster.ApplyLoopProofs.

(* --- the encoding of the pinned commit (join with spaces, JSON string, split on spaces) is
   not transparent: an argument with a space comes back as two arguments, a byte that is not
   valid UTF-8 comes back as EF BF BD.  Both witnesses were replayed on a real single-node
   cluster at the pinned commit; repaired by commit 1c56850. *)
Theorem C14_transparent_refuted :
  (exists args, Forall (fun a => ~ In bSP a) args /\ pinned_roundtrip args <> args) /\
  (exists args, Forall (fun a => utf8_sanitize a = a) args /\ pinned_roundtrip args <> args).
Proof. exact pinned_not_transparent. Qed.
Print Assumptions C14_transparent_refuted.

Theorem C14_same_as_standalone_refuted :
  exists args, forall now nowms hint,
      pinned_cluster_exec empty_db now nowms args hint <> exec empty_db now nowms args hint.
Proof. exact pinned_changes_meaning. Qed.
Print Assumptions C14_same_as_standalone_refuted.

(* --- the repaired encoding.  base64 as encoding/json applies it to []byte: *)
Theorem C14_base64_roundtrip : forall l : bytes, b64_decode (b64_encode l) = Some l.
Proof. exact b64_roundtrip. Qed.
Print Assumptions C14_base64_roundtrip.

(* The replicated log carries commands without altering them: for every argument vector --
   any number of arguments, every byte string, empty ones included -- decoding the log entry
   gives back exactly the vector and the proposal id.  ([id_plain]: the id is a UUID, made of
   characters JSON does not escape.) *)
(* NOTE on what "gives back exactly the vector" means.  [bytes] are VALUES (lists): the decoded
   arguments of the model are independent of one another by construction.  The Go-level fact this
   stands for -- and which the executors rely on, because MSET/SET/SETNX/APPEND keep the argument
   slice itself as the stored value and APPEND grows it in place -- is the premise
     decoded_args_independent: the [][]byte produced by decoding a log entry has no two elements
     sharing a backing array (capacity of one never reaches into another),
   which encoding/json guarantees for [][]byte (one allocation per element) and the RESP parser
   guarantees on the standalone path.  It is not expressible over values; it is pinned on every run
   by the aliasing family of checks/c14.py (store several arguments -> grow an earlier stored item
   in place -> read its neighbours, standalone vs cluster path vs model). *)
Theorem C14_transparent : forall (args : list bytes) (id : bytes),
    id_plain id = true -> decode_proposal (encode_proposal args id) = Some (args, id).
Proof. exact decode_encode. Qed.
Print Assumptions C14_transparent.

(* For every prior keyspace, clock and command that the cluster filter lets through, the reply
   and the resulting keyspace of the cluster path (filter, rconf shortcut or proposal ->
   JSON -> decode -> execute) are those of standalone execution.  No letter is folded, no
   argument altered, whatever its bytes. *)
Theorem C14_same_as_standalone : forall d now nowms args id hint,
    id_plain id = true -> cluster_filter args <> None ->
    cluster_exec d now nowms args id hint = let '(r, d') := exec d now nowms args hint in CDone r d'.
Proof. exact cluster_exec_standalone. Qed.
Print Assumptions C14_same_as_standalone.

(* The same for the whole log: if the payload applied at index i is the encoding of the i-th
   proposal -- premise [delivered = map encode props]: the bytes handed to raft.Node.Propose are
   immutable until the entry is applied (Raft keeps the slice, it does not copy) and are delivered in
   order (C15/C16) -- then the entry applied at index i decodes to exactly the arguments and id
   proposed for it.  The premise is exercised on every run with several proposals pending on one
   node (hook VerifClusterLoopbackMulti, concurrent clients on a real node). *)
Theorem C14_log_carries_unaltered : forall (props : list (list bytes * bytes)) (delivered : list bytes),
    Forall (fun p => id_plain (snd p) = true) props ->
    delivered = map (fun p => encode_proposal (fst p) (snd p)) props ->
    forall i p, nth_error props i = Some p ->
                option_map decode_proposal (nth_error delivered i) = Some (Some p).
Proof. exact log_carries_unaltered. Qed.
Print Assumptions C14_log_carries_unaltered.

(* "The same reply" in a cluster of several nodes: replies are routed by (origin node, id).  [cb] is
   the callback table of the node a connection talks to, [cs] the commands of the ONE shared log,
   proposed on any node.  If the proposal ids are unique in the whole log -- across nodes, not only
   per node -- the connection registered under [id] is answered by the entry of its own command,
   with the reply computed for that command at its log position, and by no other entry: what other
   nodes proposed carries other ids and never answers a local waiter.  (Premise checked on every
   run: two Managers fed from one log, hook VerifClusterLoopbackNodes; C14_ex_misrouted shows a
   per-node counter breaking it.) *)
Theorem C14_reply_routed_by_origin :
  forall (step : db -> env -> list bytes -> reply * db) cb cs d envs i id args e c,
    NoDup (map fst cs) -> NoDup (map fst cb) -> In (id, c) cb ->
    List.length envs = List.length cs ->
    nth_error cs i = Some (id, args) -> nth_error envs i = Some e ->
    nth_error (fst (apply_cmds step cb d envs cs)) i =
      Some (mkDel (Some c) id (fst (step (state_at step d envs cs i) e args))) /\
    (forall j dl, j <> i -> nth_error (fst (apply_cmds step cb d envs cs)) j = Some dl -> did dl <> id).
Proof. exact reply_routed_by_origin. Qed.
Print Assumptions C14_reply_routed_by_origin.

Example C14_ex_misrouted :
  let cs := [(B "1", [B "PING"]); (B "1", [B "INCR"; B "n"])] in
  let cbA := [(B "1", 7%Z)] in
  map (fun dl => (dconn dl, dreply dl)) (fst (apply_cmds exec_step cbA empty_db [(0, 0, RNil); (0, 0, RNil)]%Z cs))
  = [(Some 7%Z, RSimple (B "PONG")); (Some 7%Z, RInt 1)].
Proof. exact per_node_counter_misroutes. Qed.

(* What the filter refuses is exactly PUBLISH and SUBSCRIBE (in any letter case) -- the
   documented restriction "does not support pub/sub in cluster mode yet" -- and what it lets
   through it hands on unchanged. *)
Theorem C14_filter_refuses_only_pubsub : forall args,
    cluster_filter args = None <->
    exists n r, args = n :: r /\ (lower n = B "publish" \/ lower n = B "subscribe").
Proof. exact filter_refuses_only_pubsub. Qed.
Print Assumptions C14_filter_refuses_only_pubsub.

Theorem C14_filter_identity : forall args a, cluster_filter args = Some a -> a = args.
Proof. exact filter_identity. Qed.
Print Assumptions C14_filter_identity.

(* the entry is applied under the id its connection registered *)
Theorem C14_entry_keeps_id : forall d now nowms args id hint,
    id_plain id = true ->
    apply_entry d now nowms (encode_proposal args id) hint = Some (id, exec d now nowms args hint).
Proof. exact apply_entry_id. Qed.
Print Assumptions C14_entry_keeps_id.

(* non-vacuity: UUIDs satisfy the hypothesis; the witnesses of the refutation survive the
   repaired path *)
Example C14_ex_uuid : id_plain (B "6856d61e-41ff-433d-a918-51ee77bfbf07") = true.
Proof. exact uuid_plain. Qed.
Example C14_ex_witnesses :
  decode_proposal (encode_proposal w_space (B "id-1")) = Some (w_space, B "id-1") /\
  decode_proposal (encode_proposal w_nonutf8 (B "id-2")) = Some (w_nonutf8, B "id-2") /\
  decode_proposal (encode_proposal [] (B "id-3")) = Some ([], B "id-3") /\
  decode_proposal (encode_proposal [[]; []] (B "id-4")) = Some ([[]; []], B "id-4").
Proof. repeat split; vm_compute; reflexivity. Qed.
