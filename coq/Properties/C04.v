(* C04 — no client input can crash, wedge or hang the server.  Statements only.

   The command model [srv_exec] (Mem/Server.v over Mem/Exec.v, six families) is a total
   Gallina function: for EVERY command name and argument vector (any arity, any bytes) it
   yields a reply and a next state.  What "answers and keeps serving" adds to totality is
   stated below: the reply is a well-formed RESP value (so the connection stays in sync) and the
   next state satisfies the keyspace invariant that every later command relies on (so later
   commands on the same key, other keys and other connections are again covered by the same
   theorem) -- for all programs, all connections, all clocks.  Blocking commands: the only ones
   whose reply is delayed, by no more than their timeout (from the polling model of BLPOP/BRPOP).
   Malformed protocol bytes: Properties/C02.v (C02_total: the parser model has no crash / no
   unbounded allocation / no hang event on any byte stream).

   Tie (checks/c04.py): every command registered in the running implementation x every argument
   vector up to the tier's arity over the adversarial alphabet, against a keyspace with a key of
   each type: no recovered panic, no nil result, no hang, and reply + keyspace equal to this
   model's. *)
Require Import Base.Bytes Base.GoInt Base.Reply Mem.Types Mem.Inv Mem.Lists Mem.Exec Mem.Server.
Require Import Mem.Total Mem.TotalAll Mem.ListsBlock Mem.SetsExec Mem.SetsCompose.
Local Open Scope Z_scope.

(* one command: any name, any argument vector, any connection, any clock, any observed hint *)
Theorem C04_total_step : forall s conn now nowms args hint,
  srv_wf s ->
  srv_wf (snd (srv_exec s conn now nowms args hint)) /\
  reply_wf (fst (srv_exec s conn now nowms args hint)) = true.
Proof. exact srv_exec_total. Qed.
Print Assumptions C04_total_step.

(* any program from the initial server with n databases: every reply is well formed and the
   final state is well formed *)
Theorem C04_total_programs : forall n prog,
  srv_wf (snd (run_srv (srv_init n) prog)) /\
  Forall (fun r => reply_wf r = true) (fst (run_srv (srv_init n) prog)).
Proof. exact run_srv_total. Qed.
Print Assumptions C04_total_programs.

(* "keeps serving": after ANY program (however adversarial), any further command from any
   connection is answered with a well-formed reply and leaves a well-formed server *)
Theorem C04_keeps_serving : forall n prog conn now nowms args hint,
  let s := snd (run_srv (srv_init n) prog) in
  srv_wf (snd (srv_exec s conn now nowms args hint)) /\
  reply_wf (fst (srv_exec s conn now nowms args hint)) = true.
Proof.
  intros n prog conn now nowms args hint s. apply srv_exec_total.
  exact (proj1 (run_srv_total n prog)).
Qed.
Print Assumptions C04_keeps_serving.

(* every family separately meets the obligation the composition rests on *)
Theorem C04_every_family_ok : Forall family_ok families.
Proof. exact families_ok. Qed.
Print Assumptions C04_every_family_ok.

(* the only delayed replies: a blocking pop with timeout t returns no later than its timer
   (t seconds; timeout 0 = no deadline, it returns when an element arrives), whatever other
   connections do meanwhile *)
Theorem C04_blocking_bound : forall (O : Type) left keys t0 t (evs : list (Z * (db -> O * db))) d res tend evs' d' outs,
  0 <= t ->
  block (bpop_poll left keys) t0 t evs d = (res, tend, evs', d', outs) ->
  t0 + 100 <= tend <= t0 + block_timer_ms t /\ (res = None <-> tend = t0 + block_timer_ms t).
Proof. exact bpop_block_end. Qed.
Print Assumptions C04_blocking_bound.

(* non-vacuity: the initial server is well formed, and an adversarial program runs *)
Example C04_ex_init : srv_wf (srv_init 16).
Proof. apply srv_wf_init. Qed.

Example C04_ex_adversarial :
  let prog := [(1, 0, 0, [B "set"], RNil);
               (1, 0, 0, [B "getrange"; B "k"; B "0"; B "9223372036854775807"], RNil);
               (2, 0, 0, [B "zadd"; B "z"; B "ch"; B "1"; B "a"], RNil);
               (2, 0, 0, [B "xadd"; B "x"; B "nomkstream"; B "nomkstream"], RNil);
               (1, 0, 0, [B "srandmember"; B "s"; B "9223372036854775807"], RNil);
               (1, 0, 0, [], RNil)] in
  Forall (fun r => reply_wf r = true) (fst (run_srv (srv_init 1) prog)).
Proof. exact (proj2 (run_srv_total 1 _)). Qed.

(* ---------------------------------------------------------------- the value invariants, all families (Mem/AllInv.v)
   [all_ok d] = db_wf d /\ lists_ok d /\ hashes_ok d /\ sets_ok d /\ zsets_ok d /\ streams_ok d:
   the shared representation invariant and the value invariant of every typed family, each as
   its owner states it.  "Keeps serving" includes that no command of any family can leave a
   degenerate value behind for a later command to trip over. *)
Require Mem.AllInv Mem.AvlProofs Mem.StreamsProofs.

Theorem C04_value_invariants_initial : AllInv.all_ok empty_db.
Proof. exact AllInv.all_ok_empty. Qed.
Print Assumptions C04_value_invariants_initial.

(* EVERY command of EVERY family (any name, any argument vector), every clock, every observed
   reply: RENAME moving values between keys, DEL, SET overwriting a key of another type, the
   STORE forms, LMOVE, SMOVE, the expiry purge, ... *)
Theorem C04_value_invariants_step : forall d now nowms args hint,
  AllInv.all_ok d -> AllInv.all_ok (snd (exec d now nowms args hint)).
Proof. exact AllInv.exec_all_ok. Qed.
Print Assumptions C04_value_invariants_step.

Theorem C04_value_invariants_server_step : forall s conn now nowms args hint,
  AllInv.srv_all_ok s -> AllInv.srv_all_ok (snd (srv_exec s conn now nowms args hint)).
Proof. exact AllInv.srv_exec_all_ok. Qed.
Print Assumptions C04_value_invariants_server_step.

(* after any program of any commands of any families from any connections at any clocks, from
   the initial server: every numbered database satisfies all_ok *)
Theorem C04_value_invariants_programs : forall n prog,
  AllInv.srv_all_ok (snd (run_srv (srv_init n) prog)).
Proof. exact AllInv.run_srv_init_all_ok. Qed.
Print Assumptions C04_value_invariants_programs.

(* ... spelled out: no empty list / hash / set is ever stored, hash fields and set members are
   never duplicated, every stored sorted set is a valid AVL tree with consistent dict / len (and
   not empty), every stored stream has strictly increasing 64-bit ids *)
Theorem C04_no_degenerate_value_stored : forall n prog d k v,
  In d (sdbs (snd (run_srv (srv_init n) prog))) -> db_get d k = Some v ->
  match v with
  | VStr _ => True
  | VList l => l <> []
  | VHash h => h <> [] /\ NoDup (akeys h)
  | VSet s => NoDup s /\ s <> []
  | VZSet z => AvlProofs.zset_inv z /\ zroot z <> Leaf
  | VStream x => StreamsProofs.stream_ok x
  end.
Proof. exact AllInv.run_srv_init_value. Qed.
Print Assumptions C04_no_degenerate_value_stored.
