(* C01 -- string and generic key commands behave as a sequential Redis keyspace.
   Statements only; the specification is Mem/StringsSpec.v (one clause per command, each with the
   sentences of the command reference it encodes), the proofs are Mem/StringsProofs.v and
   Mem/StringsRefine.v.  [exec] is the model's step (Mem/Exec.v): purge the keys whose deadline
   has passed, then dispatch on the lower-cased command name. *)
Require Import Base.Bytes Base.GoInt Base.Reply Mem.Types Mem.Inv Mem.Strings Mem.Lists Mem.Exec.
Require Import Mem.StringsSpec Mem.StringsProofs Mem.StringsRefine Mem.StringsAll.
Require Import Glob.GlobSpec.
Local Open Scope Z_scope.

(* Every step, from every well-formed database (any keys, of any of the six types, with or
   without deadlines), at every clock, for every argument vector: the reply and the view afterwards
   are what the clause of the command prescribes.  (For a command that is not one of the
   property's commands [ref_step] says nothing.) *)
Theorem C01_step_refines : forall d now nowms args hint r d',
  db_wf d -> exec d now nowms args hint = (r, d') ->
  ref_step atoi64 model_floatlib (view d now) now args r (view d' now).
Proof. exact strings_step_refines. Qed.
Print Assumptions C01_step_refines.

(* Programs: any length, any interleaving of the string-family commands (the property's commands
   plus EXPIRE / TTL / PERSIST), any clocks, from any well-formed database: every entry of the
   run conforms, and the run is chained through the databases ([C01_run_chained]). *)
Theorem C01_refines : forall prog d, db_wf d ->
  Forall (fun s => strings_cmd (s_args s) = true) prog -> Forall step_conforms (run d prog).
Proof. exact refines_strings. Qed.
Print Assumptions C01_refines.

(* The same without any model database in the statement: the trace of (command, reply) pairs of
   the run is accepted by the specification read as a state machine over views (time passing
   between commands removes the keys whose deadline has been reached; clocks non-decreasing). *)
Theorem C01_refines_trace : forall prog d now0, db_wf d -> clocks_from now0 prog ->
  Forall (fun s => strings_cmd (s_args s) = true) prog ->
  accepts (view d now0) now0 (trace d prog).
Proof. exact refines_trace. Qed.
Print Assumptions C01_refines_trace.

Theorem C01_run_chained : forall prog d, chained d (run d prog).
Proof. intros prog d. apply run_chained. Qed.
Print Assumptions C01_run_chained.

(* Programs that also use the commands of other families: the same conclusion, given that each
   family preserves [db_wf] (<family>_dispatch_wf_pres; the strings family's own obligation is
   [C01_wf_preserved]).  Kept as the reusable conditional form; instantiated just below. *)
Theorem C01_refines_any_family : Forall family_wf_pres families ->
  forall prog d, db_wf d -> Forall step_conforms (run d prog).
Proof. exact refines_families. Qed.
Print Assumptions C01_refines_any_family.

(* ... and every family does: the closed statement.  Programs that interleave the C01 commands
   with ANY other commands of ANY family (lists, hashes, sets, sorted sets, streams, EXPIRE...):
   the C01 steps satisfy their clauses, and every database of the run -- also after a foreign
   step -- is well-formed, which is all the C01 clauses need. *)
Theorem C01_refines_all_commands : forall prog d, db_wf d ->
  Forall step_conforms (run d prog) /\ Forall step_wf (run d prog).
Proof. exact refines_all_commands. Qed.
Print Assumptions C01_refines_all_commands.

Theorem C01_refines_trace_all_commands : forall prog d now0, db_wf d -> clocks_from now0 prog ->
  accepts (view d now0) now0 (trace d prog).
Proof. exact refines_trace_all. Qed.
Print Assumptions C01_refines_trace_all_commands.

Theorem C01_exec_keeps_wf : forall d now nowms args hint r d',
  db_wf d -> exec d now nowms args hint = (r, d') -> db_wf d'.
Proof. exact exec_wf. Qed.
Print Assumptions C01_exec_keeps_wf.

(* the invariant: it holds initially, the strings family keeps it, its replies are well framed *)
Theorem C01_wf_empty : db_wf empty_db.
Proof. exact db_wf_empty. Qed.
Print Assumptions C01_wf_empty.

Theorem C01_wf_preserved : forall d now nowms n args hint r d',
  db_wf d -> strings_dispatch d now nowms n args hint = Some (r, d') -> db_wf d'.
Proof. exact strings_dispatch_wf_pres. Qed.
Print Assumptions C01_wf_preserved.

Theorem C01_reply_wf : forall d now nowms n args hint r d',
  strings_dispatch d now nowms n args hint = Some (r, d') -> reply_wf r = true.
Proof. exact strings_dispatch_reply_wf. Qed.
Print Assumptions C01_reply_wf.

(* numeric arguments: the model's reading (strconv.ParseInt) accepts every canonical int64
   decimal with its value, accepts nothing but sign? digit+ in range -- and it does accept the
   borderline spellings +5, 007, -0 that Redis rejects (the specification allows either). *)
Theorem C01_numeric_grammar : admissible atoi64.
Proof. exact atoi64_admissible. Qed.
Print Assumptions C01_numeric_grammar.

Theorem C01_numeric_borderline :
  atoi64 (B "+5") = Some 5 /\ atoi64 (B "007") = Some 7 /\ atoi64 (B "-0") = Some 0 /\
  atoi64 (B "-007") = Some (-7) /\ atoi64 (B "") = None /\ atoi64 (B " 5") = None /\
  atoi64 (B "5 ") = None /\ atoi64 (B "1_0") = None /\ atoi64 (B "0x10") = None /\
  atoi64 (B "9223372036854775808") = None /\ atoi64 (B "-9223372036854775808") = Some (- 2 ^ 63).
Proof. exact atoi64_borderline. Qed.
Print Assumptions C01_numeric_borderline.

(* Keys and values are arbitrary byte strings, stored and returned unchanged, case-sensitive:
   for all k v and every other key k' -- in particular one that differs only in letter case --
   SET k v; GET k  answers OK, then exactly v, and k' keeps its value and deadline. *)
Theorem C01_binary_safe : forall d now nowms c1 c2 k v h1 h2 r1 d1 r2 d2,
  db_wf d -> lower c1 = B "set" -> lower c2 = B "get" ->
  exec d now nowms [c1; k; v] h1 = (r1, d1) -> exec d1 now nowms [c2; k] h2 = (r2, d2) ->
  r1 = rOK /\ r2 = RBulk v /\ view d2 now k = Some (VStr v, None) /\
  forall k', k' <> k -> view d2 now k' = view d now k'.
Proof. exact binary_safe. Qed.
Print Assumptions C01_binary_safe.

Theorem C01_binary_safe_case : forall d now nowms c1 c2 k k' v h1 h2 r1 d1 r2 d2,
  db_wf d -> lower c1 = B "set" -> lower c2 = B "get" ->
  lower k' = lower k -> k' <> k ->
  exec d now nowms [c1; k; v] h1 = (r1, d1) -> exec d1 now nowms [c2; k] h2 = (r2, d2) ->
  r2 = RBulk v /\ view d2 now k' = view d now k'.
Proof. exact binary_safe_case. Qed.
Print Assumptions C01_binary_safe_case.

(* A command applied to a key holding another type fails with WRONGTYPE and changes nothing:
   for each form the reference lets fail that way ([wt_form]: GET, STRLEN, APPEND, INCR, DECR,
   INCRBY, DECRBY, GETRANGE, SETRANGE, INCRBYFLOAT with valid arguments, SET .. GET) the reply is
   WRONGTYPE, the database is exactly the purged database, every key keeps value and deadline. *)
Theorem C01_wrongtype_changes_nothing : forall d now nowms args hint k v t r d',
  db_wf d -> view d now k = Some (v, t) -> (forall b, v <> VStr b) -> wt_form k args ->
  exec d now nowms args hint = (r, d') ->
  is_wrongtype r /\ d' = purge d now /\ forall k', view d' now k' = view d now k'.
Proof. exact wrongtype_changes_nothing. Qed.
Print Assumptions C01_wrongtype_changes_nothing.

(* ... and conversely, whenever a string-family command answers WRONGTYPE nothing was written *)
Theorem C01_wrongtype_frame : forall d now nowms args hint r d',
  strings_cmd args = true -> exec d now nowms args hint = (r, d') -> is_wrongtype r -> d' = purge d now.
Proof. exact wrongtype_frame. Qed.
Print Assumptions C01_wrongtype_frame.

(* A command touches only the keys it names: every other key keeps its value and deadline. *)
Theorem C01_unknown_key_commands_frame : forall d now nowms args hint r d' k,
  db_wf d -> c01_command args = true -> exec d now nowms args hint = (r, d') ->
  ~ In k (keys_named args) -> view d' now k = view d now k.
Proof. exact commands_frame. Qed.
Print Assumptions C01_unknown_key_commands_frame.

(* The same, spelled out: a string/generic command leaves every key it does not name with the same
   value, the same type (what TYPE answers afterwards) and the same deadline; an absent key stays
   absent.  The model keeps one value per key, no two keys share anything -- which is what the
   tie's comparison of the whole keyspace after every step holds the implementation to. *)
Theorem C01_command_touches_only_named_keys : forall d now nowms args hint r d',
  db_wf d -> c01_command args = true -> exec d now nowms args hint = (r, d') ->
  forall k, ~ In k (keys_named args) ->
    (forall v t, view d now k = Some (v, t) ->
       view d' now k = Some (v, t) /\
       (exists c, lower c = B "type" /\ fst (exec d' now nowms [c; k] hint) = RSimple (ref_type_name v))) /\
    (view d now k = None -> view d' now k = None).
Proof. exact command_touches_only_named_keys. Qed.
Print Assumptions C01_command_touches_only_named_keys.

(* INCR / DECR / INCRBY / DECRBY on a stored integer n: either the exact sum n + delta (in Z) is in
   the int64 range, is the reply, and is stored as its canonical decimal (which reads back as the
   same number) with the deadline kept -- or it is outside the range, the reply is an error and
   nothing changes.  No wrap-around in between. *)
Theorem C01_incr_exact_or_rejected : forall d now nowms args hint k b t n delta r d',
  db_wf d -> view d now k = Some (VStr b, t) -> atoi64 b = Some n -> incr_form k args delta ->
  exec d now nowms args hint = (r, d') ->
  (in_int64 (n + delta) = true /\ r = RInt (n + delta) /\
   view d' now k = Some (VStr (z_to_dec (n + delta)), t) /\
   atoi64 (z_to_dec (n + delta)) = Some (n + delta))
  \/ (in_int64 (n + delta) = false /\ is_error r /\ forall k', view d' now k' = view d now k').
Proof. exact incr_exact_or_rejected. Qed.
Print Assumptions C01_incr_exact_or_rejected.

Theorem C01_incr_missing : forall d now nowms args hint k delta r d',
  db_wf d -> view d now k = None -> incr_form k args delta ->
  exec d now nowms args hint = (r, d') ->
  r = RInt delta /\ view d' now k = Some (VStr (z_to_dec delta), None).
Proof. exact incr_missing. Qed.
Print Assumptions C01_incr_missing.

(* strconv.ParseInt(s,10,64) = Some z  exactly when  s is sign? digit+, z is the base-ten value
   of the digits with that sign ([sign_digits]: Horner, defined in the specification), z in int64 *)
Theorem C01_atoi64_value : forall s z,
  atoi64 s = Some z <-> (sign_digits s = Some z /\ in_int64 z = true).
Proof. exact atoi64_value. Qed.
Print Assumptions C01_atoi64_value.

(* The generic key commands on keys holding a value of ANY of the six types ("prior keyspace
   contents including keys of other types"). *)
Theorem C01_type_names : forall b l s h z x,
  ref_type_name (VStr b) = B "string" /\ ref_type_name (VList l) = B "list" /\
  ref_type_name (VSet s) = B "set" /\ ref_type_name (VHash h) = B "hash" /\
  ref_type_name (VZSet z) = B "zset" /\ ref_type_name (VStream x) = B "stream".
Proof. exact type_names. Qed.
Print Assumptions C01_type_names.

Theorem C01_type_any_value : forall d now nowms c k hint r d',
  db_wf d -> lower c = B "type" -> exec d now nowms [c; k] hint = (r, d') ->
  r = RSimple (match view d now k with Some (v, _) => ref_type_name v | None => B "none" end) /\
  forall k', view d' now k' = view d now k'.
Proof. exact type_any_value. Qed.
Print Assumptions C01_type_any_value.

Theorem C01_rename_any_value : forall d now nowms c old new hint v t r d',
  db_wf d -> lower c = B "rename" -> view d now old = Some (v, t) ->
  exec d now nowms [c; old; new] hint = (r, d') ->
  r = rOK /\ view d' now new = Some (v, t) /\ (old <> new -> view d' now old = None) /\
  forall k, k <> old -> k <> new -> view d' now k = view d now k.
Proof. exact rename_any_value. Qed.
Print Assumptions C01_rename_any_value.

Theorem C01_rename_missing : forall d now nowms c old new hint r d',
  db_wf d -> lower c = B "rename" -> view d now old = None ->
  exec d now nowms [c; old; new] hint = (r, d') ->
  is_error r /\ forall k, view d' now k = view d now k.
Proof. exact rename_missing. Qed.
Print Assumptions C01_rename_missing.

Theorem C01_del_any_value : forall d now nowms c keys hint r d',
  db_wf d -> lower c = B "del" -> keys <> [] -> exec d now nowms (c :: keys) hint = (r, d') ->
  r = RInt (zlength (filter (fun k => match view d now k with Some _ => true | None => false end)
                            (nodup bytes_eq_dec keys))) /\
  forall k, view d' now k = if mentions keys k then None else view d now k.
Proof. exact del_any_value. Qed.
Print Assumptions C01_del_any_value.

Theorem C01_exists_any_value : forall d now nowms c keys hint r d',
  db_wf d -> lower c = B "exists" -> keys <> [] -> exec d now nowms (c :: keys) hint = (r, d') ->
  r = RInt (zlength (filter (fun k => match view d now k with Some _ => true | None => false end) keys)) /\
  forall k, view d' now k = view d now k.
Proof. exact exists_any_value. Qed.
Print Assumptions C01_exists_any_value.

Theorem C01_keys_any_value : forall d now nowms c p hint r d',
  db_wf d -> lower c = B "keys" -> exec d now nowms [c; p] hint = (r, d') ->
  (exists ks, r = RArr (map RBulk ks) /\ NoDup ks /\
              forall k, In k ks <-> (view d now k <> None /\ glob_matches p k)) /\
  forall k, view d' now k = view d now k.
Proof. exact keys_any_value. Qed.
Print Assumptions C01_keys_any_value.

(* SETRANGE at or past the end of a string (or on a missing key) with a non-empty argument: the
   result has length offset + len v; the old bytes are in place; EVERY byte between the old length
   and the offset reads as 0x00 (whatever lay in the executor's buffers); the argument follows; the
   deadline is kept.  ([nth i new x]: byte i of the stored value.) *)
Theorem C01_setrange_gap_is_zero : forall d now nowms c k o v hint off old t r d',
  db_wf d -> lower c = B "setrange" -> atoi64 o = Some off ->
  (view d now k = Some (VStr old, t) \/ (view d now k = None /\ old = [] /\ t = None)) ->
  zlength old <= off -> v <> [] -> off + zlength v <= max_len ->
  exec d now nowms [c; k; o; v] hint = (r, d') ->
  exists new, view d' now k = Some (VStr new, t) /\ r = RInt (off + zlength v) /\
    zlength new = off + zlength v /\
    forall (i : nat) (x : byte),
      ((i < List.length old)%nat -> nth i new x = nth i old x) /\
      ((List.length old <= i)%nat -> (i < Z.to_nat off)%nat -> nth i new x = nul) /\
      ((Z.to_nat off <= i)%nat -> (i < Z.to_nat off + List.length v)%nat -> nth i new x = nth (i - Z.to_nat off) v x).
Proof. exact setrange_gap_is_zero. Qed.
Print Assumptions C01_setrange_gap_is_zero.

(* every byte of what SETRANGE writes, for any offset >= 0 (also inside the old value) *)
Theorem C01_setrange_bytes : forall old off v (x : byte), 0 <= off ->
  List.length (setrange_of old off v) = Nat.max (List.length old) (Z.to_nat off + List.length v) /\
  forall i : nat,
    ((i < Z.to_nat off)%nat -> (i < List.length old)%nat -> nth i (setrange_of old off v) x = nth i old x) /\
    ((i < Z.to_nat off)%nat -> (List.length old <= i)%nat -> nth i (setrange_of old off v) x = nul) /\
    ((Z.to_nat off <= i)%nat -> (i < Z.to_nat off + List.length v)%nat ->
       nth i (setrange_of old off v) x = nth (i - Z.to_nat off) v x) /\
    ((Z.to_nat off + List.length v <= i)%nat -> (i < List.length old)%nat ->
       nth i (setrange_of old off v) x = nth i old x).
Proof. exact setrange_of_bytes. Qed.
Print Assumptions C01_setrange_bytes.

(* what INCRBYFLOAT stores and replies reads back as the same decimal (sign, digits, scale) *)
Theorem C01_incrbyfloat_format_roundtrip : forall m e,
  parse_dec (fmt_dec m e) = Some (m <? 0, Z.to_N (Z.abs m), e).
Proof. exact parse_dec_fmt_dec. Qed.
Print Assumptions C01_incrbyfloat_format_roundtrip.

(* INCRBYFLOAT inside the exactly modelled decimal domain: the sum is exact (over Z, scaled) *)
Theorem C01_incrbyfloat_sum_exact : forall m1 e1 m2 e2,
  let '(m, e) := dec_add m1 e1 m2 e2 in
  let E := N.max e1 e2 in
  (e <= E)%N /\ m * 10 ^ Z.of_N (E - e) = m1 * 10 ^ Z.of_N (E - e1) + m2 * 10 ^ Z.of_N (E - e2).
Proof. exact dec_add_exact. Qed.
Print Assumptions C01_incrbyfloat_sum_exact.

(* ------------------------------------------------------------------ non-vacuity *)
(* a database holding one key of each of the six types (one with a deadline) is well-formed *)
Definition ex_db : db :=
  mkDb [(B "s", VStr (B "10")); (B "l", VList [B "a"]); (B "t", VSet [B "m"]);
        (B "h", VHash [(B "f", B "v")]); (B "z", VZSet (mkZ Leaf 0 [])); (B "x", VStream [])]
       [(B "l", 2000000000); (B "s", 1500)].

Ltac nodup_bytes := repeat (constructor; [cbn; intuition discriminate|]); constructor.
Example ex_db_wf : db_wf ex_db.
Proof.
  unfold db_wf, ex_db, akeys. cbn [kv ttl map fst]. split; [nodup_bytes|]. split; [nodup_bytes|].
  intros k [<-|[<-|[]]]; cbn; auto 10.
Qed.

Definition st (now : Z) (a : list bytes) : step := mkStep now (now * 1000) a RNil.
Definition replies (tr : list (db * step * reply * db)) : list reply :=
  map (fun x => let '(_, _, r, _) := x in r) tr.

(* a concrete program from that database: types, WRONGTYPE, overwrite by SET, case-sensitive
   keys, binary values, GETRANGE / SETRANGE, INCR at the int64 edge, RENAME carrying a deadline,
   DEL / EXISTS counting, expiry of "s" at clock 1500 *)
Example ex_program :
  replies (run ex_db
    [ st 1000 [B "TYPE"; B "z"]; st 1000 [B "get"; B "l"]; st 1000 [B "INCR"; B "s"];
      st 1000 [B "append"; B "h"; B "x"]; st 1000 [B "set"; B "l"; B "v"; B "GET"];
      st 1000 [B "SET"; B "l"; B "v"]; st 1000 [B "get"; B "l"];
      st 1000 [B "set"; B "Foo"; [x00; xff; x0d; x0a]%byte]; st 1000 [B "get"; B "Foo"]; st 1000 [B "get"; B "foo"];
      st 1000 [B "set"; B "g"; B "Hello World"]; st 1000 [B "getrange"; B "g"; B "-5"; B "-1"];
      st 1000 [B "setrange"; B "g"; B "6"; B "Redis"]; st 1000 [B "get"; B "g"];
      st 1000 [B "set"; B "n"; B "9223372036854775807"]; st 1000 [B "incr"; B "n"]; st 1000 [B "decrby"; B "n"; B "7"];
      st 1000 [B "rename"; B "s"; B "s2"]; st 1000 [B "exists"; B "s"; B "s2"; B "s2"];
      st 1499 [B "get"; B "s2"]; st 1500 [B "get"; B "s2"];
      st 1500 [B "del"; B "g"; B "g"; B "nokey"; B "h"]; st 1500 [B "incrbyfloat"; B "f"; B "10.5"];
      st 1500 [B "incrbyfloat"; B "f"; B "-0.25"] ])
  = [ RSimple (B "zset"); err_wrongtype; RInt 11; err_wrongtype; err_wrongtype;
      rOK; RBulk (B "v");
      rOK; RBulk [x00; xff; x0d; x0a]%byte; RNil;
      rOK; RBulk (B "World"); RInt 11; RBulk (B "Hello Redis");
      rOK; err_other; RInt 9223372036854775800;
      rOK; RInt 2; RBulk (B "11"); RNil;
      RInt 2; RBulk (B "10.5"); RBulk (B "10.25") ].
Proof. vm_compute. reflexivity. Qed.

(* the generic key commands over keys of all six types of [ex_db]: TYPE of each, EXISTS counting
   them, KEYS listing them, RENAME moving a list with its deadline and a sorted set onto a hash,
   RENAME onto itself, MGET answering nil for non-strings, DEL counting distinct live keys, SET
   overwriting a key of another type *)
Example ex_program_all_types :
  replies (run ex_db
    [ st 1000 [B "type"; B "s"]; st 1000 [B "type"; B "l"]; st 1000 [B "type"; B "t"]; st 1000 [B "type"; B "h"];
      st 1000 [B "type"; B "z"]; st 1000 [B "type"; B "x"]; st 1000 [B "type"; B "nokey"];
      st 1000 [B "exists"; B "s"; B "l"; B "t"; B "h"; B "z"; B "x"; B "nokey"];
      st 1000 [B "keys"; B "*"];
      st 1000 [B "rename"; B "l"; B "l2"]; st 1000 [B "type"; B "l2"]; st 1000 [B "ttl"; B "l2"]; st 1000 [B "exists"; B "l"];
      st 1000 [B "rename"; B "z"; B "h"]; st 1000 [B "type"; B "h"]; st 1000 [B "rename"; B "x"; B "x"]; st 1000 [B "type"; B "x"];
      st 1000 [B "mget"; B "s"; B "t"; B "h"];
      st 1000 [B "del"; B "t"; B "x"; B "nokey"; B "t"]; st 1000 [B "keys"; B "*"];
      st 1000 [B "set"; B "h"; B "now a string"]; st 1000 [B "type"; B "h"] ])
  = [ RSimple (B "string"); RSimple (B "list"); RSimple (B "set"); RSimple (B "hash");
      RSimple (B "zset"); RSimple (B "stream"); RSimple (B "none");
      RInt 6;
      RArr [RBulk (B "s"); RBulk (B "l"); RBulk (B "t"); RBulk (B "h"); RBulk (B "z"); RBulk (B "x")];
      rOK; RSimple (B "list"); RInt 1999999000; RInt 0;
      rOK; RSimple (B "zset"); rOK; RSimple (B "stream");
      RArr [RBulk (B "10"); RNil; RNil];
      RInt 2; RArr [RBulk (B "s"); RBulk (B "l2"); RBulk (B "h")];
      rOK; RSimple (B "string") ].
Proof. vm_compute. reflexivity. Qed.

(* the hypotheses of the corollaries are satisfiable on that database *)
Example ex_wrongtype_form : wt_form (B "l") [B "GETRANGE"; B "l"; B "0"; B "-1"].
Proof. eapply WT_getrange; reflexivity. Qed.
Example ex_incr_form : incr_form (B "s") [B "DecrBy"; B "s"; B "3"] (-3).
Proof. apply (IF_decrby _ _ _ 3); reflexivity. Qed.
Example ex_view : view ex_db 1000 (B "s") = Some (VStr (B "10"), Some 1500) /\ view ex_db 1500 (B "s") = None.
Proof. split; reflexivity. Qed.

(* ---------------------------------------------------------------- unconditional (Mem/AllInv.v)
   every family of [families] preserves db_wf, so C01_refines_any_family needs no hypothesis *)
Require Mem.AllInv.

Theorem C01_every_family_wf_pres : Forall family_wf_pres families.
Proof. exact AllInv.families_wf_pres. Qed.
Print Assumptions C01_every_family_wf_pres.

Theorem C01_refines_all_families : forall prog d, db_wf d -> Forall step_conforms (run d prog).
Proof. exact (refines_families AllInv.families_wf_pres). Qed.
Print Assumptions C01_refines_all_families.

(* the gap of a SETRANGE past the end is zero bytes; a missing key is zero-padded from the start *)
Example ex_setrange_gap :
  replies (run empty_db [ st 1000 [B "SET"; B "k"; B "abc"]; st 1000 [B "SETRANGE"; B "k"; B "4"; B "X"];
                          st 1000 [B "GET"; B "k"]; st 1000 [B "SETRANGE"; B "m"; B "2"; B "Z"]; st 1000 [B "GET"; B "m"] ])
  = [ rOK; RInt 5; RBulk ("a" :: "b" :: "c" :: "000" :: "X" :: nil)%byte; RInt 3; RBulk ("000" :: "000" :: "Z" :: nil)%byte ].
Proof. vm_compute. reflexivity. Qed.

(* equal values are independent values: two counters with the same value, each appended to *)
Example ex_no_aliasing :
  replies (run empty_db [ st 1000 [B "INCR"; B "a"]; st 1000 [B "INCR"; B "b"]; st 1000 [B "APPEND"; B "a"; B "0"];
                          st 1000 [B "APPEND"; B "b"; B "5"]; st 1000 [B "MGET"; B "a"; B "b"]; st 1000 [B "INCR"; B "a"] ])
  = [ RInt 1; RInt 1; RInt 2; RInt 2; RArr [RBulk (B "10"); RBulk (B "15")]; RInt 11 ].
Proof. vm_compute. reflexivity. Qed.
