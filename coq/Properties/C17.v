(* C17 — KEYS glob matching follows the documented grammar for every pattern.
   Statements only; proofs live in Glob/GlobProofs.v. *)
Require Import Base.Bytes Glob.GlobSpec Glob.GlobModel Glob.GlobProofs.

(* For every pattern and every subject (all byte strings, no length bound) the matcher
   answers true exactly when the pattern parses under the documented grammar and the
   subject is in its language.  A syntactically broken pattern has no parse, hence matches
   nothing.  gmatch is a total Gallina function: it terminates and cannot crash. *)
Theorem C17_correct : forall p s : bytes, gmatch p s = true <-> glob_matches p s.
Proof. exact gmatch_correct. Qed.
Print Assumptions C17_correct.

Theorem C17_broken_matches_nothing :
  forall p : bytes, (forall a, ~ Parses p a) -> forall s, gmatch p s = false.
Proof.
  intros p Hno s. destruct (gmatch p s) eqn:E; [|reflexivity].
  apply gmatch_correct in E as (a & Hp & _). destruct (Hno a Hp).
Qed.
Print Assumptions C17_broken_matches_nothing.

(* the grammar is unambiguous *)
Theorem C17_grammar_unambiguous : forall p a1 a2, Parses p a1 -> Parses p a2 -> a1 = a2.
Proof. intros p a1 a2 H1 H2. exact (Parses_functional p a1 H1 a2 H2). Qed.
Print Assumptions C17_grammar_unambiguous.

(* KEYS returns exactly the live keys in the language of the pattern *)
Theorem C17_keys_exact : forall p live k,
  In k (keys_filter p live) <-> In k live /\ glob_matches p k.
Proof. exact keys_filter_exact. Qed.
Print Assumptions C17_keys_exact.

(* non-vacuity: concrete patterns parse and match / are broken *)
Example C17_ex_match :
  gmatch ("h"::"["::"^"::"a"::"-"::"c"::"]"::"*"::"\"::"*"::nil)%byte ("h"::"x"::"y"::"z"::"*"::nil)%byte = true
  /\ gmatch ("h"::"["::"e"::"-"::"]"::nil)%byte ("h"::"e"::nil)%byte = false.
Proof. split; reflexivity. Qed.
