(* C20 -- numbered databases are isolated keyspaces; SELECT validates; selection is per connection
   (statements only; proofs in Mem/ServerProofs.v).

   Vocabulary (Mem/Server.v): server = list of databases [sdbs] + selection table [ssel]
   (connection id -> index, default 0); [srv_exec s conn now nowms args hint] one command of
   connection [conn]; [srv_run s prog] a program of steps (connection, clocks, arguments, hint) in
   the order the server executes them, i.e. an arbitrary interleaving of the connections. *)
Require Import Base.Bytes Base.GoInt Base.Reply Mem.Types Mem.Exec Mem.Server Mem.ServerProofs.
Local Open Scope Z_scope.

(* ------------------------------------------------------------------ C20_select_validates *)
(* SELECT <arg> is accepted iff arg is a decimal integer as Go's strconv.Atoi reads it (see
   C20_select_argument_forms) with 0 <= i < number of databases.  Accepted: reply OK, the
   databases are untouched, this connection now selects i, every other connection selects what
   it selected before.  Rejected: an error reply and the server state is unchanged. *)
Theorem C20_select_validates : forall s conn now nowms c arg hint,
  lower c = B "select" ->
  let res := srv_exec s conn now nowms [c; arg] hint in
  match atoi64 arg with
  | Some i =>
    if (0 <=? i) && (i <? zlength (sdbs s))
    then fst res = rOK /\ sdbs (snd res) = sdbs s /\
         sel_lookup conn (ssel (snd res)) = Z.to_nat i /\
         forall c', c' <> conn -> sel_lookup c' (ssel (snd res)) = sel_lookup c' (ssel s)
    else res = (err_other, s)
  | None => res = (err_other, s)
  end.
Proof. exact select_validates. Qed.
Print Assumptions C20_select_validates.

(* any other number of arguments: error, state unchanged *)
Theorem C20_select_wrong_arity : forall s conn now nowms c rest hint,
  lower c = B "select" -> List.length rest <> 1%nat ->
  srv_exec s conn now nowms (c :: rest) hint = (err_other, s).
Proof. exact select_wrong_arity. Qed.
Print Assumptions C20_select_wrong_arity.

(* The accepted argument strings: an optional single '+' or '-', then one or more ASCII digits,
   nothing else (no spaces, no '.', no exponent, no '_'; leading zeros are allowed), denoting a
   value within int64 -- and every such string denotes an integer and is accepted iff that
   integer is within int64. *)
Theorem C20_select_argument_forms :
  (forall s z, atoi64 s = Some z ->
     exists sg ds, s = sg ++ ds /\ (sg = [] \/ sg = B "+" \/ sg = B "-") /\
                   ds <> [] /\ Forall is_digit ds /\ in_int64 z = true) /\
  (forall sg ds, (sg = [] \/ sg = B "+" \/ sg = B "-") -> ds <> [] -> Forall is_digit ds ->
     exists z, parse_int_unbounded (sg ++ ds) = Some z /\
               atoi64 (sg ++ ds) = if in_int64 z then Some z else None) /\
  (forall z, in_int64 z = true -> atoi64 (z_to_dec z) = Some z).
Proof. split; [exact atoi64_form|]. split; [exact atoi64_form_conv|exact atoi64_z_to_dec]. Qed.
Print Assumptions C20_select_argument_forms.

(* ------------------------------------------------------------------ C20_isolation *)
(* In a server with n > 0 databases in a reachable state ([srv_wf], an invariant: see
   C20_wf_invariant), a command other than SELECT issued by connection conn runs against the
   database conn has selected and nothing else: reply and new contents of that database are
   those of the single-database step [exec]; every other database and every connection's
   selection are unchanged. *)
Theorem C20_isolation : forall n s conn now nowms args hint,
  srv_wf n s -> (n > 0)%nat -> is_select args = false -> args <> [] ->
  let i := sel_lookup conn (ssel s) in
  exists d, nth_error (sdbs s) i = Some d /\
    let res := srv_exec s conn now nowms args hint in
    fst res = fst (exec d now nowms args hint) /\
    nth_error (sdbs (snd res)) i = Some (snd (exec d now nowms args hint)) /\
    (forall j, j <> i -> nth_error (sdbs (snd res)) j = nth_error (sdbs s) j) /\
    ssel (snd res) = ssel s.
Proof. exact isolation. Qed.
Print Assumptions C20_isolation.

(* the reply depends only on the selected database (not on the other databases, not on who asks) *)
Theorem C20_reply_depends_on_selected_db : forall s1 s2 c1 c2 now nowms args hint d,
  is_select args = false ->
  nth_error (sdbs s1) (sel_lookup c1 (ssel s1)) = Some d ->
  nth_error (sdbs s2) (sel_lookup c2 (ssel s2)) = Some d ->
  fst (srv_exec s1 c1 now nowms args hint) = fst (srv_exec s2 c2 now nowms args hint).
Proof. exact reply_depends_on_selected_db. Qed.
Print Assumptions C20_reply_depends_on_selected_db.

Theorem C20_wf_invariant : forall n p, srv_wf n (snd (srv_run (srv_init n) p)).
Proof. intros n p. apply srv_run_wf. apply srv_wf_init. Qed.
Print Assumptions C20_wf_invariant.

(* ------------------------------------------------------------------ C20_one_keyspace_per_index *)
(* Database number i is ONE keyspace, shared by all connections that have selected i: after any
   interleaved program of any number of connections, the content of database i is what the
   commands addressed to i ([addressed]: the non-SELECT commands issued, by whichever connection,
   while that connection had i selected), in the order the server executed them, produce on that
   single database -- and each of those commands was answered from that single database.  So a
   write by c1 in database i is visible to every c2 with sel c2 = i, whenever and in whatever
   order the connections selected i. *)
Theorem C20_one_keyspace_per_index : forall p i s d,
  nth_error (sdbs s) i = Some d ->
  let a := addressed i s p in
  nth_error (sdbs (snd (srv_run s p))) i = Some (snd (db_run d (map fst a))) /\
  map snd a = fst (db_run d (map fst a)).
Proof. exact one_keyspace_per_index. Qed.
Print Assumptions C20_one_keyspace_per_index.

(* two-step form: c2 reads what c1 left, for any two connections selecting the same index *)
Theorem C20_write_visible_same_index :
  forall s c1 c2 now1 nowms1 args1 hint1 now2 nowms2 args2 hint2 d,
  sel_lookup c1 (ssel s) = sel_lookup c2 (ssel s) ->
  nth_error (sdbs s) (sel_lookup c1 (ssel s)) = Some d ->
  is_select args1 = false -> args1 <> [] -> is_select args2 = false -> args2 <> [] ->
  fst (srv_exec (snd (srv_exec s c1 now1 nowms1 args1 hint1)) c2 now2 nowms2 args2 hint2) =
  fst (exec (snd (exec d now1 nowms1 args1 hint1)) now2 nowms2 args2 hint2).
Proof. exact write_visible_same_index. Qed.
Print Assumptions C20_write_visible_same_index.

(* ------------------------------------------------------------------ C20_per_connection *)
(* For every interleaved program of any number of connections, started from any server state:
   the database connection c has selected at the end is the one it would have selected had only
   its own commands been run. *)
Theorem C20_per_connection : forall p c s,
  sel_lookup c (ssel (snd (srv_run s p))) = sel_lookup c (ssel (snd (srv_run s (own c p)))).
Proof. intros p c s. apply per_connection; reflexivity. Qed.
Print Assumptions C20_per_connection.

(* ------------------------------------------------------------------ C20_fresh_connection_db0 *)
(* Programs with connections that come and go: events [EvCmd x] (a command) and [EvClose c]
   (connection c ended: the server forgets its selection, [srv_disconnect]).  Any connection that
   starts at any point of any program is in database 0, whatever earlier connections -- its
   predecessor under the same id included -- selected, and it stays there until its own first
   SELECT:
     (new id)   an id that issues no SELECT in p is in database 0 after p, from srv_init;
     (reused)   after [EvClose c], at any point, from any server state, c is in database 0. *)
Theorem C20_fresh_connection_db0 : forall n c,
  sel_lookup c (ssel (srv_init n)) = 0%nat /\
  (forall p, Forall (no_select_by c) p ->
             sel_lookup c (ssel (snd (srv_run_ev (srv_init n) p))) = 0%nat) /\
  (forall s p q, Forall (no_select_by c) q ->
             sel_lookup c (ssel (snd (srv_run_ev s (p ++ EvClose c :: q)))) = 0%nat).
Proof.
  intros n c. split; [apply fresh_connection_db0|]. split.
  - intros p. apply new_connection_db0.
  - intros s p q. apply reconnect_db0.
Qed.
Print Assumptions C20_fresh_connection_db0.

(* closing a connection touches no database and no other connection's selection *)
Theorem C20_disconnect_frame : forall s c, sdbs (srv_disconnect s c) = sdbs s /\
  forall c', c' <> c -> sel_lookup c' (ssel (srv_disconnect s c)) = sel_lookup c' (ssel s).
Proof. exact disconnect_frame. Qed.
Print Assumptions C20_disconnect_frame.

(* the program form without lifecycle events (kept from the first round) *)
Theorem C20_silent_connection_db0 : forall n c p, Forall (fun x => ss_conn x <> c) p ->
  sel_lookup c (ssel (snd (srv_run (srv_init n) p))) = 0%nat.
Proof. intros n c p. apply silent_connection_db0. Qed.
Print Assumptions C20_silent_connection_db0.

(* ------------------------------------------------------------------ C20_select_takes_effect_for_next_command *)
(* A connection's commands take effect in the order sent, each with the selection current at that
   point.  Once SELECT i (0 <= i < n) of connection c has been answered OK, c has i selected, keeps
   it whatever other connections do in between, and the very next data command of c -- however soon
   it was sent, e.g. pipelined in the same packet -- is executed on database i: its reply and the
   new contents of database i are those of [exec] on database i.  (Pipelining is not a notion of the
   model: a connection is its sequence of commands.) *)
Theorem C20_select_takes_effect_for_next_command :
  forall s0 c now nowms sel arg hint i q x d,
  lower sel = B "select" -> atoi64 arg = Some (Z.of_nat i) -> (i < List.length (sdbs s0))%nat ->
  Forall (fun y => ss_conn y <> c) q ->
  ss_conn x = c -> is_select (ss_args x) = false -> ss_args x <> [] ->
  let s1 := snd (srv_exec s0 c now nowms [sel; arg] hint) in
  let s2 := snd (srv_run s1 q) in
  fst (srv_exec s0 c now nowms [sel; arg] hint) = rOK /\
  sel_lookup c (ssel s2) = i /\
  (nth_error (sdbs s2) i = Some d ->
   let res := srv_exec s2 c (ss_now x) (ss_nowms x) (ss_args x) (ss_hint x) in
   fst res = fst (exec d (ss_now x) (ss_nowms x) (ss_args x) (ss_hint x)) /\
   nth_error (sdbs (snd res)) i = Some (snd (exec d (ss_now x) (ss_nowms x) (ss_args x) (ss_hint x)))).
Proof. exact select_takes_effect_for_next_command. Qed.
Print Assumptions C20_select_takes_effect_for_next_command.

(* ------------------------------------------------------------------ C20_cluster_single_database *)
(* Cluster mode.  There every command, SELECT included, is executed by handleClusterCommits on the
   ONE Manager all connections share, so the selection is one shared field: the program is run as
   [shared_selection p] (all connection ids collapsed).  PREMISE, checked on the configuration path
   by the tie (config.ParseConfigJson accepts a cluster JSON => cfg.Databases = 1): a cluster node
   has exactly one database.  Under it the shared field is harmless: SELECT i, i <> 0, is refused
   and changes nothing, and every interleaved program gets exactly the replies of the
   per-connection server -- no connection can move another.  With two databases it is false
   ([ex_shared_selection_needs_one_database]). *)
Theorem C20_cluster_single_database : forall p s1 s2,
  srv_wf 1 s1 -> srv_wf 1 s2 -> sdbs s1 = sdbs s2 ->
  fst (srv_run s1 p) = fst (srv_run s2 (shared_selection p)).
Proof. exact cluster_single_database. Qed.
Print Assumptions C20_cluster_single_database.

Theorem C20_cluster_select_nonzero_refused : forall s conn now nowms c arg hint,
  srv_wf 1 s -> lower c = B "select" -> atoi64 arg <> Some 0 ->
  srv_exec s conn now nowms [c; arg] hint = (err_other, s).
Proof. exact select_nonzero_refused_one_database. Qed.
Print Assumptions C20_cluster_select_nonzero_refused.

(* ------------------------------------------------------------------ non-vacuity *)
Definition ss (conn : Z) (args : list bytes) : sstep := mkSStep conn 100 100000 args RNil.

(* two connections, three databases: writes land in the writer's database only; conn 2's SELECT
   does not move conn 1; invalid SELECTs change nothing *)
Example ex_two_connections :
  fst (srv_run (srv_init 3)
    [ss 1 [B "SELECT"; B "1"]; ss 1 [B "SET"; B "k"; B "one"];
     ss 2 [B "GET"; B "k"]; ss 2 [B "SELECT"; B "2"]; ss 2 [B "SET"; B "k"; B "two"];
     ss 1 [B "GET"; B "k"]; ss 2 [B "select"; B "3"]; ss 2 [B "SELECT"; B "-1"];
     ss 2 [B "SELECT"; B "1.0"]; ss 2 [B "SELECT"; []]; ss 2 [B "SELECT"]; ss 2 [B "SELECT"; B "1"; B "2"];
     ss 2 [B "GET"; B "k"]; ss 2 [B "SELECT"; B "+1"]; ss 2 [B "GET"; B "k"];
     ss 2 [B "SELECT"; B "00"]; ss 2 [B "GET"; B "k"]; ss 3 [B "GET"; B "k"]])
  = [rOK; rOK; RNil; rOK; rOK; RBulk (B "one"); err_other; err_other; err_other; err_other;
     err_other; err_other; RBulk (B "two"); rOK; RBulk (B "one"); rOK; RNil; RNil].
Proof. vm_compute. reflexivity. Qed.

Example ex_forms :
  atoi64 (B "01") = Some 1 /\ atoi64 (B "+1") = Some 1 /\ atoi64 (B "-0") = Some 0 /\
  atoi64 (B "1.0") = None /\ atoi64 [] = None /\ atoi64 (B " 1") = None /\ atoi64 (B "1_0") = None /\
  atoi64 (B "9223372036854775808") = None /\ atoi64 (B "0x1") = None /\ atoi64 (B "+") = None.
Proof. vm_compute. repeat split. Qed.

Example ex_wf : srv_wf 16 (srv_init 16) /\ (16 > 0)%nat.
Proof. split; [apply srv_wf_init|lia]. Qed.

(* the concurrent scenario of the check, in any of its linearizations: three connections select
   database 5 "at the same time" (here: 2, 3, 1), each writes its key, then everybody reads
   everybody's key -- and a fourth connection that selects 5 later sees them too *)
Example ex_one_keyspace :
  fst (srv_run (srv_init 16)
    [ss 2 [B "SELECT"; B "5"]; ss 3 [B "SELECT"; B "5"]; ss 1 [B "SELECT"; B "5"];
     ss 3 [B "SET"; B "k3"; B "v3"]; ss 1 [B "SET"; B "k1"; B "v1"]; ss 2 [B "SET"; B "k2"; B "v2"];
     ss 1 [B "MGET"; B "k1"; B "k2"; B "k3"]; ss 2 [B "MGET"; B "k1"; B "k2"; B "k3"];
     ss 3 [B "MGET"; B "k1"; B "k2"; B "k3"]; ss 4 [B "GET"; B "k1"]; ss 4 [B "SELECT"; B "5"]; ss 4 [B "GET"; B "k1"]])
  = [rOK; rOK; rOK; rOK; rOK; rOK;
     RArr [RBulk (B "v1"); RBulk (B "v2"); RBulk (B "v3")]; RArr [RBulk (B "v1"); RBulk (B "v2"); RBulk (B "v3")];
     RArr [RBulk (B "v1"); RBulk (B "v2"); RBulk (B "v3")]; RNil; rOK; RBulk (B "v1")].
Proof. vm_compute. reflexivity. Qed.

(* connection 1 selects 2, writes, ends; a new connection under the same id reads database 0 *)
Example ex_reconnect :
  fst (srv_run_ev (srv_init 3)
    [EvCmd (ss 1 [B "SELECT"; B "2"]); EvCmd (ss 1 [B "SET"; B "k"; B "in2"]); EvClose 1;
     EvCmd (ss 1 [B "GET"; B "k"]); EvCmd (ss 1 [B "SET"; B "k"; B "in0"]); EvCmd (ss 7 [B "GET"; B "k"])])
  = [Some rOK; Some rOK; None; Some RNil; Some rOK; Some (RBulk (B "in0"))].
Proof. vm_compute. reflexivity. Qed.

(* the premise matters: with two databases a shared selection lets A's SELECT 1 move B *)
Example ex_shared_selection_needs_one_database :
  let p := [ss 2 [B "SET"; B "k"; B "byB"]; ss 1 [B "SELECT"; B "1"]; ss 2 [B "GET"; B "k"]] in
  fst (srv_run (srv_init 2) p) = [rOK; rOK; RBulk (B "byB")] /\
  fst (srv_run (srv_init 2) (shared_selection p)) = [rOK; rOK; RNil] /\
  fst (srv_run (srv_init 1) p) = [rOK; err_other; RBulk (B "byB")] /\
  fst (srv_run (srv_init 1) (shared_selection p)) = [rOK; err_other; RBulk (B "byB")] /\
  srv_wf 1 (srv_init 1).
Proof. vm_compute. repeat split; try reflexivity; intros; lia. Qed.

(* what a pipelining client must get: BLPOP nolist 1 | SELECT 1 | SET k v1 | GET whoami on one
   connection -- the SET lands in database 1 *)
Example ex_pipelined_select :
  let s := snd (srv_run (srv_init 2) [ss 9 [B "SET"; B "whoami"; B "0"]; ss 9 [B "SELECT"; B "1"]; ss 9 [B "SET"; B "whoami"; B "1"]]) in
  fst (srv_run s [ss 1 [B "BLPOP"; B "nolist"; B "1"]; ss 1 [B "SELECT"; B "1"]; ss 1 [B "SET"; B "k"; B "v1"];
                  ss 1 [B "GET"; B "whoami"]; ss 2 [B "GET"; B "k"]; ss 9 [B "GET"; B "k"]])
  = [RNil; rOK; rOK; RBulk (B "1"); RNil; RBulk (B "v1")].
Proof. vm_compute. reflexivity. Qed.
