(* C16 — two lives.  Opening a log for append (ReadAll in write mode) leaves the tail segment
   all-zero behind the last valid record, whatever a crash had left there; records appended
   afterwards therefore read back, after the next restart, exactly behind the recovered ones. *)
Require Import Base.Bytes Wal.Crc32c Wal.CrcTab Wal.Pb Wal.WalModel Wal.WalSpec.
Require Import Wal.FrameProofs Wal.CrcProofs Wal.PbProofs Wal.WalProofs Wal.TornProofs Wal.RepairProofs
               Wal.ReadAllProofs.
Require Import Lia ZifyN ZifyNat ZifyBool.
Local Open Scope N_scope.

(* ------------------------------------------------------------------ C16_open_zeroes_tail *)

Lemma zero_tail_eq off f : zero_tail off f = firstn (N.to_nat off) f ++ zerosN (blen f - off).
Proof. unfold zero_tail. rewrite takeN_firstn. reflexivity. Qed.

Lemma all_zero_zerosN k : all_zero (zerosN k) = true.
Proof. unfold zerosN. apply all_zero_zeros. Qed.

(* Open + ReadAll in write mode on a directory whose decode ends with a clean EOF at offset off
   of the last segment: the data is returned and the last segment becomes its first off bytes
   followed by zeros only — stale bytes of a torn write behind the last valid record are gone *)
Theorem open_zeroes_tail si st files rs off c s :
  decode_files files 0 = (rs, FEnd, off, c) -> interp_all si st rs_init rs = SOk s ->
  read_all_w si st files = (result_w true s, map_last (zero_tail off) files)
  /\ forall f, zero_tail off f = firstn (N.to_nat off) f ++ zerosN (blen f - off)
               /\ all_zero (zerosN (blen f - off)) = true.
Proof.
  intros Hd Hi. split.
  - unfold read_all_w, read_all_w_dec. rewrite Hd, Hi. reflexivity.
  - intros f. split; [apply zero_tail_eq|apply all_zero_zerosN].
Qed.

(* ------------------------------------------------------------------ replaying a decoded prefix *)

Lemma skipn_firstn_app (cur X : bytes) n K : (n <= K)%nat -> (K <= length cur)%nat ->
  skipn n (firstn K cur ++ X) = firstn (K - n) (skipn n cur) ++ X.
Proof.
  intros H1 H2. rewrite skipn_app, firstn_length.
  replace (n - Nat.min K (length cur))%nat with 0%nat by lia. cbn [skipn].
  rewrite skipn_firstn_comm. reflexivity.
Qed.

(* the decode loop looks only at the frames it returns: the bytes behind the offset where it
   stopped can be replaced by anything *)
Lemma decode_file_replay fuel : forall last size off crc cur rs st off' crc',
  decode_file fuel last size off crc cur = (rs, st, off', crc') ->
  (st = FEnd \/ st = FUnexp) ->
  forall size2 X fuel2, off' <= size2 ->
  decode_file (length rs + fuel2) last size2 off crc (firstn (N.to_nat (off' - off)) cur ++ X) =
  let '(rs2, st2, off2, c2) := decode_file fuel2 last size2 off' crc' X in (rs ++ rs2, st2, off2, c2).
Proof.
  induction fuel as [|f IH]; intros last size off crc cur rs st off' crc' H Hst size2 X fuel2 Hsz.
  - cbn [decode_file] in H. inversion H; subst. destruct Hst; discriminate.
  - cbn [decode_file] in H.
    destruct (decode_one last size off crc cur) as [r n crc1|s] eqn:E1.
    + destruct ((r_type r =? crcType) && negb (crc1 =? 0) && negb (r_crc r =? crc1)) eqn:Echk.
      { inversion H; subst. destruct Hst; discriminate. }
      destruct (decode_file f last size (off + n) (if r_type r =? crcType then r_crc r else crc1)
                            (skipn (N.to_nat n) cur)) as [[[rs1 st1] off1] crc1'] eqn:E2.
      inversion H; subst rs st off' crc'. clear H.
      pose proof (decode_file_off_mono _ _ _ _ _ _ _ _ _ _ E2) as Hmono.
      pose proof (decode_file_off_le _ _ _ _ _ _ _ _ _ _ E2) as Hle.
      destruct (decode_one_prefix _ _ _ _ _ _ _ _ E1) as (Hn8 & Hncur & Hpre).
      assert (HK : (N.to_nat (off1 - off) <= length cur)%nat).
      { unfold blen in Hle, Hncur. rewrite skipn_length in Hle. lia. }
      cbn [length plus decode_file].
      rewrite (Hpre size2 (firstn (N.to_nat (off1 - off)) cur ++ X)).
      * rewrite Echk.
        rewrite skipn_firstn_app by lia.
        replace (N.to_nat (off1 - off) - N.to_nat n)%nat with (N.to_nat (off1 - (off + n))) by lia.
        rewrite (IH _ _ _ _ _ _ _ _ _ E2 Hst size2 X fuel2 Hsz).
        destruct (decode_file fuel2 last size2 off1 crc1' X) as [[[a b] c0] d0]. reflexivity.
      * lia.
      * rewrite firstn_app, firstn_firstn.
        replace (Nat.min (N.to_nat n) (N.to_nat (off1 - off))) with (N.to_nat n) by lia.
        rewrite firstn_length.
        replace (N.to_nat n - Nat.min (N.to_nat (off1 - off)) (length cur))%nat with 0%nat by lia.
        cbn [firstn]. apply app_nil_r.
    + inversion H; subst. rewrite N.sub_diag. cbn [N.to_nat firstn app length plus].
      destruct (decode_file fuel2 last size2 off' crc' X) as [[[a b] c0] d0]. reflexivity.
Qed.

(* every returned record used at least 8 bytes *)
Lemma decode_file_len_bound fuel : forall last size off crc cur rs st off' crc',
  decode_file fuel last size off crc cur = (rs, st, off', crc') -> N.of_nat (length rs) * 8 <= off' - off.
Proof.
  induction fuel as [|f IH]; intros last size off crc cur rs st off' crc' H.
  - cbn [decode_file] in H. inversion H. cbn. lia.
  - cbn [decode_file] in H.
    destruct (decode_one last size off crc cur) as [r n crc1|s] eqn:E1.
    + destruct (decode_one_prefix _ _ _ _ _ _ _ _ E1) as (Hn8 & _ & _).
      destruct ((r_type r =? crcType) && negb (crc1 =? 0) && negb (r_crc r =? crc1)).
      * inversion H. cbn. lia.
      * destruct (decode_file f last size (off + n) _ _) as [[[rs1 st1] off1] crc1'] eqn:E2.
        pose proof (decode_file_off_mono _ _ _ _ _ _ _ _ _ _ E2).
        apply IH in E2. inversion H; subst. cbn [length]. lia.
    + inversion H. cbn. lia.
Qed.

(* the digest stays a 32-bit value *)
Lemma rec_unmarshal_crc_lt b r : rec_unmarshal b = POk r -> r_crc r < two32.
Proof.
  unfold rec_unmarshal. destruct (pb_unmarshal no_sub rec_schema b); [|discriminate].
  intros H. inversion H. cbn [r_crc]. apply N.mod_lt. unfold two32. lia.
Qed.

Lemma decode_one_crc_lt last size off crc cur r n crc1 :
  crc < lim32 -> decode_one last size off crc cur = DRec r n crc1 -> r_crc r < lim32 /\ crc1 < lim32.
Proof.
  intros Hc. unfold decode_one.
  destruct cur as [|c0 cur0] eqn:Ecur; [discriminate|]. rewrite <- Ecur.
  destruct (blen (firstn 8 cur) <? 8); [discriminate|].
  destruct (le_dec (firstn 8 cur) =? 0); [discriminate|].
  destruct (decode_frame_size (le_dec (firstn 8 cur))) as [recB padB].
  destruct (size <? recB + off + padB); [discriminate|].
  destruct (blen (firstn (N.to_nat (recB + padB)) (skipn 8 cur)) <? recB + padB); [discriminate|].
  destruct (rec_unmarshal _) as [r0|e] eqn:Eu.
  - apply rec_unmarshal_crc_lt in Eu. rewrite <- lim32_two32 in Eu.
    destruct (r_type r0 =? crcType).
    + intros H. inversion H; subst. split; assumption.
    + destruct (r_crc r0 =? _).
      * intros H. inversion H; subst. split; [assumption|apply digest_write_lt; exact Hc].
      * destruct (is_torn _ _ _); discriminate.
  - destruct (is_torn _ _ _); discriminate.
Qed.

Lemma decode_file_crc_lt fuel : forall last size off crc cur rs st off' crc',
  crc < lim32 -> decode_file fuel last size off crc cur = (rs, st, off', crc') -> crc' < lim32.
Proof.
  induction fuel as [|f IH]; intros last size off crc cur rs st off' crc' Hc H.
  - cbn [decode_file] in H. inversion H; subst. exact Hc.
  - cbn [decode_file] in H.
    destruct (decode_one last size off crc cur) as [r n crc1|s] eqn:E1.
    + destruct (decode_one_crc_lt _ _ _ _ _ _ _ _ Hc E1) as [Hr H1].
      destruct ((r_type r =? crcType) && negb (crc1 =? 0) && negb (r_crc r =? crc1)).
      * inversion H; subst. exact H1.
      * destruct (decode_file f last size (off + n) _ _) as [[[rs1 st1] off1] crc1'] eqn:E2.
        inversion H; subst. eapply IH; [|exact E2]. destruct (r_type r =? crcType); assumption.
    + inversion H; subst. exact Hc.
Qed.

(* ------------------------------------------------------------------ C16_second_life *)

(* f: the tail segment as found at restart (anything: a crash image with arbitrary sectors lost),
   decoded with a clean EOF at off after the records rs.  Opening for append zeroes it behind
   off; the records rs2 are appended there (k zero bytes of the segment remain).  The next
   restart reads exactly rs followed by rs2. *)
Theorem second_life f crc0 rs off c rs2 k :
  crc0 < lim32 ->
  decode_whole true crc0 f = (rs, FEnd, off, c) ->
  Forall raw_ok rs2 -> Forall crc_rec_wf rs2 -> (k = 0 \/ 8 <= k) ->
  let '(rs2', bs2, c2) := encode_recs c rs2 in
  decode_whole true crc0 (firstn (N.to_nat off) f ++ bs2 ++ zerosN k)
  = (rs ++ rs2', FEnd, off + blen bs2, c2).
Proof.
  intros Hc Hd Hraw Hwf Hk.
  unfold decode_whole in Hd.
  pose proof (decode_file_crc_lt _ _ _ _ _ _ _ _ _ _ Hc Hd) as Hcc.
  pose proof (decode_file_len_bound _ _ _ _ _ _ _ _ _ _ Hd) as Hlb.
  pose proof (decode_file_off_le _ _ _ _ _ _ _ _ _ _ Hd) as Hole.
  pose proof (decode_file_replay _ _ _ _ _ _ _ _ _ _ Hd (or_introl eq_refl)) as RP.
  pose proof (decode_file_encode_recs rs2) as DF.
  pose proof (encode_recs_length rs2 c Hraw Hcc) as [Hl2 _].
  destruct (encode_recs c rs2) as [[rs2' bs2] c2] eqn:E2. cbn [fst snd] in Hl2.
  rewrite N.sub_0_r, N.add_0_l in *.
  remember (firstn (N.to_nat off) f ++ bs2 ++ zerosN k) as F eqn:EF.
  assert (HblF : blen F = off + (blen bs2 + k)).
  { rewrite EF, !blen_app, blen_zerosN. rewrite blen_firstn_le by exact Hole. reflexivity. }
  unfold decode_whole.
  assert (Hfuel : exists g, S (length F) = (length rs + (length rs2 + S g))%nat).
  { exists (length F - length rs - length rs2)%nat. unfold blen in HblF, Hl2. lia. }
  destruct Hfuel as [g Hg]. rewrite Hg.
  specialize (RP (blen F) (bs2 ++ zerosN k) (length rs2 + S g)%nat ltac:(lia)).
  rewrite <- EF in RP. rewrite RP.
  specialize (DF (S g) true (blen F) off c (zerosN k) Hraw Hwf Hcc). rewrite E2 in DF.
  rewrite DF by lia.
  rewrite decode_file_zeros by exact Hk. rewrite app_nil_r. reflexivity.
Qed.

(* C16_second_life_roundtrip: crash with ANY set of sectors lost (side condition as in
   C16_torn_tail) -> Repair (a no-op unless the tail is torn) -> open for append -> any further
   records appended -> next restart: exactly (recovered prefix, containing every synced record)
   ++ (the new records). *)
Theorem second_life_after_crash rs_synced rs_unsynced crc0 (lost : N -> bool) kz :
  let head := mkrec crcType 0 None in
  Forall raw_ok (head :: rs_synced ++ rs_unsynced) -> Forall crc_rec_wf (head :: rs_synced ++ rs_unsynced) ->
  crc0 < lim32 -> (kz = 0 \/ 8 <= kz) ->
  let '(rs', bs, _) := encode_recs crc0 ((head :: rs_synced) ++ rs_unsynced) in
  let synced := blen (snd (fst (encode_recs crc0 (head :: rs_synced)))) in
  let img := crash_image synced lost (bs ++ zerosN kz) in
  no_crc_coincidence synced (bs ++ zerosN kz) img 0 crc0 rs' = true ->
  exists m off c,
    (S (length rs_synced) <= m <= length rs')%nat
    /\ fst (repair img) = true
    /\ forall rs2 k, Forall raw_ok rs2 -> Forall crc_rec_wf rs2 -> (k = 0 \/ 8 <= k) ->
         let '(rs2', bs2, c2) := encode_recs c rs2 in
         decode_whole true crc0 (firstn (N.to_nat off) (snd (repair img)) ++ bs2 ++ zerosN k)
         = (firstn m rs' ++ rs2', FEnd, off + blen bs2, c2).
Proof.
  intros hd0 Hraw Hwf Hc Hkz.
  pose proof (repair_torn_tail rs_synced rs_unsynced crc0 lost kz Hraw Hwf Hc Hkz) as R.
  unfold hd0 in *. clear hd0.
  destruct (encode_recs crc0 ((mkrec crcType 0 None :: rs_synced) ++ rs_unsynced)) as [[rs' bs] cend].
  cbv zeta in R |- *. intros Hnc.
  destruct (R Hnc) as (m & off & c & Hm & Hrep & Hd & _).
  exists m, off, c. split; [exact Hm|]. split; [exact Hrep|].
  intros rs2 k Hr2 Hw2 Hk.
  exact (second_life _ crc0 _ off c rs2 k Hc Hd Hr2 Hw2 Hk).
Qed.
