(* C16_completed_save_durable — the sync decision.  The writer syncs (flush + fdatasync) at the
   end of Create, SaveSnapshot, cut, and of every Save for which raft.MustSync holds: entries
   were appended, or Vote changed, or Term changed.  Hence what a crash at any instant between
   two calls leaves durable (everything up to the last sync) reads back as: exactly the entry
   log of ALL completed saves, and a hard state with the Term and Vote of the last completed
   save.  Commit may lag: a commit-only hard state update is deliberately not synced. *)
Require Import Base.Bytes Wal.Crc32c Wal.CrcTab Wal.Pb Wal.WalModel Wal.WalSpec.
Require Import Wal.FrameProofs Wal.CrcProofs Wal.PbProofs Wal.WalProofs Wal.TornProofs Wal.RepairProofs
               Wal.ReadAllProofs Wal.RoundtripProofs.
Require Import Lia ZifyN ZifyNat ZifyBool.
Local Open Scope N_scope.

Lemma fold_step_d_fst ops : forall w d, fst (fold_left w_step_d ops (w, d)) = fold_left w_op ops w.
Proof.
  induction ops as [|o ops IH]; intros w d; [reflexivity|].
  cbn [fold_left w_step_d]. apply IH.
Qed.

Lemma w_run_d_fst meta ops : fst (w_run_d meta ops) = w_run meta ops.
Proof. unfold w_run_d, w_run. apply fold_step_d_fst. Qed.

Lemma w_run_d_snoc meta ops o : w_run_d meta (ops ++ [o]) = w_step_d (w_run_d meta ops) o.
Proof. unfold w_run_d. rewrite fold_left_app. reflexivity. Qed.

Lemma w_run_snoc meta ops o : w_run meta (ops ++ [o]) = w_op (w_run meta ops) o.
Proof. unfold w_run. rewrite fold_left_app. reflexivity. Qed.

Lemma spec_ops_app a : forall st b,
  spec_ops st (a ++ b) = match spec_ops st a with Some st' => spec_ops st' b | None => None end.
Proof.
  induction a as [|o a IH]; intros st b; [reflexivity|].
  cbn [app spec_ops]. destruct (spec_op st o); [apply IH|reflexivity].
Qed.

(* the writer's w.state is the hard state of the specification *)
Lemma w_hs_spec meta ops log hs :
  Forall op_ok ops -> spec_run ops = Some (log, hs) -> w_hs (w_run meta ops) = hs.
Proof.
  intros Hops Hspec.
  pose proof (wfits_run meta ops) as Hfit.
  pose proof (reads_run meta ops (tr_init meta) [] (mkhs 0 0 0) log hs Hops hs_ok_zero (reads_init meta) Hspec) as Hr.
  fold (tr_run meta ops) in Hr.
  destruct (tr_run meta ops) as [[segs tail] ths].
  destruct Hr as [-> _]. unfold wfits in Hfit.
  destruct (closed_files 0 segs) as [[fs rsC] c]. destruct (encode_recs c tail) as [[rsT bs] c'].
  tauto.
Qed.

(* an operation that returns without syncing adds no entry and keeps Term and Vote *)
Lemma unsynced_op_spec w o log hs :
  op_syncs w o = false -> w_hs w = hs ->
  exists hs', spec_op (log, hs) o = Some (log, hs') /\ hs_term hs' = hs_term hs /\ hs_vote hs' = hs_vote hs.
Proof.
  intros Hns Hw. destruct o as [h ents|s|]; cbn [op_syncs] in Hns; try discriminate.
  cbn [spec_op].
  destruct (hs_empty h && match ents with [] => true | _ :: _ => false end) eqn:E.
  - apply andb_true_iff in E as [E1 E2]. destruct ents; [|discriminate]. cbn [log_puts]. rewrite E1.
    exists hs. auto.
  - unfold must_sync in Hns. rewrite Hw in Hns.
    apply orb_false_iff in Hns as [Hns Ht]. apply orb_false_iff in Hns as [Hn Hv].
    destruct ents; [|discriminate]. cbn [log_puts].
    exists (if hs_empty h then hs else h). split; [reflexivity|].
    destruct (hs_empty h); [auto|]. split; lia.
Qed.

Lemma durable_is_prefix_run meta ops : forall log hs,
  Forall op_ok ops -> spec_run ops = Some (log, hs) ->
  exists pre hs_p,
    snd (w_run_d meta ops) = w_run meta pre /\ Forall op_ok pre
    /\ spec_run pre = Some (log, hs_p)
    /\ hs_term hs_p = hs_term hs /\ hs_vote hs_p = hs_vote hs.
Proof.
  induction ops as [|o ops IH] using rev_ind; intros log hs Hops Hspec.
  - exists [], hs. cbn in Hspec. inversion Hspec; subst. repeat split; auto.
  - apply Forall_app in Hops as [Hops Ho]. inversion Ho as [|? ? Ho1 _]; subst.
    unfold spec_run in Hspec. rewrite spec_ops_app in Hspec. fold (spec_run ops) in Hspec.
    destruct (spec_run ops) as [[l0 h0]|] eqn:E0; [|discriminate].
    cbn [spec_ops] in Hspec.
    destruct (spec_op (l0, h0) o) as [[l1 h1]|] eqn:E1; [|discriminate]. inversion Hspec; subst l1 h1. clear Hspec.
    rewrite w_run_d_snoc.
    pose proof (w_run_d_fst meta ops) as Hfst.
    destruct (w_run_d meta ops) as [w d] eqn:Ewd. cbn [fst] in Hfst. subst w.
    cbn [w_step_d snd].
    destruct (op_syncs (w_run meta ops) o) eqn:Es.
    + exists (ops ++ [o]), hs. rewrite w_run_snoc. split; [reflexivity|].
      split; [apply Forall_app; split; assumption|].
      split; [|split; reflexivity].
      unfold spec_run. rewrite spec_ops_app. fold (spec_run ops). rewrite E0. cbn [spec_ops]. rewrite E1. reflexivity.
    + destruct (unsynced_op_spec _ o l0 h0 Es (w_hs_spec meta ops l0 h0 Hops E0)) as (h' & Hsp & Ht & Hv).
      rewrite Hsp in E1. inversion E1; subst log hs.
      destruct (IH l0 h0 Hops eq_refl) as (pre & hs_p & Hd & Hpre & Hsp' & Htp & Hvp).
      cbn [snd] in Hd.
      exists pre, hs_p. repeat split; try assumption; congruence.
Qed.

Theorem completed_save_durable meta ops segsize log hs :
  meta_ok meta -> Forall op_ok ops -> segsize mod 8 = 0 ->
  spec_run ops = Some (log, hs) ->
  exists hs_d,
    read_all true 0 0 (map file_bytes (w_files segsize (snd (w_run_d meta ops)))) = RAOk meta hs_d log true
    /\ hs_term hs_d = hs_term hs /\ hs_vote hs_d = hs_vote hs.
Proof.
  intros Hm Hops Hseg Hspec.
  destruct (durable_is_prefix_run meta ops log hs Hops Hspec) as (pre & hs_p & Hd & Hpre & Hsp & Ht & Hv).
  exists hs_p. rewrite Hd. split; [|split; assumption].
  apply roundtrip; assumption.
Qed.

(* the predicate the check evaluates on every process-kill image accepts exactly this *)
Corollary completed_ok_durable meta ops segsize :
  meta_ok meta -> Forall op_ok ops -> segsize mod 8 = 0 ->
  completed_ok ops (read_all true 0 0 (map file_bytes (w_files segsize (snd (w_run_d meta ops))))) = true.
Proof.
  intros Hm Hops Hseg. unfold completed_ok.
  destruct (spec_run ops) as [[log hs]|] eqn:E; [|reflexivity].
  destruct (completed_save_durable meta ops segsize log hs Hm Hops Hseg E) as (hs_d & Hr & Ht & Hv).
  rewrite Hr, Ht, Hv, !N.eqb_refl.
  assert (G : forall l, ents_eqb l l = true).
  { induction l as [|e l IHl]; [reflexivity|]. cbn [ents_eqb]. rewrite IHl.
    unfold entry_eqb, opt_bytes_eqb. rewrite !N.eqb_refl. destruct (e_data e); [rewrite bytes_eqb_refl|]; reflexivity. }
  rewrite G. reflexivity.
Qed.

Lemma ents_eqb_refl l : ents_eqb l l = true.
Proof.
  induction l as [|e l IHl]; [reflexivity|]. cbn [ents_eqb]. rewrite IHl.
  unfold entry_eqb, opt_bytes_eqb. rewrite !N.eqb_refl. destruct (e_data e); [rewrite bytes_eqb_refl|]; reflexivity.
Qed.

(* the ops-level oracle the runner applies to reads of fully synced directories *)
Corollary spec_read_ok_written meta ops segsize :
  meta_ok meta -> Forall op_ok ops -> segsize mod 8 = 0 ->
  spec_read_ok meta ops (read_all true 0 0 (map file_bytes (w_files segsize (w_run meta ops)))) = true.
Proof.
  intros Hm Hops Hseg. unfold spec_read_ok.
  destruct (spec_run ops) as [[log hs]|] eqn:E; [|reflexivity].
  rewrite (roundtrip meta ops segsize log hs Hm Hops Hseg E).
  rewrite bytes_eqb_refl, ents_eqb_refl. unfold hs_eqb. rewrite !N.eqb_refl. reflexivity.
Qed.
