(* C16 — a tail file that ENDS inside the unsynced records (no zero-filled preallocation behind
   them): the old tail between Truncate and sync inside cut, or a tail that has grown past its
   preallocation.  Whatever byte offset the file ends at (at or after the sync point), the decode
   loop returns the synced records and a whole prefix of the unsynced ones and stops with EOF or
   io.ErrUnexpectedEOF — no CRC side condition is needed, nothing is misread. *)
Require Import Base.Bytes Wal.Crc32c Wal.CrcTab Wal.Pb Wal.WalModel Wal.WalSpec.
Require Import Wal.FrameProofs Wal.CrcProofs Wal.PbProofs Wal.WalProofs Wal.TornProofs Wal.RepairProofs
               Wal.ReadAllProofs.
Require Import Lia ZifyN ZifyNat ZifyBool.
Local Open Scope N_scope.

Ltac Zify.zify_post_hook ::= Z.div_mod_to_equations.

Lemma firstn_app_le (a b : bytes) k : k <= blen a -> firstn (N.to_nat k) (a ++ b) = firstn (N.to_nat k) a.
Proof.
  intros H. rewrite firstn_app. unfold blen in H.
  replace (N.to_nat k - length a)%nat with 0%nat by lia. cbn [firstn]. apply app_nil_r.
Qed.

Lemma firstn_app_ge (a b : bytes) k : blen a <= k ->
  firstn (N.to_nat k) (a ++ b) = a ++ firstn (N.to_nat (k - blen a)) b.
Proof.
  intros H. rewrite firstn_app. unfold blen in *. rewrite firstn_all2 by lia.
  f_equal. f_equal. lia.
Qed.

(* the file ends k bytes into the frame of a record, 0 < k < frame length *)
Lemma decode_one_partial last off crc r k :
  rec_ok r -> 0 < k -> k < frame_len r ->
  decode_one last (off + k) off crc (firstn (N.to_nat k) (frame_of r)) = DStop FUnexp.
Proof.
  intros Hok Hk0 Hk.
  pose proof (rec_marshal_bounds r Hok) as [Hlo Hhi].
  rewrite frame_of_eq.
  set (m := rec_marshal r) in *. set (n := blen m) in *. set (p := pad_of n) in *.
  set (lenf := fst (encode_frame_size n)).
  set (hdr := le_enc 8 lenf). set (body := m ++ zerosN p).
  assert (Hbh : blen hdr = 8) by apply blen_le_enc.
  assert (Hbb : blen body = n + p) by (unfold body; rewrite blen_app, blen_zerosN; reflexivity).
  assert (Hfl : frame_len r = 8 + n + p) by reflexivity.
  unfold decode_one.
  destruct (firstn (N.to_nat k) (hdr ++ body)) as [|b0 l0] eqn:Ecur.
  { exfalso. apply (f_equal (@length byte)) in Ecur. rewrite firstn_length, app_length in Ecur.
    unfold blen in Hbh, Hbb. cbn [length] in Ecur. lia. }
  rewrite <- Ecur. clear Ecur b0 l0.
  destruct (N.lt_ge_cases k 8) as [Hk8|Hk8].
  - (* not even the length field is complete *)
    rewrite firstn_app_le by lia.
    rewrite firstn_firstn.
    assert (Hl : blen (firstn (Nat.min 8 (N.to_nat k)) hdr) = k).
    { unfold blen in *. rewrite firstn_length. lia. }
    rewrite Hl. replace (k <? 8) with true by lia. reflexivity.
  - rewrite firstn_app_ge by lia. rewrite Hbh.
    assert (Hf8 : firstn 8 (hdr ++ firstn (N.to_nat (k - 8)) body) = hdr)
      by (change 8%nat with (N.to_nat 8); apply firstn_N_app; exact Hbh).
    assert (Hs8 : skipn 8 (hdr ++ firstn (N.to_nat (k - 8)) body) = firstn (N.to_nat (k - 8)) body)
      by (change 8%nat with (N.to_nat 8); apply skipn_N_app; exact Hbh).
    rewrite Hf8, Hs8, Hbh. change (8 <? 8) with false. cbn iota.
    assert (Hlenf : lenf < two64) by (apply encode_frame_size_lt64; exact Hhi).
    unfold hdr. rewrite le_dec_enc8 by exact Hlenf.
    assert (Hnz : lenf <> 0).
    { intros E. pose proof (encode_frame_size_zero n Hhi) as [Hz _]. specialize (Hz E). lia. }
    replace (lenf =? 0) with false by lia.
    unfold lenf. rewrite decode_encode_frame_size by exact Hhi. fold p.
    destruct (off + k <? n + off + p) eqn:Es; [reflexivity|].
    rewrite firstn_firstn.
    assert (Hl : blen (firstn (Nat.min (N.to_nat (n + p)) (N.to_nat (k - 8))) body) = k - 8).
    { unfold blen in *. rewrite firstn_length. lia. }
    rewrite Hl. replace (k - 8 <? n + p) with true by lia. reflexivity.
Qed.

Lemma count_synced_mono rs : forall off s s', s <= s' -> (count_synced rs off s <= count_synced rs off s')%nat.
Proof.
  induction rs as [|r rs IH]; intros off s s' H; [cbn; lia|].
  cbn [count_synced]. destruct (off + frame_len r <=? s) eqn:E.
  - replace (off + frame_len r <=? s') with true by lia. specialize (IH (off + frame_len r) s s' H). lia.
  - lia.
Qed.

Section Trunc.
Variable synced : N.

(* the file holds the frames of rs up to byte k of them *)
Lemma trunc_decode rs : forall fuel off crc k,
  Forall raw_ok rs -> Forall crc_rec_wf rs -> crc < lim32 ->
  let '(rs', bs, _) := encode_recs crc rs in
  k <= blen bs -> (N.to_nat k < fuel)%nat ->
  exists m st crc',
    decode_file fuel true (off + k) off crc (firstn (N.to_nat k) bs)
    = (firstn m rs', st, off + frames_len (firstn m rs'), crc')
    /\ (st = FEnd \/ st = FUnexp)
    /\ (count_synced rs' off (off + k) <= m)%nat /\ (m <= length rs')%nat.
Proof.
  induction rs as [|r rs IH]; intros fuel off crc k Hraw Hwf Hc.
  - cbn [encode_recs]. intros Hk Hfuel. rewrite blen_nil in Hk.
    destruct fuel as [|fuel]; [lia|].
    replace k with 0 by lia. cbn [N.to_nat firstn decode_file decode_one].
    exists 0%nat, FEnd, crc. cbn [firstn frames_len count_synced length]. rewrite N.add_0_r.
    repeat split; auto.
  - rewrite encode_recs_cons.
    inversion Hraw as [|? ? Hr Hrs]; subst. inversion Hwf as [|? ? Hw Hws]; subst.
    set (r' := stamp crc r). set (crc1 := digest_write crc (data_of r)).
    assert (Hc1 : crc1 < lim32) by (apply digest_write_lt; exact Hc).
    assert (Hok : rec_ok r') by (apply stamp_ok; assumption).
    pose proof (frame_len_ge r' Hok) as Hge.
    specialize (IH (pred fuel) (off + frame_len r') crc1 (k - frame_len r') Hrs Hws Hc1).
    destruct (encode_recs crc1 rs) as [[rs' bs] cend].
    intros Hk Hfuel. rewrite blen_app, blen_frame_of in Hk.
    destruct fuel as [|fuel]; [lia|]. cbn [pred] in IH.
    destruct (N.lt_ge_cases k (frame_len r')) as [Hlt|Hge2].
    + (* the file ends inside this frame *)
      rewrite firstn_app_le by (rewrite blen_frame_of; lia).
      exists 0%nat. cbn [firstn frames_len count_synced length]. rewrite N.add_0_r.
      replace (off + frame_len r' <=? off + k) with false by lia.
      destruct (N.eq_dec k 0) as [->|Hk0].
      * cbn [N.to_nat firstn decode_file decode_one]. exists FEnd, crc. repeat split; auto; lia.
      * cbn [decode_file]. rewrite decode_one_partial by (try exact Hok; lia).
        exists FUnexp, crc. repeat split; auto; lia.
    + rewrite firstn_app_ge by (rewrite blen_frame_of; exact Hge2). rewrite blen_frame_of.
      unfold r'. rewrite decode_file_cons by (try assumption; fold r'; lia). fold r' crc1.
      destruct IH as (m & st & crc' & Hd & Hst & Hcnt & Hm); [lia|lia|].
      replace (off + frame_len r' + (k - frame_len r')) with (off + k) in Hd, Hcnt by lia.
      rewrite Hd. exists (S m), st, crc'. cbn [firstn frames_len length count_synced].
      split; [f_equal; f_equal; lia|]. split; [exact Hst|].
      split; [destruct (off + frame_len r' <=? off + k); lia|lia].
Qed.

End Trunc.

(* C16_truncated_tail *)
Theorem truncated_tail rs_synced rs_unsynced crc0 t :
  Forall raw_ok (rs_synced ++ rs_unsynced) -> Forall crc_rec_wf (rs_synced ++ rs_unsynced) ->
  crc0 < lim32 ->
  let '(rs', bs, _) := encode_recs crc0 (rs_synced ++ rs_unsynced) in
  let synced := blen (snd (fst (encode_recs crc0 rs_synced))) in
  synced <= t -> t <= blen bs ->
  exists m st crc',
    decode_whole true crc0 (firstn (N.to_nat t) bs) = (firstn m rs', st, frames_len (firstn m rs'), crc')
    /\ (st = FEnd \/ st = FUnexp)
    /\ (length rs_synced <= m <= length rs')%nat.
Proof.
  intros Hraw Hwf Hc.
  pose proof (trunc_decode (rs_synced ++ rs_unsynced)) as T.
  pose proof (encode_recs_length (rs_synced ++ rs_unsynced) crc0 Hraw Hc) as [Hlen Hlen'].
  pose proof (encode_recs_app rs_synced crc0 rs_unsynced) as Happ.
  pose proof (encode_recs_frames rs_synced crc0) as Hfr.
  pose proof (encode_recs_length rs_synced crc0) as HlenS.
  destruct (encode_recs crc0 (rs_synced ++ rs_unsynced)) as [[rs' bs] cend] eqn:E.
  destruct (encode_recs crc0 rs_synced) as [[rsS' bsS] cS] eqn:ES.
  destruct (encode_recs cS rs_unsynced) as [[rsU' bsU] cU] eqn:EU.
  cbn [fst snd] in *.
  assert (Hrs : rs' = rsS' ++ rsU' /\ bs = bsS ++ bsU) by (split; congruence). destruct Hrs as [-> ->].
  cbv zeta. intros Hst Htb.
  unfold decode_whole.
  assert (Hbl : blen (firstn (N.to_nat t) (bsS ++ bsU)) = t) by (apply blen_firstn_le; exact Htb).
  specialize (T (S (length (firstn (N.to_nat t) (bsS ++ bsU)))) 0 crc0 t Hraw Hwf Hc).
  rewrite E in T.
  destruct T as (m & st & crc' & Hd & Hst' & Hcnt & Hm).
  - exact Htb.
  - unfold blen in Hbl. lia.
  - exists m, st, crc'. rewrite Hbl. rewrite N.add_0_l in Hd. rewrite Hd.
    rewrite N.add_0_l. split; [reflexivity|]. split; [exact Hst'|]. split; [|exact Hm].
    assert (Hs : (length rsS' <= count_synced (rsS' ++ rsU') 0 (blen bsS))%nat)
      by (apply count_synced_prefix; rewrite N.add_0_l; exact Hfr).
    pose proof (count_synced_mono (rsS' ++ rsU') 0 (blen bsS) t Hst) as Hmono.
    rewrite N.add_0_l in Hcnt.
    assert (HlS : length rsS' = length rs_synced).
    { apply Forall_app in Hraw as [HrawS _]. destruct (HlenS HrawS Hc) as [_ H]. exact H. }
    lia.
Qed.

(* the same through closed segments and Open+ReadAll *)
Theorem truncated_tail_readall segs rs_synced rs_unsynced t s_full :
  Forall (Forall raw_ok) segs -> Forall (Forall crc_rec_wf) segs ->
  Forall raw_ok (rs_synced ++ rs_unsynced) -> Forall crc_rec_wf (rs_synced ++ rs_unsynced) ->
  let '(fs, rsC, c) := closed_files 0 segs in
  let '(rsT, bs, _) := encode_recs c (rs_synced ++ rs_unsynced) in
  let synced := blen (snd (fst (encode_recs c rs_synced))) in
  synced <= t -> t <= blen bs ->
  interp_all 0 0 rs_init (rsC ++ rsT) = SOk s_full ->
  exists m s_m,
    (length rs_synced <= m <= length rsT)%nat
    /\ interp_all 0 0 rs_init (rsC ++ firstn m rsT) = SOk s_m
    /\ (read_all true 0 0 (fs ++ [firstn (N.to_nat t) bs]) = result_w true s_m
        \/ read_all true 0 0 (fs ++ [firstn (N.to_nat t) bs]) = RAErr CUnexpEOF)
    /\ read_all false 0 0 (fs ++ [firstn (N.to_nat t) bs]) = result_w false s_m.
Proof.
  intros Hraw Hwf HrawT HwfT.
  pose proof (decode_files_closed segs 0) as DC.
  pose proof (closed_files_crc_lt segs 0 ltac:(unfold lim32; lia)) as Hc.
  destruct (closed_files 0 segs) as [[fs rsC] c]. cbn [snd] in Hc.
  pose proof (truncated_tail rs_synced rs_unsynced c t HrawT HwfT Hc) as T.
  destruct (encode_recs c (rs_synced ++ rs_unsynced)) as [[rsT bs] cend].
  cbv zeta in T |- *. intros Hs Ht Hfull.
  destruct (T Hs Ht) as (m & st & crc' & Hd & Hst & Hm). clear T.
  specialize (DC (firstn (N.to_nat t) bs) Hraw Hwf ltac:(unfold lim32; lia)). rewrite Hd in DC.
  assert (Hpre : exists s_m, interp_all 0 0 rs_init (rsC ++ firstn m rsT) = SOk s_m).
  { rewrite interp_all_app in Hfull |- *.
    destruct (interp_all 0 0 rs_init rsC) as [sC|e]; [|discriminate].
    eapply interp_all_prefix_ok. exact Hfull. }
  destruct Hpre as [s_m Hsm].
  exists m, s_m. split; [exact Hm|]. split; [exact Hsm|].
  unfold read_all.
  repeat match goal with |- context [decode_files ?x 0] =>
    replace (decode_files x 0) with (rsC ++ firstn m rsT, st, frames_len (firstn m rsT), crc')
      by (symmetry; exact DC) end.
  unfold read_all_dec. rewrite Hsm.
  destruct Hst as [->| ->]; cbn [finish].
  - split; [left; reflexivity|reflexivity].
  - split; [right; reflexivity|reflexivity].
Qed.
