(* C16 — the WAL record stream: what encoder.encode writes, decoder.decodeRecord reads back;
   a record whose CRC-covered data differs in one byte is rejected; the rolling CRC chain
   cannot re-converge after such a change. *)
Require Import Base.Bytes Wal.Crc32c Wal.CrcTab Wal.Pb Wal.WalModel.
Require Import Wal.FrameProofs Wal.CrcProofs Wal.PbProofs.
Require Import Lia ZifyN ZifyNat ZifyBool.
Local Open Scope N_scope.

Ltac Zify.zify_post_hook ::= Z.div_mod_to_equations.

(* ------------------------------------------------------------------ list helpers *)

Lemma firstn_blen_app (a b : bytes) : firstn (N.to_nat (blen a)) (a ++ b) = a.
Proof.
  unfold blen. rewrite Nat2N.id, firstn_app, Nat.sub_diag, firstn_all. cbn [firstn].
  apply app_nil_r.
Qed.
Lemma skipn_blen_app (a b : bytes) : skipn (N.to_nat (blen a)) (a ++ b) = b.
Proof.
  unfold blen. rewrite Nat2N.id, skipn_app, Nat.sub_diag, skipn_all. reflexivity.
Qed.
Lemma firstn_N_app (n : N) (a b : bytes) : blen a = n -> firstn (N.to_nat n) (a ++ b) = a.
Proof. intros <-. apply firstn_blen_app. Qed.
Lemma skipn_N_app (n : N) (a b : bytes) : blen a = n -> skipn (N.to_nat n) (a ++ b) = b.
Proof. intros <-. apply skipn_blen_app. Qed.

Lemma blen_zerosN n : blen (zerosN n) = n.
Proof. unfold blen, zerosN, zeros. rewrite repeat_length. lia. Qed.
Lemma blen_le_enc k v : blen (le_enc k v) = N.of_nat k.
Proof. unfold blen. rewrite le_enc_length. reflexivity. Qed.

Lemma lim32_two32 : lim32 = two32.
Proof. reflexivity. Qed.

(* ------------------------------------------------------------------ one frame *)

Definition frame_of (r : wrec) : bytes := frame (rec_marshal r).

Lemma frame_of_eq r :
  frame_of r = le_enc 8 (fst (encode_frame_size (blen (rec_marshal r))))
               ++ (rec_marshal r ++ zerosN (pad_of (blen (rec_marshal r)))).
Proof. unfold frame_of, frame. reflexivity. Qed.

Lemma blen_frame_of r : blen (frame_of r) = frame_len r.
Proof.
  rewrite frame_of_eq. rewrite blen_app, blen_app, blen_le_enc, blen_zerosN.
  unfold frame_len. change (N.of_nat 8) with 8. lia.
Qed.

Lemma frame_len_aligned r : frame_len r mod 8 = 0.
Proof. unfold frame_len. pose proof (pad_of_aligned (blen (rec_marshal r))). lia. Qed.

Lemma frame_len_ge r : rec_ok r -> 16 <= frame_len r.
Proof.
  intros Hok. pose proof (rec_marshal_bounds r Hok) as [Hlo _].
  unfold frame_len. pose proof (pad_of_aligned (blen (rec_marshal r))). lia.
Qed.

(* what decodeRecord does on the frame of a well-formed record, whatever its stored CRC *)
Lemma decode_one_frame last size off crc r rest :
  rec_ok r -> off + frame_len r <= size ->
  decode_one last size off crc (frame_of r ++ rest) =
    if r_type r =? crcType then DRec r (frame_len r) crc
    else if r_crc r =? digest_write crc (data_of r)
         then DRec r (frame_len r) (digest_write crc (data_of r))
         else if is_torn last off (rec_marshal r ++ zerosN (pad_of (blen (rec_marshal r))))
              then DStop FUnexp else DStop (FErr DRecCrc).
Proof.
  intros Hok Hsize.
  pose proof (rec_marshal_bounds r Hok) as [Hlo Hhi].
  set (m := rec_marshal r) in *. set (n := blen m) in *. set (p := pad_of n).
  pose proof (pad_of_lt n) as Hp. fold p in Hp.
  assert (Hfl : frame_len r = 8 + n + p) by reflexivity.
  rewrite frame_of_eq. fold m n p.
  set (lenf := fst (encode_frame_size n)).
  assert (Hlenf : lenf < two64) by (apply encode_frame_size_lt64; exact Hhi).
  assert (Hnz : lenf <> 0).
  { intros E. pose proof (encode_frame_size_zero n Hhi) as [Hz _]. specialize (Hz E). subst n. lia. }
  unfold decode_one.
  destruct (le_enc 8 lenf ++ (m ++ zerosN p)) as [|b0 l0] eqn:Ecur.
  { exfalso. apply (f_equal (@length byte)) in Ecur. rewrite app_length, le_enc_length in Ecur.
    cbn [length] in Ecur. lia. }
  rewrite <- Ecur. clear Ecur b0 l0.
  destruct ((le_enc 8 lenf ++ m ++ zerosN p) ++ rest) as [|b0 l0] eqn:Ecur.
  { exfalso. apply (f_equal (@length byte)) in Ecur. rewrite !app_length, le_enc_length in Ecur.
    cbn [length] in Ecur. lia. }
  rewrite <- Ecur. clear Ecur b0 l0.
  rewrite <- app_assoc.
  assert (Hf8 : firstn 8 (le_enc 8 lenf ++ (m ++ zerosN p) ++ rest) = le_enc 8 lenf).
  { change 8%nat with (N.to_nat 8). apply firstn_N_app. apply blen_le_enc. }
  rewrite Hf8.
  rewrite blen_le_enc. change (N.of_nat 8 <? 8) with false. cbn iota.
  rewrite le_dec_enc8 by exact Hlenf.
  replace (lenf =? 0) with false by lia.
  unfold lenf. rewrite decode_encode_frame_size by exact Hhi. fold p.
  replace (size <? n + off + p) with false by lia.
  assert (Hs8 : skipn 8 (le_enc 8 (fst (encode_frame_size n)) ++ (m ++ zerosN p) ++ rest) = (m ++ zerosN p) ++ rest).
  { change 8%nat with (N.to_nat 8). apply skipn_N_app. apply blen_le_enc. }
  rewrite Hs8.
  assert (Hd : firstn (N.to_nat (n + p)) ((m ++ zerosN p) ++ rest) = m ++ zerosN p).
  { apply firstn_N_app. rewrite blen_app, blen_zerosN. reflexivity. }
  rewrite Hd.
  rewrite blen_app, blen_zerosN. fold n.
  replace (n + p <? n + p) with false by lia.
  rewrite (firstn_N_app n m (zerosN p) eq_refl).
  unfold m. rewrite rec_unmarshal_marshal by exact Hok.
  rewrite Hfl.
  destruct (r_type r =? crcType); [reflexivity|].
  destruct (r_crc r =? digest_write crc (data_of r)); reflexivity.
Qed.

(* ------------------------------------------------------------------ stamping and the chain *)

Definition raw_ok (r : wrec) : Prop := r_type r < two64 /\ blen (data_of r) + 64 < two56.

Lemma digest_write_lt crc d : crc < lim32 -> digest_write crc d < lim32.
Proof. intros H. rewrite digest_write_eq. apply crc_update_lt. exact H. Qed.

Definition stamp (crc : N) (r : wrec) : wrec := mkrec (r_type r) (digest_write crc (data_of r)) (r_data r).

Lemma encode_rec_eq crc r :
  encode_rec crc r = (stamp crc r, frame_of (stamp crc r), digest_write crc (data_of r)).
Proof. reflexivity. Qed.

Lemma stamp_ok crc r : raw_ok r -> crc < lim32 -> rec_ok (stamp crc r).
Proof.
  intros [Ht Hd] Hc. unfold rec_ok, stamp. cbn [r_type r_crc r_data].
  split; [exact Ht|]. split.
  - rewrite <- lim32_two32. apply digest_write_lt. exact Hc.
  - exact Hd.
Qed.

Lemma data_of_stamp crc r : data_of (stamp crc r) = data_of r.
Proof. reflexivity. Qed.

(* reading back the frame just written: decodeRecord accepts it and the decoder's digest
   follows the encoder's *)
Lemma decode_one_stamped last size off crc r rest :
  raw_ok r -> crc < lim32 -> off + frame_len (stamp crc r) <= size ->
  decode_one last size off crc (frame_of (stamp crc r) ++ rest) =
    DRec (stamp crc r) (frame_len (stamp crc r))
         (if r_type r =? crcType then crc else digest_write crc (data_of r)).
Proof.
  intros Hraw Hc Hsz.
  rewrite decode_one_frame by (try apply stamp_ok; assumption).
  cbn [stamp r_type r_crc]. rewrite data_of_stamp.
  destruct (r_type r =? crcType); [reflexivity|].
  rewrite N.eqb_refl. reflexivity.
Qed.

(* ------------------------------------------------------------------ C16_byte_flip_in_data *)

(* replacing the byte at position (blen a) of a ++ x :: b *)
Lemma set_byte_app a x v b : set_byte (blen a) v (a ++ x :: b) = a ++ v :: b.
Proof.
  induction a as [|y a IH].
  - reflexivity.
  - cbn [app]. rewrite blen_cons. cbn [set_byte].
    replace (1 + blen a =? 0) with false by lia.
    replace (1 + blen a - 1) with (blen a) by lia.
    rewrite IH. reflexivity.
Qed.

(* offset of rec.Data inside the frame *)
Definition data_off (t c len : N) : N :=
  8 + 1 + blen (varint_enc t) + 1 + blen (varint_enc c) + 1 + blen (varint_enc len).

(* a single changed byte inside the data of a record is a single changed byte of the frame:
   the corrupted frame is the frame of the record with the changed data and the OLD crc *)
Lemma frame_flip t c pre a b suf :
  set_byte (data_off t c (blen (pre ++ a :: suf)) + blen pre) b
           (frame_of (mkrec t c (Some (pre ++ a :: suf))))
  = frame_of (mkrec t c (Some (pre ++ b :: suf))).
Proof.
  assert (Hlen : blen (pre ++ b :: suf) = blen (pre ++ a :: suf))
    by (rewrite !blen_app, !blen_cons; reflexivity).
  rewrite !frame_of_eq.
  assert (Hm : blen (rec_marshal (mkrec t c (Some (pre ++ b :: suf))))
               = blen (rec_marshal (mkrec t c (Some (pre ++ a :: suf)))))
    by (rewrite !rec_marshal_length; cbn [r_type r_crc r_data]; rewrite Hlen; reflexivity).
  rewrite Hm.
  set (hdr := le_enc 8 (fst (encode_frame_size (blen (rec_marshal (mkrec t c (Some (pre ++ a :: suf)))))))).
  set (pad := zerosN (pad_of (blen (rec_marshal (mkrec t c (Some (pre ++ a :: suf))))))).
  unfold rec_marshal. cbn [r_type r_crc r_data]. rewrite Hlen.
  set (len := blen (pre ++ a :: suf)).
  set (A := hdr ++ x08 :: varint_enc t ++ x10 :: varint_enc c ++ x1a :: varint_enc len ++ pre).
  assert (EA : forall x, hdr ++ (x08 :: varint_enc t ++ x10 :: varint_enc c ++ x1a :: varint_enc len ++ pre ++ x :: suf) ++ pad
                         = A ++ x :: (suf ++ pad)).
  { intros x. unfold A. repeat (rewrite <- app_assoc || rewrite <- app_comm_cons). reflexivity. }
  rewrite !EA.
  assert (HA : data_off t c len + blen pre = blen A).
  { unfold A, data_off. rewrite blen_app, blen_cons, blen_app, blen_cons, blen_app, blen_cons, blen_app.
    unfold hdr. rewrite blen_le_enc. change (N.of_nat 8) with 8. lia. }
  rewrite HA. apply set_byte_app.
Qed.

Theorem byte_flip_in_data last size off crc t pre a b suf rest :
  let d := pre ++ a :: suf in
  let d' := pre ++ b :: suf in
  let r := stamp crc (mkrec t 0 (Some d)) in              (* the record as written *)
  let r' := mkrec t (r_crc r) (Some d') in                 (* one data byte changed on disk *)
  a <> b -> t <> crcType -> crc < lim32 -> raw_ok (mkrec t 0 (Some d)) ->
  off + frame_len r <= size ->
  frame_of r' = set_byte (data_off t (r_crc r) (blen d) + blen pre) b (frame_of r)
  /\ (decode_one last size off crc (frame_of r' ++ rest) = DStop FUnexp
      \/ decode_one last size off crc (frame_of r' ++ rest) = DStop (FErr DRecCrc)).
Proof.
  intros d d' r r' Hab Ht Hc Hraw Hsz.
  split.
  { unfold r', r, stamp. cbn [r_type r_crc r_data data_of]. symmetry. apply frame_flip. }
  assert (Hlen : blen d' = blen d) by (unfold d, d'; rewrite !blen_app, !blen_cons; reflexivity).
  assert (Hok' : rec_ok r').
  { destruct Hraw as [Ht64 Hd]. unfold rec_ok, r', r, stamp. cbn [r_type r_crc r_data data_of] in *.
    split; [exact Ht64|]. split.
    - rewrite <- lim32_two32. apply digest_write_lt. exact Hc.
    - rewrite Hlen. exact Hd. }
  assert (Hfl : frame_len r' = frame_len r).
  { unfold frame_len. rewrite !rec_marshal_length. unfold r', r, stamp.
    cbn [r_type r_crc r_data data_of]. rewrite Hlen. reflexivity. }
  rewrite decode_one_frame by (try exact Hok'; rewrite Hfl; exact Hsz).
  replace (r_type r' =? crcType) with false by (unfold r'; cbn [r_type]; symmetry; apply N.eqb_neq; exact Ht).
  assert (Hne : r_crc r' <> digest_write crc (data_of r')).
  { unfold r', r, stamp. cbn [r_crc r_data data_of]. rewrite !digest_write_eq.
    unfold d, d'. apply crc_update_one_byte; assumption. }
  apply N.eqb_neq in Hne. rewrite Hne.
  destruct (is_torn last off _); [left|right]; reflexivity.
Qed.

(* the rolling CRC never re-converges: from the digest after the changed data, every later
   record written on top of the original chain fails its CRC check too *)
Theorem byte_flip_chain crc pre a b suf (later : list bytes) d2 :
  a <> b -> crc < lim32 ->
  let c1 := digest_write crc (pre ++ a :: suf) in
  let c1' := digest_write crc (pre ++ b :: suf) in
  let chain c := fold_left digest_write later c in
  digest_write (chain c1) d2 <> digest_write (chain c1') d2.
Proof.
  intros Hab Hc c1 c1' chain.
  assert (H1 : c1 <> c1') by (unfold c1, c1'; rewrite !digest_write_eq; apply crc_update_one_byte; assumption).
  assert (L1 : c1 < lim32) by (apply digest_write_lt; exact Hc).
  assert (L1' : c1' < lim32) by (apply digest_write_lt; exact Hc).
  clearbody c1 c1'. unfold chain. clear chain.
  revert c1 c1' H1 L1 L1'. induction later as [|x later IH]; intros c1 c1' H1 L1 L1'; cbn [fold_left].
  - rewrite !digest_write_eq. apply crc_update_diverge; assumption.
  - apply IH.
    + rewrite !digest_write_eq. apply crc_update_diverge; assumption.
    + apply digest_write_lt; exact L1.
    + apply digest_write_lt; exact L1'.
Qed.

(* ------------------------------------------------------------------ C16_record_roundtrip *)

Lemma encode_recs_cons crc r rs :
  encode_recs crc (r :: rs) =
  let '(rs', bs, crc2) := encode_recs (digest_write crc (data_of r)) rs in
  (stamp crc r :: rs', frame_of (stamp crc r) ++ bs, crc2).
Proof. cbn [encode_recs]. rewrite encode_rec_eq. reflexivity. Qed.

(* the digest the decoder holds after a record it accepted; for a crcType record the decode loop
   sets it to the stored value, which for a record we wrote is the encoder's digest *)
Lemma digest_write_nil crc : digest_write crc [] = crc.
Proof. rewrite digest_write_eq. apply crc_update_nil. Qed.

Definition crc_rec_wf (r : wrec) : Prop := r_type r = crcType -> r_data r = None.

Lemma decode_file_cons fuel last size off crc r rest :
  raw_ok r -> crc_rec_wf r -> crc < lim32 -> off + frame_len (stamp crc r) <= size ->
  decode_file (S fuel) last size off crc (frame_of (stamp crc r) ++ rest) =
  let '(rs, st, off', crc') :=
    decode_file fuel last size (off + frame_len (stamp crc r)) (digest_write crc (data_of r)) rest in
  (stamp crc r :: rs, st, off', crc').
Proof.
  intros Hraw Hwf Hc Hsz.
  cbn [decode_file]. rewrite decode_one_stamped by assumption.
  cbn [stamp r_type r_crc].
  destruct (r_type r =? crcType) eqn:Et.
  - apply N.eqb_eq in Et. specialize (Hwf Et).
    assert (Hd : data_of r = []) by (unfold data_of; rewrite Hwf; reflexivity).
    rewrite Hd, digest_write_nil, N.eqb_refl. cbn [negb andb].
    rewrite andb_false_r. cbn iota.
    rewrite <- (blen_frame_of (stamp crc r)), skipn_blen_app.
    rewrite (blen_frame_of (stamp crc r)). reflexivity.
  - cbn [andb]. cbn iota.
    rewrite <- (blen_frame_of (stamp crc r)), skipn_blen_app.
    rewrite (blen_frame_of (stamp crc r)). reflexivity.
Qed.

Lemma encode_recs_crc_lt rs : forall crc, crc < lim32 -> snd (encode_recs crc rs) < lim32.
Proof.
  induction rs as [|r rs IH]; intros crc Hc; [exact Hc|].
  rewrite encode_recs_cons.
  specialize (IH (digest_write crc (data_of r)) (digest_write_lt _ _ Hc)).
  destruct (encode_recs (digest_write crc (data_of r)) rs) as [[rs' bs] c2]. exact IH.
Qed.

Theorem decode_file_encode_recs rs : forall fuel last size off crc tail,
  Forall raw_ok rs -> Forall crc_rec_wf rs -> crc < lim32 ->
  let '(rs', bs, crc') := encode_recs crc rs in
  off + blen bs <= size ->
  decode_file (length rs + fuel) last size off crc (bs ++ tail) =
  let '(rs2, st, off2, crc2) := decode_file fuel last size (off + blen bs) crc' tail in
  (rs' ++ rs2, st, off2, crc2).
Proof.
  induction rs as [|r rs IH]; intros fuel last size off crc tail Hraw Hwf Hc.
  - cbn [encode_recs length app plus]. intros _. rewrite blen_nil, N.add_0_r.
    destruct (decode_file fuel last size off crc tail) as [[[a b] c] d]. reflexivity.
  - rewrite encode_recs_cons.
    inversion Hraw as [|? ? Hr Hrs]; subst. inversion Hwf as [|? ? Hw Hws]; subst.
    specialize (IH fuel last size (off + frame_len (stamp crc r)) (digest_write crc (data_of r)) tail
                   Hrs Hws (digest_write_lt _ _ Hc)).
    destruct (encode_recs (digest_write crc (data_of r)) rs) as [[rs' bs] c2].
    intros Hsz. rewrite blen_app, blen_frame_of in Hsz.
    cbn [length plus]. rewrite <- app_assoc.
    rewrite decode_file_cons by (try assumption; lia).
    rewrite IH by lia.
    rewrite blen_app, blen_frame_of.
    replace (off + (frame_len (stamp crc r) + blen bs)) with (off + frame_len (stamp crc r) + blen bs) by lia.
    destruct (decode_file fuel last size (off + frame_len (stamp crc r) + blen bs) c2 tail) as [[[a b] c] d].
    reflexivity.
Qed.

(* the preallocated tail: zero bytes (none, or at least a whole length field) end the file cleanly *)
Lemma decode_file_zeros fuel last size off crc k :
  k = 0 \/ 8 <= k -> decode_file (S fuel) last size off crc (zerosN k) = ([], FEnd, off, crc).
Proof.
  intros Hk. cbn [decode_file]. unfold decode_one.
  destruct (zerosN k) as [|b l] eqn:E; [reflexivity|].
  destruct Hk as [->|Hk]; [discriminate|].
  rewrite <- E. clear E b l.
  assert (Hz : zerosN k = zerosN 8 ++ zerosN (k - 8)).
  { unfold zerosN, zeros. rewrite <- repeat_app. f_equal. lia. }
  rewrite Hz.
  assert (Hf : firstn 8 (zerosN 8 ++ zerosN (k - 8)) = zerosN 8).
  { change 8%nat with (N.to_nat 8) at 1. apply firstn_N_app. apply blen_zerosN. }
  rewrite Hf. reflexivity.
Qed.

Lemma encode_recs_length rs : forall crc, Forall raw_ok rs -> crc < lim32 ->
  N.of_nat (length rs) * 16 <= blen (snd (fst (encode_recs crc rs)))
  /\ length (fst (fst (encode_recs crc rs))) = length rs.
Proof.
  induction rs as [|r rs IH]; intros crc Hraw Hc.
  - cbn. split; [lia|reflexivity].
  - rewrite encode_recs_cons. inversion Hraw as [|? ? Hr Hrs]; subst.
    specialize (IH (digest_write crc (data_of r)) Hrs (digest_write_lt _ _ Hc)).
    destruct (encode_recs (digest_write crc (data_of r)) rs) as [[rs' bs] c2].
    cbn [fst snd length] in *. rewrite blen_app, blen_frame_of.
    pose proof (frame_len_ge (stamp crc r) (stamp_ok crc r Hr Hc)).
    split; [lia|]. f_equal. apply IH.
Qed.

(* C16_record_roundtrip: any list of records (arbitrary types and payloads) written through the
   encoder into a file, followed by the zero-filled rest of the preallocation (k zero bytes,
   k = 0 for a closed segment), is read back by the decode loop exactly, in order, with the
   stamped CRCs of the rolling chain, ending in a clean EOF at the end of the data and with
   the decoder's digest equal to the encoder's. *)
Theorem record_roundtrip rs last crc k :
  Forall raw_ok rs -> Forall crc_rec_wf rs -> crc < lim32 -> (k = 0 \/ 8 <= k) ->
  let '(rs', bs, crc') := encode_recs crc rs in
  decode_whole last crc (bs ++ zerosN k) = (rs', FEnd, blen bs, crc').
Proof.
  intros Hraw Hwf Hc Hk.
  pose proof (decode_file_encode_recs rs) as H.
  pose proof (encode_recs_length rs crc Hraw Hc) as [Hlen _].
  destruct (encode_recs crc rs) as [[rs' bs] crc'] eqn:E. cbn [fst snd] in Hlen.
  unfold decode_whole.
  assert (Hfuel : exists f, S (length (bs ++ zerosN k)) = (length rs + S f)%nat).
  { exists (length (bs ++ zerosN k) - length rs)%nat.
    rewrite app_length. unfold blen in Hlen. lia. }
  destruct Hfuel as [f Hf]. rewrite Hf.
  specialize (H (S f) last (blen (bs ++ zerosN k)) 0 crc (zerosN k) Hraw Hwf Hc).
  rewrite E in H. rewrite H by (rewrite blen_app; lia).
  rewrite decode_file_zeros by exact Hk.
  rewrite app_nil_r, N.add_0_l. reflexivity.
Qed.
