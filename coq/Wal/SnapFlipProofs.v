(* C16 — snapshot files: what Snapshotter.save writes, Read accepts; a single changed byte inside
   the checksummed snapshot bytes makes Read fail, so Load falls back (C16_snap_fallback). *)
Require Import Base.Bytes Wal.Crc32c Wal.CrcTab Wal.Pb Wal.WalModel Wal.SnapModel.
Require Import Wal.FrameProofs Wal.CrcProofs Wal.PbProofs Wal.WalProofs.
Require Import Lia ZifyN ZifyNat ZifyBool.
Local Open Scope N_scope.

Lemma crc_update_tab_lt c p : c < lim32 -> crc_update_tab c p < lim32.
Proof. intros H. rewrite crc_update_tab_eq. apply crc_update_lt. exact H. Qed.

Lemma snapfile_marshal_nonempty c d : snapfile_marshal (mksnapfile c (Some d)) <> [].
Proof. unfold snapfile_marshal. discriminate. Qed.

(* Read on a wrapper {crc, data} written by the marshaller *)
Lemma snap_read_marshal c d :
  c < two32 -> blen d + 64 < two56 ->
  snap_read (snapfile_marshal (mksnapfile c (Some d))) =
    if (blen d =? 0) || (c =? 0) then SnErr SnEmpty
    else if negb (crc_update_tab 0 d =? c) then SnErr SnCrc
    else match raftsnap_check d with PErr _ => SnErr SnInner | POk _ => SnOk d end.
Proof.
  intros Hc Hd. unfold snap_read.
  destruct (snapfile_marshal (mksnapfile c (Some d))) as [|x l] eqn:E.
  { exfalso. exact (snapfile_marshal_nonempty c d E). }
  rewrite <- E. rewrite snapfile_unmarshal_marshal by assumption.
  cbn [sf_data sf_crc]. reflexivity.
Qed.

(* what was saved reads back *)
Theorem snap_roundtrip b :
  b <> [] -> blen b + 64 < two56 -> crc_update 0 b <> 0 -> raftsnap_check b = POk tt ->
  snap_read (snap_file_of b) = SnOk b.
Proof.
  intros Hne Hb Hcrc Hin. unfold snap_file_of.
  assert (Hl : crc_update_tab 0 b < two32).
  { rewrite <- lim32_two32. apply crc_update_tab_lt. unfold lim32. lia. }
  rewrite snap_read_marshal by assumption.
  assert (blen b <> 0) by (unfold blen; destruct b; [congruence|cbn [length]; lia]).
  replace (blen b =? 0) with false by lia.
  rewrite crc_update_tab_eq in *.
  replace (crc_update 0 b =? 0) with false by lia. cbn [orb].
  rewrite N.eqb_refl. cbn [negb]. rewrite Hin. reflexivity.
Qed.

(* offset of the snapshot bytes inside the file *)
Definition snap_data_off (c len : N) : N := 1 + blen (varint_enc c) + 1 + blen (varint_enc len).

Lemma snap_file_flip c pre a v suf :
  set_byte (snap_data_off c (blen (pre ++ a :: suf)) + blen pre) v
           (snapfile_marshal (mksnapfile c (Some (pre ++ a :: suf))))
  = snapfile_marshal (mksnapfile c (Some (pre ++ v :: suf))).
Proof.
  assert (Hlen : blen (pre ++ v :: suf) = blen (pre ++ a :: suf))
    by (rewrite !blen_app, !blen_cons; reflexivity).
  unfold snapfile_marshal. cbn [sf_crc sf_data]. rewrite Hlen.
  set (len := blen (pre ++ a :: suf)).
  set (A := x08 :: varint_enc c ++ x12 :: varint_enc len ++ pre).
  assert (EA : forall x, x08 :: varint_enc c ++ x12 :: varint_enc len ++ pre ++ x :: suf = A ++ x :: suf).
  { intros x. unfold A. repeat (rewrite <- app_assoc || rewrite <- app_comm_cons). reflexivity. }
  rewrite !EA.
  assert (HA : snap_data_off c len + blen pre = blen A).
  { unfold A, snap_data_off. rewrite blen_cons, blen_app, blen_cons, blen_app. lia. }
  rewrite HA. apply set_byte_app.
Qed.

(* a single changed byte inside the snapshot bytes: the file on disk is the saved file with that
   byte replaced, and Read rejects it (ErrCRCMismatch; ErrEmptySnapshot if the stored crc is 0) *)
Theorem snap_byte_flip pre a v suf :
  let b := pre ++ a :: suf in
  let c := crc_update_tab 0 b in
  a <> v -> blen b + 64 < two56 ->
  set_byte (snap_data_off c (blen b) + blen pre) v (snap_file_of b)
    = snapfile_marshal (mksnapfile c (Some (pre ++ v :: suf)))
  /\ exists e, snap_read (set_byte (snap_data_off c (blen b) + blen pre) v (snap_file_of b)) = SnErr e.
Proof.
  intros b c Hav Hb.
  assert (Hflip : set_byte (snap_data_off c (blen b) + blen pre) v (snap_file_of b)
                  = snapfile_marshal (mksnapfile c (Some (pre ++ v :: suf))))
    by (unfold snap_file_of, b, c; apply snap_file_flip).
  split; [exact Hflip|]. rewrite Hflip.
  assert (Hl : c < two32).
  { rewrite <- lim32_two32. apply crc_update_tab_lt. unfold lim32. lia. }
  assert (Hlen : blen (pre ++ v :: suf) = blen b) by (unfold b; rewrite !blen_app, !blen_cons; reflexivity).
  rewrite snap_read_marshal by (try exact Hl; rewrite Hlen; exact Hb).
  destruct ((blen (pre ++ v :: suf) =? 0) || (c =? 0)); [eexists; reflexivity|].
  assert (Hne : crc_update_tab 0 (pre ++ v :: suf) <> c).
  { unfold c, b. rewrite !crc_update_tab_eq. apply not_eq_sym. apply crc_update_one_byte; [unfold lim32; lia|exact Hav]. }
  apply N.eqb_neq in Hne. rewrite Hne. cbn [negb]. eexists; reflexivity.
Qed.
