(* C16 (snapshot part) — proofs about the snapshot directory loader of SnapModel.v:
   "a damaged newest snapshot file falls back to the newest intact one".
   Main results: snap_load_fallback, snap_load_some_iff, snap_load_example. *)
Require Import Base.Bytes Wal.Crc32c Wal.Pb Wal.SnapModel.
Require Import Lia ZifyN ZifyNat ZifyBool.
Require Import Coq.Sorting.Sorted Coq.Sorting.Permutation.
Local Open Scope N_scope.

(* ------------------------------------------------------------------ *)
(* Vocabulary                                                          *)
(* ------------------------------------------------------------------ *)

Definition intact (dir : list (bytes * bytes)) (n : bytes) : Prop :=
  exists c d, lookup n dir = Some c /\ snap_read c = SnOk d.

Definition is_snap_name (n : bytes) : bool :=
  negb (is_prefix dbtmp_prefix n) && has_suffix snap_suffix n.

(* strict "newer than" = Go string order on names; snapshot names are
   %016x-%016x.snap so this is (term,index) order *)
Definition newer (a b : bytes) : Prop := bytes_ltb b a = true.

(* the file exists in the directory (only existing files can be renamed to .broken) *)
Definition present (dir : list (bytes * bytes)) (m : bytes) : bool :=
  match lookup m dir with Some _ => true | None => false end.

(* ------------------------------------------------------------------ *)
(* 1. bytes_ltb is a strict total order                                *)
(* ------------------------------------------------------------------ *)

Lemma bytes_ltb_irrefl : forall a, bytes_ltb a a = false.
Proof.
  induction a as [|x a IH]; cbn [bytes_ltb]; [reflexivity|].
  rewrite N.ltb_irrefl. exact IH.
Qed.

Lemma bytes_ltb_trans : forall a b c,
  bytes_ltb a b = true -> bytes_ltb b c = true -> bytes_ltb a c = true.
Proof.
  induction a as [|x a IH]; intros [|y b] [|z c]; cbn [bytes_ltb];
    try (intros; discriminate); try (intros; reflexivity).
  destruct (N.ltb_spec (bval x) (bval y)) as [Hxy|Hxy];
  destruct (N.ltb_spec (bval y) (bval x)) as [Hyx|Hyx];
  destruct (N.ltb_spec (bval y) (bval z)) as [Hyz|Hyz];
  destruct (N.ltb_spec (bval z) (bval y)) as [Hzy|Hzy];
  destruct (N.ltb_spec (bval x) (bval z)) as [Hxz|Hxz];
  destruct (N.ltb_spec (bval z) (bval x)) as [Hzx|Hzx];
  intros Hab Hbc; try discriminate; try reflexivity; try lia.
  eapply IH; eassumption.
Qed.

Lemma bytes_ltb_total : forall a b,
  a <> b -> bytes_ltb a b = true \/ bytes_ltb b a = true.
Proof.
  induction a as [|x a IH]; intros [|y b] Hne; cbn [bytes_ltb].
  - contradiction Hne; reflexivity.
  - left; reflexivity.
  - right; reflexivity.
  - destruct (N.ltb_spec (bval x) (bval y)) as [Hxy|Hxy];
    destruct (N.ltb_spec (bval y) (bval x)) as [Hyx|Hyx];
      try (left; reflexivity); try (right; reflexivity).
    assert (x = y) as -> by (apply bval_inj; lia).
    apply IH. intros ->. apply Hne; reflexivity.
Qed.

Lemma bytes_ltb_asym : forall a b, bytes_ltb a b = true -> bytes_ltb b a = false.
Proof.
  intros a b Hab. destruct (bytes_ltb b a) eqn:Hba; [|reflexivity].
  pose proof (bytes_ltb_trans a b a Hab Hba) as Haa.
  rewrite bytes_ltb_irrefl in Haa. discriminate.
Qed.

(* >= is antisymmetric and transitive *)
Lemma bytes_geb_antisym : forall a b,
  bytes_ltb a b = false -> bytes_ltb b a = false -> a = b.
Proof.
  intros a b Hab Hba. destruct (bytes_eq_dec a b) as [E|Hne]; [exact E|].
  destruct (bytes_ltb_total a b Hne); congruence.
Qed.

Lemma bytes_geb_trans : forall a b c,
  bytes_ltb a b = false -> bytes_ltb b c = false -> bytes_ltb a c = false.
Proof.
  intros a b c Hab Hbc. destruct (bytes_ltb a c) eqn:Hac; [|reflexivity].
  destruct (bytes_eq_dec a b) as [E|Hne]; [subst b; congruence|].
  destruct (bytes_ltb_total a b Hne) as [H|H]; [congruence|].
  rewrite (bytes_ltb_trans b a c H Hac) in Hbc. discriminate.
Qed.

Lemma newer_irrefl : forall a, ~ newer a a.
Proof. intros a H. unfold newer in H. rewrite bytes_ltb_irrefl in H. discriminate. Qed.

Lemma newer_asym : forall a b, newer a b -> ~ newer b a.
Proof.
  unfold newer. intros a b Hab Hba. apply bytes_ltb_asym in Hab. congruence.
Qed.

Lemma newer_trans : forall a b c, newer a b -> newer b c -> newer a c.
Proof. unfold newer. intros a b c Hab Hbc. eapply bytes_ltb_trans; eassumption. Qed.

Lemma newer_total : forall a b, a <> b -> newer a b \/ newer b a.
Proof.
  unfold newer. intros a b Hne. destruct (bytes_ltb_total a b Hne); [right|left]; assumption.
Qed.

(* ------------------------------------------------------------------ *)
(* 2. sort_desc is a sorting permutation                               *)
(* ------------------------------------------------------------------ *)

Definition geR (a b : bytes) : Prop := bytes_ltb a b = false.

Lemma insert_desc_perm : forall n l, Permutation (insert_desc n l) (n :: l).
Proof.
  intros n l. induction l as [|m r IH]; cbn [insert_desc]; [apply Permutation_refl|].
  destruct (bytes_ltb n m).
  - eapply Permutation_trans; [apply perm_skip; exact IH | apply perm_swap].
  - apply Permutation_refl.
Qed.

Lemma sort_desc_cons : forall x l, sort_desc (x :: l) = insert_desc x (sort_desc l).
Proof. reflexivity. Qed.

Lemma sort_desc_perm : forall l, Permutation (sort_desc l) l.
Proof.
  induction l as [|x l IH]; [apply Permutation_refl|].
  rewrite sort_desc_cons.
  eapply Permutation_trans; [apply insert_desc_perm | apply perm_skip; exact IH].
Qed.

Lemma sort_desc_in : forall l x, In x (sort_desc l) <-> In x l.
Proof.
  intros l x; split; apply Permutation_in;
    [apply sort_desc_perm | apply Permutation_sym, sort_desc_perm].
Qed.

Lemma insert_desc_sorted : forall n l,
  StronglySorted geR l -> StronglySorted geR (insert_desc n l).
Proof.
  intros n l. induction l as [|m r IH]; intros HS; cbn [insert_desc].
  - constructor; constructor.
  - apply StronglySorted_inv in HS as [HSr HF].
    destruct (bytes_ltb n m) eqn:Hnm.
    + constructor; [apply IH; exact HSr|].
      apply Forall_forall. intros x Hx.
      apply (Permutation_in _ (insert_desc_perm n r)) in Hx.
      destruct Hx as [<-|Hx].
      * apply bytes_ltb_asym; exact Hnm.
      * rewrite Forall_forall in HF. apply HF; exact Hx.
    + constructor; [constructor; assumption|].
      constructor; [exact Hnm|].
      rewrite Forall_forall in HF. apply Forall_forall. intros x Hx.
      eapply bytes_geb_trans; [exact Hnm|apply HF; exact Hx].
Qed.

Lemma sort_desc_sorted_geR : forall l, StronglySorted geR (sort_desc l).
Proof.
  induction l as [|x l IH]; [constructor|].
  rewrite sort_desc_cons. apply insert_desc_sorted. exact IH.
Qed.

(* every earlier element is >= every later one *)
Theorem sort_desc_sorted : forall l,
  StronglySorted (fun a b => bytes_ltb a b = false) (sort_desc l).
Proof. exact sort_desc_sorted_geR. Qed.

Lemma sorted_nodup_strict : forall l,
  StronglySorted geR l -> NoDup l -> StronglySorted newer l.
Proof.
  induction 1 as [|a l HS IH HF]; intros HN; constructor.
  - apply IH. inversion HN; assumption.
  - apply Forall_forall. intros x Hx. rewrite Forall_forall in HF.
    assert (a <> x) as Hne by (intros ->; inversion HN; contradiction).
    destruct (newer_total a x Hne) as [H|H]; [exact H|].
    unfold newer in H. specialize (HF x Hx). unfold geR in HF. congruence.
Qed.

Lemma sort_desc_nodup : forall l, NoDup l -> NoDup (sort_desc l).
Proof.
  intros l HN. eapply Permutation_NoDup; [apply Permutation_sym, sort_desc_perm|exact HN].
Qed.

(* with distinct names: strictly descending, earlier = strictly newer *)
Theorem sort_desc_strict : forall l, NoDup l -> StronglySorted newer (sort_desc l).
Proof.
  intros l HN. apply sorted_nodup_strict; [apply sort_desc_sorted_geR|apply sort_desc_nodup; exact HN].
Qed.

Lemma strict_sorted_split : forall pre n post,
  StronglySorted newer (pre ++ n :: post) ->
  (forall x, In x pre -> newer x n) /\ (forall x, In x post -> newer n x).
Proof.
  induction pre as [|p pre IH]; cbn [app]; intros n post HS;
    apply StronglySorted_inv in HS as [HS HF].
  - split; [intros x []|]. rewrite Forall_forall in HF. exact HF.
  - destruct (IH _ _ HS) as [H1 H2]. split; [|exact H2].
    intros x [<-|Hx]; [|apply H1; exact Hx].
    rewrite Forall_forall in HF. apply HF. apply in_or_app. right; left; reflexivity.
Qed.

Lemma newer_in_pre : forall pre n post m,
  StronglySorted newer (pre ++ n :: post) ->
  In m (pre ++ n :: post) -> newer m n -> In m pre.
Proof.
  intros pre n post m HS Hin Hnew.
  destruct (strict_sorted_split _ _ _ HS) as [_ H2].
  apply in_app_or in Hin as [Hin|[<-|Hin]].
  - exact Hin.
  - exfalso. exact (newer_irrefl _ Hnew).
  - exfalso. exact (newer_asym _ _ Hnew (H2 _ Hin)).
Qed.

(* ------------------------------------------------------------------ *)
(* 3. snap_names                                                       *)
(* ------------------------------------------------------------------ *)

Lemma snap_names_eq : forall dir,
  snap_names dir = sort_desc (filter is_snap_name (map fst dir)).
Proof. reflexivity. Qed.

Theorem snap_names_in : forall dir n,
  In n (snap_names dir) <-> In n (map fst dir) /\ is_snap_name n = true.
Proof.
  intros dir n. rewrite snap_names_eq, sort_desc_in. apply filter_In.
Qed.

Lemma snap_names_nodup : forall dir, NoDup (map fst dir) -> NoDup (snap_names dir).
Proof.
  intros dir HN. rewrite snap_names_eq. apply sort_desc_nodup, NoDup_filter. exact HN.
Qed.

Lemma snap_names_strict : forall dir,
  NoDup (map fst dir) -> StronglySorted newer (snap_names dir).
Proof.
  intros dir HN. rewrite snap_names_eq. apply sort_desc_strict, NoDup_filter. exact HN.
Qed.

Theorem snap_names_sorted : forall dir,
  StronglySorted (fun a b => bytes_ltb a b = false) (snap_names dir).
Proof. intros dir. rewrite snap_names_eq. apply sort_desc_sorted. Qed.

(* ------------------------------------------------------------------ *)
(* lookup                                                              *)
(* ------------------------------------------------------------------ *)

Lemma lookup_in : forall dir m, In m (map fst dir) -> exists c, lookup m dir = Some c.
Proof.
  induction dir as [|[m0 c0] r IH]; intros m Hin; cbn [map fst In lookup] in *; [contradiction|].
  destruct (bytes_eqb m0 m) eqn:E; [eexists; reflexivity|].
  destruct Hin as [->|Hin]; [rewrite bytes_eqb_refl in E; discriminate|].
  apply IH; exact Hin.
Qed.

Lemma lookup_some_in : forall dir m c, lookup m dir = Some c -> In m (map fst dir).
Proof.
  induction dir as [|[m0 c0] r IH]; intros m c H; cbn [map fst In lookup] in *; [discriminate|].
  destruct (bytes_eqb m0 m) eqn:E.
  - left. apply bytes_eqb_eq; exact E.
  - right. eapply IH; exact H.
Qed.

Lemma lookup_some_in_pair : forall dir m c, lookup m dir = Some c -> In (m, c) dir.
Proof.
  induction dir as [|[m0 c0] r IH]; intros m c H; cbn [In lookup] in *; [discriminate|].
  destruct (bytes_eqb m0 m) eqn:E.
  - left. apply bytes_eqb_eq in E. congruence.
  - right. apply IH; exact H.
Qed.

Lemma present_true_iff : forall dir m, present dir m = true <-> In m (map fst dir).
Proof.
  intros dir m; unfold present; split.
  - destruct (lookup m dir) eqn:E; [intros _; eapply lookup_some_in; exact E|discriminate].
  - intros Hin. destruct (lookup_in _ _ Hin) as [c ->]. reflexivity.
Qed.

Lemma not_intact_none : forall dir m, lookup m dir = None -> ~ intact dir m.
Proof. intros dir m E (c & d & Hc & _). congruence. Qed.

Lemma not_intact_err : forall dir m c e,
  lookup m dir = Some c -> snap_read c = SnErr e -> ~ intact dir m.
Proof. intros dir m c e E R (c' & d & Hc & Hd). congruence. Qed.

(* ------------------------------------------------------------------ *)
(* 4. load_loop characterisation                                       *)
(* ------------------------------------------------------------------ *)

Theorem load_loop_some : forall names dir broken n d br,
  load_loop names dir broken = (Some (n, d), br) ->
  exists pre post c,
    names = pre ++ n :: post /\ lookup n dir = Some c /\ snap_read c = SnOk d
    /\ (forall m, In m pre -> ~ intact dir m)
    /\ br = rev broken ++
            filter (fun m => match lookup m dir with Some _ => true | None => false end) pre.
Proof.
  induction names as [|a names IH]; intros dir broken n d br H; cbn [load_loop] in H.
  - discriminate.
  - destruct (lookup a dir) as [c|] eqn:El.
    + destruct (snap_read c) as [d0|e] eqn:Er.
      * injection H as <- <- <-.
        exists [], names, c. cbn [app filter]. rewrite app_nil_r.
        repeat split; try assumption. intros m [].
      * apply IH in H as (pre & post & c' & -> & Hl & Hr & Hpre & ->).
        exists (a :: pre), post, c'. repeat split; try assumption.
        -- intros m [<-|Hm]; [eapply not_intact_err; eassumption|apply Hpre; exact Hm].
        -- cbn [filter rev]. rewrite El, <- app_assoc. reflexivity.
    + apply IH in H as (pre & post & c' & -> & Hl & Hr & Hpre & ->).
      exists (a :: pre), post, c'. repeat split; try assumption.
      * intros m [<-|Hm]; [apply not_intact_none; exact El|apply Hpre; exact Hm].
      * cbn [filter]. rewrite El. reflexivity.
Qed.

Theorem load_loop_none : forall names dir broken br,
  load_loop names dir broken = (None, br) ->
  (forall m, In m names -> ~ intact dir m)
  /\ br = rev broken ++
          filter (fun m => match lookup m dir with Some _ => true | None => false end) names.
Proof.
  induction names as [|a names IH]; intros dir broken br H; cbn [load_loop] in H.
  - injection H as <-. cbn [filter]. rewrite app_nil_r. split; [intros m []|reflexivity].
  - destruct (lookup a dir) as [c|] eqn:El.
    + destruct (snap_read c) as [d0|e] eqn:Er; [discriminate|].
      apply IH in H as [Hall ->]. split.
      * intros m [<-|Hm]; [eapply not_intact_err; eassumption|apply Hall; exact Hm].
      * cbn [filter rev]. rewrite El, <- app_assoc. reflexivity.
    + apply IH in H as [Hall ->]. split.
      * intros m [<-|Hm]; [apply not_intact_none; exact El|apply Hall; exact Hm].
      * cbn [filter]. rewrite El. reflexivity.
Qed.

(* ------------------------------------------------------------------ *)
(* 5. Main theorem                                                     *)
(* ------------------------------------------------------------------ *)

Theorem snap_load_fallback : forall dir, NoDup (map fst dir) ->
  match snap_load dir with
  | (Some (n, d), broken) =>
      In n (map fst dir) /\ is_snap_name n = true /\ intact dir n
      /\ (exists c, lookup n dir = Some c /\ snap_read c = SnOk d)
      /\ (forall m, In m (map fst dir) -> is_snap_name m = true -> newer m n -> ~ intact dir m)
      /\ (forall m, In m broken <-> (In m (map fst dir) /\ is_snap_name m = true /\ newer m n))
  | (None, broken) =>
      (forall m, In m (map fst dir) -> is_snap_name m = true -> ~ intact dir m)
      /\ (forall m, In m broken <-> (In m (map fst dir) /\ is_snap_name m = true))
  end.
Proof.
  intros dir HN.
  pose proof (snap_names_strict dir HN) as HS.
  destruct (snap_load dir) as [[[n d]|] broken] eqn:E; unfold snap_load in E.
  - apply load_loop_some in E as (pre & post & c & Hnames & Hl & Hr & Hpre & ->).
    cbn [rev app].
    rewrite Hnames in HS.
    assert (forall m, In m (pre ++ n :: post) <-> In m (map fst dir) /\ is_snap_name m = true)
      as Hin by (intros m; rewrite <- Hnames; apply snap_names_in).
    assert (In n (pre ++ n :: post)) as Hn
      by (apply in_or_app; right; left; reflexivity).
    apply Hin in Hn as [Hn1 Hn2].
    split; [exact Hn1|]. split; [exact Hn2|].
    split; [exists c, d; split; assumption|].
    split; [exists c; split; assumption|].
    split.
    + intros m Hm1 Hm2 Hnew. apply Hpre.
      eapply newer_in_pre; [exact HS| |exact Hnew].
      apply Hin; split; assumption.
    + intros m. rewrite filter_In. split.
      * intros [Hm _].
        assert (In m (pre ++ n :: post)) as Hm' by (apply in_or_app; left; exact Hm).
        apply Hin in Hm' as [Hm1 Hm2].
        split; [exact Hm1|]. split; [exact Hm2|].
        destruct (strict_sorted_split _ _ _ HS) as [H1 _]. apply H1; exact Hm.
      * intros (Hm1 & Hm2 & Hnew). split.
        -- eapply newer_in_pre; [exact HS| |exact Hnew]. apply Hin; split; assumption.
        -- destruct (lookup_in _ _ Hm1) as [c' ->]. reflexivity.
  - apply load_loop_none in E as [Hall ->]. cbn [rev app]. split.
    + intros m Hm1 Hm2. apply Hall. apply snap_names_in; split; assumption.
    + intros m. rewrite filter_In, snap_names_in. split.
      * intros [H _]; exact H.
      * intros [Hm1 Hm2]. split; [split; assumption|].
        destruct (lookup_in _ _ Hm1) as [c' ->]. reflexivity.
Qed.

Theorem snap_load_some_iff : forall dir, NoDup (map fst dir) ->
  ((exists n, In n (map fst dir) /\ is_snap_name n = true /\ intact dir n)
   <-> exists r br, snap_load dir = (Some r, br)).
Proof.
  intros dir HN. pose proof (snap_load_fallback dir HN) as H.
  destruct (snap_load dir) as [[[n d]|] broken] eqn:E; split.
  - intros _. exists (n, d), broken. reflexivity.
  - intros _. exists n. destruct H as (H1 & H2 & H3 & _). repeat split; assumption.
  - intros (n & Hn1 & Hn2 & Hn3). exfalso. destruct H as [Hall _].
    exact (Hall n Hn1 Hn2 Hn3).
  - intros (r & br & Hr). discriminate.
Qed.

(* the loaded snapshot is the unique newest intact one: any other intact snapshot is older *)
Corollary snap_load_newest : forall dir n d br, NoDup (map fst dir) ->
  snap_load dir = (Some (n, d), br) ->
  forall m, In m (map fst dir) -> is_snap_name m = true -> intact dir m -> m = n \/ newer n m.
Proof.
  intros dir n d br HN E m Hm1 Hm2 Hm3.
  pose proof (snap_load_fallback dir HN) as H. rewrite E in H.
  destruct H as (_ & _ & _ & _ & Hnew & _).
  destruct (bytes_eq_dec m n) as [->|Hne]; [left; reflexivity|right].
  destruct (newer_total m n Hne) as [Hmn|Hnm]; [|exact Hnm].
  exfalso. exact (Hnew m Hm1 Hm2 Hmn Hm3).
Qed.

(* ------------------------------------------------------------------ *)
(* 6. Non-vacuity: a concrete directory with a damaged newest snapshot *)
(* ------------------------------------------------------------------ *)

Definition ex_old : bytes := [x31; x2e; x73; x6e; x61; x70].     (* "1.snap" *)
Definition ex_new : bytes := [x32; x2e; x73; x6e; x61; x70].     (* "2.snap" *)
Definition ex_d0 : bytes := [x0a; x01; x61].                     (* Snapshot{data: "a"} *)
Definition ex_dir : list (bytes * bytes) :=
  [(ex_old, snap_file_of ex_d0); (ex_new, [x01])].

Example snap_load_example :
  NoDup (map fst ex_dir)
  /\ newer ex_new ex_old
  /\ is_snap_name ex_old = true /\ is_snap_name ex_new = true
  /\ snap_read (snap_file_of ex_d0) = SnOk ex_d0
  /\ snap_read [x01] = SnErr SnUnmarshal
  /\ snap_load ex_dir = (Some (ex_old, ex_d0), [ex_new]).
Proof.
  split.
  - cbn [map fst ex_dir]. constructor.
    + intros [H|[]]. discriminate H.
    + constructor; [intros []|constructor].
  - repeat split; vm_compute; reflexivity.
Qed.

Print Assumptions snap_load_fallback.
Print Assumptions snap_load_some_iff.
Print Assumptions snap_load_newest.
Print Assumptions snap_load_example.
