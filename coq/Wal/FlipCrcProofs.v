(* C16 — single-byte corruption of the stored-crc varint; the cross-segment chain; the composite
   statement over all classes. *)
Require Import Base.Bytes Wal.Crc32c Wal.CrcTab Wal.Pb Wal.WalModel Wal.WalSpec.
Require Import Wal.FrameProofs Wal.CrcProofs Wal.PbProofs Wal.WalProofs Wal.TornProofs Wal.RepairProofs
               Wal.ReadAllProofs Wal.FlipReadProofs Wal.FlipClassProofs.
Require Import Lia ZifyN ZifyNat ZifyBool.
Local Open Scope N_scope.

Ltac Zify.zify_post_hook ::= Z.div_mod_to_equations.

(* ------------------------------------------------------------------ class: the stored-crc varint *)

Lemma pb_parse_varint_field_gen sub sch f pos tagb fnum X v rest acc :
  is_tag tagb fnum 0 -> sch fnum = Some KVarint -> is_varint X v ->
  pb_parse sub sch (S f) pos (tagb :: X ++ rest) acc
  = pb_parse sub sch f (pos + 1 + blen X) rest ((fnum, VInt v) :: acc).
Proof.
  intros (Ht & H1 & H16 & _) Hs Hx.
  cbn [pb_parse].
  rewrite varint_dec_small by lia.
  rewrite Ht.
  replace ((8 * fnum + 0) mod 8) with 0 by lia.
  replace (((8 * fnum + 0) / 8) mod two32) with fnum by (unfold two32; lia).
  change (0 =? 4) with false. cbn [orb negb].
  replace (fnum =? 0) with false by lia.
  replace (two31 <=? fnum) with false by (unfold two31; lia).
  cbn [orb]. rewrite Hs. change (0 =? 0) with true. cbn [negb].
  rewrite Hx. reflexivity.
Qed.

Definition data_field (data : option bytes) : bytes :=
  match data with None => [] | Some d => x1a :: varint_enc (blen d) ++ d end.

Lemma rec_marshal_fields r :
  rec_marshal r = x08 :: varint_enc (r_type r) ++ x10 :: varint_enc (r_crc r) ++ data_field (r_data r).
Proof. reflexivity. Qed.

(* the record with ANY well-shaped varint X in place of the stored crc parses to the same type
   and data, with the crc X decodes to *)
Lemma rec_unmarshal_crc_bytes t X v data :
  t < two64 -> is_varint X v -> 1 <= blen X <= 10 ->
  blen (match data with Some d => d | None => [] end) + 64 < two56 ->
  rec_unmarshal (x08 :: varint_enc t ++ x10 :: X ++ data_field data) = POk (mkrec t (v mod two32) data).
Proof.
  intros Ht Hx Hlx Hd.
  pose proof (varint_enc_length t) as Lt.
  unfold rec_unmarshal, pb_unmarshal.
  destruct (fuel3 (x08 :: varint_enc t ++ x10 :: X ++ data_field data)) as [f Hf].
  { rewrite blen_cons, blen_app, blen_cons, blen_app. lia. }
  rewrite Hf. clear Hf.
  rewrite (pb_parse_varint_field no_sub rec_schema _ 0 x08 1) by (try tag_tac; try reflexivity; assumption).
  rewrite (pb_parse_varint_field_gen no_sub rec_schema _ _ x10 2 X v) by (try tag_tac; try reflexivity; assumption).
  destruct data as [d|]; cbn [data_field].
  - rewrite <- (app_nil_r d) at 2.
    rewrite (pb_parse_bytes_field no_sub rec_schema _ _ x1a 3) by (try tag_tac; try reflexivity; unfold two56 in *; lia).
    rewrite pb_parse_nil.
    cbn [last_int last_bytes]. change (1 =? 1) with true. change (2 =? 2) with true. change (3 =? 3) with true.
    change (3 =? 1) with false. change (2 =? 1) with false. change (3 =? 2) with false. cbn iota.
    reflexivity.
  - rewrite pb_parse_nil.
    cbn [last_int last_bytes]. change (1 =? 1) with true. change (2 =? 2) with true.
    change (2 =? 1) with false. change (2 =? 3) with false. change (1 =? 3) with false. cbn iota.
    reflexivity.
Qed.

Section CrcClass.
Variables (last : bool) (size off crc : N) (r : wrec) (rest : bytes).
Hypothesis Hr : raw_ok r.
Hypothesis Hcrc : crc < lim32.
Hypothesis Ht : r_type r <> crcType.
Let rS := stamp crc r.
Hypothesis Hsize : off + frame_len rS <= size.

(* offset of the stored-crc varint inside the frame *)
Definition crc_off (t : N) : N := 8 + 1 + blen (varint_enc t) + 1.

(* one byte of the stored crc changed, its continuation bit kept: decodeRecord rejects the
   record (CRC mismatch, reported as UnexpectedEOF when the torn test fires) — or, when only
   bits beyond 2^32 of the 5-byte varint changed, reads exactly the same record *)
Theorem crc_flip j v :
  j < blen (varint_enc (r_crc rS)) ->
  (forall b, nth_error (varint_enc (r_crc rS)) (N.to_nat j) = Some b -> (bval v <? 128) = (bval b <? 128)) ->
  let F' := set_byte (crc_off (r_type r) + j) v (frame_of rS) in
  decode_one last size off crc (F' ++ rest) = decode_one last size off crc (frame_of rS ++ rest)
  \/ decode_one last size off crc (F' ++ rest) = DStop FUnexp
  \/ decode_one last size off crc (F' ++ rest) = DStop (FErr DRecCrc).
Proof.
  intros Hj Hbit F'.
  pose proof (cls_ok crc r Hr Hcrc) as Hok. fold rS in Hok.
  destruct (cls_bounds size off crc r Hr Hcrc Hsize) as (Hn0 & Hhi & Hfl & Hbh). fold rS in Hn0, Hhi, Hfl, Hbh.
  set (m := rec_marshal rS) in *. set (n := blen m) in *. set (p := pad_of n) in *.
  set (hdr := le_enc 8 (fst (encode_frame_size n))) in *.
  set (Vc := varint_enc (r_crc rS)) in *.
  destruct Hok as (Ht64 & Hc32 & Hd).
  assert (Hshape : vshape (set_byte j v Vc)).
  { apply vshape_set_byte; try assumption. apply varint_enc_vshape. unfold two32, two64 in *. lia. }
  destruct (vshape_is_varint _ Hshape) as [v' Hv'].
  pose proof (varint_enc_length (r_crc rS)) as Lc. fold Vc in Lc.
  set (A := hdr ++ x08 :: varint_enc (r_type rS) ++ [x10]).
  set (C := data_field (r_data rS) ++ zerosN p).
  assert (EF : frame_of rS = A ++ Vc ++ C).
  { unfold rS. rewrite (cls_frame crc r). fold rS. fold m. fold n. fold p. fold hdr. unfold m. rewrite rec_marshal_fields. fold Vc. unfold A, C.
    repeat (rewrite <- app_assoc || rewrite <- app_comm_cons). reflexivity. }
  assert (HA : blen A = crc_off (r_type r)).
  { unfold A, crc_off. rewrite blen_app, blen_cons, blen_app, blen_cons, blen_nil, Hbh.
    change (r_type rS) with (r_type r). lia. }
  assert (EF' : F' = hdr ++ ((x08 :: varint_enc (r_type rS) ++ x10 :: set_byte j v Vc ++ data_field (r_data rS)) ++ zerosN p)).
  { unfold F'. rewrite EF, <- HA, set_byte_middle by exact Hj. unfold A, C.
    repeat (rewrite <- app_assoc || rewrite <- app_comm_cons). reflexivity. }
  set (m' := x08 :: varint_enc (r_type rS) ++ x10 :: set_byte j v Vc ++ data_field (r_data rS)) in *.
  assert (Hm' : blen m' = n).
  { unfold m', n, m. rewrite rec_marshal_fields. fold Vc.
    rewrite !blen_cons, !blen_app, !blen_cons, !blen_app, set_byte_blen. reflexivity. }
  rewrite EF', <- app_assoc. unfold hdr.
  rewrite decode_one_hdr; try assumption.
  2:{ rewrite blen_app, blen_zerosN, Hm'. reflexivity. }
  2:{ fold p. lia. }
  rewrite (firstn_N_app n m' (zerosN p) Hm').
  unfold m'. rewrite (rec_unmarshal_crc_bytes (r_type rS) (set_byte j v Vc) v' (r_data rS)); try assumption.
  2:{ rewrite set_byte_blen. exact Lc. }
  cbn [r_type r_crc r_data data_of].
  change (r_type rS) with (r_type r).
  replace (r_type r =? crcType) with false by (symmetry; apply N.eqb_neq; exact Ht).
  replace (data_of {| r_type := r_type r; r_crc := v' mod two32; r_data := r_data rS |}) with (data_of r) by reflexivity.
  destruct (v' mod two32 =? digest_write crc (data_of r)) eqn:E.
  - left. apply N.eqb_eq in E.
    pose proof (cls_original last size off crc r rest Hr Hcrc Hsize) as Ho. fold rS in Ho. rewrite Ho.
    replace (r_type r =? crcType) with false by (symmetry; apply N.eqb_neq; exact Ht).
    rewrite Hfl. f_equal. unfold rS, stamp. rewrite E. reflexivity.
  - right. match goal with |- context [is_torn ?a ?b ?c] => destruct (is_torn a b c) end; [left|right]; reflexivity.
Qed.

End CrcClass.

(* ------------------------------------------------------------------ the cross-segment chain *)

(* A non-last segment ends early with a clean EOF (e.g. a length field inside it reads zero):
   inside that file nothing is noticed.  The next segment starts with a crcType record holding
   the digest the writer had at the cut; the decode loop compares it with its own digest and
   stops with ErrCRCMismatch — provided its own digest is not 0 (the loop skips the comparison
   for a fresh decoder) and differs from the stored one, i.e. provided the records that were
   skipped moved the digest. *)
Theorem chain_detects_short_segment f1 rs1 off1 c1 cE rest2 more crc0 :
  decode_whole false crc0 f1 = (rs1, FEnd, off1, c1) ->
  cE < two32 -> c1 <> 0 -> c1 <> cE ->
  let head := mkrec crcType cE None in
  let f2 := frame_of head ++ rest2 in
  decode_files (f1 :: f2 :: more) crc0 = (rs1, FErr DChainCrc, frame_len head, c1)
  /\ forall write si st, crc0 = 0 -> (exists s, interp_all si st rs_init rs1 = SOk s) ->
       read_all write si st (f1 :: f2 :: more) = RAErr CChainCrc.
Proof.
  intros H1 HcE Hc0 Hne head f2.
  assert (Hok : rec_ok head).
  { unfold rec_ok, head. cbn [r_type r_crc r_data data_of]. rewrite blen_nil.
    unfold crcType, two64, two56. split; [lia|]. split; [exact HcE|lia]. }
  assert (Hdf : decode_files (f1 :: f2 :: more) crc0 = (rs1, FErr DChainCrc, frame_len head, c1)).
  { cbn [decode_files]. rewrite H1.
    set (last2 := match more with [] => true | _ :: _ => false end).
    assert (H2 : decode_whole last2 c1 f2 = ([], FErr DChainCrc, frame_len head, c1)).
    { unfold decode_whole. cbn [decode_file]. unfold f2 at 2 3.
      rewrite decode_one_frame; [|exact Hok|].
      - assert (Ht : r_type head = crcType) by reflexivity.
        assert (Hcr : r_crc head = cE) by reflexivity.
        rewrite !Ht, !Hcr, !N.eqb_refl.
        replace (c1 =? 0) with false by lia. replace (cE =? c1) with false by lia.
        cbn [negb andb]. rewrite !Hcr. replace (cE =? c1) with false by lia. cbn [negb]. rewrite ?N.add_0_l. reflexivity.
      - unfold f2. rewrite blen_app, blen_frame_of. lia. }
    cbn [decode_files].
    match goal with |- context [decode_whole ?l c1 ?x] =>
      replace (decode_whole l c1 x) with (@nil wrec, FErr DChainCrc, frame_len head, c1) by (symmetry; exact H2) end.
    rewrite app_nil_r. reflexivity. }
  split; [exact Hdf|].
  intros write si st -> [s Hs]. unfold read_all. fold f2. rewrite Hdf. unfold read_all_dec. rewrite Hs. reflexivity.
Qed.
