(* C16 — every single-byte change inside a segment, at the level of the whole decode loop:
   the general dichotomy and the classes for which the outcome is decided unconditionally. *)
Require Import Base.Bytes Wal.Crc32c Wal.CrcTab Wal.Pb Wal.WalModel Wal.WalSpec.
Require Import Wal.FrameProofs Wal.CrcProofs Wal.PbProofs Wal.WalProofs Wal.TornProofs Wal.RepairProofs
               Wal.ReadAllProofs Wal.FlipReadProofs Wal.FlipClassProofs Wal.FlipCrcProofs.
Require Import Lia ZifyN ZifyNat ZifyBool.
Local Open Scope N_scope.

(* which offsets of a frame `locate`/`part_in_record` (the classification the check prints for
   every corruption case) assigns to the classes above *)
Lemma part_ranges r i :
  (part_in_record r i = PLen -> i < 8)
  /\ (part_in_record r i = PPad -> 8 + blen (rec_marshal r) <= i)
  /\ (part_in_record r i = PCrc ->
        crc_off (r_type r) <= i < crc_off (r_type r) + blen (varint_enc (r_crc r)))
  /\ (part_in_record r i = PData -> exists d, r_data r = Some d
        /\ data_off (r_type r) (r_crc r) (blen d) <= i < data_off (r_type r) (r_crc r) (blen d) + blen d).
Proof.
  unfold part_in_record, crc_off, data_off. rewrite rec_marshal_length.
  set (nt := blen (varint_enc (r_type r))). set (nc := blen (varint_enc (r_crc r))).
  destruct (i <? 8) eqn:E1; [repeat split; intros; try discriminate; lia|].
  destruct (i <? 9) eqn:E2; [repeat split; intros; discriminate|].
  destruct (i <? 9 + nt) eqn:E3; [repeat split; intros; discriminate|].
  destruct (i <? 10 + nt) eqn:E4; [repeat split; intros; discriminate|].
  destruct (i <? 10 + nt + nc) eqn:E5; [repeat split; intros; try discriminate; lia|].
  destruct (r_data r) as [d|].
  - set (nl := blen (varint_enc (blen d))).
    destruct (i <? 11 + nt + nc) eqn:E6; [repeat split; intros; discriminate|].
    destruct (i <? 11 + nt + nc + nl) eqn:E7; [repeat split; intros; discriminate|].
    destruct (i <? 11 + nt + nc + nl + blen d) eqn:E8.
    + repeat split; intros; try discriminate. exists d. split; [reflexivity|]. lia.
    + repeat split; intros; try discriminate. lia.
  - repeat split; intros; try discriminate. lia.
Qed.

Section Segment.
Variables (rs_before : list wrec) (r : wrec) (rs_after : list wrec) (last : bool) (crc0 kz : N).
Hypothesis Hraw : Forall raw_ok (rs_before ++ r :: rs_after).
Hypothesis Hwf : Forall crc_rec_wf (rs_before ++ r :: rs_after).
Hypothesis Hc : crc0 < lim32.

Let rsB' := fst (fst (encode_recs crc0 rs_before)).
Let bsB := snd (fst (encode_recs crc0 rs_before)).
Let cB := snd (encode_recs crc0 rs_before).
Let bsA := snd (fst (encode_recs (digest_write cB (data_of r)) rs_after)).
Let rS := stamp cB r.
Let rest := bsA ++ zerosN kz.
Let sf := seg_file rs_before r rs_after crc0 kz.
Let n := blen (rec_marshal rS).
Let p := pad_of n.
Let hdr := le_enc 8 (fst (encode_frame_size n)).

Lemma seg_r_ok : raw_ok r.
Proof. apply Forall_app in Hraw as [_ H]. inversion H; assumption. Qed.

Lemma seg_cB : cB < lim32.
Proof. unfold cB. apply encode_recs_crc_lt. exact Hc. Qed.

Lemma seg_size X : blen X = frame_len rS -> blen bsB + frame_len rS <= blen (sf X).
Proof. intros HX. unfold sf, seg_file. fold bsB. rewrite !blen_app, HX. lia. Qed.

Lemma seg_blen_set i v : blen (set_byte i v (frame_of rS)) = frame_len rS.
Proof. rewrite set_byte_blen. apply blen_frame_of. Qed.

(* the general dichotomy: the loop stops at the damaged frame and returns exactly the records in
   front of it — or decodeRecord accepted the damaged bytes as a record *)
Theorem any_flip_dichotomy i v :
  let X := set_byte i v (frame_of rS) in
  (exists s, decode_whole last crc0 (sf X) = (rsB', s, blen bsB, cB))
  \/ (exists r2 n2 c2, decode_one last (blen (sf X)) (blen bsB) cB (X ++ rest) = DRec r2 n2 c2).
Proof.
  intros X.
  destruct (decode_one last (blen (sf X)) (blen bsB) cB (X ++ rest)) as [r2 n2 c2|s] eqn:E.
  - right. exists r2, n2, c2. reflexivity.
  - left. exists s.
    exact (flip_stops rs_before r rs_after last crc0 kz Hraw Hwf Hc X s (seg_blen_set i v) E).
Qed.

(* padding bytes: nothing changes *)
Theorem seg_flip_pad i v : 8 + n <= i -> i < frame_len rS ->
  decode_whole last crc0 (sf (set_byte i v (frame_of rS))) = decode_whole last crc0 (sf (frame_of rS)).
Proof.
  intros Hlo Hhi.
  apply (flip_harmless rs_before r rs_after last crc0 kz Hraw Hwf Hc); [apply seg_blen_set|].
  fold bsB cB rS bsA rest sf.
  destruct (cls_bounds (blen (sf (frame_of rS))) (blen bsB) cB r seg_r_ok seg_cB
              (seg_size _ (blen_frame_of rS))) as (Hn0 & Hn & Hfl & Hbh).
  fold rS n p hdr in Hn0, Hn, Hfl, Hbh.
  assert (EF : frame_of rS = (hdr ++ rec_marshal rS) ++ zerosN p).
  { unfold rS. rewrite (cls_frame cB r). fold rS n p hdr. rewrite app_assoc. reflexivity. }
  assert (HA : blen (hdr ++ rec_marshal rS) = 8 + n) by (rewrite blen_app, Hbh; reflexivity).
  assert (EX : set_byte i v (frame_of rS) = (hdr ++ (rec_marshal rS ++ set_byte (i - (8 + n)) v (zerosN p)))).
  { rewrite EF. replace i with (blen (hdr ++ rec_marshal rS) + (i - (8 + n))) at 1 by lia.
    rewrite set_byte_prefix, <- app_assoc. reflexivity. }
  rewrite EX.
  pose proof (pad_flip_harmless last (blen (sf (hdr ++ rec_marshal rS ++ set_byte (i - (8 + n)) v (zerosN p))))
                (blen bsB) cB r rest seg_r_ok seg_cB) as PF.
  fold rS n p hdr in PF. apply PF.
  - rewrite <- EX. apply seg_size. apply seg_blen_set.
  - rewrite set_byte_blen. apply blen_zerosN.
Qed.

(* the length field *)
Theorem seg_flip_len i v : i < 8 ->
  let hdr' := set_byte i v hdr in
  (le_dec hdr' = 0 ->
     decode_whole last crc0 (sf (set_byte i v (frame_of rS))) = (rsB', FEnd, blen bsB, cB))
  /\ (decode_frame_size (le_dec hdr') = (n, p) ->
     decode_whole last crc0 (sf (set_byte i v (frame_of rS))) = decode_whole last crc0 (sf (frame_of rS))).
Proof.
  intros Hi hdr'.
  pose proof (len_flip last (blen (sf (set_byte i v (frame_of rS)))) (blen bsB) cB r rest seg_r_ok seg_cB
                (seg_size _ (seg_blen_set i v)) i v Hi) as [Hz Hs].
  fold rS n p hdr in Hz, Hs. fold hdr' in Hz, Hs.
  split.
  - intros H0. apply (flip_stops rs_before r rs_after last crc0 kz Hraw Hwf Hc); [apply seg_blen_set|].
    fold bsB cB rS bsA rest sf. apply Hz. exact H0.
  - intros Hsame. apply (flip_harmless rs_before r rs_after last crc0 kz Hraw Hwf Hc); [apply seg_blen_set|].
    fold bsB cB rS bsA rest sf. apply Hs. exact Hsame.
Qed.

(* the stored-crc varint, continuation bit of the changed byte kept *)
Theorem seg_flip_crc j v : r_type r <> crcType ->
  j < blen (varint_enc (r_crc rS)) ->
  (forall b, nth_error (varint_enc (r_crc rS)) (N.to_nat j) = Some b -> (bval v <? 128) = (bval b <? 128)) ->
  let X := set_byte (crc_off (r_type r) + j) v (frame_of rS) in
  decode_whole last crc0 (sf X) = decode_whole last crc0 (sf (frame_of rS))
  \/ decode_whole last crc0 (sf X) = (rsB', FUnexp, blen bsB, cB)
  \/ decode_whole last crc0 (sf X) = (rsB', FErr DRecCrc, blen bsB, cB).
Proof.
  intros Ht Hj Hbit X.
  pose proof (crc_flip last (blen (sf X)) (blen bsB) cB r rest seg_r_ok seg_cB Ht
                (seg_size _ (seg_blen_set _ v)) j v Hj Hbit) as H.
  fold rS in H. cbv zeta in H. fold X in H.
  destruct H as [H|[H|H]].
  - left. apply (flip_harmless rs_before r rs_after last crc0 kz Hraw Hwf Hc); [apply seg_blen_set|].
    fold bsB cB rS bsA rest sf. exact H.
  - right. left. apply (flip_stops rs_before r rs_after last crc0 kz Hraw Hwf Hc); [apply seg_blen_set|].
    fold bsB cB rS bsA rest sf. exact H.
  - right. right. apply (flip_stops rs_before r rs_after last crc0 kz Hraw Hwf Hc); [apply seg_blen_set|].
    fold bsB cB rS bsA rest sf. exact H.
Qed.


(* C16_any_single_byte_flip: one byte at offset i of the frame of record r is changed to v.
   Always: the loop stops there and returns exactly the records in front (an unmodified prefix,
   with EOF or an error) — or decodeRecord accepted the damaged bytes.  By class (the class is
   what `part_in_record` computes): padding — nothing changes; length field — EOF when it reads
   zero, nothing changes when it decodes to the same sizes; stored crc with the continuation bit
   kept — nothing changes or CRC error.  (Data bytes: C16_byte_flip_readback.  Type byte and
   data-length byte: acceptance of modified data is possible, C16_type_byte_refuted and
   C16_data_length_byte_refuted.  Tags, continuation bits, other length-field changes: the
   dichotomy only.) *)
Theorem any_single_byte_flip i v : i < frame_len rS ->
  let X := set_byte i v (frame_of rS) in
  let part := part_in_record rS i in
  ((exists s, decode_whole last crc0 (sf X) = (rsB', s, blen bsB, cB))
   \/ (exists r2 n2 c2, decode_one last (blen (sf X)) (blen bsB) cB (X ++ rest) = DRec r2 n2 c2))
  /\ (part = PPad -> decode_whole last crc0 (sf X) = decode_whole last crc0 (sf (frame_of rS)))
  /\ (part = PLen ->
        (le_dec (set_byte i v hdr) = 0 -> decode_whole last crc0 (sf X) = (rsB', FEnd, blen bsB, cB))
        /\ (decode_frame_size (le_dec (set_byte i v hdr)) = (n, p) ->
            decode_whole last crc0 (sf X) = decode_whole last crc0 (sf (frame_of rS))))
  /\ (part = PCrc -> r_type r <> crcType ->
        (forall b, nth_error (varint_enc (r_crc rS)) (N.to_nat (i - crc_off (r_type r))) = Some b ->
                   (bval v <? 128) = (bval b <? 128)) ->
        decode_whole last crc0 (sf X) = decode_whole last crc0 (sf (frame_of rS))
        \/ decode_whole last crc0 (sf X) = (rsB', FUnexp, blen bsB, cB)
        \/ decode_whole last crc0 (sf X) = (rsB', FErr DRecCrc, blen bsB, cB)).
Proof.
  intros Hi X part.
  destruct (part_ranges rS i) as (RL & RP & RC & _).
  split; [apply any_flip_dichotomy|].
  split; [intros Hp; apply seg_flip_pad; [apply RP; exact Hp|exact Hi]|].
  split; [intros Hl; apply seg_flip_len; apply RL; exact Hl|].
  intros Hcp Ht Hbit. specialize (RC Hcp). change (r_type rS) with (r_type r) in RC.
  unfold X. replace i with (crc_off (r_type r) + (i - crc_off (r_type r))) at 1 2 3 by lia.
  apply seg_flip_crc; [exact Ht|lia|exact Hbit].
Qed.

End Segment.
