(* C16 — crash images: any subset of the 512-byte sectors at or after the last sync point is
   left unwritten (zero).  Reading the image of the tail segment yields the synced records
   followed by a whole prefix of the unsynced records and ends in a clean EOF or in
   io.ErrUnexpectedEOF (repairable), given the decidable side condition no_crc_coincidence. *)
Require Import Base.Bytes Wal.Crc32c Wal.CrcTab Wal.Pb Wal.WalModel.
Require Import Wal.FrameProofs Wal.CrcProofs Wal.PbProofs Wal.WalProofs.
Require Import Lia ZifyN ZifyNat ZifyBool.
Local Open Scope N_scope.

Ltac Zify.zify_post_hook ::= Z.div_mod_to_equations.

(* ------------------------------------------------------------------ image_from *)

Section Image.
Variable synced : N.
Variable lost : N -> bool.

Notation img := (fun i f => image_from i synced lost f).

Lemma image_from_cons i b r :
  image_from i synced lost (b :: r) =
  (if (synced <=? i) && lost (i / sector) then x00 else b) :: image_from (i + 1) synced lost r.
Proof. reflexivity. Qed.

Lemma image_from_length i f : length (image_from i synced lost f) = length f.
Proof. revert i; induction f as [|b r IH]; intros i; [reflexivity|]. rewrite image_from_cons. cbn [length]. f_equal. apply IH. Qed.

Lemma image_from_blen i f : blen (image_from i synced lost f) = blen f.
Proof. unfold blen. rewrite image_from_length. reflexivity. Qed.

Lemma image_from_app a : forall i b,
  image_from i synced lost (a ++ b) = image_from i synced lost a ++ image_from (i + blen a) synced lost b.
Proof.
  induction a as [|x a IH]; intros i b.
  - cbn [app image_from]. rewrite blen_nil, N.add_0_r. reflexivity.
  - cbn [app]. rewrite !image_from_cons, IH, blen_cons. cbn [app].
    replace (i + 1 + blen a) with (i + (1 + blen a)) by lia. reflexivity.
Qed.

(* bytes below the sync point are durable *)
Lemma image_from_synced a : forall i, i + blen a <= synced -> image_from i synced lost a = a.
Proof.
  induction a as [|x a IH]; intros i H; [reflexivity|].
  rewrite blen_cons in H. rewrite image_from_cons.
  replace (synced <=? i) with false by lia. cbn [andb]. f_equal. apply IH. lia.
Qed.

(* a run of bytes inside one sector, at or after the sync point, is old (zero) or new *)
Lemma image_from_one_sector a : forall i,
  synced <= i -> (i + blen a - 1) / sector = i / sector ->
  image_from i synced lost a = if lost (i / sector) then zeros (length a) else a.
Proof.
  induction a as [|x a IH]; intros i Hs Hsec.
  - destruct (lost (i / sector)); reflexivity.
  - rewrite image_from_cons. rewrite blen_cons in Hsec.
    replace (synced <=? i) with true by lia. cbn [andb].
    destruct a as [|y a].
    + cbn [image_from length zeros repeat]. destruct (lost (i / sector)); reflexivity.
    + assert (Hi : (i + 1) / sector = i / sector).
      { rewrite blen_cons in Hsec. unfold sector in *. lia. }
      rewrite IH; [|lia|].
      * rewrite Hi. destruct (lost (i / sector)); reflexivity.
      * rewrite Hi. rewrite !blen_cons in *. rewrite <- Hsec. f_equal. lia.
Qed.

Lemma image_from_zeros k : forall i, image_from i synced lost (zeros k) = zeros k.
Proof.
  induction k as [|k IH]; intros i; [reflexivity|].
  cbn [zeros repeat]. rewrite image_from_cons. fold (zeros k). rewrite IH.
  destruct ((synced <=? i) && lost (i / sector)); reflexivity.
Qed.

Lemma all_zero_zeros k : all_zero (zeros k) = true.
Proof. induction k; [reflexivity|]. cbn [zeros repeat all_zero forallb]. exact IHk. Qed.

(* ------------------------------------------------------------------ isTornEntry on an image *)

Lemma firstn_skipn_blen (l : bytes) (k : N) : k <= blen l ->
  blen (firstn (N.to_nat k) l) = k.
Proof. intros H. unfold blen in *. rewrite firstn_length. lia. Qed.

Lemma torn_chunks_nonempty f fileoff (data : bytes) : data <> [] ->
  torn_chunks (S f) fileoff data =
  (let k := N.min (sector - fileoff mod sector) (blen data) in
   all_zero (firstn (N.to_nat k) data) || torn_chunks f (fileoff + k) (skipn (N.to_nat k) data)).
Proof. destruct data; [congruence|reflexivity]. Qed.

(* the data of a frame starts at fileoff >= synced; if the image differs from what was written,
   some sector chunk of it is entirely zero *)
Lemma torn_chunks_image fuel : forall data fileoff,
  synced <= fileoff -> (length data < fuel)%nat ->
  image_from fileoff synced lost data <> data ->
  torn_chunks fuel fileoff (image_from fileoff synced lost data) = true.
Proof.
  induction fuel as [|f IH]; intros data fileoff Hs Hfuel Hne; [lia|].
  assert (Hd : data <> []) by (intros ->; apply Hne; reflexivity).
  assert (Hi : image_from fileoff synced lost data <> []).
  { intros E. apply (f_equal (@length byte)) in E. rewrite image_from_length in E.
    destruct data; [congruence|discriminate]. }
  rewrite torn_chunks_nonempty by exact Hi. cbv zeta.
  rewrite image_from_blen.
  set (k := N.min (sector - fileoff mod sector) (blen data)).
  assert (Hk1 : 1 <= k).
  { unfold k, sector. assert (blen data <> 0).
    { intros E. apply Hd. unfold blen in E. destruct data; [reflexivity|cbn [length] in E; lia]. }
    lia. }
  assert (Hkl : k <= blen data) by (unfold k; lia).
  assert (Hksec : (fileoff + k - 1) / sector = fileoff / sector) by (unfold k, sector; lia).
  clearbody k.
  assert (Hsplit : firstn (N.to_nat k) data ++ skipn (N.to_nat k) data = data) by apply firstn_skipn.
  assert (Hbl : blen (firstn (N.to_nat k) data) = k) by (apply firstn_skipn_blen; exact Hkl).
  assert (Himg : image_from fileoff synced lost data =
                 image_from fileoff synced lost (firstn (N.to_nat k) data)
                 ++ image_from (fileoff + k) synced lost (skipn (N.to_nat k) data)).
  { rewrite <- Hsplit at 1. rewrite image_from_app, Hbl. reflexivity. }
  rewrite Himg.
  rewrite (firstn_N_app k) by (rewrite image_from_blen; exact Hbl).
  rewrite (skipn_N_app k) by (rewrite image_from_blen; exact Hbl).
  assert (Hone : image_from fileoff synced lost (firstn (N.to_nat k) data)
                 = if lost (fileoff / sector) then zeros (length (firstn (N.to_nat k) data))
                   else firstn (N.to_nat k) data).
  { apply image_from_one_sector; [exact Hs|]. rewrite Hbl. exact Hksec. }
  rewrite Hone.
  destruct (lost (fileoff / sector)) eqn:El.
  - rewrite all_zero_zeros. reflexivity.
  - destruct (all_zero (firstn (N.to_nat k) data)); [reflexivity|]. cbn [orb].
    apply IH.
    + lia.
    + rewrite skipn_length. clear - Hfuel Hk1 Hkl. unfold blen in Hkl. lia.
    + intros E. apply Hne. rewrite Himg, E, Hone. exact Hsplit.
Qed.

End Image.

(* ------------------------------------------------------------------ decodeRecord behind an intact length field *)

Lemma decode_one_hdr last size off crc n data rest :
  n <> 0 -> n < two56 -> blen data = n + pad_of n -> off + 8 + n + pad_of n <= size ->
  decode_one last size off crc (le_enc 8 (fst (encode_frame_size n)) ++ data ++ rest) =
    match rec_unmarshal (firstn (N.to_nat n) data) with
    | PErr e =>
      if is_torn last off data then DStop FUnexp
      else DStop (match e with EUnexp => FUnexp | EOther => FErr DUnmarshal end)
    | POk r =>
      if r_type r =? crcType then DRec r (8 + n + pad_of n) crc
      else if r_crc r =? digest_write crc (data_of r)
           then DRec r (8 + n + pad_of n) (digest_write crc (data_of r))
           else if is_torn last off data then DStop FUnexp else DStop (FErr DRecCrc)
    end.
Proof.
  intros Hn0 Hhi Hdata Hsize.
  set (p := pad_of n) in *.
  pose proof (pad_of_lt n) as Hp. fold p in Hp.
  set (lenf := fst (encode_frame_size n)).
  assert (Hlenf : lenf < two64) by (apply encode_frame_size_lt64; exact Hhi).
  assert (Hnz : lenf <> 0).
  { intros E. pose proof (encode_frame_size_zero n Hhi) as [Hz _]. specialize (Hz E). lia. }
  unfold decode_one.
  destruct (le_enc 8 lenf ++ data ++ rest) as [|b0 l0] eqn:Ecur.
  { exfalso. apply (f_equal (@length byte)) in Ecur. rewrite app_length, le_enc_length in Ecur.
    cbn [length] in Ecur. lia. }
  rewrite <- Ecur. clear Ecur b0 l0.
  assert (Hf8 : firstn 8 (le_enc 8 lenf ++ data ++ rest) = le_enc 8 lenf).
  { change 8%nat with (N.to_nat 8). apply firstn_N_app. apply blen_le_enc. }
  rewrite Hf8.
  rewrite blen_le_enc. change (N.of_nat 8 <? 8) with false. cbn iota.
  rewrite le_dec_enc8 by exact Hlenf.
  replace (lenf =? 0) with false by lia.
  unfold lenf. rewrite decode_encode_frame_size by exact Hhi. fold p.
  replace (size <? n + off + p) with false by lia.
  assert (Hs8 : skipn 8 (le_enc 8 (fst (encode_frame_size n)) ++ data ++ rest) = data ++ rest).
  { change 8%nat with (N.to_nat 8). apply skipn_N_app. apply blen_le_enc. }
  rewrite Hs8.
  rewrite (firstn_N_app (n + p) data rest Hdata).
  rewrite Hdata.
  replace (n + p <? n + p) with false by lia.
  reflexivity.
Qed.

Lemma decode_one_rejected last size off crc n data rest :
  n <> 0 -> n < two56 -> blen data = n + pad_of n -> off + 8 + n + pad_of n <= size ->
  accepts crc n data = false -> is_torn last off data = true ->
  decode_one last size off crc (le_enc 8 (fst (encode_frame_size n)) ++ data ++ rest) = DStop FUnexp.
Proof.
  intros Hn0 Hhi Hdata Hsize Hacc Htorn.
  rewrite decode_one_hdr by assumption.
  unfold accepts in Hacc.
  destruct (rec_unmarshal (firstn (N.to_nat n) data)) as [r|e].
  - apply orb_false_iff in Hacc as [H1 H2]. rewrite H1, H2, Htorn. reflexivity.
  - rewrite Htorn. reflexivity.
Qed.

(* a lost length field reads as zero: clean end of file *)
Lemma decode_one_zero_len last size off crc rest :
  decode_one last size off crc (zeros 8 ++ rest) = DStop FEnd.
Proof. reflexivity. Qed.

(* ------------------------------------------------------------------ the crash image of a segment *)

Fixpoint frames_len (rs : list wrec) : N :=
  match rs with [] => 0 | r :: t => frame_len r + frames_len t end.

(* the sync point is a record boundary *)
Fixpoint sync_aligned (synced off : N) (rs : list wrec) : Prop :=
  match rs with
  | [] => True
  | r :: t => (synced <= off \/ off + frame_len r <= synced) /\ sync_aligned synced (off + frame_len r) t
  end.

Lemma sync_aligned_prefix synced (pre : list wrec) : forall off post,
  synced = off + frames_len pre -> sync_aligned synced off (pre ++ post).
Proof.
  induction pre as [|r pre IH]; intros off post Hs.
  - cbn [frames_len app] in *. rewrite N.add_0_r in Hs. subst off.
    revert synced. induction post as [|r post IHp]; intros synced; cbn [sync_aligned]; [exact I|].
    split; [left; lia|].
    assert (G : forall o, synced <= o -> sync_aligned synced o post).
    { clear. induction post as [|r post IHp]; intros o Ho; cbn [sync_aligned]; [exact I|].
      split; [left; exact Ho|]. apply IHp. lia. }
    apply G. lia.
  - cbn [frames_len app sync_aligned] in *. split; [right; lia|]. apply IH. lia.
Qed.

Lemma frame_of_split r :
  frame_of r = le_enc 8 (fst (encode_frame_size (blen (rec_marshal r))))
               ++ (rec_marshal r ++ zerosN (pad_of (blen (rec_marshal r)))).
Proof. apply frame_of_eq. Qed.

Section Torn.
Variable synced : N.
Variable lost : N -> bool.
Variable size : N.
Variable kz : N.
Hypothesis Hkz : kz = 0 \/ 8 <= kz.

Lemma torn_decode rs : forall fuel off crc,
  Forall raw_ok rs -> Forall crc_rec_wf rs -> crc < lim32 ->
  let '(rs', bs, _) := encode_recs crc rs in
  let orig := bs ++ zerosN kz in
  let img := image_from off synced lost orig in
  off mod 8 = 0 -> sync_aligned synced off rs' -> off + blen orig <= size ->
  (length rs < fuel)%nat ->
  no_crc_coincidence synced orig img off crc rs' = true ->
  exists m st crc',
    decode_file fuel true size off crc img = (firstn m rs', st, off + frames_len (firstn m rs'), crc')
    /\ (st = FEnd \/ st = FUnexp)
    /\ (count_synced rs' off synced <= m)%nat /\ (m <= length rs')%nat.
Proof.
  induction rs as [|r rs IH]; intros fuel off crc Hraw Hwf Hc.
  - cbn [encode_recs app]. cbv zeta. intros _ _ _ Hfuel _.
    unfold zerosN. rewrite image_from_zeros. fold (zerosN kz).
    destruct fuel as [|fuel]; [cbn [length] in Hfuel; lia|].
    rewrite decode_file_zeros by exact Hkz.
    exists 0%nat, FEnd, crc. cbn [firstn frames_len count_synced length].
    rewrite N.add_0_r. repeat split; auto.
  - rewrite encode_recs_cons.
    inversion Hraw as [|? ? Hr Hrs]; subst. inversion Hwf as [|? ? Hw Hws]; subst.
    set (r' := stamp crc r). set (crc1 := digest_write crc (data_of r)).
    assert (Hc1 : crc1 < lim32) by (apply digest_write_lt; exact Hc).
    assert (Hok : rec_ok r') by (apply stamp_ok; assumption).
    pose proof (rec_marshal_bounds r' Hok) as [Hlo Hhi].
    pose proof (frame_len_aligned r') as Hal.
    pose proof (frame_len_ge r' Hok) as Hge.
    specialize (IH (pred fuel) (off + frame_len r') crc1 Hrs Hws Hc1).
    destruct (encode_recs crc1 rs) as [[rs' bs] cend].
    cbv zeta in IH |- *.
    intros Hoff Hsync Hsz Hfuel Hnc.
    cbn [sync_aligned] in Hsync. destruct Hsync as [Hhere Hsync].
    rewrite <- app_assoc in *.
    rewrite blen_app, blen_frame_of in Hsz.
    rewrite (image_from_app synced lost (frame_of r') off (bs ++ zerosN kz)), blen_frame_of in *.
    set (rest_img := image_from (off + frame_len r') synced lost (bs ++ zerosN kz)) in *.
    destruct fuel as [|fuel]; [lia|]. cbn [pred] in IH.
    (* the recursive part of the side condition *)
    cbn [no_crc_coincidence] in Hnc. apply andb_true_iff in Hnc as [Hnc0 Hnc1].
    assert (Eo : skipn (N.to_nat (frame_len r')) (frame_of r' ++ bs ++ zerosN kz) = bs ++ zerosN kz)
      by (apply skipn_N_app, blen_frame_of).
    assert (Ei : skipn (N.to_nat (frame_len r')) (image_from off synced lost (frame_of r') ++ rest_img) = rest_img)
      by (apply skipn_N_app; rewrite image_from_blen; apply blen_frame_of).
    rewrite Eo, Ei in Hnc1.
    assert (Ecrc : r_crc r' = crc1).
    { unfold r', stamp, crc1. reflexivity. }
    rewrite Ecrc in Hnc1.
    assert (IH' : exists m st crc',
              decode_file fuel true size (off + frame_len r') crc1 rest_img
              = (firstn m rs', st, off + frame_len r' + frames_len (firstn m rs'), crc')
              /\ (st = FEnd \/ st = FUnexp)
              /\ (count_synced rs' (off + frame_len r') synced <= m)%nat /\ (m <= length rs')%nat).
    { apply IH; try assumption; try lia. cbn [length] in Hfuel. lia. }
    clear IH.
    (* when the frame is intact the decode loop takes the record and goes on *)
    assert (Hintact : image_from off synced lost (frame_of r') = frame_of r' ->
              exists m st crc',
                decode_file (S fuel) true size off crc (image_from off synced lost (frame_of r') ++ rest_img)
                = (firstn m (r' :: rs'), st, off + frames_len (firstn m (r' :: rs')), crc')
                /\ (st = FEnd \/ st = FUnexp)
                /\ (count_synced (r' :: rs') off synced <= m)%nat /\ (m <= length (r' :: rs'))%nat).
    { intros E. rewrite E. unfold r'.
      rewrite decode_file_cons by (try assumption; fold r'; lia).
      fold r' crc1.
      destruct IH' as (m & st & crc' & Hd & Hst & Hcnt & Hm).
      rewrite Hd. exists (S m), st, crc'. cbn [firstn frames_len length count_synced].
      split; [f_equal; f_equal; lia|]. split; [exact Hst|].
      split; [destruct (off + frame_len r' <=? synced); lia | lia]. }
    destruct Hhere as [Hafter|Hbefore].
    2:{ apply Hintact. apply image_from_synced. rewrite blen_frame_of. exact Hbefore. }
    (* the frame lies at or after the sync point *)
    rewrite (frame_of_split r') in *.
    set (n := blen (rec_marshal r')) in *. set (p := pad_of n) in *.
    set (hdr := le_enc 8 (fst (encode_frame_size n))) in *.
    set (data := rec_marshal r' ++ zerosN p) in *.
    assert (Hbh : blen hdr = 8) by (unfold hdr; apply blen_le_enc).
    assert (Hbd : blen data = n + p) by (unfold data; rewrite blen_app, blen_zerosN; reflexivity).
    assert (Hfl : frame_len r' = 8 + n + p) by reflexivity.
    rewrite image_from_app, Hbh in *.
    assert (Hhdr : image_from off synced lost hdr = if lost (off / sector) then zeros (length hdr) else hdr).
    { apply image_from_one_sector; [exact Hafter|]. rewrite Hbh. unfold sector. lia. }
    destruct (lost (off / sector)) eqn:El.
    + (* the length field was not written: clean EOF *)
      rewrite Hhdr in *. unfold hdr at 1. rewrite le_enc_length.
      cbn [decode_file]. rewrite <- app_assoc. rewrite decode_one_zero_len.
      exists 0%nat, FEnd, crc. cbn [firstn frames_len count_synced length]. rewrite N.add_0_r.
      split; [reflexivity|]. split; [left; reflexivity|].
      split; [|lia].
      replace (off + frame_len r' <=? synced) with false by lia. lia.
    + rewrite Hhdr in *.
      destruct (bytes_eqb_spec (image_from (off + 8) synced lost data) data) as [Ed|Nd].
      * apply Hintact. rewrite Ed. reflexivity.
      * (* changed data: rejected by parser/CRC (side condition) and recognised as torn *)
        assert (Hacc : accepts crc n (image_from (off + 8) synced lost data) = false).
        { replace (synced <=? off) with true in Hnc0 by lia. cbn [andb] in Hnc0.
          fold n in Hnc0.
          assert (E1 : firstn (N.to_nat (frame_len r' - 8)) (skipn 8 ((hdr ++ data) ++ bs ++ zerosN kz)) = data).
          { rewrite <- app_assoc. change 8%nat with (N.to_nat 8). rewrite (skipn_N_app 8) by exact Hbh.
            apply firstn_N_app. rewrite Hbd, Hfl. lia. }
          assert (E2 : firstn (N.to_nat (frame_len r' - 8))
                         (skipn 8 ((hdr ++ image_from (off + 8) synced lost data) ++ rest_img))
                       = image_from (off + 8) synced lost data).
          { rewrite <- app_assoc. change 8%nat with (N.to_nat 8). rewrite (skipn_N_app 8) by exact Hbh.
            apply firstn_N_app. rewrite image_from_blen, Hbd, Hfl. lia. }
          rewrite E1, E2 in Hnc0.
          destruct (bytes_eqb_spec (image_from (off + 8) synced lost data) data) as [X|_]; [contradiction|].
          cbn [negb] in Hnc0. apply negb_true_iff in Hnc0. exact Hnc0. }
        assert (Htorn : is_torn true off (image_from (off + 8) synced lost data) = true).
        { unfold is_torn. cbn [andb]. rewrite image_from_length.
          apply torn_chunks_image; [lia|lia|exact Nd]. }
        cbn [decode_file]. rewrite <- app_assoc.
        unfold hdr. rewrite decode_one_rejected; try assumption; try lia.
        2:{ rewrite image_from_blen. exact Hbd. }
        exists 0%nat, FUnexp, crc. cbn [firstn frames_len count_synced length]. rewrite N.add_0_r.
        split; [reflexivity|]. split; [right; reflexivity|].
        split; [|lia].
        replace (off + frame_len r' <=? synced) with false by lia. lia.
Qed.

End Torn.

(* ------------------------------------------------------------------ C16_torn_tail *)

Lemma encode_recs_app a : forall crc b,
  encode_recs crc (a ++ b) =
  let '(a', ba, c1) := encode_recs crc a in
  let '(b', bb, c2) := encode_recs c1 b in
  (a' ++ b', ba ++ bb, c2).
Proof.
  induction a as [|r a IH]; intros crc b.
  - cbn [app encode_recs]. destruct (encode_recs crc b) as [[b' bb] c2]. reflexivity.
  - cbn [app]. rewrite !encode_recs_cons. rewrite IH.
    destruct (encode_recs (digest_write crc (data_of r)) a) as [[a' ba] c1].
    destruct (encode_recs c1 b) as [[b' bb] c2].
    cbn [app]. rewrite <- app_assoc. reflexivity.
Qed.

Lemma encode_recs_frames rs : forall crc,
  blen (snd (fst (encode_recs crc rs))) = frames_len (fst (fst (encode_recs crc rs))).
Proof.
  induction rs as [|r rs IH]; intros crc; [reflexivity|].
  rewrite encode_recs_cons. specialize (IH (digest_write crc (data_of r))).
  destruct (encode_recs (digest_write crc (data_of r)) rs) as [[rs' bs] c2].
  cbn [fst snd frames_len] in *. rewrite blen_app, blen_frame_of, IH. reflexivity.
Qed.

Lemma count_synced_prefix (pre : list wrec) : forall off post synced,
  synced = off + frames_len pre -> (length pre <= count_synced (pre ++ post) off synced)%nat.
Proof.
  induction pre as [|r pre IH]; intros off post synced Hs; [cbn [length]; lia|].
  cbn [app count_synced length frames_len] in *.
  replace (off + frame_len r <=? synced) with true by lia.
  specialize (IH (off + frame_len r) post synced). lia.
Qed.

(* C16_torn_tail.  rs_synced: the records of the tail segment whose save was followed by a
   sync; rs_unsynced: records written after it; lost: ANY set of 512-byte sectors (only bytes
   at or after the sync point are affected); kz: zero bytes of preallocation behind the data. *)
Theorem torn_tail rs_synced rs_unsynced crc0 (lost : N -> bool) kz :
  Forall raw_ok (rs_synced ++ rs_unsynced) -> Forall crc_rec_wf (rs_synced ++ rs_unsynced) ->
  crc0 < lim32 -> (kz = 0 \/ 8 <= kz) ->
  let '(rs', bs, _) := encode_recs crc0 (rs_synced ++ rs_unsynced) in
  let synced := blen (snd (fst (encode_recs crc0 rs_synced))) in
  let f := bs ++ zerosN kz in
  let img := crash_image synced lost f in
  no_crc_coincidence synced f img 0 crc0 rs' = true ->
  exists m st crc',
    decode_whole true crc0 img = (firstn m rs', st, frames_len (firstn m rs'), crc')
    /\ (st = FEnd \/ st = FUnexp)
    /\ (length rs_synced <= m <= length rs')%nat.
Proof.
  intros Hraw Hwf Hc Hkz.
  pose proof (torn_decode (blen (snd (fst (encode_recs crc0 rs_synced)))) lost) as T.
  pose proof (encode_recs_length (rs_synced ++ rs_unsynced) crc0 Hraw Hc) as [Hlen Hlen'].
  pose proof (encode_recs_app rs_synced crc0 rs_unsynced) as Happ.
  pose proof (encode_recs_frames rs_synced crc0) as Hfr.
  pose proof (encode_recs_length rs_synced crc0) as HlenS.
  destruct (encode_recs crc0 (rs_synced ++ rs_unsynced)) as [[rs' bs] cend] eqn:E.
  destruct (encode_recs crc0 rs_synced) as [[rsS' bsS] cS] eqn:ES.
  destruct (encode_recs cS rs_unsynced) as [[rsU' bsU] cU] eqn:EU.
  cbn [fst snd] in *. inversion Happ; subst rs' bs cend. clear Happ.
  cbv zeta. intros Hnc.
  specialize (T (blen ((bsS ++ bsU) ++ zerosN kz)) kz Hkz (rs_synced ++ rs_unsynced)
                (S (length ((bsS ++ bsU) ++ zerosN kz))) 0 crc0 Hraw Hwf Hc).
  rewrite E in T. cbv zeta in T.
  unfold crash_image in *.
  destruct T as (m & st & crc' & Hd & Hst & Hcnt & Hm).
  - reflexivity.
  - apply sync_aligned_prefix. rewrite N.add_0_l. exact Hfr.
  - lia.
  - unfold blen in Hlen. rewrite !app_length in *. lia.
  - exact Hnc.
  - exists m, st, crc'. unfold decode_whole.
    rewrite image_from_length. rewrite image_from_blen.
    rewrite Hd. rewrite N.add_0_l. split; [reflexivity|]. split; [exact Hst|].
    split; [|exact Hm].
    assert (Hs : (length rsS' <= count_synced (rsS' ++ rsU') 0 (blen bsS))%nat)
      by (apply count_synced_prefix; rewrite N.add_0_l; exact Hfr).
    assert (HlS : length rsS' = length rs_synced).
    { apply Forall_app in Hraw as [HrawS _]. destruct (HlenS HrawS Hc) as [_ H]. exact H. }
    lia.
Qed.
