(* C16 — frame arithmetic of the WAL encoder/decoder (encodeFrameSize / decodeFrameSize):
   for every record size below 2^56 the length field decodes to the same size and padding,
   frames are 8-byte aligned, the length field is non-zero for a non-empty record and fits
   64 bits; little-endian encoding round-trips. *)
Require Import Base.Bytes Wal.Crc32c Wal.Pb Wal.WalModel.
Require Import Lia ZifyN ZifyNat ZifyBool.
Local Open Scope N_scope.

Ltac Zify.zify_post_hook ::= Z.div_mod_to_equations.

Lemma pad_of_lt n : pad_of n < 8.
Proof. unfold pad_of. lia. Qed.

Lemma pad_of_aligned n : (n + pad_of n) mod 8 = 0.
Proof. unfold pad_of. lia. Qed.

Lemma pad_of_zero_iff n : pad_of n = 0 <-> n mod 8 = 0.
Proof. unfold pad_of. lia. Qed.

Lemma encode_frame_size_snd n : snd (encode_frame_size n) = pad_of n.
Proof. reflexivity. Qed.

Lemma decode_encode_frame_size n :
  n < two56 -> decode_frame_size (fst (encode_frame_size n)) = (n, pad_of n).
Proof.
  intros Hn. unfold encode_frame_size, decode_frame_size. cbn [fst].
  pose proof (pad_of_lt n) as Hp.
  unfold two56, two63 in *.
  destruct (pad_of n =? 0) eqn:E.
  - apply N.eqb_eq in E. rewrite E.
    replace (0x8000000000000000 <=? n) with false by lia.
    f_equal. lia.
  - apply N.eqb_neq in E.
    replace (0x8000000000000000 <=? n + (128 + pad_of n) * 0x100000000000000) with true by lia.
    f_equal; lia.
Qed.

Lemma encode_frame_size_lt64 n : n < two56 -> fst (encode_frame_size n) < two64.
Proof.
  intros Hn. unfold encode_frame_size. cbn [fst]. pose proof (pad_of_lt n).
  unfold two56, two64 in *. destruct (pad_of n =? 0); lia.
Qed.

Lemma encode_frame_size_zero n : n < two56 -> (fst (encode_frame_size n) = 0 <-> n = 0).
Proof.
  intros Hn. unfold encode_frame_size. cbn [fst]. pose proof (pad_of_lt n).
  unfold two56 in *. destruct (pad_of n =? 0) eqn:E; unfold pad_of in *; lia.
Qed.

(* the statement of C16_frame_arith *)
Theorem frame_arith : forall n, n < two56 ->
  let '(lenf, p) := encode_frame_size n in
  decode_frame_size lenf = (n, p) /\ p < 8 /\ (n + p) mod 8 = 0 /\ (8 + n + p) mod 8 = 0
  /\ lenf < two64 /\ (lenf = 0 <-> n = 0).
Proof.
  intros n Hn. destruct (encode_frame_size n) as [lenf p] eqn:E.
  assert (lenf = fst (encode_frame_size n)) as -> by (rewrite E; reflexivity).
  assert (p = pad_of n) as -> by (rewrite <- encode_frame_size_snd, E; reflexivity).
  repeat split.
  - apply decode_encode_frame_size; exact Hn.
  - apply pad_of_lt.
  - apply pad_of_aligned.
  - pose proof (pad_of_aligned n). lia.
  - apply encode_frame_size_lt64; exact Hn.
  - apply encode_frame_size_zero; exact Hn.
  - apply encode_frame_size_zero; exact Hn.
Qed.

(* ------------------------------------------------------------------ little endian *)

Lemma byte_of_N_val n : n < 256 -> bval (byte_of_N n) = n.
Proof.
  intros H. unfold byte_of_N, bval.
  destruct (Byte.of_N n) as [b|] eqn:E.
  - apply Byte.to_of_N in E. exact E.
  - exfalso. pose proof (Byte.of_N_None_iff n) as [H1 _]. specialize (H1 E). lia.
Qed.

Lemma le_dec_enc k v : v < 256 ^ N.of_nat k -> le_dec (le_enc k v) = v.
Proof.
  revert v; induction k as [|k IH]; intros v Hv.
  - cbn in *. lia.
  - cbn [le_enc le_dec].
    rewrite byte_of_N_val by (apply N.mod_lt; lia).
    rewrite IH.
    + pose proof (N.div_mod v 256). lia.
    + rewrite Nat2N.inj_succ, N.pow_succ_r' in Hv.
      apply N.div_lt_upper_bound; lia.
Qed.

Lemma le_enc_length k v : length (le_enc k v) = k.
Proof. revert v; induction k; intros; cbn [le_enc length]; auto. Qed.

Lemma le_dec_enc8 v : v < two64 -> le_dec (le_enc 8 v) = v.
Proof. intros H. apply le_dec_enc. exact H. Qed.
