(* C16 — the protobuf wire format as the gogo-generated code of etcd reads and writes it
   (walpb/record.pb.go, raftpb/raft.pb.go, snappb/snap.pb.go): base-128 varints and the
   generated Unmarshal loop (tag, wire type checks, known fields, skip<Msg> for unknown
   fields including groups).  Every generated Unmarshal in these files has the same shape; it
   is modelled once, parameterised by the message's field table.

   Only two error classes are kept, because that is all decodeRecord distinguishes:
   EUnexp = io.ErrUnexpectedEOF, EOther = any other error.

   Model file: definitions only. *)
Require Import Base.Bytes.
Local Open Scope N_scope.

Definition two63 : N := 0x8000000000000000.
Definition two64 : N := 0x10000000000000000.
Definition two32 : N := 0x100000000.
Definition two31 : N := 0x80000000.

Definition byte_of_N (n : N) : byte :=
  match Byte.of_N n with Some b => b | None => x00 end.

Definition blen (l : bytes) : N := N.of_nat (length l).

(* take / drop with an N count that may be far larger than the list *)
Definition takeN (n : N) (l : bytes) : bytes :=
  if blen l <=? n then l else firstn (N.to_nat n) l.
Definition dropN (n : N) (l : bytes) : bytes :=
  if blen l <=? n then [] else skipn (N.to_nat n) l.

Inductive perr := EUnexp | EOther.
Inductive pres (A : Type) := POk (a : A) | PErr (e : perr).
Arguments POk {A} a.
Arguments PErr {A} e.

(* ---------------------------------------------------------------- varint *)

(* encodeVarint<Msg>: for v >= 1<<7 { out(v&0x7f|0x80); v >>= 7 }; out(v) *)
Fixpoint venc (fuel : nat) (v : N) : bytes :=
  match fuel with
  | O => [byte_of_N (v mod 128)]
  | S f => if v <? 128 then [byte_of_N v]
           else byte_of_N (v mod 128 + 128) :: venc f (v / 128)
  end.
Definition varint_enc (v : N) : bytes := venc 9 v.      (* v < 2^64: at most 10 bytes *)

(* the generated decoding loop:
     for shift := uint(0); ; shift += 7 {
        if shift >= 64 { return ErrIntOverflow }
        if iNdEx >= l { return io.ErrUnexpectedEOF }
        b := dAtA[iNdEx]; iNdEx++
        v |= uint64(b&0x7F) << shift
        if b < 0x80 { break } }
   The pieces (b&0x7F)<<shift occupy disjoint bit ranges, so `|` is `+`; the shift is
   truncated to 64 bits.  Result: value, number of bytes consumed, remaining input. *)
Fixpoint vdec (fuel : nat) (shift acc n : N) (l : bytes) : pres (N * N * bytes) :=
  match fuel with
  | O => PErr EOther
  | S f =>
    match l with
    | [] => PErr EUnexp
    | b :: r =>
      let acc' := acc + ((bval b mod 128) * 2 ^ shift) mod two64 in
      if bval b <? 128 then POk (acc', n + 1, r)
      else vdec f (shift + 7) acc' (n + 1) r
    end
  end.
Definition varint_dec (l : bytes) : pres (N * N * bytes) := vdec 10 0 0 0 l.

(* ---------------------------------------------------------------- skip<Msg> *)

(* skipRecord / skipRaft / skipSnap (identical generated code).  idx = iNdEx, rest =
   dAtA[iNdEx:] (empty once iNdEx >= l).  Returns the number of bytes to skip, which may
   exceed the input length (the caller checks). *)
Fixpoint pb_skip (fuel : nat) (depth idx : N) (rest : bytes) : pres N :=
  match fuel with
  | O => PErr EOther
  | S f =>
    match rest with
    | [] => PErr EUnexp                                  (* loop condition iNdEx < l fails *)
    | _ :: _ =>
      match varint_dec rest with
      | PErr e => PErr e
      | POk (wire, n1, r1) =>
        let idx1 := idx + n1 in
        let wt := wire mod 8 in
        let continue (depth' idx' : N) (rest' : bytes) : pres N :=
          if two63 <=? idx' then PErr EOther
          else if depth' =? 0 then POk idx'
          else pb_skip f depth' idx' rest' in
        if wt =? 0 then
          match varint_dec r1 with
          | PErr e => PErr e
          | POk (_, n2, r2) => continue depth (idx1 + n2) r2
          end
        else if wt =? 1 then continue depth (idx1 + 8) (dropN 8 r1)
        else if wt =? 2 then
          match varint_dec r1 with
          | PErr e => PErr e
          | POk (len, n2, r2) =>
            if two63 <=? len then PErr EOther
            else continue depth (idx1 + n2 + len) (dropN len r2)
          end
        else if wt =? 3 then continue (depth + 1) idx1 r1
        else if wt =? 4 then
          if depth =? 0 then PErr EOther else continue (depth - 1) idx1 r1
        else if wt =? 5 then continue depth (idx1 + 4) (dropN 4 r1)
        else PErr EOther
      end
    end
  end.

(* ---------------------------------------------------------------- Unmarshal *)

Inductive fkind :=
| KVarint        (* scalar varint field: wire type 0 only *)
| KBytes         (* bytes field: wire type 2 only *)
| KRepVarint     (* repeated uint64: wire type 0, or 2 (packed) *)
| KMsg.          (* embedded message: wire type 2, contents checked by the `sub` parser *)

Inductive fval := VInt (v : N) | VBytes (b : bytes).

(* packed repeated varints: for iNdEx < postIndex { read a varint bounded by l, not by
   postIndex }.  togo = postIndex - iNdEx (saturating).  Returns consumed count and rest. *)
Fixpoint pb_packed (fuel : nat) (togo n : N) (rest : bytes) : pres (N * bytes) :=
  match fuel with
  | O => PErr EOther
  | S f =>
    if togo =? 0 then POk (n, rest)
    else match varint_dec rest with
         | PErr e => PErr e
         | POk (_, k, r) => pb_packed f (togo - k) (n + k) r
         end
  end.

(* length prefix shared by bytes / packed / message fields:
     if len < 0 -> ErrInvalidLength; postIndex := iNdEx+len; if postIndex < 0 -> ErrInvalidLength;
     if postIndex > l -> io.ErrUnexpectedEOF *)
Definition pb_lenprefix (pos : N) (r : bytes) : pres (N * N * bytes) :=
  match varint_dec r with
  | PErr e => PErr e
  | POk (len, n2, r2) =>
    if two63 <=? len then PErr EOther
    else if two63 <=? pos + n2 + len then PErr EOther
    else if blen r2 <? len then PErr EUnexp
    else POk (len, n2, r2)
  end.

(* pos = iNdEx, rest = dAtA[iNdEx:].  Fields are accumulated in reverse order. *)
Fixpoint pb_parse (sub : bytes -> pres unit) (sch : N -> option fkind)
         (fuel : nat) (pos : N) (rest : bytes) (acc : list (N * fval))
  : pres (list (N * fval)) :=
  match rest with
  | [] => POk acc
  | _ :: _ =>
    match fuel with
    | O => PErr EOther
    | S f =>
      match varint_dec rest with
      | PErr e => PErr e
      | POk (wire, n1, r1) =>
        let fnum := (wire / 8) mod two32 in          (* int32(wire >> 3) *)
        let wt := wire mod 8 in
        if wt =? 4 then PErr EOther
        else if (fnum =? 0) || (two31 <=? fnum) then PErr EOther   (* fieldNum <= 0 *)
        else
          let pos1 := pos + n1 in
          match sch fnum with
          | Some KVarint =>
            if negb (wt =? 0) then PErr EOther
            else match varint_dec r1 with
                 | PErr e => PErr e
                 | POk (v, n2, r2) => pb_parse sub sch f (pos1 + n2) r2 ((fnum, VInt v) :: acc)
                 end
          | Some KBytes =>
            if negb (wt =? 2) then PErr EOther
            else match pb_lenprefix pos1 r1 with
                 | PErr e => PErr e
                 | POk (len, n2, r2) =>
                   pb_parse sub sch f (pos1 + n2 + len) (dropN len r2)
                            ((fnum, VBytes (takeN len r2)) :: acc)
                 end
          | Some KMsg =>
            if negb (wt =? 2) then PErr EOther
            else match pb_lenprefix pos1 r1 with
                 | PErr e => PErr e
                 | POk (len, n2, r2) =>
                   match sub (takeN len r2) with
                   | PErr e => PErr e
                   | POk _ => pb_parse sub sch f (pos1 + n2 + len) (dropN len r2)
                                       ((fnum, VBytes (takeN len r2)) :: acc)
                   end
                 end
          | Some KRepVarint =>
            if wt =? 0 then
              match varint_dec r1 with
              | PErr e => PErr e
              | POk (v, n2, r2) => pb_parse sub sch f (pos1 + n2) r2 acc
              end
            else if wt =? 2 then
              match pb_lenprefix pos1 r1 with
              | PErr e => PErr e
              | POk (len, n2, r2) =>
                match pb_packed (S (length r2)) len 0 r2 with
                | PErr e => PErr e
                | POk (k, r3) => pb_parse sub sch f (pos1 + n2 + k) r3 acc
                end
              end
            else PErr EOther
          | None =>
            match pb_skip (S (length rest)) 0 0 rest with
            | PErr e => PErr e
            | POk skippy =>
              if two63 <=? pos + skippy then PErr EOther
              else if blen rest <? skippy then PErr EUnexp
              else pb_parse sub sch f (pos + skippy) (dropN skippy rest) acc
            end
          end
      end
    end
  end.

Definition no_sub (_ : bytes) : pres unit := POk tt.

Definition pb_unmarshal (sub : bytes -> pres unit) (sch : N -> option fkind) (data : bytes)
  : pres (list (N * fval)) :=
  pb_parse sub sch (S (length data)) 0 data [].

(* the field list is in reverse order of appearance: the first hit is the last occurrence *)
Fixpoint last_int (f : N) (fs : list (N * fval)) (dflt : N) : N :=
  match fs with
  | [] => dflt
  | (g, VInt v) :: r => if g =? f then v else last_int f r dflt
  | _ :: r => last_int f r dflt
  end.
Fixpoint last_bytes (f : N) (fs : list (N * fval)) : option bytes :=
  match fs with
  | [] => None
  | (g, VBytes b) :: r => if g =? f then Some b else last_bytes f r
  | _ :: r => last_bytes f r
  end.

(* ---------------------------------------------------------------- the messages *)

(* walpb.Record { optional int64 type = 1; optional uint32 crc = 2; optional bytes data = 3 }
   (all nullable=false except data).  r_type holds the int64 as its 64-bit pattern. *)
Record wrec := mkrec { r_type : N; r_crc : N; r_data : option bytes }.

Definition rec_schema (f : N) : option fkind :=
  if f =? 1 then Some KVarint else if f =? 2 then Some KVarint
  else if f =? 3 then Some KBytes else None.

(* Record.MarshalToSizedBuffer: 08 type 10 crc [1a len data]   (data omitted when nil) *)
Definition rec_marshal (r : wrec) : bytes :=
  x08 :: varint_enc (r_type r) ++ x10 :: varint_enc (r_crc r) ++
  match r_data r with
  | None => []
  | Some d => x1a :: varint_enc (blen d) ++ d
  end.

Definition rec_unmarshal (b : bytes) : pres wrec :=
  match pb_unmarshal no_sub rec_schema b with
  | PErr e => PErr e
  | POk fs => POk (mkrec (last_int 1 fs 0) (last_int 2 fs 0 mod two32) (last_bytes 3 fs))
  end.

(* raftpb.Entry { Type = 1 (int32 enum); Term = 2; Index = 3; Data = 4 (bytes) } *)
Record entry := mkentry { e_type : N; e_term : N; e_index : N; e_data : option bytes }.

Definition entry_schema (f : N) : option fkind :=
  if f =? 1 then Some KVarint else if f =? 2 then Some KVarint
  else if f =? 3 then Some KVarint else if f =? 4 then Some KBytes else None.

(* uint64(int32) sign extension, as Entry.Marshal writes the enum *)
Definition sext32 (v : N) : N := if v <? two31 then v else v + (two64 - two32).

Definition entry_marshal (e : entry) : bytes :=
  x08 :: varint_enc (sext32 (e_type e)) ++ x10 :: varint_enc (e_term e) ++
  x18 :: varint_enc (e_index e) ++
  match e_data e with
  | None => []
  | Some d => x22 :: varint_enc (blen d) ++ d
  end.

Definition entry_unmarshal (b : bytes) : pres entry :=
  match pb_unmarshal no_sub entry_schema b with
  | PErr e => PErr e
  | POk fs => POk (mkentry (last_int 1 fs 0 mod two32) (last_int 2 fs 0) (last_int 3 fs 0)
                           (last_bytes 4 fs))
  end.

(* raftpb.HardState { term = 1; vote = 2; commit = 3 } *)
Record hardstate := mkhs { hs_term : N; hs_vote : N; hs_commit : N }.

Definition hs_schema (f : N) : option fkind :=
  if f =? 1 then Some KVarint else if f =? 2 then Some KVarint
  else if f =? 3 then Some KVarint else None.

Definition hs_marshal (h : hardstate) : bytes :=
  x08 :: varint_enc (hs_term h) ++ x10 :: varint_enc (hs_vote h) ++
  x18 :: varint_enc (hs_commit h).

Definition hs_unmarshal (b : bytes) : pres hardstate :=
  match pb_unmarshal no_sub hs_schema b with
  | PErr e => PErr e
  | POk fs => POk (mkhs (last_int 1 fs 0) (last_int 2 fs 0) (last_int 3 fs 0))
  end.

(* raftpb.ConfState { voters = 1; learners = 2; voters_outgoing = 3; learners_next = 4
   (repeated uint64); auto_leave = 5 (bool) } — only whether it parses matters here *)
Definition confstate_schema (f : N) : option fkind :=
  if (1 <=? f) && (f <=? 4) then Some KRepVarint
  else if f =? 5 then Some KVarint else None.

Definition confstate_check (b : bytes) : pres unit :=
  match pb_unmarshal no_sub confstate_schema b with
  | PErr e => PErr e
  | POk _ => POk tt
  end.

(* walpb.Snapshot { index = 1; term = 2; conf_state = 3 (message, nullable) } *)
Record walsnap := mkwalsnap { ws_index : N; ws_term : N; ws_conf : option bytes }.

Definition walsnap_schema (f : N) : option fkind :=
  if f =? 1 then Some KVarint else if f =? 2 then Some KVarint
  else if f =? 3 then Some KMsg else None.

Definition walsnap_marshal (s : walsnap) : bytes :=
  x08 :: varint_enc (ws_index s) ++ x10 :: varint_enc (ws_term s) ++
  match ws_conf s with
  | None => []
  | Some d => x1a :: varint_enc (blen d) ++ d
  end.

Definition walsnap_unmarshal (b : bytes) : pres walsnap :=
  match pb_unmarshal confstate_check walsnap_schema b with
  | PErr e => PErr e
  | POk fs => POk (mkwalsnap (last_int 1 fs 0) (last_int 2 fs 0) (last_bytes 3 fs))
  end.

(* snappb.Snapshot { crc = 1 (uint32); data = 2 (bytes) } *)
Record snapfile := mksnapfile { sf_crc : N; sf_data : option bytes }.

Definition snapfile_schema (f : N) : option fkind :=
  if f =? 1 then Some KVarint else if f =? 2 then Some KBytes else None.

Definition snapfile_marshal (s : snapfile) : bytes :=
  x08 :: varint_enc (sf_crc s) ++
  match sf_data s with
  | None => []
  | Some d => x12 :: varint_enc (blen d) ++ d
  end.

Definition snapfile_unmarshal (b : bytes) : pres snapfile :=
  match pb_unmarshal no_sub snapfile_schema b with
  | PErr e => PErr e
  | POk fs => POk (mksnapfile (last_int 1 fs 0 mod two32) (last_bytes 2 fs))
  end.
