(* C16 — a single corrupted data byte seen through the whole decode loop: the records before
   the damaged one are returned, in order and unmodified, and the loop stops with an error
   (io.ErrUnexpectedEOF or ErrCRCMismatch) — never with the damaged record or anything after it. *)
Require Import Base.Bytes Wal.Crc32c Wal.CrcTab Wal.Pb Wal.WalModel.
Require Import Wal.FrameProofs Wal.CrcProofs Wal.PbProofs Wal.WalProofs Wal.TornProofs.
Require Import Lia ZifyN ZifyNat ZifyBool.
Local Open Scope N_scope.

Lemma set_byte_prefix (A : bytes) : forall i v X, set_byte (blen A + i) v (A ++ X) = A ++ set_byte i v X.
Proof.
  induction A as [|y A IH]; intros i v X.
  - rewrite blen_nil, N.add_0_l. reflexivity.
  - cbn [app]. rewrite blen_cons. cbn [set_byte].
    replace (1 + blen A + i =? 0) with false by lia.
    replace (1 + blen A + i - 1) with (blen A + i) by lia.
    rewrite IH. reflexivity.
Qed.

Lemma set_byte_within (X : bytes) : forall i v B, i < blen X -> set_byte i v (X ++ B) = set_byte i v X ++ B.
Proof.
  induction X as [|x X IH]; intros i v B Hi.
  - rewrite blen_nil in Hi. lia.
  - cbn [app set_byte]. destruct (i =? 0) eqn:E; [reflexivity|].
    cbn [app]. rewrite IH; [reflexivity|]. rewrite blen_cons in Hi. lia.
Qed.

Theorem byte_flip_readback rs_before t pre a b suf rs_after last crc0 kz :
  let d := pre ++ a :: suf in
  let r := mkrec t 0 (Some d) in
  let rs := rs_before ++ r :: rs_after in
  Forall raw_ok rs -> Forall crc_rec_wf rs -> crc0 < lim32 -> t <> crcType -> a <> b ->
  let '(rs', bs, _) := encode_recs crc0 rs in
  let '(rsB', bsB, cB) := encode_recs crc0 rs_before in
  let file := bs ++ zerosN kz in
  (* the byte at this offset of the file belongs to the data of record r *)
  let off := blen bsB + (data_off t (digest_write cB d) (blen d) + blen pre) in
  exists st crc',
    decode_whole last crc0 (set_byte off b file) = (rsB', st, blen bsB, crc')
    /\ (st = FUnexp \/ st = FErr DRecCrc)
    /\ rsB' = firstn (length rs_before) rs'.
Proof.
  intros d r rs Hraw Hwf Hc Ht Hab.
  pose proof (decode_file_encode_recs rs_before) as DF.
  pose proof (encode_recs_length rs_before crc0) as HlenB.
  pose proof (encode_recs_crc_lt rs_before crc0 Hc) as HcB.
  unfold rs in *. clear rs.
  rewrite (encode_recs_app rs_before crc0 (r :: rs_after)).
  destruct (encode_recs crc0 rs_before) as [[rsB' bsB] cB] eqn:EB.
  rewrite encode_recs_cons.
  destruct (encode_recs (digest_write cB (data_of r)) rs_after) as [[rsA' bsA] cA] eqn:EA.
  cbn [fst snd] in *. cbv beta iota zeta.
  apply Forall_app in Hraw as [HrawB HrawRA]. apply Forall_app in Hwf as [HwfB HwfRA].
  inversion HrawRA as [|? ? Hr HrawA]; subst. inversion HwfRA as [|? ? Hwr HwfA]; subst.
  destruct (HlenB HrawB Hc) as [HlB HlB'].
  set (rS := stamp cB r).
  set (rS' := mkrec t (r_crc rS) (Some (pre ++ b :: suf))).
  (* the corrupted file *)
  assert (Hfile : set_byte (blen bsB + (data_off t (digest_write cB d) (blen d) + blen pre)) b
                           ((bsB ++ frame_of rS ++ bsA) ++ zerosN kz)
                  = bsB ++ frame_of rS' ++ (bsA ++ zerosN kz)).
  { rewrite <- !app_assoc. rewrite set_byte_prefix. f_equal.
    destruct (byte_flip_in_data last (blen bsB + frame_len rS) (blen bsB) cB t pre a b suf [] Hab Ht HcB Hr
                (N.le_refl _)) as [Hfl _].
    fold rS rS' in Hfl.
    assert (Hin : data_off t (digest_write cB d) (blen d) + blen pre < blen (frame_of rS)).
    { rewrite blen_frame_of. unfold frame_len. rewrite rec_marshal_length.
      unfold rS, stamp, r, d. cbn [r_type r_crc r_data data_of]. unfold data_off.
      rewrite !blen_app, !blen_cons.
      pose proof (pad_of_lt (2 + blen (varint_enc t) + blen (varint_enc (digest_write cB (pre ++ a :: suf))) +
                             (1 + blen (varint_enc (blen pre + (1 + blen suf))) + (blen pre + (1 + blen suf))))).
      lia. }
    rewrite set_byte_within by exact Hin.
    f_equal. symmetry. exact Hfl. }
  rewrite Hfile.
  unfold decode_whole.
  remember (bsB ++ frame_of rS' ++ bsA ++ zerosN kz) as F eqn:EF.
  assert (HblF : blen F = blen bsB + (frame_len rS' + (blen bsA + kz))).
  { rewrite EF, !blen_app, blen_frame_of, blen_zerosN. reflexivity. }
  assert (Hfuel : exists f, S (length F) = (length rs_before + S f)%nat).
  { exists (length F - length rs_before)%nat. unfold blen in HblF, HlB. lia. }
  destruct Hfuel as [f Hf]. rewrite Hf.
  specialize (DF (S f) last (blen F) 0 crc0 (frame_of rS' ++ bsA ++ zerosN kz) HrawB HwfB Hc).
  rewrite EB in DF. rewrite <- EF in DF. rewrite DF by lia.
  rewrite N.add_0_l.
  assert (HflS : frame_len rS' = frame_len rS).
  { unfold frame_len. rewrite !rec_marshal_length. unfold rS', rS, stamp, r, d.
    cbn [r_type r_crc r_data data_of]. rewrite !blen_app, !blen_cons. reflexivity. }
  destruct (byte_flip_in_data last (blen F) (blen bsB) cB t pre a b suf (bsA ++ zerosN kz) Hab Ht HcB Hr) as [_ Hdec].
  { change (blen bsB + frame_len rS <= blen F). rewrite HblF, HflS. lia. }
  change (decode_one last (blen F) (blen bsB) cB (frame_of rS' ++ bsA ++ zerosN kz) = DStop FUnexp
          \/ decode_one last (blen F) (blen bsB) cB (frame_of rS' ++ bsA ++ zerosN kz) = DStop (FErr DRecCrc)) in Hdec.
  cbn [decode_file].
  destruct Hdec as [Hdec|Hdec]; rewrite Hdec; rewrite app_nil_r.
  - exists FUnexp, cB. split; [reflexivity|]. split; [left; reflexivity|].
    rewrite <- HlB'. rewrite firstn_app, Nat.sub_diag, firstn_all. cbn [firstn]. rewrite app_nil_r. reflexivity.
  - exists (FErr DRecCrc), cB. split; [reflexivity|]. split; [right; reflexivity|].
    rewrite <- HlB'. rewrite firstn_app, Nat.sub_diag, firstn_all. cbn [firstn]. rewrite app_nil_r. reflexivity.
Qed.
