(* C16 — CRC-32C (Castagnoli), bitwise, as computed by Go's hash/crc32 for
   crc32.MakeTable(crc32.Castagnoli), and etcd's pkg/crc digest (crc.New(prev, table)).

   Go (hash/crc32/crc32_generic.go):
     simpleMakeTable: t[i] = crc := i; 8 times { if crc&1 == 1 { crc = (crc>>1) ^ poly } else { crc >>= 1 } }
     simpleUpdate(crc, tab, p): crc = ^crc; for v in p { crc = tab[byte(crc)^v] ^ (crc >> 8) }; return ^crc
   (the slicing-by-8 and SSE4.2 paths compute the same function).  The bitwise form below,
   crc := round^8 (crc xor v), is the same function; the equality with Go's table version is
   not proved here but compared with Go's crc32.Update on every run of the check.

   All states are N, kept below 2^32.  Model file: definitions only. *)
Require Import Base.Bytes.
Local Open Scope N_scope.

Definition crc_poly : N := 0x82F63B78.          (* reflected Castagnoli polynomial *)
Definition mask32 : N := 0xFFFFFFFF.

(* one shift-xor round *)
Definition crc_round (s : N) : N :=
  if N.odd s then N.lxor (N.shiftr s 1) crc_poly else N.shiftr s 1.

Definition crc_round8 (s : N) : N :=
  crc_round (crc_round (crc_round (crc_round (crc_round (crc_round (crc_round (crc_round s))))))).

(* one byte: tab[byte(crc)^v] ^ (crc>>8)  =  round^8 (crc xor v) *)
Definition crc_step (s : N) (b : byte) : N := crc_round8 (N.lxor s (bval b)).

(* the inner loop of simpleUpdate, on the inverted state *)
Definition crc_raw (s : N) (p : bytes) : N := fold_left crc_step p s.

Definition inv32 (x : N) : N := N.lxor x mask32.

(* crc32.Update(crc, castagnoliTable, p) *)
Definition crc_update (crc : N) (p : bytes) : N := inv32 (crc_raw (inv32 crc) p).
