(* C16 — executable model of etcd's write-ahead log as copied into /repo/etcd/server/storage/wal:
   encoder.go (encode, encodeFrameSize), decoder.go (decodeRecord, decodeFrameSize,
   isTornEntry), wal.go (Create, Save, SaveSnapshot, cut, ReadAll, Verify), repair.go (Repair).

   Storage model: a segment file is a byte list; a fresh segment is SegmentSizeBytes zero
   bytes (fallocate); the log is append-only; a crash keeps every byte below the last sync
   point and, above it, loses any subset of 512-byte sectors (their bytes stay zero).

   Model file: definitions only. *)
Require Import Base.Bytes Wal.Crc32c Wal.CrcTab Wal.Pb.
Local Open Scope N_scope.

(* ------------------------------------------------------------------ little-endian uint64 *)

Fixpoint le_enc (n : nat) (v : N) : bytes :=
  match n with
  | O => []
  | S k => byte_of_N (v mod 256) :: le_enc k (v / 256)
  end.
Fixpoint le_dec (l : bytes) : N :=
  match l with
  | [] => 0
  | b :: r => bval b + 256 * le_dec r
  end.

Definition zeros (n : nat) : bytes := repeat x00 n.
Definition zerosN (n : N) : bytes := zeros (N.to_nat n).

Definition is_zero (b : byte) : bool := bval b =? 0.
Definition all_zero (l : bytes) : bool := forallb is_zero l.

(* ------------------------------------------------------------------ frames (encoder.go) *)

Definition two56 : N := 0x100000000000000.

(* encodeFrameSize: padBytes = (8 - dataBytes%8) % 8;
   lenField = dataBytes | (0x80|padBytes)<<56 when padBytes != 0.
   For dataBytes < 2^56 (every record that fits in memory) the `|` is a `+`. *)
Definition pad_of (n : N) : N := (8 - n mod 8) mod 8.
Definition encode_frame_size (n : N) : N * N :=
  let p := pad_of n in
  (if p =? 0 then n else n + (128 + p) * two56, p).

(* decodeFrameSize on the int64 read from the file (as its 64-bit pattern):
   recBytes = low 56 bits; padBytes = (l>>56)&7 when l < 0 (top bit set), else 0 *)
Definition decode_frame_size (l : N) : N * N :=
  (l mod two56, if two63 <=? l then (l / two56) mod 8 else 0).

(* what encoder.encode writes for an already marshalled record *)
Definition frame (data : bytes) : bytes :=
  let '(lenf, p) := encode_frame_size (blen data) in
  le_enc 8 lenf ++ data ++ zerosN p.

(* rec.Data as a byte string (nil and empty are the same input for the CRC) *)
Definition data_of (r : wrec) : bytes := match r_data r with Some d => d | None => [] end.

Definition crcType : N := 4.

(* encoder.encode: crc.Write(rec.Data); rec.Crc = crc.Sum32(); marshal; frame.
   Returns the record as stamped, the bytes appended to the file, the new digest state. *)
Definition encode_rec (crc : N) (r : wrec) : wrec * bytes * N :=
  let crc' := digest_write crc (data_of r) in
  let r' := mkrec (r_type r) crc' (r_data r) in
  (r', frame (rec_marshal r'), crc').

Fixpoint encode_recs (crc : N) (rs : list wrec) : list wrec * bytes * N :=
  match rs with
  | [] => ([], [], crc)
  | r :: rest =>
    let '(r', b, crc1) := encode_rec crc r in
    let '(rs', bs, crc2) := encode_recs crc1 rest in
    (r' :: rs', b ++ bs, crc2)
  end.

(* ------------------------------------------------------------------ decoder.go *)

Definition sector : N := 512.

(* isTornEntry: split data on sector boundaries of the file (data starts at file offset
   fileoff); torn iff some chunk is entirely zero.  Only consulted on the last file. *)
Fixpoint torn_chunks (fuel : nat) (fileoff : N) (data : bytes) : bool :=
  match fuel with
  | O => false
  | S f =>
    match data with
    | [] => false
    | _ :: _ =>
      let k := N.min (sector - fileoff mod sector) (blen data) in
      all_zero (firstn (N.to_nat k) data)
      || torn_chunks f (fileoff + k) (skipn (N.to_nat k) data)
    end
  end.
Definition is_torn (last : bool) (off : N) (data : bytes) : bool :=
  last && torn_chunks (S (length data)) (off + 8) data.

Inductive derr :=
| DSizeLimit      (* "wal: max entry size limit exceeded" as a fatal error: no longer produced (fix 951f2b4) *)
| DUnmarshal      (* protobuf error other than io.ErrUnexpectedEOF *)
| DRecCrc         (* walpb.ErrCRCMismatch from rec.Validate in decodeRecord *)
| DChainCrc.      (* wal.ErrCRCMismatch: a crcType record does not continue the chain *)

Inductive fstatus :=
| FEnd            (* io.EOF from readInt64, or a zero length field: end of this file *)
| FUnexp          (* io.ErrUnexpectedEOF *)
| FErr (e : derr).

Inductive dres :=
| DRec (r : wrec) (n : N) (crc' : N)     (* record, frame bytes consumed, digest afterwards *)
| DStop (s : fstatus).

(* one call of decodeRecord inside the current file.  last = (len(d.brs) == 1),
   size = file size, off = lastValidOff, cur = the file from off on. *)
Definition decode_one (last : bool) (size off crc : N) (cur : bytes) : dres :=
  match cur with
  | [] => DStop FEnd                                   (* readInt64: io.EOF *)
  | _ :: _ =>
    let hdr := firstn 8 cur in
    if blen hdr <? 8 then DStop FUnexp                 (* binary.Read: io.ErrUnexpectedEOF *)
    else
      let l := le_dec hdr in
      if l =? 0 then DStop FEnd
      else
        let '(recB, padB) := decode_frame_size l in
        (* maxEntryLimit := size - off - padBytes; if recBytes > maxEntryLimit -> an error that
           wraps io.ErrUnexpectedEOF (the record runs past the end of the file: a partially
           written tail; fix 951f2b4 — before it this was a fatal, unrepairable error) *)
        if size <? recB + off + padB then DStop FUnexp
        else
          let data := firstn (N.to_nat (recB + padB)) (skipn 8 cur) in
          if blen data <? recB + padB then DStop FUnexp   (* io.ReadFull falls short *)
          else
            match rec_unmarshal (firstn (N.to_nat recB) data) with
            | PErr e =>
              if is_torn last off data then DStop FUnexp
              else DStop (match e with EUnexp => FUnexp | EOther => FErr DUnmarshal end)
            | POk r =>
              if r_type r =? crcType then DRec r (8 + recB + padB) crc
              else
                let crc' := digest_write crc (data_of r) in
                if r_crc r =? crc' then DRec r (8 + recB + padB) crc'
                else if is_torn last off data then DStop FUnexp
                else DStop (FErr DRecCrc)
            end
  end.

(* the decode loop shared by ReadAll, Verify and Repair, including what all three do on a
   crcType record:  crc := decoder.crc.Sum32(); if crc != 0 && rec.Validate(crc) != nil ->
   ErrCRCMismatch;  decoder.updateCRC(rec.Crc).
   Result: records read from this file, how the file ended, lastValidOff, digest. *)
Fixpoint decode_file (fuel : nat) (last : bool) (size off crc : N) (cur : bytes)
  : list wrec * fstatus * N * N :=
  match fuel with
  | O => ([], FErr DUnmarshal, off, crc)
  | S f =>
    match decode_one last size off crc cur with
    | DStop s => ([], s, off, crc)
    | DRec r n crc1 =>
      if (r_type r =? crcType) && negb (crc1 =? 0) && negb (r_crc r =? crc1)
      then ([], FErr DChainCrc, off + n, crc1)
      else
        let crc2 := if r_type r =? crcType then r_crc r else crc1 in
        let '(rs, st, off', crc') := decode_file f last size (off + n) crc2 (skipn (N.to_nat n) cur) in
        (r :: rs, st, off', crc')
    end
  end.

Definition decode_whole (last : bool) (crc : N) (f : bytes) : list wrec * fstatus * N * N :=
  decode_file (S (length f)) last (blen f) 0 crc f.

(* the decoder over the opened segment files: a clean end of a file moves on to the next
   one (d.brs = d.brs[1:]; d.lastValidOff = 0); io.EOF only after the last. *)
Fixpoint decode_files (files : list bytes) (crc : N) : list wrec * fstatus * N * N :=
  match files with
  | [] => ([], FEnd, 0, crc)
  | f :: rest =>
    let last := match rest with [] => true | _ :: _ => false end in
    let '(rs, st, off, crc1) := decode_whole last crc f in
    match st, rest with
    | FEnd, _ :: _ =>
      let '(rs2, st2, off2, crc2) := decode_files rest crc1 in
      (rs ++ rs2, st2, off2, crc2)
    | _, _ => (rs, st, off, crc1)
    end
  end.

(* ------------------------------------------------------------------ ReadAll (wal.go) *)

Definition metadataType : N := 1.
Definition entryType : N := 2.
Definition stateType : N := 3.
Definition snapshotType : N := 5.

Record rstate := mkrs {
  rs_meta : option bytes;
  rs_hs : hardstate;
  rs_ents : list entry;
  rs_match : bool }.

Definition rs_init : rstate := mkrs None (mkhs 0 0 0) [] false.

Inductive rclass :=
| CUnexpEOF | CSizeLimit | CUnmarshal | CRecCrc | CChainCrc
| CSliceOOR | CMetaConflict | CSnapMismatch | CBadType | CPanic.

Definition class_of_derr (e : derr) : rclass :=
  match e with
  | DSizeLimit => CSizeLimit | DUnmarshal => CUnmarshal
  | DRecCrc => CRecCrc | DChainCrc => CChainCrc
  end.

Inductive step (A : Type) := SOk (a : A) | SErr (c : rclass).
Arguments SOk {A} a.
Arguments SErr {A} c.

Definition opt_bytes (o : option bytes) : bytes := match o with Some b => b | None => [] end.

(* one iteration of ReadAll's switch; start = the snapshot given to Open *)
Definition interp_rec (start_index start_term : N) (s : rstate) (r : wrec) : step rstate :=
  let t := r_type r in
  if t =? entryType then
    match entry_unmarshal (data_of r) with          (* mustUnmarshalEntry *)
    | PErr _ => SErr CPanic
    | POk e =>
      if start_index <? e_index e then
        let up := e_index e - start_index - 1 in
        if N.of_nat (length (rs_ents s)) <? up then SErr CSliceOOR
        else SOk (mkrs (rs_meta s) (rs_hs s) (firstn (N.to_nat up) (rs_ents s) ++ [e]) (rs_match s))
      else SOk s
    end
  else if t =? stateType then
    match hs_unmarshal (data_of r) with             (* mustUnmarshalState *)
    | PErr _ => SErr CPanic
    | POk h => SOk (mkrs (rs_meta s) h (rs_ents s) (rs_match s))
    end
  else if t =? metadataType then
    match rs_meta s with
    | Some m => if bytes_eqb m (data_of r)
                then SOk (mkrs (r_data r) (rs_hs s) (rs_ents s) (rs_match s))
                else SErr CMetaConflict
    | None => SOk (mkrs (r_data r) (rs_hs s) (rs_ents s) (rs_match s))
    end
  else if t =? crcType then SOk s                    (* chain handled by the decode loop *)
  else if t =? snapshotType then
    match walsnap_unmarshal (data_of r) with        (* pbutil.MustUnmarshal *)
    | PErr _ => SErr CPanic
    | POk sn =>
      if ws_index sn =? start_index then
        if ws_term sn =? start_term
        then SOk (mkrs (rs_meta s) (rs_hs s) (rs_ents s) true)
        else SErr CSnapMismatch
      else SOk s
    end
  else SErr CBadType.

Fixpoint interp_all (si st : N) (s : rstate) (rs : list wrec) : step rstate :=
  match rs with
  | [] => SOk s
  | r :: rest =>
    match interp_rec si st s r with
    | SErr c => SErr c
    | SOk s' => interp_all si st s' rest
    end
  end.

(* ReadAll's result.  RAOk carries what is returned; found=false means the error value is
   ErrSnapshotNotFound (the data is returned alongside it). *)
Inductive rares :=
| RAOk (meta : option bytes) (hs : hardstate) (ents : list entry) (found : bool)
| RAErr (c : rclass).

Definition result_of (s : rstate) : rares := RAOk (rs_meta s) (rs_hs s) (rs_ents s) (rs_match s).

(* write = opened with Open (tail() != nil): everything must be read up to io.EOF;
   otherwise (OpenForRead) io.ErrUnexpectedEOF is tolerated.
   ErrSnapshotNotFound: ReadAll sets err = ErrSnapshotNotFound when the start snapshot was not
   seen, but in write mode the following `w.encoder, err = newFileEncoder(...)` overwrites err
   with nil, so the caller of Open+ReadAll never sees it (the code as it stands). *)
Definition result_w (write : bool) (s : rstate) : rares :=
  RAOk (rs_meta s) (rs_hs s) (rs_ents s) (rs_match s || write).

Definition finish (write : bool) (s : rstate) (st : fstatus) : rares :=
  match st with
  | FEnd => result_w write s
  | FUnexp => if write then RAErr CUnexpEOF else result_w write s
  | FErr e => RAErr (class_of_derr e)
  end.

Definition decoded := (list wrec * fstatus * N * N)%type.

Definition read_all_dec (write : bool) (si st : N) (d : decoded) : rares :=
  let '(rs, fs, _, _) := d in
  match interp_all si st rs_init rs with
  | SErr c => RAErr c
  | SOk s => finish write s fs
  end.

Definition read_all (write : bool) (si st : N) (files : list bytes) : rares :=
  read_all_dec write si st (decode_files files 0).

(* the same, from an already decoded record list (used by the oracle) *)
Definition interp_result (si st : N) (rs : list wrec) : rares :=
  match interp_all si st rs_init rs with
  | SErr c => RAErr c
  | SOk s => result_of s
  end.

(* in write mode a successful ReadAll zeroes the tail file from lastValidOff on *)
Definition zero_tail (off : N) (f : bytes) : bytes :=
  takeN off f ++ zerosN (blen f - off).

(* Verify (wal.go): read mode, its own switch: entries are not parsed, state is *)
Definition verify_rec (si st : N) (s : rstate) (r : wrec) : step rstate :=
  let t := r_type r in
  if t =? metadataType then
    match rs_meta s with
    | Some m => if bytes_eqb m (data_of r)
                then SOk (mkrs (r_data r) (rs_hs s) (rs_ents s) (rs_match s))
                else SErr CMetaConflict
    | None => SOk (mkrs (r_data r) (rs_hs s) (rs_ents s) (rs_match s))
    end
  else if t =? crcType then SOk s
  else if t =? snapshotType then
    match walsnap_unmarshal (data_of r) with
    | PErr _ => SErr CPanic
    | POk sn =>
      if ws_index sn =? si then
        if ws_term sn =? st then SOk (mkrs (rs_meta s) (rs_hs s) (rs_ents s) true)
        else SErr CSnapMismatch
      else SOk s
    end
  else if t =? entryType then SOk s
  else if t =? stateType then
    match hs_unmarshal (data_of r) with
    | PErr _ => SErr CPanic
    | POk h => SOk (mkrs (rs_meta s) h (rs_ents s) (rs_match s))
    end
  else SErr CBadType.

Fixpoint verify_all (si st : N) (s : rstate) (rs : list wrec) : step rstate :=
  match rs with
  | [] => SOk s
  | r :: rest =>
    match verify_rec si st s r with
    | SErr c => SErr c
    | SOk s' => verify_all si st s' rest
    end
  end.

Definition verify_dec (si st : N) (d : decoded) : rares :=
  let '(rs, fs, _, _) := d in
  match verify_all si st rs_init rs with
  | SErr c => RAErr c
  | SOk s => finish false s fs
  end.

Definition verify (si st : N) (files : list bytes) : rares :=
  verify_dec si st (decode_files files 0).

(* ------------------------------------------------------------------ Repair (repair.go) *)

(* Repair opens only the last segment with a fresh decoder (crc 0):  io.EOF -> true,
   io.ErrUnexpectedEOF -> truncate at the offset before the failed record, true;
   anything else -> false. *)
Definition repair (f : bytes) : bool * bytes :=
  let '(_, st, off, _) := decode_whole true 0 f in
  match st with
  | FEnd => (true, f)
  | FUnexp => (true, takeN off f)
  | FErr _ => (false, f)
  end.

Fixpoint map_last {A} (g : A -> A) (l : list A) : list A :=
  match l with
  | [] => []
  | [x] => [g x]
  | x :: r => x :: map_last g r
  end.

Definition repair_files (files : list bytes) : bool * list bytes :=
  match rev files with
  | [] => (false, files)
  | f :: _ => let '(ok, f') := repair f in (ok, map_last (fun _ => f') files)
  end.

(* ------------------------------------------------------------------ storage faults *)

(* crash image: bytes at or above the sync point that lie in a lost sector stay zero *)
Fixpoint image_from (i synced : N) (lost : N -> bool) (f : bytes) : bytes :=
  match f with
  | [] => []
  | b :: r =>
    (if (synced <=? i) && lost (i / sector) then x00 else b) :: image_from (i + 1) synced lost r
  end.
Definition crash_image (synced : N) (lost : N -> bool) (f : bytes) : bytes :=
  image_from 0 synced lost f.
Definition crash_image_list (synced : N) (lost : list N) (f : bytes) : bytes :=
  crash_image synced (fun s => existsb (N.eqb s) lost) f.

(* single-byte corruption *)
Fixpoint set_byte (i : N) (v : byte) (f : bytes) : bytes :=
  match f with
  | [] => []
  | b :: r => if i =? 0 then v :: r else b :: set_byte (i - 1) v r
  end.

(* ------------------------------------------------------------------ the writer (wal.go) *)

Inductive wop :=
| OpSave (hs : hardstate) (ents : list entry)
| OpSnap (s : walsnap)
| OpCut.          (* the segment cut Save performs when the tail passed SegmentSizeBytes *)

Record wstate := mkws {
  w_closed : list (N * N * bytes);   (* finished segments: seq, index, contents *)
  w_seq : N; w_idx : N;              (* name of the tail segment *)
  w_cur : bytes;                     (* what has been appended to the tail segment *)
  w_crc : N;                         (* encoder digest *)
  w_enti : N;                        (* index of the last entry saved *)
  w_hs : hardstate;                  (* w.state *)
  w_meta : option bytes }.

Definition w_encode (w : wstate) (r : wrec) : wstate :=
  let '(_, b, crc') := encode_rec (w_crc w) r in
  mkws (w_closed w) (w_seq w) (w_idx w) (w_cur w ++ b) crc' (w_enti w) (w_hs w) (w_meta w).

Definition hs_empty (h : hardstate) : bool :=
  (hs_term h =? 0) && (hs_vote h =? 0) && (hs_commit h =? 0).

Definition w_save_entry (w : wstate) (e : entry) : wstate :=
  let w' := w_encode w (mkrec entryType 0 (Some (entry_marshal e))) in
  mkws (w_closed w') (w_seq w') (w_idx w') (w_cur w') (w_crc w') (e_index e) (w_hs w') (w_meta w').

Definition w_save_state (w : wstate) (h : hardstate) : wstate :=
  if hs_empty h then w
  else
    let w' := w_encode w (mkrec stateType 0 (Some (hs_marshal h))) in
    mkws (w_closed w') (w_seq w') (w_idx w') (w_cur w') (w_crc w') (w_enti w') h (w_meta w').

Definition w_save_snap (w : wstate) (s : walsnap) : wstate :=
  let w' := w_encode w (mkrec snapshotType 0 (Some (walsnap_marshal s))) in
  mkws (w_closed w') (w_seq w') (w_idx w') (w_cur w') (w_crc w')
       (if w_enti w' <? ws_index s then ws_index s else w_enti w') (w_hs w') (w_meta w').

(* Create: saveCrc(0); metadata record; SaveSnapshot(walpb.Snapshot{}) *)
Definition w_create (meta : option bytes) : wstate :=
  let w0 := mkws [] 0 0 [] 0 0 (mkhs 0 0 0) meta in
  let w1 := w_encode w0 (mkrec crcType 0 None) in
  let w2 := w_encode w1 (mkrec metadataType 0 meta) in
  w_save_snap w2 (mkwalsnap 0 0 None).

(* cut: the old tail is truncated to its data; the new segment <seq+1>-<enti+1> starts with
   saveCrc(prevCrc), the metadata record and saveState(&w.state) *)
Definition w_cut (w : wstate) : wstate :=
  let w0 := mkws (w_closed w ++ [(w_seq w, w_idx w, w_cur w)]) (w_seq w + 1) (w_enti w + 1)
                 [] (w_crc w) (w_enti w) (w_hs w) (w_meta w) in
  let w1 := w_encode w0 (mkrec crcType 0 None) in
  let w2 := w_encode w1 (mkrec metadataType 0 (w_meta w)) in
  w_save_state w2 (w_hs w).

Definition w_op (w : wstate) (o : wop) : wstate :=
  match o with
  | OpSave h ents =>
    if hs_empty h && match ents with [] => true | _ => false end then w
    else w_save_state (fold_left w_save_entry ents w) h
  | OpSnap s => w_save_snap w s
  | OpCut => w_cut w
  end.

Definition w_run (meta : option bytes) (ops : list wop) : wstate :=
  fold_left w_op ops (w_create meta).

(* the directory: closed segments have exactly their data; the tail is preallocated *)
Definition w_files (segsize : N) (w : wstate) : list (N * N * bytes) :=
  w_closed w ++ [(w_seq w, w_idx w, w_cur w ++ zerosN (segsize - blen (w_cur w)))].

Definition file_bytes (f : N * N * bytes) : bytes := snd f.

(* Open(snap): searchIndex picks the last file whose index <= snap.Index; the files from
   there on must have consecutive sequence numbers (isValidSeq, with its lastSeq != 0 quirk) *)
Fixpoint search_index (names : list (N * N)) (index : N) (pos : nat) (best : option nat) : option nat :=
  match names with
  | [] => best
  | (_, idx) :: r => search_index r index (S pos) (if idx <=? index then Some pos else best)
  end.
Fixpoint valid_seq (last_seq : N) (names : list (N * N)) : bool :=
  match names with
  | [] => true
  | (sq, _) :: r =>
    if negb (last_seq =? 0) && negb (last_seq =? sq - 1) then false else valid_seq sq r
  end.
Definition select_files (files : list (N * N * bytes)) (index : N) : option (list bytes) :=
  match search_index (map fst files) index 0 None with
  | None => None
  | Some k =>
    let sel := skipn k files in
    if valid_seq 0 (map fst sel) then Some (map file_bytes sel) else None
  end.

(* ------------------------------------------------------------------ oracle and layout *)

Definition opt_bytes_eqb (a b : option bytes) : bool :=
  match a, b with
  | None, None => true
  | Some x, Some y => bytes_eqb x y
  | _, _ => false
  end.
Definition entry_eqb (a b : entry) : bool :=
  (e_type a =? e_type b) && (e_term a =? e_term b) && (e_index a =? e_index b)
  && opt_bytes_eqb (e_data a) (e_data b).
Fixpoint ents_eqb (a b : list entry) : bool :=
  match a, b with
  | [], [] => true
  | x :: a', y :: b' => entry_eqb x y && ents_eqb a' b'
  | _, _ => false
  end.
Definition hs_eqb (a b : hardstate) : bool :=
  (hs_term a =? hs_term b) && (hs_vote a =? hs_vote b) && (hs_commit a =? hs_commit b).

(* what ReadAll hands back, as the caller can see it: nil and empty metadata are both
   "no bytes"; the found flag is the error value *)
Definition rares_eqb (a b : rares) : bool :=
  match a, b with
  | RAOk m1 h1 e1 f1, RAOk m2 h2 e2 f2 =>
    bytes_eqb (opt_bytes m1) (opt_bytes m2) && hs_eqb h1 h2 && ents_eqb e1 e2 && Bool.eqb f1 f2
  | _, _ => false
  end.
(* the data only (in write mode the found flag carries no information) *)
Definition rares_data_eqb (a b : rares) : bool :=
  match a, b with
  | RAOk m1 h1 e1 _, RAOk m2 h2 e2 _ =>
    bytes_eqb (opt_bytes m1) (opt_bytes m2) && hs_eqb h1 h2 && ents_eqb e1 e2
  | _, _ => false
  end.

(* property oracle: `got` (a result returned without error) is what ReadAll yields on the
   first k written records, for some k >= kmin *)
Fixpoint prefix_ok_from (si st : N) (s : rstate) (k kmin : nat) (rest : list wrec) (got : rares) : bool :=
  ((Nat.leb kmin k) && rares_data_eqb (result_of s) got)
  || match rest with
     | [] => false
     | r :: rest' =>
       match interp_rec si st s r with
       | SErr _ => false
       | SOk s' => prefix_ok_from si st s' (S k) kmin rest' got
       end
     end.
Definition prefix_ok (si st : N) (written : list wrec) (kmin : nat) (got : rares) : bool :=
  prefix_ok_from si st rs_init 0 kmin written got.

(* which part of which record a file offset falls into (for a file that decodes cleanly
   into records in canonical encoding) *)
Inductive part :=
| PLen          (* 8-byte frame length field *)
| PTagType      (* 0x08 *)
| PType         (* the record type varint: NOT covered by any checksum *)
| PTagCrc       (* 0x10 *)
| PCrc          (* the stored CRC varint *)
| PTagData      (* 0x1a *)
| PDataLen      (* length varint of the data field *)
| PData         (* rec.Data: the only bytes the CRC covers *)
| PPad          (* alignment padding *)
| PFree.        (* beyond the last record *)

Definition part_in_record (r : wrec) (rel : N) : part :=
  let nt := blen (varint_enc (r_type r)) in
  let nc := blen (varint_enc (r_crc r)) in
  if rel <? 8 then PLen
  else if rel <? 9 then PTagType
  else if rel <? 9 + nt then PType
  else if rel <? 10 + nt then PTagCrc
  else if rel <? 10 + nt + nc then PCrc
  else match r_data r with
       | None => PPad
       | Some d =>
         let nl := blen (varint_enc (blen d)) in
         if rel <? 11 + nt + nc then PTagData
         else if rel <? 11 + nt + nc + nl then PDataLen
         else if rel <? 11 + nt + nc + nl + blen d then PData
         else PPad
       end.

Definition frame_len (r : wrec) : N :=
  let n := blen (rec_marshal r) in 8 + n + pad_of n.

(* returns (index of the record in the file, part) *)
Fixpoint locate (rs : list wrec) (k : N) (off : N) : N * part :=
  match rs with
  | [] => (k, PFree)
  | r :: rest =>
    let n := frame_len r in
    if off <? n then (k, part_in_record r off) else locate rest (k + 1) (off - n)
  end.

(* ReadAll in write mode together with its effect on the directory (ZeroToEnd on the tail) *)
Definition read_all_w_dec (si st : N) (files : list bytes) (d : decoded) : rares * list bytes :=
  let '(rs, fs, off, _) := d in
  match interp_all si st rs_init rs with
  | SErr c => (RAErr c, files)
  | SOk s =>
    match fs with
    | FEnd => (result_w true s, map_last (zero_tail off) files)
    | _ => (finish true s fs, files)
    end
  end.

Definition read_all_w (si st : N) (files : list bytes) : rares * list bytes :=
  read_all_w_dec si st files (decode_files files 0).

(* records per file, as the chained decoder reads them (stops like decode_files does) *)
Fixpoint decode_each (files : list bytes) (crc : N) : list (list wrec) :=
  match files with
  | [] => []
  | f :: rest =>
    let last := match rest with [] => true | _ :: _ => false end in
    let '(rs, st, _, crc1) := decode_whole last crc f in
    match st with
    | FEnd => rs :: decode_each rest crc1
    | _ => [rs]
    end
  end.

(* number of leading records of a file that end at or below the sync point *)
Fixpoint count_synced (rs : list wrec) (off synced : N) : nat :=
  match rs with
  | [] => O
  | r :: rest =>
    let e := off + frame_len r in
    if e <=? synced then S (count_synced rest e synced) else O
  end.

(* ------------------------------------------------------------------ torn tail side condition *)

(* would decodeRecord accept these frame contents (record bytes + padding) as a record,
   given the digest state before it? *)
Definition accepts (crc recB : N) (data : bytes) : bool :=
  match rec_unmarshal (firstn (N.to_nat recB) data) with
  | PErr _ => false
  | POk r => (r_type r =? crcType) || (r_crc r =? digest_write crc (data_of r))
  end.

(* no_crc_coincidence: every record written after the sync point whose stored bytes were
   changed by the crash is rejected by parser + CRC.  rs = the records as stamped by the
   encoder, orig/img = original file and crash image from offset off on, crc = digest state
   before the first of rs.  A 32-bit checksum cannot exclude an accidental match after a
   512-byte erasure; the condition is decidable and evaluated on every generated instance. *)
Fixpoint no_crc_coincidence (synced : N) (orig img : bytes) (off crc : N) (rs : list wrec) : bool :=
  match rs with
  | [] => true
  | r :: rest =>
    let nb := blen (rec_marshal r) in
    let n := frame_len r in
    let d_orig := firstn (N.to_nat (n - 8)) (skipn 8 orig) in
    let d_img := firstn (N.to_nat (n - 8)) (skipn 8 img) in
    (if (synced <=? off) && negb (bytes_eqb d_img d_orig) then negb (accepts crc nb d_img) else true)
    && no_crc_coincidence synced (skipn (N.to_nat n) orig) (skipn (N.to_nat n) img) (off + n) (r_crc r) rest
  end.
