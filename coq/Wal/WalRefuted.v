(* C16 — the record type byte is outside the record CRC (open finding record-type-byte).
   Witness: a log with metadata "m" and one Save of three entries (term 7, indexes 1..3);
   the type byte of the third entry record is changed from 2 (entryType) to 3 (stateType).
   ReadAll then returns err = nil, two entries and the HardState{Term:0 Vote:7 Commit:3},
   which nobody wrote: the bytes of the entry, which its CRC still matches, are re-read as a
   HardState.  The same script is replayed on the real WAL by ./check C16. *)
Require Import Base.Bytes Wal.Crc32c Wal.CrcTab Wal.Pb Wal.WalModel.
Local Open Scope N_scope.

Definition wit_meta : option bytes := Some [x6d].
Definition wit_ops : list wop :=
  [OpSave (mkhs 0 0 0)
          [mkentry 0 7 1 (Some [x61]); mkentry 0 7 2 (Some [x62]); mkentry 0 7 3 (Some [x63])]].
Definition wit_files : list bytes := map file_bytes (w_files 4096 (w_run wit_meta wit_ops)).
Definition wit_written : list wrec := concat (decode_each wit_files 0).
Definition wit_off : N := 137.      (* frames of 16,24,24,32,32 bytes, then 8 + tag *)
Definition wit_files' : list bytes := map (set_byte wit_off x03) wit_files.

(* the pristine log reads back what was written *)
Lemma wit_pristine :
  read_all true 0 0 wit_files =
  RAOk wit_meta (mkhs 0 0 0)
       [mkentry 0 7 1 (Some [x61]); mkentry 0 7 2 (Some [x62]); mkentry 0 7 3 (Some [x63])] true.
Proof. vm_compute. reflexivity. Qed.

Theorem type_byte_refuted :
  (* one file, the changed byte is the type varint of record 5, an entry record *)
  length wit_files = 1%nat
  /\ locate wit_written 0 wit_off = (5, PType)
  /\ map r_type wit_written = [crcType; metadataType; snapshotType; entryType; entryType; entryType]
  /\ map (fun f => nth (N.to_nat wit_off) f x00) wit_files = [x02]
  (* Open + ReadAll on the corrupted log: no error, a hard state that was never saved *)
  /\ read_all true 0 0 wit_files' =
     RAOk wit_meta (mkhs 0 7 3) [mkentry 0 7 1 (Some [x61]); mkentry 0 7 2 (Some [x62])] true
  (* Verify accepts it as well *)
  /\ verify 0 0 wit_files' = RAOk wit_meta (mkhs 0 7 3) [] true
  (* and the result is not what ReadAll yields on any prefix of the written records *)
  /\ prefix_ok 0 0 wit_written 0 (read_all true 0 0 wit_files') = false.
Proof.
  split; [vm_compute; reflexivity|].
  split; [vm_compute; reflexivity|].
  split; [vm_compute; reflexivity|].
  split; [vm_compute; reflexivity|].
  split; [vm_compute; reflexivity|].
  split; [vm_compute; reflexivity|].
  vm_compute; reflexivity.
Qed.

(* the statement of C16_type_byte_refuted *)
Theorem type_byte_refuted_ex :
  exists (files : list bytes) (written : list wrec) (off : N) (v : byte) hs ents meta,
    files = map file_bytes (w_files 4096 (w_run wit_meta wit_ops))
    /\ written = concat (decode_each files 0)
    /\ snd (locate written 0 off) = PType
    /\ read_all true 0 0 (map (set_byte off v) files) = RAOk meta hs ents true
    /\ hs = mkhs 0 7 3
    /\ prefix_ok 0 0 written 0 (RAOk meta hs ents true) = false.
Proof.
  exists wit_files, wit_written, wit_off, x03, (mkhs 0 7 3),
         [mkentry 0 7 1 (Some [x61]); mkentry 0 7 2 (Some [x62])], wit_meta.
  split; [unfold wit_files; reflexivity|].
  split; [unfold wit_written; reflexivity|].
  split; [vm_compute; reflexivity|].
  split; [vm_compute; reflexivity|].
  split; [reflexivity|].
  vm_compute; reflexivity.
Qed.

(* ------------------------------------------------------------------ the data-length byte
   (open finding record-data-length-byte).  The length varint of rec.Data, like the type, is
   outside the CRC, and the generated Unmarshal skips unknown fields.  Metadata chosen as
   "ab" followed by five bytes that (a) parse as an unknown fixed32 field (tag 0x25) and
   (b) leave the CRC-32C digest unchanged (crc("ab" ++ s) = crc("ab"); found by search, checked
   here by computation).  Changing the data-length byte from 7 to 2 makes Open+ReadAll return
   err = nil with metadata "ab": the record's own CRC still matches and so does the rolling
   chain for every later record. *)
Definition dl_meta : bytes := [x61; x62; x25; x27; x0c; x0b; xe4].
Definition dl_files : list bytes := map file_bytes (w_files 4096 (w_run (Some dl_meta) [])).
Definition dl_written : list wrec := concat (decode_each dl_files 0).
Definition dl_off : N := 33.
Definition dl_files' : list bytes := map (set_byte dl_off x02) dl_files.

Theorem data_length_byte_refuted_ex :
  exists (files : list bytes) (written : list wrec) (off : N) (v : byte) meta meta' hs ents,
    files = map file_bytes (w_files 4096 (w_run (Some meta) []))
    /\ written = concat (decode_each files 0)
    /\ locate written 0 off = (1, PDataLen)
    /\ crc_update 0 meta = crc_update 0 meta'                    (* the engineered coincidence *)
    /\ read_all true 0 0 files = RAOk (Some meta) hs ents true
    /\ read_all true 0 0 (map (set_byte off v) files) = RAOk (Some meta') hs ents true
    /\ meta' <> meta
    /\ prefix_ok 0 0 written 0 (RAOk (Some meta') hs ents true) = false.
Proof.
  exists dl_files, dl_written, dl_off, x02, dl_meta, [x61; x62], (mkhs 0 0 0), [].
  split; [unfold dl_files; reflexivity|].
  split; [unfold dl_written; reflexivity|].
  split; [vm_compute; reflexivity|].
  split; [vm_compute; reflexivity|].
  split; [vm_compute; reflexivity|].
  split; [vm_compute; reflexivity|].
  split; [discriminate|].
  vm_compute; reflexivity.
Qed.
