(* C16 — from the record stream to ReadAll: closed segments chain into the tail segment; what
   ReadAll returns on a crash image is ReadAll's result on a prefix of the written records that
   contains every synced record, or the repairable io.ErrUnexpectedEOF. *)
Require Import Base.Bytes Wal.Crc32c Wal.CrcTab Wal.Pb Wal.WalModel.
Require Import Wal.FrameProofs Wal.CrcProofs Wal.PbProofs Wal.WalProofs Wal.TornProofs Wal.RepairProofs.
Require Import Lia ZifyN ZifyNat ZifyBool.
Local Open Scope N_scope.

(* the closed segments of a log: each is exactly the frames of its records (cut truncates the
   old tail to its data); the digest runs on from one segment to the next *)
Fixpoint closed_files (crc : N) (segs : list (list wrec)) : list bytes * list wrec * N :=
  match segs with
  | [] => ([], [], crc)
  | s :: t =>
    let '(s', bs, c1) := encode_recs crc s in
    let '(fs, rs, c2) := closed_files c1 t in
    (bs :: fs, s' ++ rs, c2)
  end.

Lemma closed_files_crc_lt segs : forall crc, crc < lim32 -> snd (closed_files crc segs) < lim32.
Proof.
  induction segs as [|s t IH]; intros crc Hc; [exact Hc|].
  cbn [closed_files].
  pose proof (encode_recs_crc_lt s crc Hc) as H1.
  destruct (encode_recs crc s) as [[s' bs] c1]. cbn [snd] in H1.
  specialize (IH c1 H1). destruct (closed_files c1 t) as [[fs rs] c2]. exact IH.
Qed.

Lemma decode_files_closed segs : forall crc tailf,
  Forall (Forall raw_ok) segs -> Forall (Forall crc_rec_wf) segs -> crc < lim32 ->
  let '(fs, rs, c) := closed_files crc segs in
  decode_files (fs ++ [tailf]) crc =
  let '(rt, st, off, c') := decode_whole true c tailf in (rs ++ rt, st, off, c').
Proof.
  induction segs as [|s t IH]; intros crc tailf Hraw Hwf Hc.
  - cbn [closed_files app decode_files].
    destruct (decode_whole true crc tailf) as [[[rt st] off] c']. destruct st; reflexivity.
  - cbn [closed_files].
    inversion Hraw as [|? ? Hs Ht]; subst. inversion Hwf as [|? ? Hws Hwt]; subst.
    pose proof (record_roundtrip s false crc 0 Hs Hws Hc (or_introl eq_refl)) as RT.
    pose proof (encode_recs_crc_lt s crc Hc) as Hc1.
    destruct (encode_recs crc s) as [[s' bs] c1]. cbn [snd] in Hc1.
    specialize (IH c1 tailf Ht Hwt Hc1).
    destruct (closed_files c1 t) as [[fs rs] c2].
    change (zerosN 0) with (@nil byte) in RT. rewrite app_nil_r in RT.
    cbn [app decode_files].
    destruct (fs ++ [tailf]) as [|x l] eqn:El; [destruct fs; discriminate|].
    rewrite RT. rewrite IH.
    destruct (decode_whole true c2 tailf) as [[[rt st] off] c']. rewrite app_assoc. reflexivity.
Qed.

(* ------------------------------------------------------------------ interpretation of a prefix *)

Lemma interp_all_app si st a : forall s b,
  interp_all si st s (a ++ b) =
  match interp_all si st s a with SOk s' => interp_all si st s' b | SErr c => SErr c end.
Proof.
  induction a as [|r a IH]; intros s b; [reflexivity|].
  cbn [app interp_all]. destruct (interp_rec si st s r); [apply IH|reflexivity].
Qed.

Lemma interp_all_prefix_ok si st s rs s_end m :
  interp_all si st s rs = SOk s_end -> exists s_m, interp_all si st s (firstn m rs) = SOk s_m.
Proof.
  intros H. rewrite <- (firstn_skipn m rs) in H. rewrite interp_all_app in H.
  destruct (interp_all si st s (firstn m rs)) as [s_m|c]; [eexists; reflexivity|discriminate].
Qed.

(* ------------------------------------------------------------------ C16_torn_tail at the ReadAll level *)

Theorem torn_tail_readall segs rs_synced rs_unsynced (lost : N -> bool) kz s_full :
  Forall (Forall raw_ok) segs -> Forall (Forall crc_rec_wf) segs ->
  Forall raw_ok (rs_synced ++ rs_unsynced) -> Forall crc_rec_wf (rs_synced ++ rs_unsynced) ->
  (kz = 0 \/ 8 <= kz) ->
  let '(fs, rsC, c) := closed_files 0 segs in
  let '(rsT, bs, _) := encode_recs c (rs_synced ++ rs_unsynced) in
  let synced := blen (snd (fst (encode_recs c rs_synced))) in
  let f := bs ++ zerosN kz in
  let img := crash_image synced lost f in
  no_crc_coincidence synced f img 0 c rsT = true ->
  (* the log as written reads back without error *)
  interp_all 0 0 rs_init (rsC ++ rsT) = SOk s_full ->
  exists m s_m,
    (length rs_synced <= m <= length rsT)%nat
    /\ interp_all 0 0 rs_init (rsC ++ firstn m rsT) = SOk s_m
    /\ (read_all true 0 0 (fs ++ [img]) = result_w true s_m
        \/ read_all true 0 0 (fs ++ [img]) = RAErr CUnexpEOF)
    /\ read_all false 0 0 (fs ++ [img]) = result_w false s_m.
Proof.
  intros Hraw Hwf HrawT HwfT Hkz.
  pose proof (decode_files_closed segs 0) as DC.
  pose proof (closed_files_crc_lt segs 0 ltac:(unfold lim32; lia)) as Hc.
  destruct (closed_files 0 segs) as [[fs rsC] c]. cbn [snd] in Hc.
  pose proof (torn_tail rs_synced rs_unsynced c lost kz HrawT HwfT Hc Hkz) as T.
  destruct (encode_recs c (rs_synced ++ rs_unsynced)) as [[rsT bs] cend].
  cbv zeta in T |- *. intros Hnc Hfull.
  destruct (T Hnc) as (m & st & crc' & Hd & Hst & Hm). clear T.
  set (img := crash_image (blen (snd (fst (encode_recs c rs_synced)))) lost (bs ++ zerosN kz)) in *.
  specialize (DC img Hraw Hwf ltac:(unfold lim32; lia)). rewrite Hd in DC.
  assert (Hpre : exists s_m, interp_all 0 0 rs_init (rsC ++ firstn m rsT) = SOk s_m).
  { rewrite interp_all_app in Hfull |- *.
    destruct (interp_all 0 0 rs_init rsC) as [sC|e]; [|discriminate].
    eapply interp_all_prefix_ok. exact Hfull. }
  destruct Hpre as [s_m Hsm].
  exists m, s_m. split; [exact Hm|]. split; [exact Hsm|].
  unfold read_all. rewrite DC. unfold read_all_dec. rewrite Hsm.
  destruct Hst as [->| ->]; cbn [finish].
  - split; [left; reflexivity|reflexivity].
  - split; [right; reflexivity|reflexivity].
Qed.
