(* C16 — CRC-32C: one shift-xor round is invertible on 32-bit states (bit 31 of the reflected
   Castagnoli polynomial is set, so the bit shifted out is read back from bit 31 of the result).
   Hence crc_step is injective in the state for a fixed byte and injective in the byte for a
   fixed state; two equal-length strings differing in exactly one byte have different CRCs,
   and two different digests stay different over any identical continuation. *)
Require Import Base.Bytes Wal.Crc32c Wal.CrcTab.
Require Import Lia ZifyN ZifyNat ZifyBool.
Local Open Scope N_scope.

Definition lim32 : N := 0x100000000.

Lemma lim32_pow2 : lim32 = 2 ^ 32.
Proof. vm_compute. reflexivity. Qed.

(* ---------- bounds by bits ---------- *)

Lemma lt_pow2_bits a k : a < 2 ^ k <-> (forall n, k <= n -> N.testbit a n = false).
Proof.
  split.
  - intros Hlt n Hn.
    destruct (N.eq_dec a 0) as [E|NE].
    + subst a. apply N.bits_0.
    + apply N.bits_above_log2.
      assert (0 < a) as Hpos by lia.
      apply (N.log2_lt_pow2 a k Hpos) in Hlt. lia.
  - intros Hbits.
    destruct (N.eq_dec a 0) as [E|NE].
    + subst a. apply N.neq_0_lt_0. apply N.pow_nonzero. discriminate.
    + assert (0 < a) as Hpos by lia.
      apply (N.log2_lt_pow2 a k Hpos).
      destruct (N.lt_ge_cases (N.log2 a) k) as [Hl|Hg]; [exact Hl|].
      pose proof (N.bit_log2 a NE) as Ht.
      rewrite (Hbits _ Hg) in Ht. discriminate.
Qed.

Lemma lxor_lt_pow2 a b k : a < 2 ^ k -> b < 2 ^ k -> N.lxor a b < 2 ^ k.
Proof.
  intros Ha Hb. apply lt_pow2_bits. intros n Hn.
  rewrite N.lxor_spec.
  rewrite (proj1 (lt_pow2_bits a k) Ha n Hn).
  rewrite (proj1 (lt_pow2_bits b k) Hb n Hn).
  reflexivity.
Qed.

Lemma lxor_lt32 a b : a < lim32 -> b < lim32 -> N.lxor a b < lim32.
Proof. rewrite lim32_pow2. apply lxor_lt_pow2. Qed.

Lemma lxor_cancel_r a b p : N.lxor a p = N.lxor b p -> a = b.
Proof.
  intros H.
  assert (N.lxor (N.lxor a p) p = N.lxor (N.lxor b p) p) as E by (rewrite H; reflexivity).
  rewrite !N.lxor_assoc, N.lxor_nilpotent, !N.lxor_0_r in E. exact E.
Qed.

Lemma lxor_cancel_l a b p : N.lxor p a = N.lxor p b -> a = b.
Proof. rewrite (N.lxor_comm p a), (N.lxor_comm p b). apply lxor_cancel_r. Qed.

Lemma crc_poly_lt : crc_poly < lim32.
Proof. vm_compute. reflexivity. Qed.

Lemma crc_poly_bit31 : N.testbit crc_poly 31 = true.
Proof. vm_compute. reflexivity. Qed.

Lemma mask32_lt : mask32 < lim32.
Proof. vm_compute. reflexivity. Qed.

(* ---------- shifting right by one ---------- *)

Lemma shiftr1_decomp s : s = 2 * N.shiftr s 1 + N.b2n (N.odd s).
Proof. rewrite <- N.div2_spec. apply N.div2_odd. Qed.

Lemma shiftr1_lt31 s : s < lim32 -> N.shiftr s 1 < 2 ^ 31.
Proof.
  intros Hs. pose proof (shiftr1_decomp s) as D.
  assert (lim32 = 2 * 2 ^ 31) as E by (vm_compute; reflexivity).
  destruct (N.odd s); cbn [N.b2n] in D; lia.
Qed.

Lemma shiftr1_lt s : s < lim32 -> N.shiftr s 1 < lim32.
Proof.
  intros Hs. pose proof (shiftr1_lt31 s Hs) as H.
  assert (lim32 = 2 * 2 ^ 31) as E by (vm_compute; reflexivity).
  lia.
Qed.

Lemma shiftr1_bit31 s : s < lim32 -> N.testbit (N.shiftr s 1) 31 = false.
Proof.
  intros Hs. apply (proj1 (lt_pow2_bits _ 31) (shiftr1_lt31 s Hs)). apply N.le_refl.
Qed.

(* ---------- one round ---------- *)

Lemma crc_round_lt s : s < lim32 -> crc_round s < lim32.
Proof.
  intros Hs. unfold crc_round.
  destruct (N.odd s).
  - apply lxor_lt32; [apply shiftr1_lt; exact Hs | apply crc_poly_lt].
  - apply shiftr1_lt; exact Hs.
Qed.

(* the bit shifted out can be read back from bit 31 of the result *)
Lemma crc_round_bit31 s : s < lim32 -> N.testbit (crc_round s) 31 = N.odd s.
Proof.
  intros Hs. unfold crc_round.
  destruct (N.odd s).
  - rewrite N.lxor_spec, (shiftr1_bit31 s Hs), crc_poly_bit31. reflexivity.
  - apply shiftr1_bit31; exact Hs.
Qed.

Lemma crc_round_inj s t : s < lim32 -> t < lim32 -> crc_round s = crc_round t -> s = t.
Proof.
  intros Hs Ht E.
  assert (N.odd s = N.odd t) as Eo.
  { rewrite <- (crc_round_bit31 s Hs), <- (crc_round_bit31 t Ht), E. reflexivity. }
  assert (N.shiftr s 1 = N.shiftr t 1) as Es.
  { unfold crc_round in E. rewrite <- Eo in E.
    destruct (N.odd s); [apply (lxor_cancel_r _ _ crc_poly); exact E | exact E]. }
  rewrite (shiftr1_decomp s), (shiftr1_decomp t), Eo, Es. reflexivity.
Qed.

(* ---------- eight rounds ---------- *)

Lemma crc_round8_lt s : s < lim32 -> crc_round8 s < lim32.
Proof. intros Hs. unfold crc_round8. do 8 apply crc_round_lt. exact Hs. Qed.

Lemma crc_round8_inj s t : s < lim32 -> t < lim32 -> crc_round8 s = crc_round8 t -> s = t.
Proof.
  intros Hs Ht E. unfold crc_round8 in E.
  repeat (apply crc_round_inj in E; [ | repeat apply crc_round_lt; assumption
                                        | repeat apply crc_round_lt; assumption ]).
  exact E.
Qed.

(* ---------- one byte ---------- *)

Lemma bval_lt32 b : bval b < lim32.
Proof. pose proof (bval_lt b) as H. unfold lim32. lia. Qed.

Lemma crc_step_lt s b : s < lim32 -> crc_step s b < lim32.
Proof.
  intros Hs. unfold crc_step. apply crc_round8_lt. apply lxor_lt32; [exact Hs | apply bval_lt32].
Qed.

Theorem crc_step_injective_state :
  forall b s t, s < lim32 -> t < lim32 -> crc_step s b = crc_step t b -> s = t.
Proof.
  intros b s t Hs Ht E. unfold crc_step in E.
  apply crc_round8_inj in E;
    [ | apply lxor_lt32; [assumption | apply bval_lt32]
      | apply lxor_lt32; [assumption | apply bval_lt32] ].
  apply lxor_cancel_r in E. exact E.
Qed.

Theorem crc_step_injective_byte :
  forall s a b, s < lim32 -> crc_step s a = crc_step s b -> a = b.
Proof.
  intros s a b Hs E. unfold crc_step in E.
  apply crc_round8_inj in E;
    [ | apply lxor_lt32; [assumption | apply bval_lt32]
      | apply lxor_lt32; [assumption | apply bval_lt32] ].
  apply lxor_cancel_l in E. apply bval_inj. exact E.
Qed.

(* ---------- the inner loop ---------- *)

Lemma crc_raw_nil s : crc_raw s [] = s.
Proof. reflexivity. Qed.

Lemma crc_raw_cons s b p : crc_raw s (b :: p) = crc_raw (crc_step s b) p.
Proof. reflexivity. Qed.

Lemma crc_raw_lt s p : s < lim32 -> crc_raw s p < lim32.
Proof.
  revert s. induction p as [|b p IH]; intros s Hs.
  - rewrite crc_raw_nil. exact Hs.
  - rewrite crc_raw_cons. apply IH. apply crc_step_lt. exact Hs.
Qed.

Lemma crc_raw_app s p q : crc_raw s (p ++ q) = crc_raw (crc_raw s p) q.
Proof. unfold crc_raw. apply fold_left_app. Qed.

Theorem crc_raw_injective_state :
  forall p s t, s < lim32 -> t < lim32 -> crc_raw s p = crc_raw t p -> s = t.
Proof.
  induction p as [|b p IH]; intros s t Hs Ht E.
  - rewrite !crc_raw_nil in E. exact E.
  - rewrite !crc_raw_cons in E.
    apply IH in E; [ | apply crc_step_lt; assumption | apply crc_step_lt; assumption ].
    apply (crc_step_injective_state b); assumption.
Qed.

Theorem crc_raw_one_byte :
  forall s pre a b suf, s < lim32 -> a <> b ->
    crc_raw s (pre ++ a :: suf) <> crc_raw s (pre ++ b :: suf).
Proof.
  intros s pre a b suf Hs Hab E.
  rewrite !crc_raw_app, !crc_raw_cons in E.
  pose proof (crc_raw_lt s pre Hs) as Hp.
  apply crc_raw_injective_state in E;
    [ | apply crc_step_lt; exact Hp | apply crc_step_lt; exact Hp ].
  apply crc_step_injective_byte in E; [ | exact Hp ].
  apply Hab. exact E.
Qed.

(* ---------- the final/initial inversion ---------- *)

Lemma inv32_lt x : x < lim32 -> inv32 x < lim32.
Proof. intros Hx. unfold inv32. apply lxor_lt32; [exact Hx | apply mask32_lt]. Qed.

Lemma inv32_invol x : inv32 (inv32 x) = x.
Proof. unfold inv32. rewrite N.lxor_assoc, N.lxor_nilpotent, N.lxor_0_r. reflexivity. Qed.

Lemma inv32_inj x y : inv32 x = inv32 y -> x = y.
Proof. unfold inv32. apply lxor_cancel_r. Qed.

(* ---------- crc32.Update ---------- *)

Lemma crc_update_lt c p : c < lim32 -> crc_update c p < lim32.
Proof.
  intros Hc. unfold crc_update. apply inv32_lt. apply crc_raw_lt. apply inv32_lt. exact Hc.
Qed.

Lemma crc_update_nil c : crc_update c [] = c.
Proof. unfold crc_update. rewrite crc_raw_nil. apply inv32_invol. Qed.

Lemma crc_update_app c p q : crc_update c (p ++ q) = crc_update (crc_update c p) q.
Proof. unfold crc_update. rewrite inv32_invol, crc_raw_app. reflexivity. Qed.

Theorem crc_update_injective_state :
  forall p c d, c < lim32 -> d < lim32 -> crc_update c p = crc_update d p -> c = d.
Proof.
  intros p c d Hc Hd E. unfold crc_update in E.
  apply inv32_inj in E.
  apply crc_raw_injective_state in E; [ | apply inv32_lt; assumption | apply inv32_lt; assumption ].
  apply inv32_inj. exact E.
Qed.

Theorem crc_update_one_byte :
  forall c pre a b suf, c < lim32 -> a <> b ->
    crc_update c (pre ++ a :: suf) <> crc_update c (pre ++ b :: suf).
Proof.
  intros c pre a b suf Hc Hab E. unfold crc_update in E.
  apply inv32_inj in E.
  revert E. apply crc_raw_one_byte; [apply inv32_lt; exact Hc | exact Hab].
Qed.

(* the chained CRC: once two digests differ they stay different over any identical continuation *)
Theorem crc_update_diverge :
  forall c d p, c < lim32 -> d < lim32 -> c <> d -> crc_update c p <> crc_update d p.
Proof.
  intros c d p Hc Hd Hcd E. apply Hcd.
  apply (crc_update_injective_state p); assumption.
Qed.

(* ---------- the table-driven step (Go's simpleUpdate) ---------- *)

Lemma crc_tab_spec b : crc_tab b = crc_round8 (bval b).
Proof. destruct b; vm_compute; reflexivity. Qed.

(* decide equalities between xor-combinations of arbitrary atoms, bit by bit *)
Ltac xor_bits :=
  apply N.bits_inj; intros ?n; rewrite !N.lxor_spec;
  repeat match goal with |- context [N.testbit ?x ?n] => destruct (N.testbit x n) end;
  reflexivity.

Lemma crc_round_lxor a b : crc_round (N.lxor a b) = N.lxor (crc_round a) (crc_round b).
Proof.
  unfold crc_round.
  rewrite N.shiftr_lxor, <- !N.bit0_odd, N.lxor_spec.
  generalize (N.shiftr a 1) (N.shiftr b 1) crc_poly. intros sa sb p.
  destruct (N.testbit a 0), (N.testbit b 0); cbn [xorb]; xor_bits.
Qed.

Lemma crc_round8_lxor a b : crc_round8 (N.lxor a b) = N.lxor (crc_round8 a) (crc_round8 b).
Proof. unfold crc_round8. rewrite !crc_round_lxor. reflexivity. Qed.

Lemma crc_round_shiftl h k : 0 < k -> crc_round (N.shiftl h k) = N.shiftl h (k - 1).
Proof.
  intros Hk. unfold crc_round.
  rewrite <- N.bit0_odd, (N.shiftl_spec_low h k 0 Hk).
  apply N.shiftr_shiftl_l. lia.
Qed.

Lemma crc_round8_shiftl8 h : crc_round8 (N.shiftl h 8) = h.
Proof.
  unfold crc_round8.
  do 8 (rewrite crc_round_shiftl by lia).
  replace (8 - 1 - 1 - 1 - 1 - 1 - 1 - 1 - 1) with 0 by lia.
  apply N.shiftl_0_r.
Qed.

Lemma pow2_8 : 256 = 2 ^ 8.
Proof. vm_compute. reflexivity. Qed.

Lemma split_low8 s : s = N.lxor (s mod 256) (N.shiftl (N.shiftr s 8) 8).
Proof.
  rewrite pow2_8. apply N.bits_inj. intros n. rewrite N.lxor_spec.
  destruct (N.lt_ge_cases n 8) as [Hlo|Hhi].
  - rewrite (N.mod_pow2_bits_low s 8 n Hlo), (N.shiftl_spec_low _ 8 n Hlo).
    rewrite xorb_false_r. reflexivity.
  - rewrite (N.mod_pow2_bits_high s 8 n Hhi).
    rewrite (N.shiftl_spec_high _ 8 n (N.le_0_l n) Hhi).
    rewrite (N.shiftr_spec s 8 (n - 8) (N.le_0_l _)).
    replace (n - 8 + 8) with n by lia.
    rewrite xorb_false_l. reflexivity.
Qed.

Lemma lxor_mod256 s v : v < 256 -> (N.lxor s v) mod 256 = N.lxor (s mod 256) v.
Proof.
  rewrite pow2_8. intros Hv. apply N.bits_inj. intros n.
  destruct (N.lt_ge_cases n 8) as [Hlo|Hhi].
  - rewrite (N.mod_pow2_bits_low _ 8 n Hlo), !N.lxor_spec, (N.mod_pow2_bits_low s 8 n Hlo).
    reflexivity.
  - rewrite (N.mod_pow2_bits_high _ 8 n Hhi), N.lxor_spec, (N.mod_pow2_bits_high s 8 n Hhi).
    rewrite (proj1 (lt_pow2_bits v 8) Hv n Hhi). reflexivity.
Qed.

Lemma land255_mod x : N.land x 255 = x mod 256.
Proof. change 255 with (N.ones 8). rewrite N.land_ones. reflexivity. Qed.

Lemma bval_low8 x : bval (low8 x) = x mod 256.
Proof.
  unfold low8, bval. rewrite land255_mod.
  destruct (Byte.of_N (x mod 256)) as [b|] eqn:E.
  - apply Byte.to_of_N. exact E.
  - apply Byte.of_N_None_iff in E.
    assert (x mod 256 < 256) as Hm by (apply N.mod_lt; discriminate).
    lia.
Qed.

(* tab[byte(crc)^v] ^ (crc>>8)  =  round^8 (crc xor v); the bound is not needed *)
Lemma crc_step_tab_eq_gen s b : crc_step_tab s b = crc_step s b.
Proof.
  unfold crc_step_tab, crc_step.
  rewrite crc_tab_spec, bval_low8, (lxor_mod256 s (bval b) (bval_lt b)).
  assert (N.lxor s (bval b)
          = N.lxor (N.lxor (s mod 256) (bval b)) (N.shiftl (N.shiftr s 8) 8)) as E.
  { rewrite (split_low8 s) at 1.
    generalize (s mod 256) (N.shiftl (N.shiftr s 8) 8) (bval b). intros lo hi v. xor_bits. }
  rewrite E.
  rewrite (crc_round8_lxor (N.lxor (s mod 256) (bval b)) (N.shiftl (N.shiftr s 8) 8)).
  rewrite crc_round8_shiftl8. reflexivity.
Qed.

Theorem crc_step_tab_eq : forall s b, s < lim32 -> crc_step_tab s b = crc_step s b.
Proof. intros s b _. apply crc_step_tab_eq_gen. Qed.

Lemma crc_raw_tab_eq s p : crc_raw_tab s p = crc_raw s p.
Proof.
  revert s. induction p as [|b p IH]; intros s.
  - reflexivity.
  - unfold crc_raw_tab, crc_raw. cbn [fold_left].
    rewrite crc_step_tab_eq_gen. apply IH.
Qed.

Theorem crc_update_tab_eq c p : crc_update_tab c p = crc_update c p.
Proof. unfold crc_update_tab, crc_update. rewrite crc_raw_tab_eq. reflexivity. Qed.

Print Assumptions crc_update_one_byte.
Print Assumptions crc_update_diverge.
Print Assumptions crc_step_tab_eq.
Print Assumptions crc_update_tab_eq.

Lemma digest_write_eq d p : digest_write d p = crc_update d p.
Proof. unfold digest_write. apply crc_update_tab_eq. Qed.
