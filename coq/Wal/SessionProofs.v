(* C16 — sessions: segment names across Close / Open(snapshot) / ReadAll.  cut names the new
   segment <seq+1>-<enti+1>; ReadAll sets enti to the index of the last entry record it decodes
   whatever the start snapshot; searchIndex selects the last segment whose name index is <= the
   snapshot index. *)
Require Import Base.Bytes Wal.Crc32c Wal.CrcTab Wal.Pb Wal.WalModel Wal.WalSpec.
Require Import Wal.FrameProofs Wal.CrcProofs Wal.PbProofs Wal.WalProofs Wal.RoundtripProofs.
Require Import Lia ZifyN ZifyNat ZifyBool.
Local Open Scope N_scope.

(* the name cut gives to the new tail, and to the segment it closes *)
Theorem cut_names w :
  w_seq (w_cut w) = w_seq w + 1 /\ w_idx (w_cut w) = w_enti w + 1
  /\ map fst (w_closed (w_cut w)) = map fst (w_closed w) ++ [(w_seq w, w_idx w)].
Proof.
  unfold w_cut.
  set (w0 := mkws (w_closed w ++ [(w_seq w, w_idx w, w_cur w)]) (w_seq w + 1) (w_enti w + 1)
                  [] (w_crc w) (w_enti w) (w_hs w) (w_meta w)).
  assert (E : forall x r, w_seq (w_encode x r) = w_seq x /\ w_idx (w_encode x r) = w_idx x
                          /\ w_closed (w_encode x r) = w_closed x).
  { intros x r. unfold w_encode. destruct (encode_rec (w_crc x) r) as [[a b] c]. repeat split. }
  assert (S : forall x h, w_seq (w_save_state x h) = w_seq x /\ w_idx (w_save_state x h) = w_idx x
                          /\ w_closed (w_save_state x h) = w_closed x).
  { intros x h. unfold w_save_state. destruct (hs_empty h); [repeat split|].
    cbn [w_seq w_idx w_closed]. apply E. }
  destruct (S (w_encode (w_encode w0 (mkrec crcType 0 None)) (mkrec metadataType 0 (w_meta w))) (w_hs w)) as (S1 & S2 & S3).
  destruct (E (w_encode w0 (mkrec crcType 0 None)) (mkrec metadataType 0 (w_meta w))) as (A1 & A2 & A3).
  destruct (E w0 (mkrec crcType 0 None)) as (B1 & B2 & B3).
  rewrite S1, S2, S3, A1, A2, A3, B1, B2, B3. unfold w0. cbn [w_seq w_idx w_closed].
  repeat split. rewrite map_app. reflexivity.
Qed.

(* enti after ReadAll: the index of the LAST entry record decoded — entries at or below the start
   snapshot count too (they are skipped for the returned slice only) *)
Lemma enti_of_records_app a : forall b acc, enti_of_records (a ++ b) acc = enti_of_records b (enti_of_records a acc).
Proof. induction a as [|r a IH]; intros b acc; [reflexivity|]. cbn [app enti_of_records]. apply IH. Qed.

Lemma enti_of_records_entry e acc : entry_ok e -> enti_of_records [entry_rec e] acc = e_index e.
Proof.
  intros He. cbn [enti_of_records entry_rec r_type data_of r_data].
  change (entryType =? entryType) with true. cbn iota.
  rewrite entry_unmarshal_marshal by exact He. reflexivity.
Qed.

Lemma enti_of_records_other r acc : r_type r <> entryType -> enti_of_records [r] acc = acc.
Proof. intros H. cbn [enti_of_records]. apply N.eqb_neq in H. rewrite H. reflexivity. Qed.

Theorem reopen_enti segsize w si st w' :
  w_reopen segsize w si st = Some w' ->
  exists sel rs off c,
    select_files (w_files segsize w) si = Some sel /\ decode_files sel 0 = (rs, FEnd, off, c)
    /\ w_enti w' = enti_of_records rs 0
    /\ w_seq w' = w_seq w /\ w_idx w' = w_idx w /\ w_closed w' = w_closed w /\ w_cur w' = w_cur w
    /\ w_crc w' = w_crc w.
Proof.
  unfold w_reopen. intros H.
  destruct (select_files (w_files segsize w) si) as [sel|]; [|discriminate].
  destruct (decode_files sel 0) as [[[rs fs] off] c] eqn:Ed.
  destruct fs; try discriminate.
  destruct (interp_all si st rs_init rs); [|discriminate].
  inversion H; subst. exists sel, rs, off, c. cbn [w_enti w_seq w_idx w_closed w_cur w_crc].
  split; [reflexivity|]. split; [exact Ed|]. repeat split; reflexivity.
Qed.

(* searchIndex: the LAST position whose name index is <= the snapshot index *)
Lemma search_index_spec names : forall index pos best k,
  search_index names index pos best = Some k ->
  (best = Some k /\ forall j idx sq, nth_error names j = Some (sq, idx) -> index < idx)
  \/ (exists j sq idx, k = (pos + j)%nat /\ nth_error names j = Some (sq, idx) /\ idx <= index
        /\ forall j' sq' idx', (j < j')%nat -> nth_error names j' = Some (sq', idx') -> index < idx').
Proof.
  induction names as [|[sq idx] names IH]; intros index pos best k H.
  - cbn in H. left. split; [exact H|]. intros j i s Hn. destruct j; discriminate.
  - cbn [search_index] in H.
    destruct (IH index (S pos) (if idx <=? index then Some pos else best) k H) as [[Hb Hall]|(j & s & i & -> & Hn & Hle & Hafter)].
    + destruct (idx <=? index) eqn:E.
      * right. inversion Hb; subst. exists 0%nat, sq, idx.
        split; [lia|]. split; [reflexivity|]. split; [lia|].
        intros j' s' i' Hj Hn. destruct j'; [lia|]. exact (Hall j' i' s' Hn).
      * left. split; [exact Hb|]. intros j i s Hn. destruct j.
        -- cbn in Hn. inversion Hn; subst. lia.
        -- exact (Hall j i s Hn).
    + right. exists (S j), s, i. split; [lia|]. split; [exact Hn|]. split; [exact Hle|].
      intros j' s' i' Hj Hn'. destruct j'; [lia|]. apply (Hafter j' s' i'); [lia|exact Hn'].
Qed.

(* the seeded history, on the model: five entries, snapshot 5 pushing the tail past 512 bytes,
   Close; Open(snapshot 5); a Save with only a hard state cuts: the new segment is 1-6, and a
   later read from snapshot 5 or from 0 still finds everything *)
Definition sess_e (i : N) : entry := mkentry 0 1 i (Some (repeat x41 60)).
Definition sess_ops : list sop :=
  [SOp (OpSave (mkhs 1 1 1) [sess_e 1]); SOp (OpSave (mkhs 1 1 2) [sess_e 2]);
   SOp (OpSave (mkhs 1 1 3) [sess_e 3]); SOp (OpSave (mkhs 1 1 4) [sess_e 4]);
   SOp (OpSave (mkhs 1 1 5) [sess_e 5]); SOp (OpSnap (mkwalsnap 5 1 (Some [])));
   SReopen 5 1; SOp (OpSave (mkhs 2 2 5) []); SOp OpCut;
   SOp (OpSave (mkhs 2 2 6) [mkentry 0 2 6 (Some [x42])])].
Example session_naming_ex :
  let w := fst (s_run_d 512 None sess_ops) in
  let files := w_files 512 w in
  (512 <=? blen (snd (hd (0, 0, []) files))) = true
  /\ map fst files = [(0, 0); (1, 6)]
  /\ (match select_files files 5 with Some sel => read_all true 5 1 sel | None => RAErr CBadType end)
     = RAOk None (mkhs 2 2 6) [mkentry 0 2 6 (Some [x42])] true
  /\ (match select_files files 0 with
      | Some sel => match read_all true 0 0 sel with RAOk _ _ ents _ => length ents | RAErr _ => 0%nat end
      | None => 0%nat end) = 6%nat.
Proof. vm_compute. repeat split; reflexivity. Qed.
