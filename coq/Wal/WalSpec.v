(* C16 — specification side of the WAL writer: what a sequence of saves means (the entry log and
   hard state ReadAll must return), which operations the writer makes durable before returning
   (raft.MustSync), the durable state a process kill leaves behind, and the predicates the
   check evaluates on process-kill images.  Definitions only. *)
Require Import Base.Bytes Wal.Crc32c Wal.CrcTab Wal.Pb Wal.WalModel.
Local Open Scope N_scope.

(* ------------------------------------------------------------------ what the saves mean *)

(* ReadAll's rule for an entry read after the start snapshot (index 0 here): the log is cut at
   the entry's index and the entry appended; ErrSliceOutOfRange if that leaves a gap *)
Definition log_put (log : list entry) (e : entry) : option (list entry) :=
  if 0 <? e_index e then
    let up := e_index e - 0 - 1 in
    if N.of_nat (length log) <? up then None else Some (firstn (N.to_nat up) log ++ [e])
  else Some log.

Fixpoint log_puts (log : list entry) (ents : list entry) : option (list entry) :=
  match ents with
  | [] => Some log
  | e :: r => match log_put log e with Some l => log_puts l r | None => None end
  end.

Definition spec_op (st : list entry * hardstate) (o : wop) : option (list entry * hardstate) :=
  let '(log, hs) := st in
  match o with
  | OpSave h ents =>
    match log_puts log ents with
    | Some l => Some (l, if hs_empty h then hs else h)
    | None => None
    end
  | OpSnap _ => Some st
  | OpCut => Some st
  end.

Fixpoint spec_ops (st : list entry * hardstate) (ops : list wop) : option (list entry * hardstate) :=
  match ops with
  | [] => Some st
  | o :: r => match spec_op st o with Some st' => spec_ops st' r | None => None end
  end.

Definition spec_run (ops : list wop) : option (list entry * hardstate) := spec_ops ([], mkhs 0 0 0) ops.


(* ------------------------------------------------------------------ the sync decision *)

(* raft.MustSync(st, prevst, entsnum): entries, or a changed vote, or a changed term, must be on
   stable storage before Save returns; a hard state that differs only in Commit need not be *)
Definition must_sync (st prev : hardstate) (nents : nat) : bool :=
  negb (Nat.eqb nents 0) || negb (hs_vote st =? hs_vote prev) || negb (hs_term st =? hs_term prev).

(* does the operation end with w.sync()?  Save: mustSync computed against w.state BEFORE the
   save; SaveSnapshot and cut always sync; the empty Save returns early *)
Definition op_syncs (w : wstate) (o : wop) : bool :=
  match o with
  | OpSave h ents =>
    if hs_empty h && match ents with [] => true | _ => false end then false
    else must_sync h (w_hs w) (length ents)
  | OpSnap _ => true
  | OpCut => true
  end.

(* (current state, durable state): the durable state is the writer state at the last sync;
   everything appended after it sits in the encoder's page buffer and is lost by a process kill *)
Definition w_step_d (p : wstate * wstate) (o : wop) : wstate * wstate :=
  let '(w, d) := p in
  let w' := w_op w o in
  (w', if op_syncs w o then w' else d).

Definition w_run_d (meta : option bytes) (ops : list wop) : wstate * wstate :=
  fold_left w_step_d ops (w_create meta, w_create meta).

(* ------------------------------------------------------------------ sessions: Close, then Open(snapshot) + ReadAll for append *)

(* ReadAll sets w.enti to the index of every entry record it decodes (also of entries at or
   below the start snapshot, which it does not return) *)
Fixpoint enti_of_records (rs : list wrec) (acc : N) : N :=
  match rs with
  | [] => acc
  | r :: t =>
    enti_of_records t
      (if r_type r =? entryType then
         match entry_unmarshal (data_of r) with POk e => e_index e | PErr _ => acc end
       else acc)
  end.

Fixpoint last_meta (rs : list wrec) (acc : option bytes) : option bytes :=
  match rs with
  | [] => acc
  | r :: t => last_meta t (if r_type r =? metadataType then r_data r else acc)
  end.

(* the writer after Close; Open(snap{si,st}); ReadAll: same files, same digest, the tail ready for
   append at the end of its data; enti from the records of the SELECTED segments; w.state is NOT
   restored by ReadAll (it stays the zero value until the next saveState); None when the open or
   the read fails *)
Definition w_reopen (segsize : N) (w : wstate) (si st : N) : option wstate :=
  match select_files (w_files segsize w) si with
  | None => None
  | Some sel =>
    match decode_files sel 0 with
    | (rs, FEnd, _, _) =>
      match interp_all si st rs_init rs with
      | SOk _ =>
        Some (mkws (w_closed w) (w_seq w) (w_idx w) (w_cur w) (w_crc w)
                   (enti_of_records rs 0) (mkhs 0 0 0) (last_meta rs None))
      | SErr _ => None
      end
    | _ => None
    end
  end.

Inductive sop := SOp (o : wop) | SReopen (si st : N).

Definition s_step (segsize : N) (p : wstate * wstate) (o : sop) : wstate * wstate :=
  match o with
  | SOp o' => w_step_d p o'
  | SReopen si st =>
    match w_reopen segsize (fst p) si st with
    | Some w' => (w', w')
    | None => p
    end
  end.

(* (current, durable) after a multi-session history *)
Definition s_run_d (segsize : N) (meta : option bytes) (ops : list sop) : wstate * wstate :=
  fold_left (s_step segsize) ops (w_create meta, w_create meta).

Fixpoint sops_wops (ops : list sop) : list wop :=
  match ops with
  | [] => []
  | SOp o :: t => o :: sops_wops t
  | SReopen _ _ :: t => sops_wops t
  end.

(* a read that starts from a recorded snapshot (index si): err = nil and exactly the entries of
   the specification above si — every segment that still holds such an entry must have been
   selected, which is what the segment names (<seq>-<first index>) are for *)
Definition spec_read_at_ok (ops : list wop) (si : N) (r : rares) : bool :=
  match spec_run ops with
  | None => true
  | Some (log, _) =>
    match r with
    | RAOk _ _ ents _ =>
      ents_eqb ents (if N.of_nat (length log) <=? si then [] else skipn (N.to_nat si) log)
    | RAErr _ => false
    end
  end.

(* ------------------------------------------------------------------ predicates on a process-kill image *)

(* what ReadAll returned on the image is what the completed saves define: exactly their entry
   log, and a hard state with the Term and Vote of the last completed save (Commit may lag: a
   commit-only update is deliberately not synced, raft.MustSync) *)
Definition completed_ok (ops : list wop) (r : rares) : bool :=
  match spec_run ops with
  | None => true                       (* the script itself leaves a gap: nothing to demand *)
  | Some (log, hs) =>
    match r with
    | RAOk _ hs' ents _ =>
      ents_eqb ents log && (hs_term hs' =? hs_term hs) && (hs_vote hs' =? hs_vote hs)
    | RAErr _ => false
    end
  end.

(* a read of a fully synced directory (after Close, or at a sync point) against the specification
   of the script: metadata, exactly the entry log, exactly the last non-empty hard state *)
Definition spec_read_ok (meta : option bytes) (ops : list wop) (r : rares) : bool :=
  match spec_run ops with
  | None => true
  | Some (log, hs) =>
    match r with
    | RAOk m h ents _ => bytes_eqb (opt_bytes m) (opt_bytes meta) && hs_eqb h hs && ents_eqb ents log
    | RAErr _ => false
    end
  end.

(* two lives: r1 = what the first reopen (write mode, after Repair if needed) returned; ops2 = the
   saves appended afterwards, all completed and closed; r2 = the read after the second reopen.
   r2 must be exactly r1's log and hard state continued by ops2. *)
Definition second_life_ok (r1 : rares) (ops2 : list wop) (r2 : rares) : bool :=
  match r1 with
  | RAErr _ => true
  | RAOk m hs ents _ =>
    match spec_ops (ents, hs) ops2 with
    | None => true
    | Some (log, hs') =>
      match r2 with
      | RAOk m2 h2 e2 _ => bytes_eqb (opt_bytes m2) (opt_bytes m) && hs_eqb h2 hs' && ents_eqb e2 log
      | RAErr _ => false
      end
    end
  end.

Fixpoint bprefix (p l : bytes) : bool :=
  match p, l with
  | [], _ => true
  | _ :: _, [] => false
  | x :: p', y :: l' => beqb x y && bprefix p' l'
  end.

(* the image contains the model's durable state: same closed segments, and the durable part of
   the tail segment is a prefix of the tail file *)
Fixpoint kill_prefix_files (closed : list (N * N * bytes)) (tail : N * N * bytes)
         (img : list (N * N * bytes)) : bool :=
  match closed, img with
  | [], [(sq, ix, b)] =>
    let '(tsq, tix, tb) := tail in (sq =? tsq) && (ix =? tix) && bprefix tb b
  | (csq, cix, cb) :: cr, (sq, ix, b) :: ir =>
    (sq =? csq) && (ix =? cix) && bytes_eqb cb b && kill_prefix_files cr tail ir
  | _, _ => false
  end.

Definition kill_prefix_ok (d : wstate) (img : list (N * N * bytes)) : bool :=
  kill_prefix_files (w_closed d) (w_seq d, w_idx d, w_cur d) img.
