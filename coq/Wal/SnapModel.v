(* C16 — executable model of etcd's snapshot files (server/etcdserver/api/snap/snapshotter.go):
   save (snappb wrapper = crc + marshalled raftpb.Snapshot), Read, loadSnap (rename to
   .broken), snapNames (suffix filter, newest first), Load (first that reads back).
   The snapshot directory is a list of (file name, file contents).
   Model file: definitions only. *)
Require Import Base.Bytes Wal.Crc32c Wal.CrcTab Wal.Pb.
Local Open Scope N_scope.

(* raftpb.SnapshotMetadata { conf_state = 1 (message); index = 2; term = 3 } and
   raftpb.Snapshot { data = 1 (bytes); metadata = 2 (message) }: only whether the inner
   bytes parse matters to Read *)
Definition snapmeta_schema (f : N) : option fkind :=
  if f =? 1 then Some KMsg else if f =? 2 then Some KVarint
  else if f =? 3 then Some KVarint else None.
Definition snapmeta_check (b : bytes) : pres unit :=
  match pb_unmarshal confstate_check snapmeta_schema b with
  | PErr e => PErr e
  | POk _ => POk tt
  end.
Definition raftsnap_schema (f : N) : option fkind :=
  if f =? 1 then Some KBytes else if f =? 2 then Some KMsg else None.
Definition raftsnap_check (b : bytes) : pres unit :=
  match pb_unmarshal snapmeta_check raftsnap_schema b with
  | PErr e => PErr e
  | POk _ => POk tt
  end.

(* Snapshotter.save: b = Marshal(snapshot); crc = crc32.Update(0, castagnoli, b);
   file = Marshal(snappb.Snapshot{Crc: crc, Data: b}) *)
Definition snap_file_of (b : bytes) : bytes :=
  snapfile_marshal (mksnapfile (crc_update_tab 0 b) (Some b)).

Inductive snaperr :=
| SnEmpty        (* ErrEmptySnapshot: empty file, empty data or zero crc *)
| SnUnmarshal    (* snappb.Snapshot does not parse *)
| SnCrc          (* ErrCRCMismatch *)
| SnInner.       (* the checksummed bytes do not parse as raftpb.Snapshot *)

Inductive sres := SnOk (data : bytes) | SnErr (e : snaperr).

(* snap.Read *)
Definition snap_read (b : bytes) : sres :=
  match b with
  | [] => SnErr SnEmpty
  | _ :: _ =>
    match snapfile_unmarshal b with
    | PErr _ => SnErr SnUnmarshal
    | POk sf =>
      let d := match sf_data sf with Some d => d | None => [] end in
      if (blen d =? 0) || (sf_crc sf =? 0) then SnErr SnEmpty
      else if negb (crc_update_tab 0 d =? sf_crc sf) then SnErr SnCrc
      else match raftsnap_check d with
           | PErr _ => SnErr SnInner
           | POk _ => SnOk d
           end
    end
  end.

(* Go string comparison: bytewise lexicographic *)
Fixpoint bytes_ltb (a b : bytes) : bool :=
  match a, b with
  | [], [] => false
  | [], _ :: _ => true
  | _ :: _, [] => false
  | x :: a', y :: b' =>
    if bval x <? bval y then true
    else if bval y <? bval x then false
    else bytes_ltb a' b'
  end.

Fixpoint is_prefix (p l : bytes) : bool :=
  match p, l with
  | [], _ => true
  | _ :: _, [] => false
  | x :: p', y :: l' => beqb x y && is_prefix p' l'
  end.
Definition has_suffix (suf l : bytes) : bool := is_prefix (rev suf) (rev l).

Definition snap_suffix : bytes := [x2e; x73; x6e; x61; x70].            (* ".snap" *)
Definition dbtmp_prefix : bytes := [x64; x62; x2e; x74; x6d; x70].       (* "db.tmp" *)

(* descending insertion sort = sort.Sort(sort.Reverse(sort.StringSlice(..))) on distinct names *)
Fixpoint insert_desc (n : bytes) (l : list bytes) : list bytes :=
  match l with
  | [] => [n]
  | m :: r => if bytes_ltb n m then m :: insert_desc n r else n :: l
  end.
Definition sort_desc (l : list bytes) : list bytes := fold_right insert_desc [] l.

(* snapNames: cleanupSnapdir drops db.tmp*, checkSuffix keeps *.snap, newest first *)
Definition snap_names (dir : list (bytes * bytes)) : list bytes :=
  sort_desc (filter (fun n => negb (is_prefix dbtmp_prefix n) && has_suffix snap_suffix n)
                    (map fst dir)).

Fixpoint lookup (n : bytes) (dir : list (bytes * bytes)) : option bytes :=
  match dir with
  | [] => None
  | (m, c) :: r => if bytes_eqb m n then Some c else lookup n r
  end.

(* loadMatching with the always-true matcher: the first name, newest first, whose file reads
   back; every file tried before it is renamed to <name>.broken.
   Result: (loaded name and its snapshot bytes, names renamed to .broken in order) *)
Fixpoint load_loop (names : list bytes) (dir : list (bytes * bytes)) (broken : list bytes)
  : option (bytes * bytes) * list bytes :=
  match names with
  | [] => (None, rev broken)                        (* ErrNoSnapshot *)
  | n :: rest =>
    match lookup n dir with
    | None => load_loop rest dir broken
    | Some c =>
      match snap_read c with
      | SnOk d => (Some (n, d), rev broken)
      | SnErr _ => load_loop rest dir (n :: broken)
      end
    end
  end.

Definition snap_load (dir : list (bytes * bytes)) : option (bytes * bytes) * list bytes :=
  load_loop (snap_names dir) dir [].
