(* C16_roundtrip — any sequence of Save / SaveSnapshot / segment cuts, with arbitrary payloads,
   written by the WAL writer model (Create, Save, SaveSnapshot, cut) reads back through
   Open+ReadAll exactly: the metadata, the last non-empty hard state and the entry log that the
   saves define (each entry truncates the log at its index and is appended). *)
Require Import Base.Bytes Wal.Crc32c Wal.CrcTab Wal.Pb Wal.WalModel Wal.WalSpec.
Require Import Wal.FrameProofs Wal.CrcProofs Wal.PbProofs Wal.WalProofs Wal.TornProofs Wal.RepairProofs Wal.ReadAllProofs.
Require Import Lia ZifyN ZifyNat ZifyBool.
Local Open Scope N_scope.

(* ------------------------------------------------------------------ the records the writer emits *)

Definition crc_rec : wrec := mkrec crcType 0 None.
Definition meta_rec (meta : option bytes) : wrec := mkrec metadataType 0 meta.
Definition entry_rec (e : entry) : wrec := mkrec entryType 0 (Some (entry_marshal e)).
Definition state_rec (h : hardstate) : wrec := mkrec stateType 0 (Some (hs_marshal h)).
Definition snap_rec (s : walsnap) : wrec := mkrec snapshotType 0 (Some (walsnap_marshal s)).

Definition state_recs (h : hardstate) : list wrec := if hs_empty h then [] else [state_rec h].

Definition trace := (list (list wrec) * list wrec * hardstate)%type.

Definition tr_init (meta : option bytes) : trace :=
  ([], [crc_rec; meta_rec meta; snap_rec (mkwalsnap 0 0 None)], mkhs 0 0 0).

Definition tr_op (meta : option bytes) (t : trace) (o : wop) : trace :=
  let '(segs, tail, hs) := t in
  match o with
  | OpSave h ents =>
    if hs_empty h && match ents with [] => true | _ => false end then t
    else (segs, tail ++ map entry_rec ents ++ state_recs h, if hs_empty h then hs else h)
  | OpSnap s => (segs, tail ++ [snap_rec s], hs)
  | OpCut => (segs ++ [tail], [crc_rec; meta_rec meta] ++ state_recs hs, hs)
  end.

Definition tr_run (meta : option bytes) (ops : list wop) : trace := fold_left (tr_op meta) ops (tr_init meta).

(* ------------------------------------------------------------------ the writer state follows the trace *)

Definition wfits (meta : option bytes) (w : wstate) (t : trace) : Prop :=
  let '(segs, tail, hs) := t in
  let '(fs, _, c) := closed_files 0 segs in
  let '(_, bs, c') := encode_recs c tail in
  map file_bytes (w_closed w) = fs /\ w_cur w = bs /\ w_crc w = c' /\ w_meta w = meta /\ w_hs w = hs.

Lemma wfits_encode meta w segs tail hs r :
  wfits meta w (segs, tail, hs) -> wfits meta (w_encode w r) (segs, tail ++ [r], hs).
Proof.
  unfold wfits. destruct (closed_files 0 segs) as [[fs rsC] c].
  rewrite encode_recs_app.
  destruct (encode_recs c tail) as [[rsT bs] c'].
  intros (H1 & H2 & H3 & H4 & H5).
  cbn [encode_recs]. rewrite encode_rec_eq.
  unfold w_encode. rewrite encode_rec_eq. cbn [w_closed w_cur w_crc w_meta w_hs].
  rewrite H3. repeat split; try assumption. rewrite H2, app_nil_r. reflexivity.
Qed.

Lemma wfits_encode_list meta rs : forall w segs tail hs,
  wfits meta w (segs, tail, hs) -> wfits meta (fold_left w_encode rs w) (segs, tail ++ rs, hs).
Proof.
  induction rs as [|r rs IH]; intros w segs tail hs H.
  - cbn [fold_left]. rewrite app_nil_r. exact H.
  - cbn [fold_left]. replace (tail ++ r :: rs) with ((tail ++ [r]) ++ rs) by (rewrite <- app_assoc; reflexivity).
    apply IH. apply wfits_encode. exact H.
Qed.

(* only the fields wfits looks at *)
Definition wsame (a b : wstate) : Prop :=
  w_closed a = w_closed b /\ w_cur a = w_cur b /\ w_crc a = w_crc b /\ w_meta a = w_meta b /\ w_hs a = w_hs b.

Lemma wfits_same meta a b t : wsame a b -> wfits meta a t -> wfits meta b t.
Proof.
  intros (E1 & E2 & E3 & E4 & E5). unfold wfits. destruct t as [[segs tail] hs].
  destruct (closed_files 0 segs) as [[fs rsC] c]. destruct (encode_recs c tail) as [[rsT bs] c'].
  rewrite E1, E2, E3, E4, E5. exact (fun H => H).
Qed.

Lemma wsame_save_entry w e : wsame (w_encode w (entry_rec e)) (w_save_entry w e).
Proof.
  unfold w_save_entry, entry_rec.
  generalize (w_encode w (mkrec entryType 0 (Some (entry_marshal e)))). intros [a b c d f g h i].
  repeat split; reflexivity.
Qed.

Lemma wsame_save_snap w s : wsame (w_encode w (snap_rec s)) (w_save_snap w s).
Proof.
  unfold w_save_snap, snap_rec.
  generalize (w_encode w (mkrec snapshotType 0 (Some (walsnap_marshal s)))). intros [a b c d f g h i].
  repeat split; reflexivity.
Qed.

Lemma wfits_hs meta w segs tail hs h :
  wfits meta w (segs, tail, hs) ->
  wfits meta (mkws (w_closed w) (w_seq w) (w_idx w) (w_cur w) (w_crc w) (w_enti w) h (w_meta w)) (segs, tail, h).
Proof.
  unfold wfits. destruct (closed_files 0 segs) as [[fs rsC] c]. destruct (encode_recs c tail) as [[rsT bs] c'].
  cbn [w_closed w_cur w_crc w_meta w_hs]. intros (H1 & H2 & H3 & H4 & _). repeat split; assumption.
Qed.

Lemma wfits_save_entries meta ents : forall w segs tail hs,
  wfits meta w (segs, tail, hs) ->
  wfits meta (fold_left w_save_entry ents w) (segs, tail ++ map entry_rec ents, hs).
Proof.
  induction ents as [|e ents IH]; intros w segs tail hs H.
  - cbn [fold_left map]. rewrite app_nil_r. exact H.
  - cbn [fold_left map].
    replace (tail ++ entry_rec e :: map entry_rec ents) with ((tail ++ [entry_rec e]) ++ map entry_rec ents)
      by (rewrite <- app_assoc; reflexivity).
    apply IH.
    apply (wfits_same meta (w_encode w (entry_rec e))).
    + apply wsame_save_entry.
    + apply wfits_encode. exact H.
Qed.

Lemma wfits_save_state meta w segs tail hs h :
  wfits meta w (segs, tail, hs) ->
  wfits meta (w_save_state w h) (segs, tail ++ state_recs h, if hs_empty h then hs else h).
Proof.
  intros H. unfold w_save_state, state_recs. destruct (hs_empty h).
  - rewrite app_nil_r. exact H.
  - apply (wfits_hs meta (w_encode w (state_rec h)) segs (tail ++ [state_rec h]) hs h).
    apply wfits_encode. exact H.
Qed.

Lemma closed_files_app a : forall crc b,
  closed_files crc (a ++ b) =
  let '(fa, ra, c1) := closed_files crc a in
  let '(fb, rb, c2) := closed_files c1 b in
  (fa ++ fb, ra ++ rb, c2).
Proof.
  induction a as [|s a IH]; intros crc b.
  - cbn [app closed_files]. destruct (closed_files crc b) as [[fb rb] c2]. reflexivity.
  - cbn [app closed_files]. destruct (encode_recs crc s) as [[s' bs] c1].
    rewrite IH. destruct (closed_files c1 a) as [[fa ra] c2]. destruct (closed_files c2 b) as [[fb rb] c3].
    cbn [app]. rewrite <- app_assoc. reflexivity.
Qed.

Lemma wfits_cut meta w segs tail hs :
  wfits meta w (segs, tail, hs) -> wfits meta (w_cut w) (tr_op meta (segs, tail, hs) OpCut).
Proof.
  intros H. unfold w_cut. cbn [tr_op].
  assert (Hm : w_meta w = meta /\ w_hs w = hs).
  { unfold wfits in H. destruct (closed_files 0 segs) as [[fs rsC] c].
    destruct (encode_recs c tail) as [[rsT bs] c']. tauto. }
  destruct Hm as [Hm Hh].
  set (w0 := mkws (w_closed w ++ [(w_seq w, w_idx w, w_cur w)]) (w_seq w + 1) (w_enti w + 1)
                  [] (w_crc w) (w_enti w) (w_hs w) (w_meta w)).
  assert (H0 : wfits meta w0 (segs ++ [tail], [], hs)).
  { unfold wfits in *. rewrite closed_files_app.
    destruct (closed_files 0 segs) as [[fs rsC] c]. cbn [closed_files].
    destruct (encode_recs c tail) as [[rsT bs] c']. cbn [encode_recs].
    destruct H as (H1 & H2 & H3 & H4 & H5).
    unfold w0. cbn [w_closed w_cur w_crc w_meta w_hs].
    rewrite map_app, H1. cbn [map file_bytes snd]. rewrite H2.
    repeat split; assumption. }
  pose proof (wfits_encode meta w0 _ _ _ crc_rec H0) as H1.
  pose proof (wfits_encode meta _ _ _ _ (meta_rec (w_meta w)) H1) as H2.
  pose proof (wfits_save_state meta _ _ _ _ (w_hs w) H2) as H3.
  cbn [app] in H3 |- *. rewrite Hm, Hh in *.
  destruct (hs_empty hs); exact H3.
Qed.

Lemma wfits_create meta : wfits meta (w_create meta) (tr_init meta).
Proof.
  unfold w_create, tr_init.
  set (w0 := mkws [] 0 0 [] 0 0 (mkhs 0 0 0) meta).
  assert (H0 : wfits meta w0 ([], [], mkhs 0 0 0)) by (unfold wfits; cbn; repeat split; reflexivity).
  pose proof (wfits_encode meta w0 _ _ _ crc_rec H0) as H1.
  pose proof (wfits_encode meta _ _ _ _ (meta_rec meta) H1) as H2.
  pose proof (wfits_encode meta _ _ _ _ (snap_rec (mkwalsnap 0 0 None)) H2) as H3.
  cbn [app] in H3.
  exact (wfits_same meta _ _ _ (wsame_save_snap _ _) H3).
Qed.

Lemma wfits_op meta w t o : wfits meta w t -> wfits meta (w_op w o) (tr_op meta t o).
Proof.
  destruct t as [[segs tail] hs]. intros H. destruct o as [h ents|s|].
  - cbn [w_op tr_op].
    destruct (hs_empty h && match ents with [] => true | _ :: _ => false end); [exact H|].
    rewrite app_assoc. apply wfits_save_state. apply wfits_save_entries. exact H.
  - cbn [w_op tr_op].
    exact (wfits_same meta _ _ _ (wsame_save_snap _ _) (wfits_encode meta w segs tail hs (snap_rec s) H)).
  - apply wfits_cut. exact H.
Qed.

Lemma wfits_run meta ops : wfits meta (w_run meta ops) (tr_run meta ops).
Proof.
  unfold w_run, tr_run.
  assert (G : forall w t, wfits meta w t -> wfits meta (fold_left w_op ops w) (fold_left (tr_op meta) ops t)).
  { induction ops as [|o ops IH]; intros w t H; [exact H|]. cbn [fold_left]. apply IH. apply wfits_op. exact H. }
  apply G. apply wfits_create.
Qed.

(* ------------------------------------------------------------------ well-formed inputs *)

Definition meta_ok (meta : option bytes) : Prop := blen (opt_bytes meta) + 64 < two56.
Definition entry_wf (e : entry) : Prop := entry_ok e /\ blen (entry_marshal e) + 64 < two56.
Definition snap_wf (s : walsnap) : Prop :=
  walsnap_ok s /\ blen (walsnap_marshal s) + 64 < two56 /\ ws_index s <> 0.
Definition op_ok (o : wop) : Prop :=
  match o with
  | OpSave h ents => hs_ok h /\ Forall entry_wf ents
  | OpSnap s => snap_wf s
  | OpCut => True
  end.

Definition rec_wf (r : wrec) : Prop := raw_ok r /\ crc_rec_wf r.

Lemma rec_wf_crc : rec_wf crc_rec.
Proof. split; [apply raw_ok_crc_head|]. intros _. reflexivity. Qed.

Lemma rec_wf_meta meta : meta_ok meta -> rec_wf (meta_rec meta).
Proof.
  intros H. split.
  - split; [cbn [meta_rec r_type]; unfold metadataType, two64; lia|]. exact H.
  - intros E. discriminate E.
Qed.

Lemma rec_wf_entry e : entry_wf e -> rec_wf (entry_rec e).
Proof.
  intros [_ H]. split.
  - split; [cbn [entry_rec r_type]; unfold entryType, two64; lia|]. exact H.
  - intros E. discriminate E.
Qed.

Lemma hs_marshal_length h : blen (hs_marshal h) <= 33.
Proof.
  unfold hs_marshal. rewrite blen_cons, blen_app, blen_cons, blen_app, blen_cons.
  pose proof (varint_enc_length (hs_term h)). pose proof (varint_enc_length (hs_vote h)).
  pose proof (varint_enc_length (hs_commit h)). lia.
Qed.

Lemma rec_wf_state h : rec_wf (state_rec h).
Proof.
  split.
  - split; [cbn [state_rec r_type]; unfold stateType, two64; lia|].
    cbn [state_rec data_of r_data]. pose proof (hs_marshal_length h). unfold two56. lia.
  - intros E. discriminate E.
Qed.

Lemma rec_wf_snap s : blen (walsnap_marshal s) + 64 < two56 -> rec_wf (snap_rec s).
Proof.
  intros H. split.
  - split; [cbn [snap_rec r_type]; unfold snapshotType, two64; lia|]. exact H.
  - intros E. discriminate E.
Qed.

Definition trace_wf (t : trace) : Prop :=
  let '(segs, tail, hs) := t in Forall (Forall rec_wf) segs /\ Forall rec_wf tail.

Lemma Forall_rec_wf_split rs : Forall rec_wf rs -> Forall raw_ok rs /\ Forall crc_rec_wf rs.
Proof. induction 1 as [|r rs [H1 H2] _ [IH1 IH2]]; split; constructor; assumption. Qed.

Lemma Forall2_rec_wf_split segs : Forall (Forall rec_wf) segs ->
  Forall (Forall raw_ok) segs /\ Forall (Forall crc_rec_wf) segs.
Proof.
  induction 1 as [|s segs Hs _ [IH1 IH2]]; split; constructor; try assumption;
    apply Forall_rec_wf_split in Hs; tauto.
Qed.

Lemma state_recs_wf h : Forall rec_wf (state_recs h).
Proof. unfold state_recs. destruct (hs_empty h); [apply Forall_nil|]. apply Forall_cons; [apply rec_wf_state|apply Forall_nil]. Qed.

Lemma trace_wf_init meta : meta_ok meta -> trace_wf (tr_init meta).
Proof.
  intros Hm. split; [constructor|].
  apply Forall_cons; [apply rec_wf_crc|].
  apply Forall_cons; [apply rec_wf_meta; exact Hm|].
  apply Forall_cons; [|apply Forall_nil].
  apply rec_wf_snap. vm_compute. reflexivity.
Qed.

Lemma trace_wf_op meta t o : meta_ok meta -> op_ok o -> trace_wf t -> trace_wf (tr_op meta t o).
Proof.
  intros Hm Ho. destruct t as [[segs tail] hs]. intros [Hs Ht]. destruct o as [h ents|s|]; cbn [tr_op].
  - destruct (hs_empty h && match ents with [] => true | _ :: _ => false end); [split; assumption|].
    split; [exact Hs|]. apply Forall_app. split; [exact Ht|]. apply Forall_app. split.
    + destruct Ho as [_ He]. clear - He. induction He; cbn [map]; constructor; [apply rec_wf_entry; assumption|assumption].
    + apply state_recs_wf.
  - split; [exact Hs|]. apply Forall_app. split; [exact Ht|]. constructor; [|constructor].
    destruct Ho as (_ & H & _). apply rec_wf_snap. exact H.
  - split.
    + apply Forall_app. split; [exact Hs|]. constructor; [exact Ht|constructor].
    + cbn [app]. constructor; [apply rec_wf_crc|]. constructor; [apply rec_wf_meta; exact Hm|]. apply state_recs_wf.
Qed.

Lemma trace_wf_run meta ops : meta_ok meta -> Forall op_ok ops -> trace_wf (tr_run meta ops).
Proof.
  intros Hm Hops. unfold tr_run.
  assert (G : forall t, trace_wf t -> trace_wf (fold_left (tr_op meta) ops t)).
  { induction Hops as [|o ops Ho _ IH]; intros t Ht; [exact Ht|]. cbn [fold_left]. apply IH.
    apply trace_wf_op; assumption. }
  apply G. apply trace_wf_init. exact Hm.
Qed.

(* ------------------------------------------------------------------ reading the directory back *)

Lemma frames_len_aligned rs : frames_len rs mod 8 = 0.
Proof.
  induction rs as [|r rs IH]; [reflexivity|]. cbn [frames_len].
  pose proof (frame_len_aligned r).
  assert (forall a b, a mod 8 = 0 -> b mod 8 = 0 -> (a + b) mod 8 = 0) as G.
  { clear. intros a b Ha Hb. rewrite N.add_mod by lia. rewrite Ha, Hb. reflexivity. }
  apply G; assumption.
Qed.

Theorem decode_written_files meta w segs tail hs segsize :
  wfits meta w (segs, tail, hs) -> trace_wf (segs, tail, hs) -> segsize mod 8 = 0 ->
  let '(_, rsC, c) := closed_files 0 segs in
  let '(rsT, bs, c') := encode_recs c tail in
  decode_files (map file_bytes (w_files segsize w)) 0 = (rsC ++ rsT, FEnd, blen bs, c').
Proof.
  intros Hfit [Hsegs Htail] Hseg.
  apply Forall2_rec_wf_split in Hsegs as [Hs1 Hs2]. apply Forall_rec_wf_split in Htail as [Ht1 Ht2].
  unfold wfits in Hfit.
  pose proof (decode_files_closed segs 0) as DC.
  pose proof (closed_files_crc_lt segs 0 ltac:(unfold lim32; lia)) as Hc.
  destruct (closed_files 0 segs) as [[fs rsC] c]. cbn [snd] in Hc.
  pose proof (record_roundtrip tail true c (segsize - blen (snd (fst (encode_recs c tail)))) Ht1 Ht2 Hc) as RT.
  pose proof (encode_recs_frames tail c) as Hfr.
  destruct (encode_recs c tail) as [[rsT bs] c']. cbn [fst snd] in *.
  destruct Hfit as (H1 & H2 & H3 & H4 & H5).
  unfold w_files. rewrite map_app, H1. cbn [map file_bytes snd]. rewrite H2.
  specialize (DC (bs ++ zerosN (segsize - blen bs)) Hs1 Hs2 ltac:(unfold lim32; lia)).
  rewrite DC. rewrite RT; [reflexivity|].
  pose proof (frames_len_aligned rsT) as Hal. rewrite <- Hfr in Hal.
  clear - Hal Hseg. lia.
Qed.

(* ------------------------------------------------------------------ interpretation of the emitted records *)

Lemma interp_stamp si st s crc r : interp_rec si st s (stamp crc r) = interp_rec si st s r.
Proof. reflexivity. Qed.

Lemma interp_all_stamped si st rs : forall s crc,
  interp_all si st s (fst (fst (encode_recs crc rs))) = interp_all si st s rs.
Proof.
  induction rs as [|r rs IH]; intros s crc; [reflexivity|].
  rewrite encode_recs_cons. specialize (IH).
  destruct (encode_recs (digest_write crc (data_of r)) rs) as [[rs' bs] c2] eqn:E.
  cbn [fst interp_all]. rewrite interp_stamp.
  destruct (interp_rec si st s r) as [s'|c]; [|reflexivity].
  specialize (IH s' (digest_write crc (data_of r))). rewrite E in IH. exact IH.
Qed.

Lemma interp_all_closed si st segs : forall s crc,
  interp_all si st s (snd (fst (closed_files crc segs))) = interp_all si st s (concat segs).
Proof.
  induction segs as [|sg segs IH]; intros s crc; [reflexivity|].
  cbn [closed_files concat].
  pose proof (interp_all_stamped si st sg s crc) as H1.
  destruct (encode_recs crc sg) as [[s' bs] c1]. cbn [fst] in H1.
  specialize (IH).
  destruct (closed_files c1 segs) as [[fs rs] c2] eqn:E. cbn [fst snd].
  rewrite !interp_all_app, H1.
  destruct (interp_all si st s sg) as [s1|c]; [|reflexivity].
  specialize (IH s1 c1). rewrite E in IH. exact IH.
Qed.

Lemma interp_crc s : interp_rec 0 0 s crc_rec = SOk s.
Proof. reflexivity. Qed.

Lemma interp_meta s meta : rs_meta s = None \/ rs_meta s = meta ->
  interp_rec 0 0 s (meta_rec meta) = SOk (mkrs meta (rs_hs s) (rs_ents s) (rs_match s)).
Proof.
  intros H. unfold interp_rec, meta_rec. cbn [r_type r_data data_of].
  change (metadataType =? entryType) with false. change (metadataType =? stateType) with false.
  change (metadataType =? metadataType) with true. cbn iota.
  destruct H as [->| ->]; [reflexivity|].
  destruct meta as [m|]; [|reflexivity]. rewrite bytes_eqb_refl. reflexivity.
Qed.

Lemma interp_entry s e : entry_ok e ->
  interp_rec 0 0 s (entry_rec e) =
  match log_put (rs_ents s) e with
  | Some l => SOk (mkrs (rs_meta s) (rs_hs s) l (rs_match s))
  | None => SErr CSliceOOR
  end.
Proof.
  intros He. unfold interp_rec, entry_rec, log_put. cbn [r_type r_data data_of].
  change (entryType =? entryType) with true. cbn iota.
  rewrite entry_unmarshal_marshal by exact He.
  destruct (0 <? e_index e); [|destruct s; reflexivity].
  destruct (N.of_nat (length (rs_ents s)) <? e_index e - 0 - 1); reflexivity.
Qed.

Lemma interp_state s h : hs_ok h ->
  interp_rec 0 0 s (state_rec h) = SOk (mkrs (rs_meta s) h (rs_ents s) (rs_match s)).
Proof.
  intros Hh. unfold interp_rec, state_rec. cbn [r_type r_data data_of].
  change (stateType =? entryType) with false. change (stateType =? stateType) with true. cbn iota.
  rewrite hs_unmarshal_marshal by exact Hh. reflexivity.
Qed.

Lemma interp_snap s sn : walsnap_ok sn -> ws_index sn <> 0 -> interp_rec 0 0 s (snap_rec sn) = SOk s.
Proof.
  intros Hok Hi. unfold interp_rec, snap_rec. cbn [r_type r_data data_of].
  change (snapshotType =? entryType) with false. change (snapshotType =? stateType) with false.
  change (snapshotType =? metadataType) with false. change (snapshotType =? crcType) with false.
  change (snapshotType =? snapshotType) with true. cbn iota.
  rewrite walsnap_unmarshal_marshal by exact Hok.
  replace (ws_index sn =? 0) with false by lia. reflexivity.
Qed.

Lemma interp_snap0 s : interp_rec 0 0 s (snap_rec (mkwalsnap 0 0 None))
                       = SOk (mkrs (rs_meta s) (rs_hs s) (rs_ents s) true).
Proof. reflexivity. Qed.

(* the state ReadAll has reached after the records of a trace *)
Definition reads (meta : option bytes) (t : trace) (log : list entry) (hs : hardstate) : Prop :=
  let '(segs, tail, ths) := t in
  ths = hs /\ interp_all 0 0 rs_init (concat segs ++ tail) = SOk (mkrs meta hs log true).

Lemma interp_entries ents : forall s log', Forall entry_wf ents ->
  log_puts (rs_ents s) ents = Some log' ->
  interp_all 0 0 s (map entry_rec ents) = SOk (mkrs (rs_meta s) (rs_hs s) log' (rs_match s)).
Proof.
  induction ents as [|e ents IH]; intros s log' Hwf H.
  - cbn [log_puts] in H. inversion H; subst. destruct s; reflexivity.
  - inversion Hwf as [|? ? [He _] Hrest]; subst.
    cbn [log_puts] in H. cbn [map interp_all]. rewrite interp_entry by exact He.
    destruct (log_put (rs_ents s) e) as [l|]; [|discriminate].
    rewrite (IH _ log' Hrest); [reflexivity|exact H].
Qed.

Lemma interp_state_recs s h : hs_ok h ->
  interp_all 0 0 s (state_recs h) = SOk (mkrs (rs_meta s) (if hs_empty h then rs_hs s else h) (rs_ents s) (rs_match s)).
Proof.
  intros Hh. unfold state_recs. destruct (hs_empty h).
  - destruct s; reflexivity.
  - cbn [interp_all]. rewrite interp_state by exact Hh. reflexivity.
Qed.

Lemma hs_ok_zero : hs_ok (mkhs 0 0 0).
Proof. unfold hs_ok, two64. cbn. lia. Qed.

Lemma reads_init meta : reads meta (tr_init meta) [] (mkhs 0 0 0).
Proof.
  unfold reads, tr_init. split; [reflexivity|].
  cbn [concat app interp_all]. rewrite interp_crc.
  rewrite interp_meta by (left; reflexivity). cbn [rs_init rs_hs rs_ents rs_match].
  rewrite interp_snap0. reflexivity.
Qed.

Lemma reads_op meta t o log hs log' hs' :
  op_ok o -> hs_ok hs -> reads meta t log hs -> spec_op (log, hs) o = Some (log', hs') ->
  reads meta (tr_op meta t o) log' hs' /\ hs_ok hs'.
Proof.
  destruct t as [[segs tail] ths]. intros Ho Hhs [-> Hr] Hspec.
  destruct o as [h ents|sn|]; cbn [spec_op] in Hspec; cbn [tr_op].
  - destruct Ho as [Hh Hents].
    destruct (log_puts log ents) as [l|] eqn:El; [|discriminate]. inversion Hspec; subst log' hs'. clear Hspec.
    assert (Hhs' : hs_ok (if hs_empty h then hs else h)) by (destruct (hs_empty h); assumption).
    split; [|exact Hhs'].
    destruct (hs_empty h && match ents with [] => true | _ :: _ => false end) eqn:Eskip.
    + apply andb_true_iff in Eskip as [E1 E2]. destruct ents; [|discriminate].
      cbn [log_puts] in El. inversion El; subst. rewrite E1. split; [reflexivity|exact Hr].
    + split; [reflexivity|].
      rewrite app_assoc, interp_all_app, Hr, interp_all_app.
      rewrite (interp_entries ents (mkrs meta hs log true) l Hents El). cbn [rs_meta rs_hs rs_ents rs_match].
      rewrite interp_state_recs by exact Hh. reflexivity.
  - inversion Hspec; subst log' hs'. split; [|exact Hhs]. split; [reflexivity|].
    rewrite app_assoc, interp_all_app, Hr. cbn [interp_all].
    destruct Ho as (Hok & _ & Hi). rewrite interp_snap by assumption. reflexivity.
  - inversion Hspec; subst log' hs'. split; [|exact Hhs]. split; [reflexivity|].
    rewrite concat_app. cbn [concat]. rewrite app_nil_r, <- app_assoc, app_assoc, interp_all_app, Hr.
    cbn [app interp_all]. rewrite interp_crc.
    rewrite interp_meta by (right; reflexivity). cbn [rs_meta rs_hs rs_ents rs_match].
    rewrite interp_state_recs by exact Hhs. cbn [rs_meta rs_hs rs_ents rs_match].
    destruct (hs_empty hs); reflexivity.
Qed.

Lemma reads_run meta ops : forall t log hs log' hs',
  Forall op_ok ops -> hs_ok hs -> reads meta t log hs -> spec_ops (log, hs) ops = Some (log', hs') ->
  reads meta (fold_left (tr_op meta) ops t) log' hs'.
Proof.
  induction ops as [|o ops IH]; intros t log hs log' hs' Hops Hhs Hr Hs.
  - cbn [spec_ops] in Hs. inversion Hs; subst. exact Hr.
  - inversion Hops as [|? ? Ho Hrest]; subst. cbn [spec_ops] in Hs. cbn [fold_left].
    destruct (spec_op (log, hs) o) as [[l1 h1]|] eqn:E; [|discriminate].
    destruct (reads_op meta t o log hs l1 h1 Ho Hhs Hr E) as [Hr1 Hh1].
    exact (IH _ _ _ _ _ Hrest Hh1 Hr1 Hs).
Qed.

(* ------------------------------------------------------------------ C16_roundtrip *)

Theorem roundtrip meta ops segsize log hs :
  meta_ok meta -> Forall op_ok ops -> segsize mod 8 = 0 ->
  spec_run ops = Some (log, hs) ->
  read_all true 0 0 (map file_bytes (w_files segsize (w_run meta ops))) = RAOk meta hs log true.
Proof.
  intros Hm Hops Hseg Hspec.
  pose proof (wfits_run meta ops) as Hfit.
  pose proof (trace_wf_run meta ops Hm Hops) as Hwf.
  pose proof (reads_run meta ops (tr_init meta) [] (mkhs 0 0 0) log hs Hops hs_ok_zero (reads_init meta) Hspec) as Hr.
  fold (tr_run meta ops) in Hr.
  destruct (tr_run meta ops) as [[segs tail] ths].
  pose proof (decode_written_files meta _ segs tail ths segsize Hfit Hwf Hseg) as D.
  destruct Hr as [-> Hr].
  pose proof (interp_all_closed 0 0 segs rs_init 0) as IC.
  destruct (closed_files 0 segs) as [[fs rsC] c]. cbn [fst snd] in IC.
  pose proof (interp_all_stamped 0 0 tail) as IS.
  destruct (encode_recs c tail) as [[rsT bs] c'] eqn:E.
  unfold read_all. rewrite D. unfold read_all_dec.
  rewrite interp_all_app, IC.
  rewrite interp_all_app in Hr.
  destruct (interp_all 0 0 rs_init (concat segs)) as [s1|e]; [|discriminate].
  specialize (IS s1 c). rewrite E in IS. cbn [fst] in IS. rewrite IS, Hr.
  reflexivity.
Qed.

(* what the specification means for the usual case: entries that continue the log are appended *)
Fixpoint contiguous (k : N) (ents : list entry) : Prop :=
  match ents with
  | [] => True
  | e :: r => e_index e = k /\ contiguous (k + 1) r
  end.

Lemma log_puts_append ents : forall log,
  contiguous (N.of_nat (length log) + 1) ents -> log_puts log ents = Some (log ++ ents).
Proof.
  induction ents as [|e ents IH]; intros log H.
  - rewrite app_nil_r. reflexivity.
  - destruct H as [Hi Hc]. cbn [log_puts]. unfold log_put. rewrite Hi.
    replace (0 <? N.of_nat (length log) + 1) with true by lia.
    replace (N.of_nat (length log) + 1 - 0 - 1) with (N.of_nat (length log)) by lia.
    rewrite N.ltb_irrefl, Nat2N.id, firstn_all.
    rewrite IH.
    + rewrite <- app_assoc. reflexivity.
    + rewrite app_length. cbn [length]. replace (N.of_nat (length log + 1)) with (N.of_nat (length log) + 1) by lia.
      exact Hc.
Qed.

(* an entry at an index inside the log replaces the suffix from there (a new leader's overwrite) *)
Lemma log_put_overwrite log e j :
  e_index e = N.of_nat j + 1 -> (j <= length log)%nat -> log_put log e = Some (firstn j log ++ [e]).
Proof.
  intros Hi Hj. unfold log_put. rewrite Hi.
  replace (0 <? N.of_nat j + 1) with true by lia.
  replace (N.of_nat j + 1 - 0 - 1) with (N.of_nat j) by lia.
  replace (N.of_nat (length log) <? N.of_nat j) with false by lia.
  rewrite Nat2N.id. reflexivity.
Qed.
