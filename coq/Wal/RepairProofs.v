(* C16 — Repair: after a torn tail (io.ErrUnexpectedEOF) the last segment is truncated at the
   offset of the last valid record; reading the repaired file returns the same records and
   ends in a clean EOF. *)
Require Import Base.Bytes Wal.Crc32c Wal.CrcTab Wal.Pb Wal.WalModel.
Require Import Wal.FrameProofs Wal.CrcProofs Wal.PbProofs Wal.WalProofs Wal.TornProofs.
Require Import Lia ZifyN ZifyNat ZifyBool.
Local Open Scope N_scope.

(* decodeRecord looks only at the frame it returns *)
Lemma decode_one_prefix last size off crc cur r n crc1 :
  decode_one last size off crc cur = DRec r n crc1 ->
  8 <= n /\ n <= blen cur /\ forall size2 cur2,
    off + n <= size2 -> firstn (N.to_nat n) cur2 = firstn (N.to_nat n) cur ->
    decode_one last size2 off crc cur2 = DRec r n crc1.
Proof.
  unfold decode_one. intros H.
  destruct cur as [|c0 cur0] eqn:Ecur; [discriminate|]. rewrite <- Ecur in *.
  destruct (blen (firstn 8 cur) <? 8) eqn:E8; [discriminate|].
  destruct (le_dec (firstn 8 cur) =? 0) eqn:El; [discriminate|].
  destruct (decode_frame_size (le_dec (firstn 8 cur))) as [recB padB] eqn:Efs.
  destruct (size <? recB + off + padB) eqn:Esz; [discriminate|].
  destruct (blen (firstn (N.to_nat (recB + padB)) (skipn 8 cur)) <? recB + padB) eqn:Ed; [discriminate|].
  assert (Hn : n = 8 + recB + padB).
  { destruct (rec_unmarshal _) as [r0|e].
    - destruct (r_type r0 =? crcType); [inversion H; reflexivity|].
      destruct (r_crc r0 =? _); [inversion H; reflexivity|].
      destruct (is_torn _ _ _); discriminate.
    - destruct (is_torn _ _ _); discriminate. }
  assert (Hlen8 : (8 <= length cur)%nat).
  { unfold blen in E8. rewrite firstn_length in E8. lia. }
  split; [lia|]. split.
  { unfold blen in Ed |- *. rewrite firstn_length, skipn_length in Ed. lia. }
  intros size2 cur2 Hsz2 Hpre.
  assert (Hf8 : firstn 8 cur2 = firstn 8 cur).
  { assert (X : forall l : bytes, firstn 8 l = firstn 8 (firstn (N.to_nat n) l)).
    { intros l. rewrite firstn_firstn. f_equal. lia. }
    rewrite (X cur2), (X cur), Hpre. reflexivity. }
  assert (Hdata : firstn (N.to_nat (recB + padB)) (skipn 8 cur2)
                  = firstn (N.to_nat (recB + padB)) (skipn 8 cur)).
  { rewrite !firstn_skipn_comm.
    replace (8 + N.to_nat (recB + padB))%nat with (N.to_nat n) by lia.
    rewrite Hpre. reflexivity. }
  destruct cur2 as [|d0 cur20] eqn:Ecur2.
  { exfalso. rewrite firstn_nil in Hf8. apply (f_equal (@length byte)) in Hf8.
    rewrite firstn_length in Hf8. cbn [length] in Hf8. lia. }
  rewrite <- Ecur2 in *.
  rewrite Hf8, E8, El, Efs.
  replace (size2 <? recB + off + padB) with false by lia.
  rewrite Hdata, Ed. exact H.
Qed.

Lemma decode_file_off_mono fuel : forall last size off crc cur rs st off' crc',
  decode_file fuel last size off crc cur = (rs, st, off', crc') -> off <= off'.
Proof.
  induction fuel as [|f IH]; intros last size off crc cur rs st off' crc' H.
  - cbn [decode_file] in H. inversion H. lia.
  - cbn [decode_file] in H.
    destruct (decode_one last size off crc cur) as [r n crc1|s] eqn:E1.
    + destruct ((r_type r =? crcType) && negb (crc1 =? 0) && negb (r_crc r =? crc1)).
      * inversion H. lia.
      * destruct (decode_file f last size (off + n) _ _) as [[[rs1 st1] off1] crc1'] eqn:E2.
        apply IH in E2. inversion H; subst. lia.
    + inversion H. lia.
Qed.

Lemma decode_file_off_le fuel : forall last size off crc cur rs st off' crc',
  decode_file fuel last size off crc cur = (rs, st, off', crc') -> off' <= off + blen cur.
Proof.
  induction fuel as [|f IH]; intros last size off crc cur rs st off' crc' H.
  - cbn [decode_file] in H. inversion H. lia.
  - cbn [decode_file] in H.
    destruct (decode_one last size off crc cur) as [r n crc1|s] eqn:E1.
    + destruct (decode_one_prefix _ _ _ _ _ _ _ _ E1) as (_ & Hle & _).
      destruct ((r_type r =? crcType) && negb (crc1 =? 0) && negb (r_crc r =? crc1)).
      * inversion H. lia.
      * destruct (decode_file f last size (off + n) _ _) as [[[rs1 st1] off1] crc1'] eqn:E2.
        apply IH in E2. inversion H; subst.
        unfold blen in *. rewrite skipn_length in E2. lia.
    + inversion H. lia.
Qed.

(* reading a file cut at the offset where the decode loop stopped *)
Lemma decode_file_truncate fuel : forall last size off crc cur rs st off' crc',
  decode_file fuel last size off crc cur = (rs, st, off', crc') ->
  (st = FEnd \/ st = FUnexp) ->
  forall size2, off' <= size2 ->
  decode_file fuel last size2 off crc (firstn (N.to_nat (off' - off)) cur) = (rs, FEnd, off', crc').
Proof.
  induction fuel as [|f IH]; intros last size off crc cur rs st off' crc' H Hst size2 Hsz.
  - cbn [decode_file] in H. inversion H; subst. destruct Hst; discriminate.
  - cbn [decode_file] in H |- *.
    destruct (decode_one last size off crc cur) as [r n crc1|s] eqn:E1.
    + destruct ((r_type r =? crcType) && negb (crc1 =? 0) && negb (r_crc r =? crc1)) eqn:Echk.
      { inversion H; subst. destruct Hst; discriminate. }
      destruct (decode_file f last size (off + n) (if r_type r =? crcType then r_crc r else crc1)
                            (skipn (N.to_nat n) cur)) as [[[rs1 st1] off1] crc1'] eqn:E2.
      inversion H; subst rs st off' crc'. clear H.
      pose proof (decode_file_off_mono _ _ _ _ _ _ _ _ _ _ E2) as Hmono.
      destruct (decode_one_prefix _ _ _ _ _ _ _ _ E1) as (Hn8 & _ & Hpre).
      rewrite (Hpre size2 (firstn (N.to_nat (off1 - off)) cur)).
      * rewrite Echk.
        assert (Hsk : skipn (N.to_nat n) (firstn (N.to_nat (off1 - off)) cur)
                      = firstn (N.to_nat (off1 - (off + n))) (skipn (N.to_nat n) cur)).
        { rewrite skipn_firstn_comm. f_equal. lia. }
        rewrite Hsk.
        rewrite (IH _ _ _ _ _ _ _ _ _ E2 Hst size2 Hsz). reflexivity.
      * lia.
      * rewrite firstn_firstn. f_equal. lia.
    + inversion H; subst. rewrite N.sub_diag. cbn [N.to_nat firstn]. reflexivity.
Qed.

Lemma raw_ok_crc_head : raw_ok (mkrec crcType 0 None).
Proof.
  split; [cbn [r_type]; unfold crcType, two64; lia|].
  cbn [data_of r_data]. rewrite blen_nil. unfold two56. lia.
Qed.

(* Repair opens the last segment with a fresh decoder (digest 0); every segment starts with a
   crcType record carrying the chain value, which the decode loop adopts *)
Lemma decode_file_fresh fuel last size crc0 rest :
  crc0 < lim32 -> frame_len (stamp crc0 (mkrec crcType 0 None)) <= size ->
  decode_file (S fuel) last size 0 0 (frame_of (stamp crc0 (mkrec crcType 0 None)) ++ rest)
  = decode_file (S fuel) last size 0 crc0 (frame_of (stamp crc0 (mkrec crcType 0 None)) ++ rest).
Proof.
  intros Hc Hsz.
  set (r0 := stamp crc0 (mkrec crcType 0 None)) in *.
  assert (Hok : rec_ok r0).
  { apply stamp_ok; [|exact Hc]. apply raw_ok_crc_head. }
  assert (Ht : r_type r0 = crcType) by reflexivity.
  assert (Hcrc : r_crc r0 = crc0) by (unfold r0, stamp; cbn [r_crc data_of r_data]; apply digest_write_nil).
  cbn [decode_file].
  rewrite !decode_one_frame by (try exact Hok; lia).
  rewrite Ht, !N.eqb_refl. cbn [negb andb]. rewrite !Hcrc, N.eqb_refl. cbn [negb]. rewrite andb_false_r.
  reflexivity.
Qed.

(* enough fuel: the result does not depend on it *)
Lemma decode_file_fuel fuel : forall last size off crc cur rs st off' crc',
  decode_file fuel last size off crc cur = (rs, st, off', crc') ->
  (st = FEnd \/ st = FUnexp) ->
  forall fuel2, (length rs < fuel2)%nat ->
  decode_file fuel2 last size off crc cur = (rs, st, off', crc').
Proof.
  induction fuel as [|f IH]; intros last size off crc cur rs st off' crc' H Hst fuel2 Hf2.
  - cbn [decode_file] in H. inversion H; subst. destruct Hst; discriminate.
  - destruct fuel2 as [|f2]; [lia|].
    cbn [decode_file] in H |- *.
    destruct (decode_one last size off crc cur) as [r n crc1|s] eqn:E1; [|exact H].
    destruct ((r_type r =? crcType) && negb (crc1 =? 0) && negb (r_crc r =? crc1)); [exact H|].
    destruct (decode_file f last size (off + n) _ _) as [[[rs1 st1] off1] crc1'] eqn:E2.
    inversion H; subst. cbn [length] in Hf2.
    rewrite (IH _ _ _ _ _ _ _ _ _ E2 Hst f2) by lia. reflexivity.
Qed.

Lemma blen_firstn_le (l : bytes) (k : N) : k <= blen l -> blen (firstn (N.to_nat k) l) = k.
Proof. intros H. unfold blen in *. rewrite firstn_length. lia. Qed.

Lemma takeN_firstn n (l : bytes) : takeN n l = firstn (N.to_nat n) l.
Proof.
  unfold takeN. destruct (blen l <=? n) eqn:E; [|reflexivity].
  symmetry. apply firstn_all2. unfold blen in E. lia.
Qed.

Lemma encode_recs_all_ok rs : forall crc, Forall raw_ok rs -> crc < lim32 ->
  Forall rec_ok (fst (fst (encode_recs crc rs))).
Proof.
  induction rs as [|r rs IH]; intros crc Hraw Hc; [constructor|].
  rewrite encode_recs_cons. inversion Hraw as [|? ? Hr Hrs]; subst.
  specialize (IH (digest_write crc (data_of r)) Hrs (digest_write_lt _ _ Hc)).
  destruct (encode_recs (digest_write crc (data_of r)) rs) as [[rs' bs] c2]. cbn [fst] in *.
  constructor; [apply stamp_ok; assumption|exact IH].
Qed.

Lemma frames_len_ge rs : Forall rec_ok rs -> N.of_nat (length rs) * 16 <= frames_len rs.
Proof.
  induction 1 as [|r rs Hr _ IH]; [cbn; lia|].
  cbn [length frames_len]. pose proof (frame_len_ge r Hr). lia.
Qed.

Lemma Forall_firstn {A} (P : A -> Prop) m (l : list A) : Forall P l -> Forall P (firstn m l).
Proof.
  revert m; induction l as [|x l IH]; intros m H; destruct m; cbn [firstn]; try constructor.
  - inversion H; assumption.
  - apply IH. inversion H; assumption.
Qed.

(* C16_repair *)
Theorem repair_torn_tail rs_synced rs_unsynced crc0 (lost : N -> bool) kz :
  let head := mkrec crcType 0 None in
  Forall raw_ok (head :: rs_synced ++ rs_unsynced) -> Forall crc_rec_wf (head :: rs_synced ++ rs_unsynced) ->
  crc0 < lim32 -> (kz = 0 \/ 8 <= kz) ->
  let '(rs', bs, _) := encode_recs crc0 ((head :: rs_synced) ++ rs_unsynced) in
  let synced := blen (snd (fst (encode_recs crc0 (head :: rs_synced)))) in
  let f := bs ++ zerosN kz in
  let img := crash_image synced lost f in
  no_crc_coincidence synced f img 0 crc0 rs' = true ->
  exists m off crc',
    (S (length rs_synced) <= m <= length rs')%nat
    /\ fst (repair img) = true
    /\ decode_whole true crc0 (snd (repair img)) = (firstn m rs', FEnd, off, crc')
    /\ (* Repair only cuts behind the last valid record *)
       (snd (repair img) = img \/ snd (repair img) = takeN off img).
Proof.
  intros head Hraw Hwf Hc Hkz.
  pose proof (torn_tail (head :: rs_synced) rs_unsynced crc0 lost kz Hraw Hwf Hc Hkz) as T.
  pose proof (encode_recs_all_ok ((head :: rs_synced) ++ rs_unsynced) crc0 Hraw Hc) as Hallok.
  destruct (encode_recs crc0 ((head :: rs_synced) ++ rs_unsynced)) as [[rs' bs] cend] eqn:E.
  cbn [fst] in Hallok.
  cbv zeta in T |- *. intros Hnc. specialize (T Hnc).
  destruct T as (m & st & crc' & Hd & Hst & Hm).
  set (synced := blen (snd (fst (encode_recs crc0 (head :: rs_synced))))) in *.
  set (img := crash_image synced lost (bs ++ zerosN kz)) in *.
  (* the head record is synced: its frame is intact and the fresh decoder adopts its CRC *)
  assert (Hfresh : decode_whole true 0 img = decode_whole true crc0 img).
  { assert (Hbs : exists bs1, bs = frame_of (stamp crc0 head) ++ bs1).
    { change ((head :: rs_synced) ++ rs_unsynced) with (head :: (rs_synced ++ rs_unsynced)) in E.
      rewrite encode_recs_cons in E.
      destruct (encode_recs (digest_write crc0 (data_of head)) (rs_synced ++ rs_unsynced)) as [[rs1 bs1] c1].
      exists bs1. congruence. }
    destruct Hbs as [bs1 Hbs].
    assert (Hsy : frame_len (stamp crc0 head) <= synced).
    { unfold synced. rewrite encode_recs_cons.
      destruct (encode_recs (digest_write crc0 (data_of head)) rs_synced) as [[rs2 bs2] c2].
      cbn [fst snd]. rewrite blen_app, blen_frame_of. lia. }
    unfold img, crash_image. rewrite Hbs, <- app_assoc.
    rewrite image_from_app.
    rewrite image_from_synced by (rewrite blen_frame_of; lia).
    unfold decode_whole. apply decode_file_fresh; [exact Hc|].
    rewrite blen_app, blen_frame_of. unfold head. lia. }
  assert (Hoffle : frames_len (firstn m rs') <= blen img).
  { unfold decode_whole in Hd. apply decode_file_off_le in Hd. lia. }
  exists m, (frames_len (firstn m rs')), crc'.
  split; [exact Hm|].
  unfold repair. rewrite Hfresh, Hd.
  destruct Hst as [->| ->]; cbn [fst snd].
  - split; [reflexivity|]. split; [exact Hd|]. left; reflexivity.
  - split; [reflexivity|]. split; [|right; reflexivity].
    rewrite takeN_firstn.
    unfold decode_whole in Hd |- *.
    pose proof (decode_file_truncate _ _ _ _ _ _ _ _ _ _ Hd (or_intror eq_refl)
                  (blen (firstn (N.to_nat (frames_len (firstn m rs'))) img))) as Ht.
    rewrite N.sub_0_r in Ht.
    assert (Hbl : blen (firstn (N.to_nat (frames_len (firstn m rs'))) img) = frames_len (firstn m rs')).
    { apply blen_firstn_le. exact Hoffle. }
    specialize (Ht ltac:(rewrite Hbl; lia)).
    eapply decode_file_fuel; [exact Ht|left; reflexivity|].
    pose proof (frames_len_ge (firstn m rs') (Forall_firstn _ m _ Hallok)) as Hge.
    unfold blen in Hbl. lia.
Qed.
