(* C16 — single-byte corruption OUTSIDE the CRC-covered data, class by class: padding bytes,
   the 8-byte length field, the stored-crc varint; the generic confinement lemma (records in
   front of the damaged frame are returned unchanged, the outcome is decided by decodeRecord on
   the damaged frame alone); the cross-segment CRC chain catching a zeroed length field. *)
Require Import Base.Bytes Wal.Crc32c Wal.CrcTab Wal.Pb Wal.WalModel Wal.WalSpec.
Require Import Wal.FrameProofs Wal.CrcProofs Wal.PbProofs Wal.WalProofs Wal.TornProofs Wal.RepairProofs
               Wal.ReadAllProofs Wal.FlipReadProofs.
Require Import Lia ZifyN ZifyNat ZifyBool.
Local Open Scope N_scope.

Ltac Zify.zify_post_hook ::= Z.div_mod_to_equations.

(* ------------------------------------------------------------------ set_byte *)

Lemma set_byte_blen (X : bytes) : forall i v, blen (set_byte i v X) = blen X.
Proof.
  induction X as [|x X IH]; intros i v; [reflexivity|].
  cbn [set_byte]. destruct (i =? 0); rewrite !blen_cons; [reflexivity|]. rewrite IH. reflexivity.
Qed.

Lemma set_byte_middle (A B C : bytes) i v : i < blen B ->
  set_byte (blen A + i) v (A ++ B ++ C) = A ++ set_byte i v B ++ C.
Proof. intros Hi. rewrite set_byte_prefix, set_byte_within by exact Hi. reflexivity. Qed.

(* ------------------------------------------------------------------ one step of the decode loop *)

Lemma decode_file_stop f last size off crc cur s :
  decode_one last size off crc cur = DStop s ->
  decode_file (S f) last size off crc cur = ([], s, off, crc).
Proof. intros H. cbn [decode_file]. rewrite H. reflexivity. Qed.

Lemma decode_file_step_eq f last size off crc cur1 cur2 r n c :
  decode_one last size off crc cur1 = DRec r n c ->
  decode_one last size off crc cur2 = DRec r n c ->
  skipn (N.to_nat n) cur1 = skipn (N.to_nat n) cur2 ->
  decode_file (S f) last size off crc cur1 = decode_file (S f) last size off crc cur2.
Proof. intros H1 H2 Hs. cbn [decode_file]. rewrite H1, H2, Hs. reflexivity. Qed.

(* ------------------------------------------------------------------ confinement *)

(* A segment holds the records rs_before, r, rs_after; the bytes of r's frame are replaced by
   ANY bytes X of the same length.  The decode loop returns the records in front unchanged and
   then does whatever it does on X followed by the untouched rest. *)
Theorem flip_confined rs_before r rs_after last crc0 kz X :
  let rs := rs_before ++ r :: rs_after in
  Forall raw_ok rs -> Forall crc_rec_wf rs -> crc0 < lim32 ->
  let '(rsB', bsB, cB) := encode_recs crc0 rs_before in
  let '(rsA', bsA, _) := encode_recs (digest_write cB (data_of r)) rs_after in
  blen X = frame_len (stamp cB r) ->
  let file' := bsB ++ X ++ bsA ++ zerosN kz in
  let f := (S (length file') - length rs_before)%nat in
  (length rs_after < f)%nat /\
    decode_whole last crc0 file' =
    let '(rs2, st, off, c) := decode_file f last (blen file') (blen bsB) cB (X ++ bsA ++ zerosN kz) in
    (rsB' ++ rs2, st, off, c).
Proof.
  intros rs Hraw Hwf Hc. unfold rs in *. clear rs.
  apply Forall_app in Hraw as [HrawB HrawRA]. apply Forall_app in Hwf as [HwfB HwfRA].
  inversion HrawRA as [|? ? Hr HrawA]; subst.
  pose proof (decode_file_encode_recs rs_before) as DF.
  pose proof (encode_recs_length rs_before crc0 HrawB Hc) as [HlB _].
  pose proof (encode_recs_crc_lt rs_before crc0 Hc) as HcB.
  destruct (encode_recs crc0 rs_before) as [[rsB' bsB] cB] eqn:EB. cbn [fst snd] in *.
  pose proof (encode_recs_length rs_after (digest_write cB (data_of r)) HrawA (digest_write_lt _ _ HcB)) as [HlA _].
  destruct (encode_recs (digest_write cB (data_of r)) rs_after) as [[rsA' bsA] cA] eqn:EA. cbn [fst snd] in *.
  intros HX. cbv zeta.
  pose proof (frame_len_ge (stamp cB r) (stamp_ok cB r Hr HcB)) as Hge.
  remember (bsB ++ X ++ bsA ++ zerosN kz) as F eqn:EF.
  assert (HblF : blen F = blen bsB + (blen X + (blen bsA + kz))).
  { rewrite EF, !blen_app, blen_zerosN. reflexivity. }
  split. { unfold blen in HblF, HlB, HlA, HX. lia. }
  unfold decode_whole.
  replace (S (length F)) with (length rs_before + (S (length F) - length rs_before))%nat
    by (unfold blen in HblF, HlB; lia).
  specialize (DF (S (length F) - length rs_before)%nat last (blen F) 0 crc0 (X ++ bsA ++ zerosN kz) HrawB HwfB Hc).
  rewrite EB in DF. rewrite <- EF in DF. rewrite DF by lia.
  rewrite N.add_0_l.
  replace (length rs_before + (S (length F) - length rs_before) - length rs_before)%nat
    with (S (length F) - length rs_before)%nat by lia.
  reflexivity.
Qed.

(* the two harmless outcomes, at the level of the whole segment *)
Section Outcomes.
Variables (rs_before : list wrec) (r : wrec) (rs_after : list wrec) (last : bool) (crc0 kz : N).
Hypothesis Hraw : Forall raw_ok (rs_before ++ r :: rs_after).
Hypothesis Hwf : Forall crc_rec_wf (rs_before ++ r :: rs_after).
Hypothesis Hc : crc0 < lim32.

Let rsB' := fst (fst (encode_recs crc0 rs_before)).
Let bsB := snd (fst (encode_recs crc0 rs_before)).
Let cB := snd (encode_recs crc0 rs_before).
Let bsA := snd (fst (encode_recs (digest_write cB (data_of r)) rs_after)).
Let rS := stamp cB r.
Let rest := bsA ++ zerosN kz.
Definition seg_file (X : bytes) : bytes := bsB ++ X ++ rest.

Lemma flip_confined' X : blen X = frame_len rS ->
  let f := (S (length (seg_file X)) - length rs_before)%nat in
  (length rs_after < f)%nat /\
  decode_whole last crc0 (seg_file X) =
  let '(rs2, st, off, c) := decode_file f last (blen (seg_file X)) (blen bsB) cB (X ++ rest) in
  (rsB' ++ rs2, st, off, c).
Proof.
  intros HX. pose proof (flip_confined rs_before r rs_after last crc0 kz X Hraw Hwf Hc) as H.
  unfold seg_file, rest, rsB', bsB, bsA, rS, cB in *.
  destruct (encode_recs crc0 rs_before) as [[a b] c]. cbn [fst snd] in *.
  destruct (encode_recs (digest_write c (data_of r)) rs_after) as [[a2 b2] c2]. cbn [fst snd] in *.
  exact (H HX).
Qed.

(* outcome 1: decodeRecord stops on the damaged frame: exactly the records in front of it are
   returned, with the status decodeRecord gave (EOF for a zero length field, otherwise an error) *)
Theorem flip_stops X s : blen X = frame_len rS ->
  decode_one last (blen (seg_file X)) (blen bsB) cB (X ++ rest) = DStop s ->
  decode_whole last crc0 (seg_file X) = (rsB', s, blen bsB, cB).
Proof.
  intros HX Hs. destruct (flip_confined' X HX) as [Hf H]. rewrite H.
  destruct (S (length (seg_file X)) - length rs_before)%nat as [|f] eqn:E; [lia|].
  rewrite (decode_file_stop f _ _ _ _ _ s Hs). rewrite app_nil_r. reflexivity.
Qed.

(* outcome 2: decodeRecord returns the same record, length and digest as on the intact frame:
   the whole segment reads exactly as before *)
Theorem flip_harmless X : blen X = frame_len rS ->
  decode_one last (blen (seg_file X)) (blen bsB) cB (X ++ rest)
  = decode_one last (blen (seg_file X)) (blen bsB) cB (frame_of rS ++ rest) ->
  decode_whole last crc0 (seg_file X) = decode_whole last crc0 (seg_file (frame_of rS)).
Proof.
  intros HX Heq.
  assert (HF : blen (frame_of rS) = frame_len rS) by apply blen_frame_of.
  assert (Hlen : length (seg_file X) = length (seg_file (frame_of rS))).
  { unfold seg_file. rewrite !app_length. unfold blen in HX, HF. lia. }
  assert (Hbl : blen (seg_file X) = blen (seg_file (frame_of rS))) by (unfold blen; rewrite Hlen; reflexivity).
  destruct (flip_confined' X HX) as [Hf H]. destruct (flip_confined' (frame_of rS) HF) as [_ H0].
  rewrite H, H0. rewrite <- Hlen, <- Hbl.
  destruct (S (length (seg_file X)) - length rs_before)%nat as [|f] eqn:E; [lia|].
  assert (Hraw' := Hraw). apply Forall_app in Hraw' as [HrawB HrawRA]. inversion HrawRA as [|? ? Hr HrawA]; subst.
  assert (HcB : cB < lim32) by (unfold cB; apply encode_recs_crc_lt; exact Hc).
  assert (Hsz : blen bsB + frame_len rS <= blen (seg_file X)).
  { unfold seg_file. rewrite !blen_app, HX. lia. }
  pose proof (decode_one_stamped last (blen (seg_file X)) (blen bsB) cB r rest Hr HcB Hsz) as Hone.
  fold rS in Hone.
  rewrite (decode_file_step_eq f _ _ _ _ (X ++ rest) (frame_of rS ++ rest) _ _ _ (eq_trans Heq Hone) Hone); [reflexivity|].
  rewrite (skipn_N_app (frame_len rS) X rest HX), (skipn_N_app (frame_len rS) (frame_of rS) rest HF). reflexivity.
Qed.

End Outcomes.

(* ------------------------------------------------------------------ class: padding bytes *)

Section Classes.
Variables (last : bool) (size off crc : N) (r : wrec) (rest : bytes).
Hypothesis Hr : raw_ok r.
Hypothesis Hcrc : crc < lim32.
Let rS := stamp crc r.
Let m := rec_marshal rS.
Let n := blen m.
Let p := pad_of n.
Let hdr := le_enc 8 (fst (encode_frame_size n)).
Hypothesis Hsize : off + frame_len rS <= size.

Lemma cls_ok : rec_ok rS.
Proof. apply stamp_ok; assumption. Qed.

Lemma cls_frame : frame_of rS = hdr ++ (m ++ zerosN p).
Proof. apply frame_of_eq. Qed.

Lemma cls_bounds : n <> 0 /\ n < two56 /\ frame_len rS = 8 + n + p /\ blen hdr = 8.
Proof.
  pose proof (rec_marshal_bounds rS cls_ok) as [Hlo Hhi]. fold m n in Hlo, Hhi.
  split; [lia|]. split; [exact Hhi|]. split; [reflexivity|]. unfold hdr. apply blen_le_enc.
Qed.

Lemma cls_original :
  decode_one last size off crc (frame_of rS ++ rest) =
  DRec rS (frame_len rS) (if r_type r =? crcType then crc else digest_write crc (data_of r)).
Proof. apply decode_one_stamped; assumption. Qed.

(* any bytes in place of the alignment padding: decodeRecord returns the same record *)
Theorem pad_flip_harmless pad' : blen pad' = p ->
  decode_one last size off crc ((hdr ++ (m ++ pad')) ++ rest)
  = decode_one last size off crc (frame_of rS ++ rest).
Proof.
  intros Hp. destruct cls_bounds as (Hn0 & Hhi & Hfl & Hbh).
  rewrite cls_original. rewrite <- app_assoc. unfold hdr.
  rewrite decode_one_hdr; try assumption.
  - rewrite (firstn_N_app n m pad' eq_refl). unfold m.
    rewrite rec_unmarshal_marshal by apply cls_ok.
    assert (Ht : r_type rS = r_type r) by reflexivity.
    assert (Hd : data_of rS = data_of r) by reflexivity.
    assert (Hcs : r_crc rS = digest_write crc (data_of r)) by reflexivity.
    rewrite Ht, Hd, Hcs, Hfl. fold n p.
    destruct (r_type r =? crcType); [reflexivity|]. rewrite N.eqb_refl. reflexivity.
  - rewrite blen_app, Hp. reflexivity.
  - fold p. lia.
Qed.

(* ------------------------------------------------------------------ class: the 8-byte length field *)

Lemma decode_one_len_zero hdr' body : blen hdr' = 8 -> le_dec hdr' = 0 ->
  decode_one last size off crc (hdr' ++ body) = DStop FEnd.
Proof.
  intros Hb Hz. unfold decode_one.
  destruct (hdr' ++ body) as [|b0 l0] eqn:E.
  { exfalso. apply (f_equal (@length byte)) in E. rewrite app_length in E. unfold blen in Hb. cbn [length] in E. lia. }
  rewrite <- E. clear E b0 l0.
  assert (Hf8 : firstn 8 (hdr' ++ body) = hdr').
  { change 8%nat with (N.to_nat 8). apply firstn_N_app. exact Hb. }
  rewrite Hf8, Hb, Hz. reflexivity.
Qed.

Lemma decode_one_len_same hdr1 hdr2 body : blen hdr1 = 8 -> blen hdr2 = 8 ->
  le_dec hdr1 <> 0 -> le_dec hdr2 <> 0 ->
  decode_frame_size (le_dec hdr1) = decode_frame_size (le_dec hdr2) ->
  decode_one last size off crc (hdr1 ++ body) = decode_one last size off crc (hdr2 ++ body).
Proof.
  intros H1 H2 Hz1 Hz2 Hfs. unfold decode_one.
  destruct (hdr1 ++ body) as [|b0 l0] eqn:E1.
  { exfalso. apply (f_equal (@length byte)) in E1. rewrite app_length in E1. unfold blen in H1. cbn [length] in E1. lia. }
  rewrite <- E1. clear E1 b0 l0.
  destruct (hdr2 ++ body) as [|b0 l0] eqn:E2.
  { exfalso. apply (f_equal (@length byte)) in E2. rewrite app_length in E2. unfold blen in H2. cbn [length] in E2. lia. }
  rewrite <- E2. clear E2 b0 l0.
  assert (Hf1 : firstn 8 (hdr1 ++ body) = hdr1) by (change 8%nat with (N.to_nat 8); apply firstn_N_app; exact H1).
  assert (Hf2 : firstn 8 (hdr2 ++ body) = hdr2) by (change 8%nat with (N.to_nat 8); apply firstn_N_app; exact H2).
  assert (Hs1 : skipn 8 (hdr1 ++ body) = body) by (change 8%nat with (N.to_nat 8); apply skipn_N_app; exact H1).
  assert (Hs2 : skipn 8 (hdr2 ++ body) = body) by (change 8%nat with (N.to_nat 8); apply skipn_N_app; exact H2).
  rewrite Hf1, Hf2, Hs1, Hs2, H1, H2.
  replace (le_dec hdr1 =? 0) with false by lia. replace (le_dec hdr2 =? 0) with false by lia.
  rewrite Hfs. reflexivity.
Qed.

(* a changed byte of the length field: the field reads zero (clean end of file: a shorter
   prefix), or it still decodes to the same record and padding size (the four unused bits of the
   top byte: nothing changes), or the frame window changed *)
Theorem len_flip j v : j < 8 ->
  let hdr' := set_byte j v hdr in
  (le_dec hdr' = 0 ->
     decode_one last size off crc (set_byte j v (frame_of rS) ++ rest) = DStop FEnd)
  /\ (decode_frame_size (le_dec hdr') = (n, p) ->
     decode_one last size off crc (set_byte j v (frame_of rS) ++ rest)
     = decode_one last size off crc (frame_of rS ++ rest)).
Proof.
  intros Hj hdr'. destruct cls_bounds as (Hn0 & Hhi & Hfl & Hbh).
  assert (Hset : set_byte j v (frame_of rS) = hdr' ++ (m ++ zerosN p)).
  { rewrite cls_frame. apply set_byte_within. rewrite Hbh. exact Hj. }
  assert (Hb' : blen hdr' = 8) by (unfold hdr'; rewrite set_byte_blen; exact Hbh).
  rewrite Hset, cls_frame, <- !app_assoc.
  split.
  - intros Hz. apply decode_one_len_zero; assumption.
  - intros Hfs.
    assert (Hl : le_dec hdr = fst (encode_frame_size n)).
    { unfold hdr. apply le_dec_enc8. apply encode_frame_size_lt64. exact Hhi. }
    assert (Hfs0 : decode_frame_size (le_dec hdr) = (n, p)).
    { rewrite Hl. apply decode_encode_frame_size. exact Hhi. }
    apply decode_one_len_same; try assumption.
    + intros Hz. rewrite Hz in Hfs. unfold decode_frame_size in Hfs. cbn in Hfs. inversion Hfs; try lia; congruence.
    + intros Hz. rewrite Hz in Hfs0. unfold decode_frame_size in Hfs0. cbn in Hfs0. inversion Hfs0; try lia; congruence.
    + rewrite Hfs, Hfs0. reflexivity.
Qed.

End Classes.

(* the four unused bits (3..6) of the top byte of the length field: decodeFrameSize ignores them *)
Lemma len_unused_bits b0 b1 b2 b3 b4 b5 b6 b7 v :
  bval v / 128 = bval b7 / 128 -> bval v mod 8 = bval b7 mod 8 ->
  decode_frame_size (le_dec [b0; b1; b2; b3; b4; b5; b6; v])
  = decode_frame_size (le_dec [b0; b1; b2; b3; b4; b5; b6; b7]).
Proof.
  intros H1 H2. unfold decode_frame_size. cbn [le_dec].
  pose proof (bval_lt b0). pose proof (bval_lt b1). pose proof (bval_lt b2). pose proof (bval_lt b3).
  pose proof (bval_lt b4). pose proof (bval_lt b5). pose proof (bval_lt b6). pose proof (bval_lt b7).
  pose proof (bval_lt v).
  set (lo := bval b0 + 256 * (bval b1 + 256 * (bval b2 + 256 * (bval b3 + 256 * (bval b4 + 256 * (bval b5 + 256 * bval b6)))))).
  assert (Hlo : lo < two56) by (unfold lo, two56; lia).
  replace (bval b0 + 256 * (bval b1 + 256 * (bval b2 + 256 * (bval b3 + 256 * (bval b4 + 256 * (bval b5 + 256 * (bval b6 + 256 * (bval v + 256 * 0))))))))
    with (lo + bval v * two56) by (unfold lo, two56; lia).
  replace (bval b0 + 256 * (bval b1 + 256 * (bval b2 + 256 * (bval b3 + 256 * (bval b4 + 256 * (bval b5 + 256 * (bval b6 + 256 * (bval b7 + 256 * 0))))))))
    with (lo + bval b7 * two56) by (unfold lo, two56; lia).
  clearbody lo.
  assert (G : forall x, x < 256 ->
            (lo + x * two56) mod two56 = lo /\ (lo + x * two56) / two56 = x
            /\ (two63 <=? lo + x * two56) = (128 <=? x)).
  { intros x Hx. unfold two56, two63 in *. repeat split; lia. }
  destruct (G (bval v) ltac:(assumption)) as (A1 & A2 & A3).
  destruct (G (bval b7) ltac:(assumption)) as (B1 & B2 & B3).
  rewrite A1, A2, A3, B1, B2, B3.
  replace (128 <=? bval v) with (128 <=? bval b7) by lia.
  rewrite H2. reflexivity.
Qed.

(* ------------------------------------------------------------------ varints of a given shape *)

(* X is a complete varint: whatever follows, the decoder consumes exactly X *)
Definition is_varint (X : bytes) (v : N) : Prop :=
  forall rest, varint_dec (X ++ rest) = POk (v, blen X, rest).

Lemma is_varint_enc v : v < two64 -> is_varint (varint_enc v) v.
Proof. intros Hv rest. apply varint_dec_enc. exact Hv. Qed.

(* continuation bytes followed by a final byte, at most ten in all *)
Definition vshape (X : bytes) : Prop :=
  exists init lastb, X = init ++ [lastb] /\ Forall (fun b => 128 <= bval b) init
                     /\ bval lastb < 128 /\ (length init < 10)%nat.

Lemma vdec_vshape init : forall fuel shift acc k lastb rest,
  Forall (fun b => 128 <= bval b) init -> bval lastb < 128 -> (length init < fuel)%nat ->
  exists v, vdec fuel shift acc k ((init ++ [lastb]) ++ rest) = POk (v, k + blen (init ++ [lastb]), rest).
Proof.
  induction init as [|b init IH]; intros fuel shift acc k lastb rest Hi Hl Hf.
  - destruct fuel as [|fuel]; [cbn [length] in Hf; lia|].
    cbn [app]. rewrite vdec_cons. replace (bval lastb <? 128) with true by lia.
    eexists. rewrite blen_cons, blen_nil. reflexivity.
  - destruct fuel as [|fuel]; [cbn [length] in Hf; lia|].
    inversion Hi as [|? ? Hb Hi']; subst.
    cbn [app]. rewrite vdec_cons. replace (bval b <? 128) with false by lia.
    destruct (IH fuel (shift + 7) (acc + (bval b mod 128 * 2 ^ shift) mod two64) (k + 1) lastb rest Hi' Hl) as [v Hv].
    { cbn [length] in Hf. lia. }
    exists v. cbn [app] in Hv. rewrite Hv. rewrite !blen_cons.
    replace (k + 1 + blen (init ++ [lastb])) with (k + (1 + blen (init ++ [lastb]))) by lia. reflexivity.
Qed.

Lemma vshape_is_varint X : vshape X -> exists v, is_varint X v.
Proof.
  intros (init & lastb & -> & Hi & Hl & Hlen).
  assert (G : forall rest, exists v, varint_dec ((init ++ [lastb]) ++ rest) = POk (v, blen (init ++ [lastb]), rest)).
  { intros rest. unfold varint_dec. destruct (vdec_vshape init 10 0 0 0 lastb rest Hi Hl Hlen) as [v Hv].
    exists v. rewrite Hv. rewrite N.add_0_l. reflexivity. }
  (* the value does not depend on what follows: it is determined by the bytes *)
  destruct (G []) as [v Hv]. exists v. intros rest.
  destruct (G rest) as [v' Hv'].
  (* vdec reads only the bytes of the varint *)
  assert (v' = v).
  { clear G. unfold varint_dec in *.
    assert (D : forall init fuel shift acc k r1 r2 v1 v2 n1 n2,
              Forall (fun b => 128 <= bval b) init -> bval lastb < 128 ->
              vdec fuel shift acc k ((init ++ [lastb]) ++ r1) = POk (v1, n1, r1) ->
              vdec fuel shift acc k ((init ++ [lastb]) ++ r2) = POk (v2, n2, r2) -> v1 = v2).
    { clear. induction init as [|b init IH]; intros fuel shift acc k r1 r2 v1 v2 n1 n2 Hi Hl H1 H2.
      - destruct fuel as [|fuel]; [cbn in H1; discriminate|].
        cbn [app] in H1, H2. rewrite vdec_cons in H1, H2.
        replace (bval lastb <? 128) with true in H1, H2 by lia. congruence.
      - destruct fuel as [|fuel]; [cbn in H1; discriminate|].
        inversion Hi as [|? ? Hb Hi']; subst.
        cbn [app] in H1, H2. rewrite vdec_cons in H1, H2.
        replace (bval b <? 128) with false in H1, H2 by lia.
        exact (IH _ _ _ _ _ _ _ _ _ _ Hi' Hl H1 H2). }
    exact (D init 10%nat 0 0 0 rest [] v' v _ _ Hi Hl Hv' Hv). }
  subst v'. exact Hv'.
Qed.

Lemma venc_vshape f : forall v, v < 128 ^ N.of_nat (S f) ->
  exists init lastb, venc f v = init ++ [lastb] /\ Forall (fun b => 128 <= bval b) init
                     /\ bval lastb < 128 /\ (length init <= f)%nat.
Proof.
  induction f as [|f IH]; intros v Hv.
  - change (128 ^ N.of_nat 1) with 128 in Hv. cbn [venc].
    exists [], (byte_of_N (v mod 128)). repeat split; auto.
    rewrite byte_of_N_val; pose proof (N.mod_lt v 128); lia.
  - cbn [venc]. destruct (v <? 128) eqn:E.
    + exists [], (byte_of_N v). repeat split; auto; [|cbn; lia]. rewrite byte_of_N_val; lia.
    + destruct (IH (v / 128)) as (init & lastb & He & Hi & Hl & Hlen).
      { rewrite Nat2N.inj_succ, N.pow_succ_r' in Hv. apply N.div_lt_upper_bound; lia. }
      exists (byte_of_N (v mod 128 + 128) :: init), lastb. rewrite He. split; [reflexivity|].
      split; [|split; [exact Hl|cbn [length]; lia]].
      constructor; [|exact Hi]. rewrite byte_of_N_val; pose proof (N.mod_lt v 128); lia.
Qed.

Lemma varint_enc_vshape v : v < two64 -> vshape (varint_enc v).
Proof.
  intros Hv. unfold varint_enc.
  destruct (venc_vshape 9 v) as (init & lastb & He & Hi & Hl & Hlen).
  { unfold two64 in Hv. change (128 ^ N.of_nat 10) with 0x400000000000000000. lia. }
  exists init, lastb. repeat split; try assumption. lia.
Qed.

(* changing one byte without touching its continuation bit keeps the shape *)
Lemma vshape_set_byte X j v : vshape X -> j < blen X ->
  (forall b, nth_error X (N.to_nat j) = Some b -> (bval v <? 128) = (bval b <? 128)) ->
  vshape (set_byte j v X).
Proof.
  intros (init & lastb & -> & Hi & Hl & Hlen) Hj Hbit.
  destruct (N.lt_ge_cases j (blen init)) as [Hlt|Hge].
  - (* inside the continuation bytes *)
    rewrite set_byte_within by exact Hlt.
    exists (set_byte j v init), lastb. split; [reflexivity|].
    split; [|split; [exact Hl|]].
    + clear - Hi Hlt Hbit. revert j Hlt Hbit. induction init as [|b init IH]; intros j Hlt Hbit.
      * rewrite blen_nil in Hlt. lia.
      * inversion Hi as [|? ? Hb Hi']; subst. cbn [set_byte]. destruct (j =? 0) eqn:E.
        -- constructor; [|exact Hi']. apply N.eqb_eq in E. subst j.
           specialize (Hbit b eq_refl). lia.
        -- constructor; [exact Hb|]. apply IH; [exact Hi'|rewrite blen_cons in Hlt; lia|].
           intros b0 Hn. apply Hbit. 
           replace (N.to_nat j) with (S (N.to_nat (j - 1))) by lia. exact Hn.
    + assert (length (set_byte j v init) = length init).
      { pose proof (set_byte_blen init j v) as H. unfold blen in H. lia. }
      lia.
  - (* the final byte *)
    assert (j = blen init) by (rewrite blen_app, blen_cons, blen_nil in Hj; lia). subst j.
    specialize (Hbit lastb). unfold blen in Hbit. rewrite Nat2N.id in Hbit.
    rewrite <- (N.add_0_r (blen init)). rewrite set_byte_prefix. cbn [set_byte]. change (0 =? 0) with true. cbn iota.
    exists init, v. split; [reflexivity|]. split; [exact Hi|]. split; [|exact Hlen].
    rewrite nth_error_app2 in Hbit by lia. rewrite Nat.sub_diag in Hbit. specialize (Hbit eq_refl). lia.
Qed.

