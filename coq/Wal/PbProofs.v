(* C16 — round trips of the protobuf wire layer: varints and the messages the WAL writes
   (walpb.Record, raftpb.Entry, raftpb.HardState, walpb.Snapshot, snappb.Snapshot): what the
   generated Marshal code writes, the generated Unmarshal loop reads back unchanged. *)
Require Import Base.Bytes Wal.Crc32c Wal.Pb Wal.WalModel Wal.FrameProofs.
Require Import Lia ZifyN ZifyNat ZifyBool.
Local Open Scope N_scope.

Ltac Zify.zify_post_hook ::= Z.div_mod_to_equations.

(* ------------------------------------------------------------------ lengths, take/drop *)

Lemma blen_nil : blen [] = 0.
Proof. reflexivity. Qed.
Lemma blen_cons b l : blen (b :: l) = 1 + blen l.
Proof. unfold blen. cbn [length]. lia. Qed.
Lemma blen_app a b : blen (a ++ b) = blen a + blen b.
Proof. unfold blen. rewrite app_length. lia. Qed.

Lemma takeN_app d rest : takeN (blen d) (d ++ rest) = d.
Proof.
  unfold takeN. rewrite blen_app.
  destruct (blen d + blen rest <=? blen d) eqn:E.
  - assert (blen rest = 0) as H0 by lia.
    unfold blen in H0. destruct rest; [rewrite app_nil_r; reflexivity | cbn [length] in H0; lia].
  - unfold blen. rewrite Nat2N.id. rewrite firstn_app, Nat.sub_diag, firstn_all. cbn [firstn].
    rewrite app_nil_r. reflexivity.
Qed.
Lemma dropN_app d rest : dropN (blen d) (d ++ rest) = rest.
Proof.
  unfold dropN. rewrite blen_app.
  destruct (blen d + blen rest <=? blen d) eqn:E.
  - assert (blen rest = 0) as H0 by lia.
    unfold blen in H0. destruct rest; [reflexivity | cbn [length] in H0; lia].
  - unfold blen. rewrite Nat2N.id. rewrite skipn_app, Nat.sub_diag, skipn_all. reflexivity.
Qed.

(* ------------------------------------------------------------------ varint *)

Lemma venc_length_pos f v : 1 <= blen (venc f v).
Proof.
  destruct f; cbn [venc].
  - rewrite blen_cons. lia.
  - destruct (v <? 128); rewrite blen_cons; lia.
Qed.
Lemma venc_length_le f v : blen (venc f v) <= N.of_nat (S f).
Proof.
  revert v; induction f as [|f IH]; intros v; cbn [venc].
  - rewrite blen_cons, blen_nil. lia.
  - destruct (v <? 128).
    + rewrite blen_cons, blen_nil. lia.
    + rewrite blen_cons. specialize (IH (v / 128)). lia.
Qed.
Lemma varint_enc_length v : 1 <= blen (varint_enc v) <= 10.
Proof.
  unfold varint_enc. split; [apply venc_length_pos|].
  pose proof (venc_length_le 9 v). lia.
Qed.

Lemma vdec_cons f shift acc n b r :
  vdec (S f) shift acc n (b :: r) =
  if bval b <? 128 then POk (acc + ((bval b mod 128) * 2 ^ shift) mod two64, n + 1, r)
  else vdec f (shift + 7) (acc + ((bval b mod 128) * 2 ^ shift) mod two64) (n + 1) r.
Proof. reflexivity. Qed.

Lemma vdec_venc f : forall v shift acc n rest,
  v < 128 ^ N.of_nat (S f) -> v * 2 ^ shift < two64 ->
  vdec (S f) shift acc n (venc f v ++ rest) = POk (acc + v * 2 ^ shift, n + blen (venc f v), rest).
Proof.
  induction f as [|f IH]; intros v shift acc n rest Hv Hs.
  - change (128 ^ N.of_nat 1) with 128 in Hv.
    cbn [venc app]. rewrite vdec_cons.
    rewrite byte_of_N_val by (pose proof (N.mod_lt v 128); lia).
    rewrite !(N.mod_small v 128) by lia.
    rewrite (N.mod_small (v * 2 ^ shift)) by exact Hs.
    replace (v <? 128) with true by lia.
    rewrite blen_cons, blen_nil. repeat f_equal; lia.
  - cbn [venc]. destruct (v <? 128) eqn:E.
    + cbn [app]. rewrite vdec_cons.
      rewrite byte_of_N_val by lia.
      rewrite (N.mod_small v 128) by lia.
      rewrite (N.mod_small (v * 2 ^ shift)) by exact Hs.
      rewrite E. rewrite blen_cons, blen_nil. repeat f_equal; lia.
    + cbn [app]. rewrite vdec_cons.
      assert (Hm : v mod 128 < 128) by (apply N.mod_lt; lia).
      rewrite byte_of_N_val by lia.
      replace ((v mod 128 + 128) mod 128) with (v mod 128) by lia.
      replace (v mod 128 + 128 <? 128) with false by lia.
      assert (Hp : 2 ^ (shift + 7) = 128 * 2 ^ shift) by (rewrite N.pow_add_r; change (2 ^ 7) with 128; lia).
      assert (Hdm : v = 128 * (v / 128) + v mod 128) by (apply N.div_mod; lia).
      assert (H2 : 0 < 2 ^ shift) by (apply N.neq_0_lt_0, N.pow_nonzero; lia).
      assert (Hlow : v mod 128 * 2 ^ shift < two64) by nia.
      rewrite (N.mod_small _ two64) by exact Hlow.
      rewrite IH.
      * rewrite blen_cons. rewrite Hp.
        replace (acc + v mod 128 * 2 ^ shift + v / 128 * (128 * 2 ^ shift)) with (acc + v * 2 ^ shift) by nia.
        replace (n + 1 + blen (venc f (v / 128))) with (n + (1 + blen (venc f (v / 128)))) by lia.
        reflexivity.
      * rewrite Nat2N.inj_succ, N.pow_succ_r' in Hv. apply N.div_lt_upper_bound; lia.
      * rewrite Hp. nia.
Qed.

Lemma varint_dec_enc v rest : v < two64 ->
  varint_dec (varint_enc v ++ rest) = POk (v, blen (varint_enc v), rest).
Proof.
  intros Hv. unfold varint_dec, varint_enc.
  rewrite vdec_venc.
  - rewrite N.pow_0_r. repeat f_equal; lia.
  - unfold two64 in Hv. change (128 ^ N.of_nat 10) with 0x400000000000000000. lia.
  - rewrite N.pow_0_r. lia.
Qed.

Lemma varint_dec_small b r : bval b < 128 -> varint_dec (b :: r) = POk (bval b, 1, r).
Proof.
  intros H. unfold varint_dec. cbn [vdec].
  rewrite (N.mod_small (bval b) 128) by exact H.
  rewrite N.pow_0_r, N.mul_1_r.
  rewrite N.mod_small by (unfold two64; lia).
  replace (bval b <? 128) with true by lia. reflexivity.
Qed.

(* ------------------------------------------------------------------ one field *)

Section Fields.
Variable sub : bytes -> pres unit.
Variable sch : N -> option fkind.

Lemma pb_parse_nil f pos acc : pb_parse sub sch f pos [] acc = POk acc.
Proof. destruct f; reflexivity. Qed.

(* tag byte of field fnum with wire type wt, for field numbers below 16 *)
Definition is_tag (tagb : byte) (fnum wt : N) : Prop :=
  bval tagb = 8 * fnum + wt /\ 1 <= fnum /\ fnum < 16 /\ wt < 8.

Lemma pb_parse_varint_field f pos tagb fnum v rest acc :
  is_tag tagb fnum 0 -> sch fnum = Some KVarint -> v < two64 ->
  pb_parse sub sch (S f) pos (tagb :: varint_enc v ++ rest) acc
  = pb_parse sub sch f (pos + 1 + blen (varint_enc v)) rest ((fnum, VInt v) :: acc).
Proof.
  intros (Ht & H1 & H16 & _) Hs Hv.
  cbn [pb_parse].
  rewrite varint_dec_small by lia.
  rewrite Ht.
  replace ((8 * fnum + 0) mod 8) with 0 by lia.
  replace (((8 * fnum + 0) / 8) mod two32) with fnum by (unfold two32; lia).
  change (0 =? 4) with false. cbn [orb negb].
  replace (fnum =? 0) with false by lia.
  replace (two31 <=? fnum) with false by (unfold two31; lia).
  cbn [orb]. rewrite Hs. change (0 =? 0) with true. cbn [negb].
  rewrite varint_dec_enc by exact Hv. reflexivity.
Qed.

Lemma pb_parse_bytes_field f pos tagb fnum d rest acc :
  is_tag tagb fnum 2 -> sch fnum = Some KBytes -> pos + 11 + blen d < two56 ->
  pb_parse sub sch (S f) pos (tagb :: varint_enc (blen d) ++ d ++ rest) acc
  = pb_parse sub sch f (pos + 1 + blen (varint_enc (blen d)) + blen d) rest ((fnum, VBytes d) :: acc).
Proof.
  intros (Ht & H1 & H16 & _) Hs Hb.
  cbn [pb_parse].
  rewrite varint_dec_small by lia.
  rewrite Ht.
  replace ((8 * fnum + 2) mod 8) with 2 by lia.
  replace (((8 * fnum + 2) / 8) mod two32) with fnum by (unfold two32; lia).
  change (2 =? 4) with false.
  replace (fnum =? 0) with false by lia.
  replace (two31 <=? fnum) with false by (unfold two31; lia).
  cbn [orb]. rewrite Hs. change (2 =? 2) with true. cbn [negb].
  unfold pb_lenprefix.
  unfold two56 in Hb.
  rewrite varint_dec_enc by (unfold two64; lia).
  pose proof (varint_enc_length (blen d)) as Hl.
  replace (two63 <=? blen d) with false by (unfold two63; lia).
  replace (two63 <=? pos + 1 + blen (varint_enc (blen d)) + blen d) with false by (unfold two63; lia).
  rewrite blen_app.
  replace (blen d + blen rest <? blen d) with false by lia.
  rewrite takeN_app, dropN_app. reflexivity.
Qed.

Lemma pb_parse_msg_field f pos tagb fnum d rest acc :
  is_tag tagb fnum 2 -> sch fnum = Some KMsg -> pos + 11 + blen d < two56 -> sub d = POk tt ->
  pb_parse sub sch (S f) pos (tagb :: varint_enc (blen d) ++ d ++ rest) acc
  = pb_parse sub sch f (pos + 1 + blen (varint_enc (blen d)) + blen d) rest ((fnum, VBytes d) :: acc).
Proof.
  intros (Ht & H1 & H16 & _) Hs Hb Hsub.
  cbn [pb_parse].
  rewrite varint_dec_small by lia.
  rewrite Ht.
  replace ((8 * fnum + 2) mod 8) with 2 by lia.
  replace (((8 * fnum + 2) / 8) mod two32) with fnum by (unfold two32; lia).
  change (2 =? 4) with false.
  replace (fnum =? 0) with false by lia.
  replace (two31 <=? fnum) with false by (unfold two31; lia).
  cbn [orb]. rewrite Hs. change (2 =? 2) with true. cbn [negb].
  unfold pb_lenprefix.
  unfold two56 in Hb.
  rewrite varint_dec_enc by (unfold two64; lia).
  pose proof (varint_enc_length (blen d)) as Hl.
  replace (two63 <=? blen d) with false by (unfold two63; lia).
  replace (two63 <=? pos + 1 + blen (varint_enc (blen d)) + blen d) with false by (unfold two63; lia).
  rewrite blen_app.
  replace (blen d + blen rest <? blen d) with false by lia.
  rewrite takeN_app, dropN_app, Hsub. reflexivity.
Qed.

End Fields.

Ltac tag_tac := unfold is_tag; cbn; lia.

(* fuel: S (length data) is more than the number of fields *)
Lemma fuel3 (l : bytes) : 3 <= blen l -> exists f, S (length l) = S (S (S (S f))).
Proof.
  unfold blen. intros H. destruct l as [|a [|b [|c l]]]; cbn [length] in *; try lia.
  eexists; reflexivity.
Qed.

(* ------------------------------------------------------------------ walpb.Record *)

Definition rec_ok (r : wrec) : Prop :=
  r_type r < two64 /\ r_crc r < two32 /\ blen (data_of r) + 64 < two56.

Lemma rec_marshal_length r :
  blen (rec_marshal r) = 2 + blen (varint_enc (r_type r)) + blen (varint_enc (r_crc r))
    + match r_data r with None => 0 | Some d => 1 + blen (varint_enc (blen d)) + blen d end.
Proof.
  unfold rec_marshal. rewrite blen_cons, blen_app, blen_cons, blen_app.
  destruct (r_data r) as [d|].
  - rewrite blen_cons, blen_app. lia.
  - rewrite blen_nil. lia.
Qed.

Lemma rec_marshal_bounds r : rec_ok r -> 4 <= blen (rec_marshal r) /\ blen (rec_marshal r) < two56.
Proof.
  intros (Ht & Hc & Hd). rewrite rec_marshal_length.
  pose proof (varint_enc_length (r_type r)). pose proof (varint_enc_length (r_crc r)).
  unfold data_of in Hd. unfold two56 in *.
  destruct (r_data r) as [d|].
  - pose proof (varint_enc_length (blen d)). lia.
  - lia.
Qed.

Theorem rec_unmarshal_marshal r : rec_ok r -> rec_unmarshal (rec_marshal r) = POk r.
Proof.
  intros Hok. pose proof (rec_marshal_bounds r Hok) as [Hlo Hhi].
  destruct Hok as (Ht & Hc & Hd).
  unfold rec_unmarshal, pb_unmarshal.
  destruct (fuel3 (rec_marshal r)) as [f Hf]; [lia|]. rewrite Hf. clear Hf.
  unfold rec_marshal.
  rewrite (pb_parse_varint_field no_sub rec_schema _ 0 x08 1) by (try tag_tac; try reflexivity; assumption).
  rewrite (pb_parse_varint_field no_sub rec_schema _ _ x10 2) by (try tag_tac; try reflexivity; unfold two32, two64 in *; lia).
  destruct r as [t c [d|]]; cbn [r_type r_crc r_data data_of] in *.
  - pose proof (varint_enc_length t). pose proof (varint_enc_length c).
    rewrite <- (app_nil_r d) at 2.
    rewrite (pb_parse_bytes_field no_sub rec_schema _ _ x1a 3) by (try tag_tac; try reflexivity; unfold two56 in *; lia).
    rewrite pb_parse_nil.
    cbn [last_int last_bytes]. change (1 =? 1) with true. change (2 =? 2) with true. change (3 =? 3) with true.
    change (3 =? 1) with false. change (2 =? 1) with false. change (3 =? 2) with false. cbn iota.
    rewrite (N.mod_small c) by exact Hc. reflexivity.
  - rewrite pb_parse_nil.
    cbn [last_int last_bytes]. change (1 =? 1) with true. change (2 =? 2) with true.
    change (2 =? 1) with false. change (2 =? 3) with false. change (1 =? 3) with false. cbn iota.
    rewrite (N.mod_small c) by exact Hc. reflexivity.
Qed.

(* ------------------------------------------------------------------ raftpb.Entry *)

Definition entry_ok (e : entry) : Prop :=
  e_type e < two32 /\ e_term e < two64 /\ e_index e < two64
  /\ blen (match e_data e with Some d => d | None => [] end) + 64 < two56.

Lemma sext32_lt v : v < two32 -> sext32 v < two64.
Proof. unfold sext32, two31, two32, two64. intros H. destruct (v <? 0x80000000) eqn:E; lia. Qed.
Lemma sext32_mod v : v < two32 -> sext32 v mod two32 = v.
Proof. unfold sext32, two31, two32, two64. intros H. destruct (v <? 0x80000000) eqn:E; lia. Qed.

Lemma entry_marshal_length e :
  blen (entry_marshal e) = 3 + blen (varint_enc (sext32 (e_type e))) + blen (varint_enc (e_term e))
    + blen (varint_enc (e_index e))
    + match e_data e with None => 0 | Some d => 1 + blen (varint_enc (blen d)) + blen d end.
Proof.
  unfold entry_marshal. rewrite blen_cons, blen_app, blen_cons, blen_app, blen_cons, blen_app.
  destruct (e_data e) as [d|].
  - rewrite blen_cons, blen_app. lia.
  - rewrite blen_nil. lia.
Qed.

Theorem entry_unmarshal_marshal e : entry_ok e -> entry_unmarshal (entry_marshal e) = POk e.
Proof.
  intros (Ht & Htm & Hi & Hd).
  pose proof (sext32_lt _ Ht) as Hsx.
  pose proof (varint_enc_length (sext32 (e_type e))) as L1.
  pose proof (varint_enc_length (e_term e)) as L2.
  pose proof (varint_enc_length (e_index e)) as L3.
  unfold entry_unmarshal, pb_unmarshal.
  destruct (fuel3 (entry_marshal e)) as [f Hf].
  { rewrite entry_marshal_length. destruct (e_data e); lia. }
  rewrite Hf. clear Hf.
  unfold entry_marshal.
  rewrite (pb_parse_varint_field no_sub entry_schema _ 0 x08 1) by (try tag_tac; try reflexivity; assumption).
  rewrite (pb_parse_varint_field no_sub entry_schema _ _ x10 2) by (try tag_tac; try reflexivity; assumption).
  rewrite (pb_parse_varint_field no_sub entry_schema _ _ x18 3) by (try tag_tac; try reflexivity; assumption).
  destruct e as [t tm ix [d|]]; cbn [e_type e_term e_index e_data] in *.
  - rewrite <- (app_nil_r d) at 2.
    rewrite (pb_parse_bytes_field no_sub entry_schema _ _ x22 4) by (try tag_tac; try reflexivity; unfold two56 in *; lia).
    rewrite pb_parse_nil.
    cbn [last_int last_bytes].
    repeat match goal with |- context [?a =? ?b] => let r := eval vm_compute in (a =? b) in change (a =? b) with r end.
    cbn iota. rewrite sext32_mod by exact Ht. reflexivity.
  - rewrite pb_parse_nil.
    cbn [last_int last_bytes].
    repeat match goal with |- context [?a =? ?b] => let r := eval vm_compute in (a =? b) in change (a =? b) with r end.
    cbn iota. rewrite sext32_mod by exact Ht. reflexivity.
Qed.

(* ------------------------------------------------------------------ raftpb.HardState *)

Definition hs_ok (h : hardstate) : Prop := hs_term h < two64 /\ hs_vote h < two64 /\ hs_commit h < two64.

Theorem hs_unmarshal_marshal h : hs_ok h -> hs_unmarshal (hs_marshal h) = POk h.
Proof.
  intros (H1 & H2 & H3).
  pose proof (varint_enc_length (hs_term h)) as L1.
  pose proof (varint_enc_length (hs_vote h)) as L2.
  pose proof (varint_enc_length (hs_commit h)) as L3.
  unfold hs_unmarshal, pb_unmarshal.
  destruct (fuel3 (hs_marshal h)) as [f Hf].
  { unfold hs_marshal. rewrite blen_cons, blen_app, blen_cons, blen_app, blen_cons. lia. }
  rewrite Hf. clear Hf.
  unfold hs_marshal.
  rewrite (pb_parse_varint_field no_sub hs_schema _ 0 x08 1) by (try tag_tac; try reflexivity; assumption).
  rewrite (pb_parse_varint_field no_sub hs_schema _ _ x10 2) by (try tag_tac; try reflexivity; assumption).
  rewrite <- (app_nil_r (varint_enc (hs_commit h))).
  rewrite (pb_parse_varint_field no_sub hs_schema _ _ x18 3) by (try tag_tac; try reflexivity; assumption).
  rewrite pb_parse_nil.
  cbn [last_int last_bytes].
  repeat match goal with |- context [?a =? ?b] => let r := eval vm_compute in (a =? b) in change (a =? b) with r end.
  cbn iota. destruct h; reflexivity.
Qed.

(* ------------------------------------------------------------------ walpb.Snapshot *)

Definition walsnap_ok (s : walsnap) : Prop :=
  ws_index s < two64 /\ ws_term s < two64 /\
  match ws_conf s with None => True | Some d => blen d + 64 < two56 /\ confstate_check d = POk tt end.

Theorem walsnap_unmarshal_marshal s : walsnap_ok s -> walsnap_unmarshal (walsnap_marshal s) = POk s.
Proof.
  intros (H1 & H2 & H3).
  pose proof (varint_enc_length (ws_index s)) as L1.
  pose proof (varint_enc_length (ws_term s)) as L2.
  unfold walsnap_unmarshal, pb_unmarshal.
  destruct (fuel3 (walsnap_marshal s)) as [f Hf].
  { unfold walsnap_marshal. rewrite blen_cons, blen_app, blen_cons, blen_app. lia. }
  rewrite Hf. clear Hf.
  unfold walsnap_marshal.
  rewrite (pb_parse_varint_field confstate_check walsnap_schema _ 0 x08 1) by (try tag_tac; try reflexivity; assumption).
  rewrite (pb_parse_varint_field confstate_check walsnap_schema _ _ x10 2) by (try tag_tac; try reflexivity; assumption).
  destruct s as [ix tm [d|]]; cbn [ws_index ws_term ws_conf] in *.
  - destruct H3 as [Hd Hc].
    rewrite <- (app_nil_r d) at 2.
    rewrite (pb_parse_msg_field confstate_check walsnap_schema _ _ x1a 3) by (try tag_tac; try reflexivity; try assumption; unfold two56 in *; lia).
    rewrite pb_parse_nil.
    cbn [last_int last_bytes].
    repeat match goal with |- context [?a =? ?b] => let r := eval vm_compute in (a =? b) in change (a =? b) with r end.
    cbn iota. reflexivity.
  - rewrite pb_parse_nil.
    cbn [last_int last_bytes].
    repeat match goal with |- context [?a =? ?b] => let r := eval vm_compute in (a =? b) in change (a =? b) with r end.
    cbn iota. reflexivity.
Qed.

(* ------------------------------------------------------------------ snappb.Snapshot *)

Theorem snapfile_unmarshal_marshal c d :
  c < two32 -> blen d + 64 < two56 ->
  snapfile_unmarshal (snapfile_marshal (mksnapfile c (Some d))) = POk (mksnapfile c (Some d)).
Proof.
  intros Hc Hd.
  pose proof (varint_enc_length c) as L1.
  pose proof (varint_enc_length (blen d)) as L2.
  unfold snapfile_unmarshal, pb_unmarshal.
  destruct (fuel3 (snapfile_marshal (mksnapfile c (Some d)))) as [f Hf].
  { unfold snapfile_marshal. cbn [sf_crc sf_data]. rewrite blen_cons, blen_app, blen_cons, blen_app. lia. }
  rewrite Hf. clear Hf.
  unfold snapfile_marshal. cbn [sf_crc sf_data].
  rewrite (pb_parse_varint_field no_sub snapfile_schema _ 0 x08 1) by (try tag_tac; try reflexivity; unfold two32, two64 in *; lia).
  rewrite <- (app_nil_r d) at 2.
  rewrite (pb_parse_bytes_field no_sub snapfile_schema _ _ x12 2) by (try tag_tac; try reflexivity; unfold two56 in *; lia).
  rewrite pb_parse_nil.
  cbn [last_int last_bytes].
  repeat match goal with |- context [?a =? ?b] => let r := eval vm_compute in (a =? b) in change (a =? b) with r end.
  cbn iota. rewrite (N.mod_small c) by exact Hc. reflexivity.
Qed.
