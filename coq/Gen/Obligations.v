(* Translator obligations (DESIGN.md 2.3 (T)).  This file is static; Gen/LockSkel.v (the lock
   skeletons of the executors in VERIF_REPO/memdb) and Gen/Known.v (executors named by an open
   `skel:<command>` line of KNOWN_FINDINGS.txt) are REGENERATED into a scratch directory on every
   check run and are never committed; the check copies this file next to them and runs coqc
   there (-Q coq "" -Q <scratch> Gen). *)
Require Import List String Bool.
Import ListNotations.
Require Import Conc.TwoPLDefs Conc.Skel Conc.SkelOblig Conc.SkelSound Conc.EraseSim.
Require Import Gen.LockSkel Gen.Known.
Local Open Scope string_scope.

Eval vm_compute in (map report_line skels).
Eval vm_compute in (all_obligations known_open skels helper_skels shape_facts inplace_byte_writes escaping_byte_replies).

(* every access under the key's lock in a sufficient mode, two-phase sections, every exit path
   releases, no CheckTTL / lock call inside a held region, nothing unclassified *)
Goal obl_well_locked known_open skels = true. Proof. vm_compute. reflexivity. Qed.
(* locks are only requested with nothing held: one Lock/RLock or one *Multi per section *)
Goal obl_ordered_acquisition skels = true. Proof. vm_compute. reflexivity. Qed.
(* one section per executor, except for the listed non-atomic commands *)
Goal obl_sections known_open skels = true. Proof. vm_compute. reflexivity. Qed.
(* MSET, RENAME, LMOVE, SMOVE and the single-key commands exist and are single well-locked sections *)
Goal obl_atomic_present skels = true. Proof. vm_compute. reflexivity. Qed.
(* CheckTTL re-reads under the lock it takes; SetTTL/DelTTL do not lock *)
Goal obl_helpers helper_skels = true. Proof. vm_compute. reflexivity. Qed.
(* dblock.go: GetKeyPos = HashKey mod len, sortedLockPoses dedups and sorts, *Multi walk the
   sorted positions; concurrentmap.go: the key counter is updated atomically and Keys() does not
   index a slice sized from it *)
Goal obl_facts shape_facts = true. Proof. vm_compute. reflexivity. Qed.
(* replies are serialised after the lock is released and hand out the stored []byte: no executor
   and no value-object method may write into a stored byte slice in place (C05_aliasing_reply_refuted
   shows the torn read otherwise) *)
Goal obl_replies inplace_byte_writes escaping_byte_replies = true. Proof. vm_compute. reflexivity. Qed.
(* no empty alternative list (side condition of go_bodies_all_sound: goroutines started from
   deferred calls are covered too) *)
Goal forallb (fun p => neb (snd p)) (skels ++ helper_skels) = true. Proof. vm_compute. reflexivity. Qed.
(* nesting depth within the fuel of [erase] (side condition of C13_ordered_acquisition_sound) *)
Goal forallb (fun p => depth_ok 64 (snd p)) skels = true. Proof. vm_compute. reflexivity. Qed.
