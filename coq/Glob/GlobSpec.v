(* C17 — specification: the documented glob grammar and its language.
   ? one byte; * any run of bytes; [...] a byte set with a-b ranges and ^ negation;
   backslash escapes the next byte (outside and inside a class).
   A pattern that does not parse (dangling backslash, unterminated class, range without an
   upper bound) has no AST and therefore matches nothing. *)
Require Import Base.Bytes.

Inductive citem := CSingle (b : byte) | CRange (lo hi : byte).
Inductive item := ILit (b : byte) | IAny | IStar | IClass (neg : bool) (cs : list citem).
Definition pat := list item.

Definition bSTAR : byte := "*"%byte.
Definition bQM : byte := "?"%byte.
Definition bLBR : byte := "["%byte.
Definition bRBR : byte := "]"%byte.
Definition bBSL : byte := "\"%byte.
Definition bCARET : byte := "^"%byte.
Definition bDASH : byte := "-"%byte.

(* Class body (the bytes strictly between "[" / "[^" and the closing "]"), read left to
   right: "\c" is the single byte c; "a-b" (a not "]" or "\", b not "]") is a range;
   any other byte except "]" stands for itself. *)
Inductive ParsesClass : bytes -> list citem -> Prop :=
| PC_nil : ParsesClass [] []
| PC_esc c body cs :
    ParsesClass body cs -> ParsesClass (bBSL :: c :: body) (CSingle c :: cs)
| PC_range a b body cs :
    a <> bRBR -> a <> bBSL -> b <> bRBR ->
    ParsesClass body cs -> ParsesClass (a :: bDASH :: b :: body) (CRange a b :: cs)
| PC_single a body cs :
    a <> bRBR -> a <> bBSL ->
    (forall rest, body <> bDASH :: rest) ->
    ParsesClass body cs -> ParsesClass (a :: body) (CSingle a :: cs).

Inductive Parses : bytes -> pat -> Prop :=
| P_nil : Parses [] []
| P_star p a : Parses p a -> Parses (bSTAR :: p) (IStar :: a)
| P_any p a : Parses p a -> Parses (bQM :: p) (IAny :: a)
| P_esc c p a : Parses p a -> Parses (bBSL :: c :: p) (ILit c :: a)
| P_lit c p a :
    c <> bSTAR -> c <> bQM -> c <> bLBR -> c <> bBSL ->
    Parses p a -> Parses (c :: p) (ILit c :: a)
| P_class body cs p a :
    (forall rest, body <> bCARET :: rest) ->
    ParsesClass body cs -> Parses p a ->
    Parses (bLBR :: body ++ bRBR :: p) (IClass false cs :: a)
| P_nclass body cs p a :
    ParsesClass body cs -> Parses p a ->
    Parses (bLBR :: bCARET :: body ++ bRBR :: p) (IClass true cs :: a).

Definition citem_accepts (x : byte) (ci : citem) : bool :=
  match ci with
  | CSingle b => beqb b x
  | CRange lo hi => bleb lo x && bleb x hi
  end.

Definition class_accepts (neg : bool) (cs : list citem) (x : byte) : bool :=
  xorb (existsb (citem_accepts x) cs) neg.

(* The language of a pattern. *)
Inductive Matches : pat -> bytes -> Prop :=
| M_nil : Matches [] []
| M_lit b a s : Matches a s -> Matches (ILit b :: a) (b :: s)
| M_any x a s : Matches a s -> Matches (IAny :: a) (x :: s)
| M_star a s1 s2 : Matches a s2 -> Matches (IStar :: a) (s1 ++ s2)
| M_class neg cs x a s :
    class_accepts neg cs x = true -> Matches a s -> Matches (IClass neg cs :: a) (x :: s).

(* What KEYS must return for pattern p over the live keys. *)
Definition glob_matches (p s : bytes) : Prop := exists a, Parses p a /\ Matches a s.
