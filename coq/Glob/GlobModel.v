(* C17 — executable model of util.PattenMatch (util/util.go) as it stands after the
   "fix: PattenMatch" commit.  Same case analysis, same order of tests as the Go code:
   PattenMatch  <->  gmatch,   matchClass  <->  gclass.
   Structural recursion on the pattern; the star case recurses on the subject. *)
Require Import Base.Bytes Glob.GlobSpec.

Fixpoint gmatch (p s : bytes) {struct p} : bool :=
  match p with
  | [] => match s with [] => true | _ => false end
  | c :: p' =>
    if beqb c bSTAR then
      (fix star (s : bytes) : bool :=
         gmatch p' s || match s with [] => false | _ :: s' => star s' end) s
    else if beqb c bQM then
      match s with [] => false | _ :: s' => gmatch p' s' end
    else if beqb c bLBR then
      match s with
      | [] => false
      | x :: s' =>
        match p' with
        | c1 :: p'' => if beqb c1 bCARET then gclass p'' true false x s'
                       else gclass p' false false x s'
        | [] => false
        end
      end
    else if beqb c bBSL then
      match p', s with
      | c1 :: p'', x :: s' => beqb c1 x && gmatch p'' s'
      | _, _ => false
      end
    else
      match s with [] => false | x :: s' => beqb c x && gmatch p' s' end
  end
with gclass (p : bytes) (neg matched : bool) (x : byte) (s' : bytes) {struct p} : bool :=
  match p with
  | [] => false
  | a :: q =>
    if beqb a bRBR then (if xorb matched neg then gmatch q s' else false)
    else if beqb a bBSL then
      match q with
      | [] => false
      | c :: q' => gclass q' neg (matched || beqb c x) x s'
      end
    else
      match q with
      | d :: q' =>
        if beqb d bDASH then
          match q' with
          | [] => false
          | b :: q'' =>
            if beqb b bRBR then false
            else gclass q'' neg (matched || (bleb a x && bleb x b)) x s'
          end
        else gclass q neg (matched || beqb a x) x s'
      | [] => gclass q neg (matched || beqb a x) x s'
      end
  end.

(* KEYS: filter of the live keys (memdb/keys.go keysKey). *)
Definition keys_filter (p : bytes) (live : list bytes) : list bytes :=
  filter (gmatch p) live.
