(* C17 — the model matcher decides exactly the language of the documented grammar. *)
Require Import Base.Bytes Glob.GlobSpec Glob.GlobModel.

Fixpoint gstar (f : bytes -> bool) (s : bytes) : bool :=
  f s || match s with [] => false | _ :: s' => gstar f s' end.

Lemma gmatch_star p' s : gmatch (bSTAR :: p') s = gstar (gmatch p') s.
Proof.
  induction s as [|x s IH].
  - reflexivity.
  - change (gmatch (bSTAR :: p') (x :: s)) with (gmatch p' (x :: s) || gmatch (bSTAR :: p') s).
    rewrite IH. reflexivity.
Qed.

Lemma gstar_true f s : gstar f s = true <-> exists s1 s2, s = s1 ++ s2 /\ f s2 = true.
Proof.
  induction s as [|x s IH]; simpl.
  - rewrite orb_false_r. split.
    + intros H. exists [], []. auto.
    + intros (s1 & s2 & E & H). symmetry in E. apply app_eq_nil in E as [-> ->]. exact H.
  - rewrite orb_true_iff, IH. split.
    + intros [H | (s1 & s2 & -> & H)].
      * exists [], (x :: s). auto.
      * exists (x :: s1), s2. auto.
    + intros (s1 & s2 & E & H). destruct s1 as [|y s1]; simpl in E.
      * left. subst s2. exact H.
      * right. inversion E; subst. exists s1, s2. auto.
Qed.

Ltac bcase a b := destruct (beqb_spec a b); [subst|].

(* ---------- class body: the model's loop computes the parse ---------- *)

Lemma gclass_parsed body cs : ParsesClass body cs ->
  forall rest neg matched x s',
    gclass (body ++ bRBR :: rest) neg matched x s' =
    if xorb (matched || existsb (citem_accepts x) cs) neg then gmatch rest s' else false.
Proof.
  induction 1 as [|c body cs Hb IH|a b body cs Ha1 Ha2 Hb1 Hb IH|a body cs Ha1 Ha2 Hnd Hb IH];
    intros rest neg matched x s'.
  - simpl. rewrite orb_false_r. reflexivity.
  - cbn [app gclass]. change (beqb bBSL bRBR) with false. change (beqb bBSL bBSL) with true.
    cbn iota. rewrite IH. cbn [existsb citem_accepts]. rewrite orb_assoc. reflexivity.
  - cbn [app gclass].
    apply beqb_neq in Ha1, Ha2, Hb1. rewrite Ha1, Ha2. rewrite beqb_refl, Hb1.
    rewrite IH. cbn [existsb citem_accepts]. rewrite orb_assoc. reflexivity.
  - cbn [app gclass].
    apply beqb_neq in Ha1, Ha2. rewrite Ha1, Ha2.
    destruct body as [|d body'].
    + cbn [app]. change (beqb bRBR bDASH) with false. cbn iota.
      change (bRBR :: rest) with ([] ++ bRBR :: rest). rewrite IH.
      cbn [existsb citem_accepts]. rewrite orb_assoc. reflexivity.
    + cbn [app]. assert (beqb d bDASH = false) as Hd.
      { apply beqb_neq. intros ->. apply (Hnd body'). reflexivity. }
      rewrite Hd. change (d :: body' ++ bRBR :: rest) with ((d :: body') ++ bRBR :: rest).
      rewrite IH. cbn [existsb citem_accepts]. rewrite orb_assoc. reflexivity.
Qed.

(* ---------- completeness: every match of the grammar is found ---------- *)

Lemma gmatch_complete p a : Parses p a -> forall s, Matches a s -> gmatch p s = true.
Proof.
  induction 1 as [|p a Hp IH|p a Hp IH|c p a Hp IH|c p a H1 H2 H3 H4 Hp IH
                 |body cs p a Hnc Hb Hp IH|body cs p a Hb Hp IH]; intros s Hm.
  - inversion Hm; reflexivity.
  - inversion Hm; subst. rewrite gmatch_star. apply gstar_true. eauto.
  - inversion Hm; subst. cbn. apply IH; assumption.
  - inversion Hm; subst. cbn. rewrite beqb_refl. apply IH; assumption.
  - inversion Hm; subst. cbn [gmatch].
    apply beqb_neq in H1, H2, H3, H4. rewrite H1, H2, H3, H4, beqb_refl. apply IH; assumption.
  - inversion Hm as [| | | |neg' cs' x a' s' Hacc Hm']; subst.
    cbn [gmatch]. change (beqb bLBR bSTAR) with false. change (beqb bLBR bQM) with false.
    change (beqb bLBR bLBR) with true. cbn iota.
    destruct body as [|c1 body'].
    + cbn [app]. change (beqb bRBR bCARET) with false. cbn iota.
      change (bRBR :: p) with ([] ++ bRBR :: p). rewrite (gclass_parsed _ _ Hb).
      unfold class_accepts in Hacc. cbn [orb]. rewrite Hacc. apply IH; assumption.
    + cbn [app]. assert (beqb c1 bCARET = false) as Hc.
      { apply beqb_neq. intros ->. apply (Hnc body'). reflexivity. }
      rewrite Hc. change (c1 :: body' ++ bRBR :: p) with ((c1 :: body') ++ bRBR :: p).
      rewrite (gclass_parsed _ _ Hb). unfold class_accepts in Hacc. cbn [orb]. rewrite Hacc.
      apply IH; assumption.
  - inversion Hm as [| | | |neg' cs' x a' s' Hacc Hm']; subst.
    cbn [gmatch]. change (beqb bLBR bSTAR) with false. change (beqb bLBR bQM) with false.
    change (beqb bLBR bLBR) with true. cbn iota. rewrite beqb_refl.
    rewrite (gclass_parsed _ _ Hb). unfold class_accepts in Hacc. cbn [orb]. rewrite Hacc.
    apply IH; assumption.
Qed.

(* ---------- soundness: a true answer comes with a parse and a match ---------- *)

Definition sound_match (p : bytes) : Prop :=
  forall s, gmatch p s = true -> glob_matches p s.

Definition sound_class (p : bytes) : Prop :=
  forall neg matched x s', gclass p neg matched x s' = true ->
    exists body cs rest a,
      p = body ++ bRBR :: rest /\ ParsesClass body cs /\ Parses rest a /\ Matches a s' /\
      xorb (matched || existsb (citem_accepts x) cs) neg = true.

Lemma sound_both n : forall p, length p <= n -> sound_match p /\ sound_class p.
Proof.
  induction n as [|n IH]; intros p Hlen.
  - destruct p; [|simpl in Hlen; lia]. split.
    + intros [|x s] H; simpl in H; [|discriminate]. exists []. split; constructor.
    + intros neg matched x s' H. simpl in H. discriminate.
  - destruct p as [|c p']; [apply (IH []); simpl; lia|].
    simpl in Hlen. assert (length p' <= n) as Hlen' by lia.
    destruct (IH p' Hlen') as [IHm IHc].
    split.
    + (* gmatch *)
      intros s H.
      bcase c bSTAR.
      { rewrite gmatch_star in H. apply gstar_true in H as (s1 & s2 & -> & H).
        apply IHm in H as (a & Hp & Hm). exists (IStar :: a). split; constructor; assumption. }
      bcase c bQM.
      { cbn in H. destruct s as [|x s']; [discriminate|].
        apply IHm in H as (a & Hp & Hm). exists (IAny :: a). split; constructor; assumption. }
      bcase c bLBR.
      { cbn [gmatch] in H. change (beqb bLBR bSTAR) with false in H.
        change (beqb bLBR bQM) with false in H. change (beqb bLBR bLBR) with true in H.
        cbn iota in H. destruct s as [|x s']; [discriminate|].
        destruct p' as [|c1 p'']; [discriminate|].
        bcase c1 bCARET.
        - try rewrite beqb_refl in H.
          assert (length p'' <= n) as Hl2 by (simpl in Hlen'; lia).
          destruct (IH p'' Hl2) as [_ IHc2].
          apply IHc2 in H as (body & cs & rest & a & -> & Hb & Hp & Hm & Hx).
          exists (IClass true cs :: a). split.
          + apply P_nclass; assumption.
          + apply M_class; [|assumption]. unfold class_accepts. simpl in Hx. exact Hx.
        - pose proof n0 as N0'. apply beqb_neq in N0'. try rewrite N0' in H.
          apply IHc in H as (body & cs & rest & a & E & Hb & Hp & Hm & Hx).
          rewrite E. exists (IClass false cs :: a). split.
          + apply P_class; try assumption. intros r Hr. subst body. simpl in E. inversion E; subst.
            congruence.
          + apply M_class; [|assumption]. unfold class_accepts. simpl in Hx. exact Hx. }
      bcase c bBSL.
      { cbn [gmatch] in H. change (beqb bBSL bSTAR) with false in H.
        change (beqb bBSL bQM) with false in H. change (beqb bBSL bLBR) with false in H.
        change (beqb bBSL bBSL) with true in H. cbn iota in H.
        destruct p' as [|c1 p'']; [discriminate|]. destruct s as [|x s']; [discriminate|].
        apply andb_true_iff in H as [H1 H2]. apply beqb_eq in H1; subst.
        assert (length p'' <= n) as Hl2 by (simpl in Hlen'; lia).
        destruct (IH p'' Hl2) as [IHm2 _].
        apply IHm2 in H2 as (a & Hp & Hm). exists (ILit x :: a). split; constructor; assumption. }
      { cbn [gmatch] in H.
        pose proof n0 as N0. pose proof n1 as N1. pose proof n2 as N2. pose proof n3 as N3.
        apply beqb_neq in N0, N1, N2, N3. try rewrite N0 in H. try rewrite N1 in H. try rewrite N2 in H. try rewrite N3 in H.
        destruct s as [|x s']; [discriminate|].
        apply andb_true_iff in H as [H1 H2]. apply beqb_eq in H1; subst.
        apply IHm in H2 as (a & Hp & Hm). exists (ILit x :: a). split; constructor; assumption. }
    + (* gclass *)
      intros neg matched x s' H. cbn [gclass] in H.
      bcase c bRBR.
      { try rewrite beqb_refl in H.
        destruct (xorb matched neg) eqn:Hx; [|discriminate].
        apply IHm in H as (a & Hp & Hm).
        exists [], [], p', a. repeat split; try assumption; try constructor.
        simpl. rewrite orb_false_r. exact Hx. }
      pose proof n0 as N0. apply beqb_neq in N0. try rewrite N0 in H.
      bcase c bBSL.
      { change (beqb bBSL bBSL) with true in H. cbn iota in H.
        destruct p' as [|c1 q']; [discriminate|].
        assert (length q' <= n) as Hl2 by (simpl in Hlen'; lia).
        destruct (IH q' Hl2) as [_ IHc2].
        apply IHc2 in H as (body & cs & rest & a & -> & Hb & Hp & Hm & Hx).
        exists (bBSL :: c1 :: body), (CSingle c1 :: cs), rest, a.
        repeat split; try assumption; [constructor; assumption|].
        cbn [existsb citem_accepts]. rewrite orb_assoc. exact Hx. }
      pose proof n1 as N1. apply beqb_neq in N1. try rewrite N1 in H.
      destruct p' as [|d q'].
      { simpl in H. discriminate. }
      bcase d bDASH.
      { try rewrite beqb_refl in H. destruct q' as [|b q'']; [discriminate|].
        bcase b bRBR. { try rewrite beqb_refl in H. discriminate. }
        pose proof n2 as N2. apply beqb_neq in N2. try rewrite N2 in H.
        assert (length q'' <= n) as Hl2 by (simpl in Hlen'; lia).
        destruct (IH q'' Hl2) as [_ IHc2].
        apply IHc2 in H as (body & cs & rest & a & -> & Hb & Hp & Hm & Hx).
        exists (c :: bDASH :: b :: body), (CRange c b :: cs), rest, a.
        repeat split; try assumption; [constructor; assumption|].
        cbn [existsb citem_accepts]. rewrite orb_assoc. exact Hx. }
      { pose proof n2 as N2. apply beqb_neq in N2. try rewrite N2 in H.
        apply IHc in H as (body & cs & rest & a & E & Hb & Hp & Hm & Hx).
        exists (c :: body), (CSingle c :: cs), rest, a.
        repeat split; try assumption.
        - simpl. rewrite E. reflexivity.
        - apply PC_single; try assumption. intros r Hr. subst body. simpl in E.
          inversion E; subst. congruence.
        - cbn [existsb citem_accepts]. rewrite orb_assoc. exact Hx. }
Qed.

Lemma gmatch_sound p s : gmatch p s = true -> glob_matches p s.
Proof. apply (sound_both (length p) p (le_n _)). Qed.

Theorem gmatch_correct p s : gmatch p s = true <-> glob_matches p s.
Proof.
  split.
  - apply gmatch_sound.
  - intros (a & Hp & Hm). exact (gmatch_complete p a Hp s Hm).
Qed.

(* the grammar is unambiguous: a pattern has at most one AST *)
Lemma ParsesClass_split body1 cs1 rest1 body2 cs2 rest2 :
  ParsesClass body1 cs1 -> ParsesClass body2 cs2 ->
  body1 ++ bRBR :: rest1 = body2 ++ bRBR :: rest2 ->
  body1 = body2 /\ cs1 = cs2 /\ rest1 = rest2.
Proof.
  intros H1; revert body2 cs2 rest2.
  induction H1 as [|c body cs Hb IH|a b body cs Ha1 Ha2 Hb1 Hb IH|a body cs Ha1 Ha2 Hnd Hb IH];
    intros body2 cs2 rest2 H2 E;
    inversion H2 as [|c' bd' cs' Hb'|a' b' bd' cs' Ha1' Ha2' Hb1' Hb'|a' bd' cs' Ha1' Ha2' Hnd' Hb'];
    subst; simpl in E; inversion E; subst; try congruence; auto;
    try (match goal with
         | Hq : ParsesClass ?b2 _, E' : _ ++ _ = ?b2 ++ _ |- _ =>
             destruct (IH _ _ _ Hq E') as (-> & -> & ->); auto
         end);
    try (exfalso; match goal with Hn : forall rest, _ <> bDASH :: rest |- _ => eapply Hn; reflexivity end).
  - exfalso. destruct bd' as [|d bd'']; simpl in H1; inversion H1; subst. eapply Hnd'; reflexivity.
  - exfalso. destruct body as [|d body']; simpl in H1; inversion H1; subst. eapply Hnd; reflexivity.
Qed.

Lemma Parses_functional p a1 : Parses p a1 -> forall a2, Parses p a2 -> a1 = a2.
Proof.
  induction 1 as [|p a Hp IH|p a Hp IH|c p a Hp IH|c p a H1 H2 H3 H4 Hp IH
                 |body cs p a Hnc Hb Hp IH|body cs p a Hb Hp IH]; intros a2 Hq.
  - inversion Hq; reflexivity.
  - inversion Hq; subst; try congruence. f_equal; auto.
  - inversion Hq; subst; try congruence. f_equal; auto.
  - inversion Hq; subst; try congruence. f_equal; auto.
  - inversion Hq; subst; try congruence. f_equal; auto.
  - inversion Hq as [| | | | |body2 cs2 p2 a2' Hnc2 Hb2 Hp2 E|body2 cs2 p2 a2' Hb2 Hp2 E]; subst; try congruence.
    + destruct (ParsesClass_split _ _ _ _ _ _ Hb Hb2 (eq_sym E)) as (-> & -> & ->).
      f_equal. auto.
    + exfalso. destruct body as [|c body']; simpl in E; inversion E; subst.
      eapply Hnc; reflexivity.
  - inversion Hq as [| | | | |body2 cs2 p2 a2' Hnc2 Hb2 Hp2 E|body2 cs2 p2 a2' Hb2 Hp2 E]; subst; try congruence.
    + exfalso. destruct body2 as [|c body']; simpl in E; inversion E; subst.
      eapply Hnc2; reflexivity.
    + inversion E as [E']. destruct (ParsesClass_split _ _ _ _ _ _ Hb Hb2 (eq_sym E')) as (-> & -> & ->).
      f_equal. auto.
Qed.

(* KEYS returns exactly the live keys in the language of the pattern *)
Lemma keys_filter_exact p live k :
  In k (keys_filter p live) <-> In k live /\ glob_matches p k.
Proof. unfold keys_filter. rewrite filter_In, gmatch_correct. reflexivity. Qed.
