(* C19 — the concurrency argument, at the level of the model.

   What the Go code guarantees (checked on the source by `harness_pubsub lockcheck`, see
   checks/c19.py): every read or write of a channel's subscriber table (`conns`, `numSubs`)
   — in Subscribe, UnSubscribe and in Send *including its network writes and its pruning* —
   happens while that channel's `rw` lock is held exclusively, and the channel object of a name
   is looked up / created / retired under the table lock.  Hence the operations on ONE channel
   exclude each other in time: each takes effect at one instant between its invocation and its
   response.  Operations on different channels are not ordered by any lock.

   What is proved here:
   (1) channel_projection — what a connection receives for a channel, and who is subscribed to
       it, depends only on the operations on that channel (and on connections closing), in
       their relative order.  So unordered operations on other channels cannot influence the
       per-channel observations, and it is enough to consider the operations of one channel.
   (2) atomic_ops_linearizable — for any concurrent history in which every operation takes
       effect atomically at one point between its invocation and its response (the hypothesis
       hist_wf; this is exactly what (the lock discipline above) gives for the operations of one
       channel), the result is the result of the sequential program that lists the operations in
       the order of those points, and that order respects real time: an operation that returned
       before another was invoked precedes it.
   Not modelled (level "partial"): how the kernel reports a failed TCP write (the model has a
   connection either open or closed), goroutine scheduling, the Go memory model. *)
Require Import Base.Bytes Base.Reply PubSub.PubSubSpec PubSub.PubSubModel PubSub.PubSubProofs.

(* ---------------------------------------------------------------- (1) projection to a channel *)

Definition relevant (ch : chan) (o : op) : bool :=
  match o with
  | Subscribe _ ch' | Unsubscribe _ ch' | Publish _ ch' _ => bytes_eqb ch' ch
  | Close _ | Disconnect _ => true
  end.

Definition spec_rel (ch : chan) (s1 s2 : spec) : Prop :=
  (forall c, s_sub s1 c ch = s_sub s2 c ch) /\ (forall c, s_closed s1 c = s_closed s2 c).

Lemma spec_rel_step ch s1 s2 o : spec_rel ch s1 s2 -> spec_rel ch (spec_step s1 o) (spec_step s2 o).
Proof.
  intros [Hs Hc]. destruct o; cbn [spec_step]; split; cbn [s_sub s_closed]; intros; try apply Hs; try apply Hc.
  - rewrite Hs. reflexivity.
  - rewrite Hs. reflexivity.
  - rewrite Hc. reflexivity.
  - rewrite Hc. reflexivity.
Qed.

Lemma spec_rel_skip ch s1 s2 o :
  relevant ch o = false -> spec_rel ch s1 s2 -> spec_rel ch (spec_step s1 o) s2.
Proof.
  intros Hr [Hs Hc]. destruct o; cbn [relevant] in Hr; try discriminate; cbn [spec_step]; split;
    cbn [s_sub s_closed]; intros; try apply Hs; try apply Hc.
  - rewrite (bytes_eqb_sym ch ch0), Hr, andb_false_r. apply Hs.
  - rewrite (bytes_eqb_sym ch ch0), Hr, andb_false_r. apply Hs.
Qed.

Lemma spec_rel_subscribed ch pre1 pre2 c :
  spec_rel ch (spec_after pre1) (spec_after pre2) -> subscribed pre1 c ch = subscribed pre2 c ch.
Proof. intros [Hs Hc]. unfold subscribed. rewrite Hs, Hc. reflexivity. Qed.

Lemma spec_rel_filter ch pre : spec_rel ch (spec_after pre) (spec_after (filter (relevant ch) pre)).
Proof.
  induction pre as [|o pre IH] using rev_ind; [split; reflexivity|].
  rewrite filter_app. cbn [filter]. destruct (relevant ch o) eqn:R.
  - rewrite !spec_after_snoc. apply spec_rel_step. exact IH.
  - rewrite app_nil_r, spec_after_snoc. apply spec_rel_skip; assumption.
Qed.

Lemma expected_from_projection c ch p : forall pre1 pre2,
  spec_rel ch (spec_after pre1) (spec_after pre2) ->
  expected_from pre1 p c ch = expected_from pre2 (filter (relevant ch) p) c ch.
Proof.
  induction p as [|o p IH]; intros pre1 pre2 H; [reflexivity|].
  cbn [filter expected_from]. destruct (relevant ch o) eqn:R.
  - cbn [expected_from]. rewrite (IH (pre1 ++ [o]) (pre2 ++ [o])).
    + f_equal. destruct o; try reflexivity. rewrite (spec_rel_subscribed ch pre1 pre2 c H). reflexivity.
    + rewrite !spec_after_snoc. apply spec_rel_step. exact H.
  - rewrite (IH (pre1 ++ [o]) pre2).
    + destruct o; cbn [relevant] in R; try discriminate; try reflexivity.
      rewrite R. reflexivity.
    + rewrite spec_after_snoc. apply spec_rel_skip; assumption.
Qed.

Lemma expected_from_spec_rel c ch p : forall pre1 pre2,
  spec_rel ch (spec_after pre1) (spec_after pre2) ->
  expected_from pre1 p c ch = expected_from pre2 p c ch.
Proof.
  induction p as [|o p IH]; intros pre1 pre2 H; [reflexivity|]. cbn [expected_from].
  rewrite (IH (pre1 ++ [o]) (pre2 ++ [o])).
  - f_equal. destruct o; try reflexivity. rewrite (spec_rel_subscribed ch pre1 pre2 c H). reflexivity.
  - rewrite !spec_after_snoc. apply spec_rel_step. exact H.
Qed.

Lemma expected_from_app c ch p1 : forall pre0 p2,
  expected_from pre0 (p1 ++ p2) c ch = expected_from pre0 p1 c ch ++ expected_from (pre0 ++ p1) p2 c ch.
Proof.
  induction p1 as [|x p1 IH]; intros pre0 p2.
  - rewrite app_nil_r. reflexivity.
  - cbn [app expected_from]. rewrite IH, <- !app_assoc. reflexivity.
Qed.

(* SUBSCRIBE of a channel the connection is already subscribed to — the same channel named twice in
   one command (a a, a b a), or again in a later command — changes what nobody receives: every
   delivery, to every connection, for every channel, is the same as without it *)
Theorem resubscribe_no_effect pre c ch q c' ch' :
  subscribed pre c ch = true ->
  chan_msgs ch' (outq (run init (pre ++ Subscribe c ch :: q)) c') =
  chan_msgs ch' (outq (run init (pre ++ q)) c').
Proof.
  intros Hs. rewrite !delivery_exact. unfold expected. rewrite !expected_from_app. f_equal.
  cbn [expected_from app]. change (Subscribe c ch :: q) with ([Subscribe c ch] ++ q).
  cbn [app]. cbn [expected_from]. cbn [app].
  apply expected_from_spec_rel. rewrite spec_after_snoc.
  unfold subscribed in Hs. apply andb_true_iff in Hs as [Hs _].
  split; cbn [spec_step s_sub s_closed]; intros x; [|reflexivity].
  destruct (N.eqb_spec x c) as [->|]; [|reflexivity].
  destruct (bytes_eqb_spec ch' ch) as [->|]; [|reflexivity]. cbn. symmetry. exact Hs.
Qed.

(* who is subscribed to ch depends only on the operations on ch and on closes *)
Theorem subscribed_projection pre c ch :
  subscribed pre c ch = subscribed (filter (relevant ch) pre) c ch.
Proof. apply spec_rel_subscribed. apply spec_rel_filter. Qed.

(* what c receives for ch depends only on the operations on ch and on closes *)
Theorem channel_projection p c ch :
  chan_msgs ch (outq (run init p) c) = chan_msgs ch (outq (run init (filter (relevant ch) p)) c).
Proof.
  rewrite !delivery_exact. unfold expected. apply expected_from_projection. split; reflexivity.
Qed.

(* ---------------------------------------------------------------- (2) atomic steps *)

(* a concurrent history over operations numbered by position in [ops]:
   invocation, the instant the operation takes effect, response *)
Inductive event := EInv (i : nat) | ETake (i : nat) | ERes (i : nat).

Definition before {A} (a b : A) (h : list A) : Prop := exists h1 h2 h3, h = h1 ++ a :: h2 ++ b :: h3.

Record hist_wf (h : list event) : Prop := {
  hw_nodup : NoDup h;                                                   (* each event once *)
  hw_inv : forall i, In (ETake i) h -> before (EInv i) (ETake i) h;     (* effect after invocation *)
  hw_res : forall i, In (ERes i) h -> before (ETake i) (ERes i) h }.    (* effect before response *)

Definition op_at (ops : list op) (i : nat) : list op :=
  match nth_error ops i with Some o => [o] | None => [] end.

(* the shared state moves only at the effect instants, by one model step each *)
Definition exec_hist (ops : list op) (st : state) (h : list event) : state :=
  fold_left (fun st e => match e with ETake i => run st (op_at ops i) | _ => st end) h st.

(* the order of the effect instants *)
Fixpoint lin (h : list event) : list nat :=
  match h with
  | [] => []
  | ETake i :: h' => i :: lin h'
  | _ :: h' => lin h'
  end.

Definition seq_of (ops : list op) (order : list nat) : list op := flat_map (op_at ops) order.

Lemma lin_app h1 h2 : lin (h1 ++ h2) = lin h1 ++ lin h2.
Proof. induction h1 as [|[i|i|i] h1 IH]; cbn; rewrite ?IH; reflexivity. Qed.

Lemma lin_In h i : In i (lin h) <-> In (ETake i) h.
Proof.
  induction h as [|[j|j|j] h IH]; cbn.
  - tauto.
  - rewrite IH. split; [intros H; right; exact H|intros [H|H]; [discriminate|exact H]].
  - rewrite IH. split; [intros [->|H]; [left; reflexivity|right; exact H]|].
    intros [H|H]; [inversion H; left; reflexivity|right; exact H].
  - rewrite IH. split; [intros H; right; exact H|intros [H|H]; [discriminate|exact H]].
Qed.

Lemma lin_NoDup h : NoDup h -> NoDup (lin h).
Proof.
  induction h as [|[j|j|j] h IH]; cbn; intros ND; inversion ND as [|? ? Hn ND']; subst;
    try (apply IH; exact ND'); [constructor|].
  constructor; [|apply IH; exact ND']. rewrite lin_In. exact Hn.
Qed.

Lemma exec_hist_lin ops h : forall st, exec_hist ops st h = run st (seq_of ops (lin h)).
Proof.
  induction h as [|[j|j|j] h IH]; intros st; cbn [exec_hist fold_left lin seq_of flat_map].
  - reflexivity.
  - apply IH.
  - rewrite run_app. apply IH.
  - apply IH.
Qed.

Lemma split_unique {A} (x : A) l1 : forall l2 m1 m2,
  NoDup (l1 ++ x :: l2) -> l1 ++ x :: l2 = m1 ++ x :: m2 -> l1 = m1 /\ l2 = m2.
Proof.
  induction l1 as [|a l1 IH]; intros l2 m1 m2 ND E.
  - destruct m1 as [|b m1]; cbn in E.
    + inversion E. split; reflexivity.
    + exfalso. inversion E; subst. cbn in ND. inversion ND as [|? ? Hn _]. apply Hn.
      apply in_or_app. right. left. reflexivity.
  - destruct m1 as [|b m1]; cbn in E.
    + exfalso. inversion E; subst. cbn in ND. inversion ND as [|? ? Hn _]. apply Hn.
      apply in_or_app. right. left. reflexivity.
    + inversion E; subst. cbn in ND. inversion ND as [|? ? _ ND'].
      destruct (IH l2 m1 m2 ND' H1) as [-> ->]. split; reflexivity.
Qed.

Lemma before_trans {A} (a b c : A) h : NoDup h -> before a b h -> before b c h -> before a c h.
Proof.
  intros ND (h1 & h2 & h3 & E1) (k1 & k2 & k3 & E2).
  assert (E : (h1 ++ a :: h2) ++ b :: h3 = k1 ++ b :: k2 ++ c :: k3).
  { rewrite <- app_assoc. cbn. rewrite <- E1. exact E2. }
  assert (ND2 : NoDup ((h1 ++ a :: h2) ++ b :: h3)).
  { rewrite <- app_assoc. cbn. rewrite <- E1. exact ND. }
  destruct (split_unique b _ _ _ _ ND2 E) as [_ E3].
  exists h1, (h2 ++ b :: k2), k3. rewrite E1, E3, <- app_assoc. reflexivity.
Qed.

Lemma before_In_l {A} (a b : A) h : before a b h -> In a h.
Proof. intros (h1 & h2 & h3 & ->). apply in_or_app. right. left. reflexivity. Qed.

Lemma before_In_r {A} (a b : A) h : before a b h -> In b h.
Proof.
  intros (h1 & h2 & h3 & ->). apply in_or_app. right. right. apply in_or_app. right. left. reflexivity.
Qed.

Theorem atomic_ops_linearizable ops st h :
  hist_wf h ->
  (* same final state — tables, every output queue, every PUBLISH reply — as the sequential run *)
  exec_hist ops st h = run st (seq_of ops (lin h))
  (* of each operation that took effect, once *)
  /\ NoDup (lin h) /\ (forall i, In i (lin h) <-> In (ETake i) h)
  (* in an order that respects real time *)
  /\ (forall i j, before (ERes i) (EInv j) h -> In (ETake j) h -> before i j (lin h)).
Proof.
  intros [ND Hinv Hres]. split; [apply exec_hist_lin|]. split; [apply lin_NoDup; exact ND|].
  split; [intros i; apply lin_In|].
  intros i j Hij Hj.
  pose proof (Hres i (before_In_l _ _ _ Hij)) as H1.
  pose proof (Hinv j Hj) as H2.
  pose proof (before_trans _ _ _ _ ND (before_trans _ _ _ _ ND H1 Hij) H2) as (h1 & h2 & h3 & E).
  exists (lin h1), (lin h2), (lin h3). rewrite E, lin_app. cbn [lin]. rewrite lin_app. reflexivity.
Qed.

(* the per-channel reading of the two theorems together: in a history of the operations of one
   channel (and closes), each atomic, every connection received for that channel exactly what the
   specification prescribes for the sequential order of the effect instants *)
Corollary atomic_channel_deliveries ops h c ch :
  hist_wf h ->
  chan_msgs ch (outq (exec_hist ops init h) c) = expected (seq_of ops (lin h)) c ch.
Proof. intros H. rewrite exec_hist_lin. apply delivery_exact. Qed.
