(* C19 — specification side: what "subscribed at that moment" and "the messages a
   connection must have received" mean, stated from the program text alone.  Nothing here
   mentions the subscriber table of the implementation (PubSubModel.v). *)
Require Import Base.Bytes Base.Reply.

Definition conn := N.          (* a client connection (never reused: a reconnect is a new one) *)
Definition chan := bytes.      (* a channel name: any byte string *)

Inductive op :=
| Subscribe (c : conn) (ch : chan)              (* SUBSCRIBE ch on connection c *)
| Unsubscribe (c : conn) (ch : chan)            (* ChanMap.UnSubscribe for c's subscription to ch *)
| Publish (p : conn) (ch : chan) (m : bytes)    (* PUBLISH ch m on connection p *)
| Close (c : conn)          (* c is dead (writes to it fail); the server has not reaped it yet *)
| Disconnect (c : conn).    (* c is closed and the server released what it had registered *)

(* ---------------------------------------------------------------- who is subscribed *)

(* the abstract subscription relation, maintained from the operations alone *)
Record spec := mkSpec { s_sub : conn -> chan -> bool; s_closed : conn -> bool }.

Definition spec_init : spec := mkSpec (fun _ _ => false) (fun _ => false).

Definition spec_step (s : spec) (o : op) : spec :=
  match o with
  | Subscribe c ch =>
    mkSpec (fun c' ch' => if N.eqb c' c && bytes_eqb ch' ch then true else s_sub s c' ch') (s_closed s)
  | Unsubscribe c ch =>
    mkSpec (fun c' ch' => if N.eqb c' c && bytes_eqb ch' ch then false else s_sub s c' ch') (s_closed s)
  | Publish _ _ _ => s
  | Close c | Disconnect c =>
    mkSpec (s_sub s) (fun c' => if N.eqb c' c then true else s_closed s c')
  end.

Definition spec_after (p : list op) : spec := fold_left spec_step p spec_init.

(* c is subscribed to ch at the moment after the operations of [pre] happened: it is still
   open, and its last SUBSCRIBE/UNSUBSCRIBE concerning ch was a SUBSCRIBE *)
Definition subscribed (pre : list op) (c : conn) (ch : chan) : bool :=
  s_sub (spec_after pre) c ch && negb (s_closed (spec_after pre) c).

(* ---------------------------------------------------------------- what must be received *)

(* the payloads published to ch while c was subscribed to it, in publish order;
   [pre] is what happened before [p] *)
Fixpoint expected_from (pre p : list op) (c : conn) (ch : chan) : list bytes :=
  match p with
  | [] => []
  | o :: p' =>
    (match o with
     | Publish _ ch' m => if bytes_eqb ch' ch && subscribed pre c ch then [m] else []
     | _ => []
     end) ++ expected_from (pre ++ [o]) p' c ch
  end.

Definition expected (p : list op) (c : conn) (ch : chan) : list bytes := expected_from [] p c ch.

(* ---------------------------------------------------------------- what is on the wire *)

Definition msg_tag : bytes := ["m"; "e"; "s"; "s"; "a"; "g"; "e"]%byte.
Definition sub_tag : bytes := ["s"; "u"; "b"; "s"; "c"; "r"; "i"; "b"; "e"]%byte.

(* the push a subscriber receives: *3 $7 message $<ch> $<payload>, all bulk strings *)
Definition msg_reply (ch : chan) (m : bytes) : reply := RArr [RBulk msg_tag; RBulk ch; RBulk m].
(* the confirmation of SUBSCRIBE ch *)
Definition sub_reply (ch : chan) : reply := RArr [RBulk sub_tag; RBulk ch; RInt 1].

(* the payload of r if r is a message push for channel ch *)
Definition msg_of (ch : chan) (r : reply) : option bytes :=
  match r with
  | RArr (RBulk t :: RBulk ch' :: RBulk m :: nil) =>
    if bytes_eqb t msg_tag && bytes_eqb ch' ch then Some m else None
  | _ => None
  end.

(* a received reply sequence restricted to the messages of channel ch *)
Fixpoint chan_msgs (ch : chan) (q : list reply) : list bytes :=
  match q with
  | [] => []
  | r :: q' => match msg_of ch r with Some m => m :: chan_msgs ch q' | None => chan_msgs ch q' end
  end.
