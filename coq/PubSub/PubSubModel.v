(* C19 — executable model of the repaired memdb/pubsub_struct.go + memdb/pubsub.go
   (+ the per-connection context of server.Manager.Handle).

   ChanMap.item   : channel name -> *Chan            ~ tab : chan -> option chanrec
   Chan.conns     : map uuid -> net.Conn             ~ conns : list (id * conn), insertion order
                    (Go ranges over it in random order; the order of writes to *different*
                     connections is not observable on any single connection)
   Chan.numSubs   : int                              ~ numSubs : Z (kept, not derived)
   uuid.NewString : fresh id                         ~ nextid counter
   net.Conn.Write : appends to what the client reads ~ outq c (replies to c's own commands and
                    pushes, in the order the server wrote them)
   a connection whose Write fails                    ~ member of closed
   Every operation below is one critical section of the Go code (table lock / channel lock);
   PubSubProofs.v states what that atomicity is used for. No proofs in this file. *)
Require Import Base.Bytes Base.Reply PubSub.PubSubSpec.
Local Open Scope Z_scope.

Record chanrec := mkChan { conns : list (N * conn); numSubs : Z }.

Record state := mkState {
  tab : chan -> option chanrec;
  nextid : N;
  outq : conn -> list reply;
  closed : list conn }.

Definition init : state := mkState (fun _ => None) 0%N (fun _ => []) [].

Definition upd_tab (t : chan -> option chanrec) (ch : chan) (v : option chanrec) : chan -> option chanrec :=
  fun ch' => if bytes_eqb ch' ch then v else t ch'.

(* conn.Write(r.ToBytes()) *)
Definition push (q : conn -> list reply) (c : conn) (r : reply) : conn -> list reply :=
  fun c' => if N.eqb c' c then q c' ++ [r] else q c'.

Definition is_closed (st : state) (c : conn) : bool := existsb (N.eqb c) (closed st).

Definition has_conn (c : conn) (l : list (N * conn)) : bool := existsb (fun e => N.eqb (snd e) c) l.

(* ChanMap.Subscribe: get or Create the channel; if the connection is registered already keep
   that entry, else register it under a fresh id and count it *)
Definition subscribe_tab (st : state) (c : conn) (ch : chan) : (chan -> option chanrec) * N :=
  let cr := match tab st ch with Some cr => cr | None => mkChan [] 0 end in
  if has_conn c (conns cr) then (upd_tab (tab st) ch (Some cr), nextid st)
  else (upd_tab (tab st) ch (Some (mkChan (conns cr ++ [(nextid st, c)]) (numSubs cr + 1))),
        N.succ (nextid st)).

(* delete(channel.conns, id) *)
Fixpoint remove_id (id : N) (l : list (N * conn)) : list (N * conn) :=
  match l with
  | [] => []
  | e :: r => if N.eqb (fst e) id then r else e :: remove_id id r
  end.

(* ChanMap.UnSubscribe(key, ID) on an existing channel, ID = the id under which c is registered
   (none: the call finds no entry); the channel is retired when its count is 0 *)
Definition unsub_chan (c : conn) (cr : chanrec) : option chanrec :=
  let cr' := match find (fun e => N.eqb (snd e) c) (conns cr) with
             | Some e => mkChan (remove_id (fst e) (conns cr)) (numSubs cr - 1)
             | None => cr
             end in
  if numSubs cr' =? 0 then None else Some cr'.

(* the writes of Send, one per table entry *)
Definition deliver (q : conn -> list reply) (rcv : list conn) (r : reply) : conn -> list reply :=
  fold_left (fun q c => push q c r) rcv q.

(* ChanMap.Send + the integer reply of PUBLISH *)
Definition publish (st : state) (p : conn) (ch : chan) (m : bytes) : state :=
  match tab st ch with
  | None => mkState (tab st) (nextid st) (push (outq st) p (RInt 0)) (closed st)
  | Some cr =>
    let ok := filter (fun e => negb (is_closed st (snd e))) (conns cr) in
    let failed := Z.of_nat (length (conns cr)) - Z.of_nat (length ok) in
    let cr' := mkChan ok (numSubs cr - failed) in
    let q := deliver (outq st) (map snd ok) (msg_reply ch m) in
    mkState (upd_tab (tab st) ch (Some cr')) (nextid st) (push q p (RInt (numSubs cr'))) (closed st)
  end.

Definition step (st : state) (o : op) : state :=
  match o with
  | Subscribe c ch =>
    let (t, n) := subscribe_tab st c ch in
    mkState t n (push (outq st) c (sub_reply ch)) (closed st)
  | Unsubscribe c ch =>
    mkState (match tab st ch with
             | None => tab st
             | Some cr => upd_tab (tab st) ch (unsub_chan c cr)
             end) (nextid st) (outq st) (closed st)
  | Publish p ch m => publish st p ch m
  | Close c => mkState (tab st) (nextid st) (outq st) (c :: closed st)
  | Disconnect c =>
    (* conn.Close(); the connection context ends; one UnSubscribe per channel it subscribed *)
    mkState (fun ch => match tab st ch with None => None | Some cr => unsub_chan c cr end)
            (nextid st) (outq st) (c :: closed st)
  end.

Definition run (st : state) (p : list op) : state := fold_left step p st.

(* ---------------------------------------------------------------- for the differential run *)

(* the SUBSCRIBE confirmation carries a subscription count the property does not fix:
   compare it up to that integer; everything else literally *)
Definition is_sub_confirm (r : reply) : option chan :=
  match r with
  | RArr (RBulk t :: RBulk ch :: RInt _ :: nil) => if bytes_eqb t sub_tag then Some ch else None
  | _ => None
  end.

Fixpoint reply_eqb (a b : reply) {struct a} : bool :=
  match a, b with
  | RSimple x, RSimple y | RErr x, RErr y | RBulk x, RBulk y | RPlain x, RPlain y => bytes_eqb x y
  | RInt x, RInt y => Z.eqb x y
  | RNil, RNil | RNilArr, RNilArr => true
  | RArr l, RArr l' =>
    (fix go (l l' : list reply) : bool :=
       match l, l' with
       | [], [] => true
       | x :: r, y :: r' => reply_eqb x y && go r r'
       | _, _ => false
       end) l l'
  | _, _ => false
  end.

Definition reply_match (model observed : reply) : bool :=
  match is_sub_confirm model, is_sub_confirm observed with
  | Some c1, Some c2 => bytes_eqb c1 c2
  | _, _ => reply_eqb model observed
  end.

Fixpoint queue_match (model observed : list reply) : bool :=
  match model, observed with
  | [], [] => true
  | x :: r, y :: r' => reply_match x y && queue_match r r'
  | _, _ => false
  end.

(* SUBSCRIBE with k > 1 channels: the code answers one flat array of 3k elements, Redis answers
   k arrays of 3.  The property does not fix the framing of the confirmation either: a flat
   array of confirmation triples is read as the sequence of its triples. *)
Fixpoint split_confirms (l : list reply) : option (list reply) :=
  match l with
  | [] => Some []
  | RBulk t :: RBulk ch :: RInt n :: r =>
    if bytes_eqb t sub_tag then
      match split_confirms r with
      | Some cs => Some (RArr [RBulk t; RBulk ch; RInt n] :: cs)
      | None => None
      end
    else None
  | _ => None
  end.

Definition normalize_obs (r : reply) : list reply :=
  match r with
  | RArr l => match split_confirms l with
              | Some (c1 :: c2 :: cs) => c1 :: c2 :: cs
              | _ => [r]
              end
  | _ => [r]
  end.

Definition observed_match (model observed : list reply) : bool :=
  queue_match model (flat_map normalize_obs observed).
