(* C19 — proofs about the pub/sub model (PubSubModel.v) against the specification
   (PubSubSpec.v).  Everything is for all programs, all connections, channels and payloads. *)
Require Import Base.Bytes Base.Reply Resp.ReplyCodec Resp.ReplyCodecProofs.
Require Import PubSub.PubSubSpec PubSub.PubSubModel.
Local Open Scope Z_scope.

(* ---------------------------------------------------------------- small list facts *)

Lemma bool_eq_iff (a b : bool) : (a = true <-> b = true) -> a = b.
Proof. destruct a, b; intros [H1 H2]; try reflexivity; [symmetry; apply H1|apply H2]; reflexivity. Qed.

Lemma has_conn_In c l : has_conn c l = true <-> In c (map snd l).
Proof.
  unfold has_conn. rewrite existsb_exists, in_map_iff. split.
  - intros (e & Hin & He). apply N.eqb_eq in He. exists e. split; assumption.
  - intros (e & He & Hin). exists e. split; [exact Hin|apply N.eqb_eq; exact He].
Qed.

Lemma has_conn_app c l1 l2 : has_conn c (l1 ++ l2) = has_conn c l1 || has_conn c l2.
Proof. unfold has_conn. apply existsb_app. Qed.

Lemma NoDup_map_inj {A B} (f : A -> B) l x y :
  NoDup (map f l) -> In x l -> In y l -> f x = f y -> x = y.
Proof.
  induction l as [|a l IH]; cbn; intros ND Hx Hy E; [contradiction|].
  inversion ND as [|? ? Hn ND']; subst.
  destruct Hx as [->|Hx], Hy as [->|Hy].
  - reflexivity.
  - exfalso. apply Hn. rewrite E. apply in_map. exact Hy.
  - exfalso. apply Hn. rewrite <- E. apply in_map. exact Hx.
  - apply IH; assumption.
Qed.

Lemma NoDup_map_filter {A B} (f : A -> B) (p : A -> bool) l :
  NoDup (map f l) -> NoDup (map f (filter p l)).
Proof.
  induction l as [|a l IH]; cbn; intros ND; [constructor|].
  inversion ND as [|? ? Hn ND']; subst.
  destruct (p a); cbn; [|apply IH; exact ND'].
  constructor; [|apply IH; exact ND'].
  intros H. apply Hn. apply in_map_iff in H as (x & Hx & Hin). apply filter_In in Hin as [Hin _].
  rewrite <- Hx. apply in_map. exact Hin.
Qed.

(* ---- remove_id ---- *)

Lemma remove_id_In id l x : In x (remove_id id l) -> In x l.
Proof.
  induction l as [|e l IH]; cbn; [tauto|].
  destruct (N.eqb (fst e) id); cbn; [intros H; right; exact H|].
  intros [H|H]; [left; exact H|right; apply IH; exact H].
Qed.

Lemma remove_id_In_iff id l x :
  NoDup (map fst l) -> (In x (remove_id id l) <-> In x l /\ fst x <> id).
Proof.
  induction l as [|e l IH]; cbn; intros ND; [tauto|].
  inversion ND as [|? ? Hn ND']; subst.
  destruct (N.eqb_spec (fst e) id) as [E|E].
  - split.
    + intros H. split; [right; exact H|]. intros Hx. apply Hn. rewrite E, <- Hx. apply in_map. exact H.
    + intros [[->|H] Hx]; [contradiction|exact H].
  - cbn. rewrite (IH ND'). split.
    + intros [->|[H Hx]]; [split; [left; reflexivity|exact E]|split; [right; exact H|exact Hx]].
    + intros [[->|H] Hx]; [left; reflexivity|right; split; assumption].
Qed.

Lemma remove_id_map_NoDup {B} (f : N * conn -> B) id l :
  NoDup (map f l) -> NoDup (map f (remove_id id l)).
Proof.
  induction l as [|e l IH]; cbn; intros ND; [constructor|].
  inversion ND as [|? ? Hn ND']; subst.
  destruct (N.eqb (fst e) id); cbn; [exact ND'|].
  constructor; [|apply IH; exact ND'].
  intros H. apply Hn. apply in_map_iff in H as (x & Hx & Hin). apply remove_id_In in Hin.
  rewrite <- Hx. apply in_map. exact Hin.
Qed.

Lemma remove_id_length id l :
  In id (map fst l) -> Z.of_nat (length (remove_id id l)) = Z.of_nat (length l) - 1.
Proof.
  induction l as [|e l IH]; cbn [map In remove_id]; [contradiction|].
  destruct (N.eqb_spec (fst e) id) as [E|E]; intros H.
  - cbn [length]. lia.
  - destruct H as [H|H]; [contradiction|]. cbn [length]. rewrite !Nat2Z.inj_succ, (IH H). lia.
Qed.

Lemma find_conn_Some c (l : list (N * conn)) e :
  find (fun e => N.eqb (snd e) c) l = Some e -> In e l /\ snd e = c.
Proof. intros H. apply find_some in H as [H1 H2]. apply N.eqb_eq in H2. split; assumption. Qed.

Lemma find_conn_None c (l : list (N * conn)) :
  find (fun e => N.eqb (snd e) c) l = None -> has_conn c l = false.
Proof.
  intros H. destruct (has_conn c l) eqn:E; [|reflexivity].
  apply existsb_exists in E as (x & Hin & Hx). pose proof (find_none _ _ H x Hin) as Hn.
  cbn in Hn. congruence.
Qed.

(* ---------------------------------------------------------------- the table invariant *)

(* one channel: ids are unique, a connection is registered at most once (no duplicate
   (connection, channel) pair), numSubs is the number of entries, ids were handed out *)
Definition chan_wf (n : N) (cr : chanrec) : Prop :=
  NoDup (map fst (conns cr)) /\ NoDup (map snd (conns cr)) /\
  numSubs cr = Z.of_nat (length (conns cr)) /\
  (forall e, In e (conns cr) -> (fst e < n)%N).

Definition wf (st : state) : Prop :=
  forall ch cr, tab st ch = Some cr -> chan_wf (nextid st) cr.

Lemma chan_wf_mono n n' cr : (n <= n')%N -> chan_wf n cr -> chan_wf n' cr.
Proof.
  intros Hle (H1 & H2 & H3 & H4). repeat split; try assumption.
  intros e He. specialize (H4 e He). lia.
Qed.

Definition opt_has (c : conn) (o : option chanrec) : bool :=
  match o with Some cr => has_conn c (conns cr) | None => false end.

(* is c registered in channel ch's table *)
Definition in_tab (st : state) (c : conn) (ch : chan) : bool := opt_has c (tab st ch).

Definition conns_after (c : conn) (cr : chanrec) : list (N * conn) :=
  match find (fun e => N.eqb (snd e) c) (conns cr) with
  | Some e => remove_id (fst e) (conns cr)
  | None => conns cr
  end.

Lemma has_conn_after c c' cr n :
  chan_wf n cr ->
  has_conn c' (conns_after c cr) = if N.eqb c' c then false else has_conn c' (conns cr).
Proof.
  intros (ND1 & ND2 & _ & _). unfold conns_after.
  destruct (find (fun e => N.eqb (snd e) c) (conns cr)) as [e|] eqn:F.
  - apply find_conn_Some in F as [Hin Hc].
    destruct (N.eqb_spec c' c) as [->|Hne].
    + destruct (has_conn c (remove_id (fst e) (conns cr))) eqn:E; [|reflexivity].
      exfalso. apply has_conn_In in E. apply in_map_iff in E as (x & Hx & Hxin).
      apply (remove_id_In_iff _ _ _ ND1) in Hxin as [Hxin Hxid].
      apply Hxid. f_equal. apply (NoDup_map_inj snd (conns cr)); try assumption. exact (eq_trans Hx (eq_sym Hc)).
    + apply bool_eq_iff. rewrite !has_conn_In, !in_map_iff. split.
      * intros (x & Hx & Hxin). apply remove_id_In in Hxin. exists x. split; assumption.
      * intros (x & Hx & Hxin). exists x. split; [exact Hx|].
        apply (remove_id_In_iff _ _ _ ND1). split; [exact Hxin|].
        intros Hid. apply Hne. rewrite <- Hx, <- Hc. f_equal.
        apply (NoDup_map_inj fst (conns cr)); assumption.
  - apply find_conn_None in F.
    destruct (N.eqb_spec c' c) as [->|Hne]; [exact F|reflexivity].
Qed.

Lemma unsub_chan_cases c cr n :
  chan_wf n cr ->
  (unsub_chan c cr = None /\ conns_after c cr = []) \/
  (exists cr', unsub_chan c cr = Some cr' /\ conns cr' = conns_after c cr /\ chan_wf n cr').
Proof.
  intros Hwf. pose proof Hwf as (ND1 & ND2 & Hn & Hid). unfold unsub_chan, conns_after.
  destruct (find (fun e => N.eqb (snd e) c) (conns cr)) as [e|] eqn:F.
  - apply find_conn_Some in F as [Hin Hc].
    assert (Hlen : Z.of_nat (length (remove_id (fst e) (conns cr))) = numSubs cr - 1).
    { rewrite Hn. apply remove_id_length. apply in_map. exact Hin. }
    cbn [numSubs]. destruct (Z.eqb_spec (numSubs cr - 1) 0) as [E|E].
    + left. split; [reflexivity|]. rewrite E in Hlen.
      destruct (remove_id (fst e) (conns cr)); [reflexivity|cbn in Hlen; lia].
    + right. eexists. split; [reflexivity|]. split; [reflexivity|].
      repeat split; cbn [conns numSubs].
      * apply remove_id_map_NoDup. exact ND1.
      * apply remove_id_map_NoDup. exact ND2.
      * symmetry. exact Hlen.
      * intros x Hx. apply Hid. eapply remove_id_In. exact Hx.
  - destruct (Z.eqb_spec (numSubs cr) 0) as [E|E].
    + left. split; [reflexivity|]. rewrite E in Hn.
      destruct (conns cr); [reflexivity|cbn in Hn; lia].
    + right. exists cr. split; [reflexivity|]. split; [reflexivity|exact Hwf].
Qed.

Lemma opt_has_unsub c c' cr n :
  chan_wf n cr ->
  opt_has c' (unsub_chan c cr) = if N.eqb c' c then false else has_conn c' (conns cr).
Proof.
  intros Hwf. rewrite <- (has_conn_after c c' cr n Hwf).
  destruct (unsub_chan_cases c cr n Hwf) as [[-> E]|(cr' & -> & E & _)]; cbn [opt_has].
  - rewrite E. reflexivity.
  - rewrite E. reflexivity.
Qed.

Lemma unsub_chan_wf c cr cr' n : chan_wf n cr -> unsub_chan c cr = Some cr' -> chan_wf n cr'.
Proof.
  intros Hwf H. destruct (unsub_chan_cases c cr n Hwf) as [[E _]|(cr2 & E & _ & Hwf2)]; congruence.
Qed.

(* ---- what each operation does to the table ---- *)

Lemma upd_tab_same t ch v : upd_tab t ch v ch = v.
Proof. unfold upd_tab. rewrite bytes_eqb_refl. reflexivity. Qed.

Lemma upd_tab_other t ch v ch' : ch' <> ch -> upd_tab t ch v ch' = t ch'.
Proof. intros H. unfold upd_tab. destruct (bytes_eqb_spec ch' ch); [contradiction|reflexivity]. Qed.

Lemma in_tab_subscribe st c ch c' ch' :
  in_tab (step st (Subscribe c ch)) c' ch' =
  (N.eqb c' c && bytes_eqb ch' ch) || in_tab st c' ch'.
Proof.
  unfold in_tab. cbn [step]. unfold subscribe_tab.
  destruct (bytes_eqb_spec ch' ch) as [->|Hne].
  - rewrite andb_true_r.
    destruct (tab st ch) as [cr|] eqn:T; cbn [conns numSubs].
    + destruct (has_conn c (conns cr)) eqn:Hc; cbn [tab]; rewrite upd_tab_same; cbn [opt_has conns].
      * destruct (N.eqb_spec c' c) as [->|]; [rewrite Hc; reflexivity|reflexivity].
      * rewrite has_conn_app. cbn. rewrite orb_false_r, (N.eqb_sym c c'). apply orb_comm.
    + cbn [has_conn existsb tab]. rewrite upd_tab_same. cbn. rewrite !orb_false_r. apply N.eqb_sym.
  - rewrite andb_false_r. cbn [orb].
    destruct (has_conn c (conns match tab st ch with Some cr => cr | None => mkChan [] 0 end));
      cbn [tab]; rewrite upd_tab_other by exact Hne; reflexivity.
Qed.

Lemma in_tab_unsubscribe st c ch c' ch' :
  wf st ->
  in_tab (step st (Unsubscribe c ch)) c' ch' =
  if N.eqb c' c && bytes_eqb ch' ch then false else in_tab st c' ch'.
Proof.
  intros Hwf. unfold in_tab. cbn [step tab].
  destruct (tab st ch) as [cr|] eqn:T.
  - destruct (bytes_eqb_spec ch' ch) as [->|Hne].
    + rewrite upd_tab_same, T, andb_true_r. cbn [opt_has].
      apply (opt_has_unsub c c' cr (nextid st)). exact (Hwf ch cr T).
    + rewrite upd_tab_other by exact Hne. rewrite andb_false_r. reflexivity.
  - destruct (bytes_eqb_spec ch' ch) as [->|Hne].
    + rewrite T. cbn. destruct (N.eqb c' c); reflexivity.
    + rewrite andb_false_r. reflexivity.
Qed.

Lemma in_tab_close st c c' ch' : in_tab (step st (Close c)) c' ch' = in_tab st c' ch'.
Proof. reflexivity. Qed.

Lemma in_tab_disconnect st c c' ch' :
  wf st ->
  in_tab (step st (Disconnect c)) c' ch' = if N.eqb c' c then false else in_tab st c' ch'.
Proof.
  intros Hwf. unfold in_tab. cbn [step tab].
  destruct (tab st ch') as [cr|] eqn:T.
  - cbn [opt_has]. apply (opt_has_unsub c c' cr (nextid st)). exact (Hwf ch' cr T).
  - cbn. destruct (N.eqb c' c); reflexivity.
Qed.

Lemma has_conn_filter c (p : N * conn -> bool) (q : conn -> bool) l :
  (forall e, p e = q (snd e)) ->
  has_conn c (filter p l) = has_conn c l && q c.
Proof.
  intros Hp. apply bool_eq_iff. rewrite andb_true_iff, !has_conn_In, !in_map_iff. split.
  - intros (e & He & Hin). apply filter_In in Hin as [Hin Hpe]. rewrite Hp, He in Hpe.
    split; [exists e; split; assumption|exact Hpe].
  - intros [(e & He & Hin) Hq]. exists e. split; [exact He|]. apply filter_In. split; [exact Hin|].
    rewrite Hp, He. exact Hq.
Qed.

Lemma in_tab_publish st p ch m c' ch' :
  in_tab (step st (Publish p ch m)) c' ch' =
  if bytes_eqb ch' ch then in_tab st c' ch' && negb (is_closed st c') else in_tab st c' ch'.
Proof.
  unfold in_tab. cbn [step]. unfold publish.
  destruct (tab st ch) as [cr|] eqn:T; cbn [tab].
  - destruct (bytes_eqb_spec ch' ch) as [->|Hne].
    + rewrite upd_tab_same, T. cbn [opt_has conns].
      apply (has_conn_filter c' _ (fun x => negb (is_closed st x))). intros e. reflexivity.
    + rewrite upd_tab_other by exact Hne. reflexivity.
  - destruct (bytes_eqb_spec ch' ch) as [->|Hne]; [rewrite T; reflexivity|reflexivity].
Qed.

(* ---- the invariant is preserved by every operation ---- *)

Lemma NoDup_snoc {A} (l : list A) x : NoDup l -> ~ In x l -> NoDup (l ++ [x]).
Proof.
  induction l as [|a l IH]; cbn; intros ND Hn.
  - constructor; [intros []|constructor].
  - inversion ND as [|? ? Ha ND']; subst. constructor.
    + rewrite in_app_iff. intros [H|[H|[]]]; [contradiction|]. apply Hn. left. symmetry. exact H.
    + apply IH; [exact ND'|]. intros H. apply Hn. right. exact H.
Qed.

Lemma wf_init : wf init.
Proof. intros ch cr H. discriminate H. Qed.

Lemma nextid_step_le st o : (nextid st <= nextid (step st o))%N.
Proof.
  destruct o; cbn [step]; try (cbn; lia).
  - unfold subscribe_tab.
    destruct (has_conn c (conns match tab st ch with Some cr => cr | None => mkChan [] 0 end));
      cbn [nextid]; lia.
  - unfold publish. destruct (tab st ch); cbn [nextid]; lia.
Qed.

Lemma step_wf st o : wf st -> wf (step st o).
Proof.
  intros Hwf. destruct o as [c ch|c ch|p ch m|c|c].
  - (* Subscribe *)
    intros ch' cr'. cbn [step]. unfold subscribe_tab.
    set (cr := match tab st ch with Some cr => cr | None => mkChan [] 0 end).
    assert (Hcr : chan_wf (nextid st) cr).
    { subst cr. destruct (tab st ch) as [cr0|] eqn:T; [exact (Hwf ch cr0 T)|].
      repeat split; cbn; try constructor. intros e []. }
    destruct (has_conn c (conns cr)) eqn:Hc; cbn [tab nextid].
    + destruct (bytes_eqb_spec ch' ch) as [->|Hne].
      * rewrite upd_tab_same. intros E. inversion E; subst. exact Hcr.
      * rewrite upd_tab_other by exact Hne. apply Hwf.
    + destruct (bytes_eqb_spec ch' ch) as [->|Hne].
      * rewrite upd_tab_same. intros E. inversion E; subst. clear E.
        destruct Hcr as (ND1 & ND2 & Hn & Hid). repeat split; cbn [conns numSubs].
        -- rewrite map_app. cbn. apply NoDup_snoc; [exact ND1|].
           intros H. apply in_map_iff in H as (e & He & Hin). specialize (Hid e Hin). lia.
        -- rewrite map_app. cbn. apply NoDup_snoc; [exact ND2|].
           intros H. apply has_conn_In in H. congruence.
        -- rewrite app_length. cbn. rewrite Nat2Z.inj_add, Hn. lia.
        -- intros e He. apply in_app_iff in He as [He|[<-|[]]]; [specialize (Hid e He); lia|cbn; lia].
      * rewrite upd_tab_other by exact Hne. intros T.
        apply (chan_wf_mono (nextid st)); [lia|]. exact (Hwf ch' cr' T).
  - (* Unsubscribe *)
    intros ch' cr'. cbn [step tab nextid].
    destruct (tab st ch) as [cr|] eqn:T; [|apply Hwf].
    destruct (bytes_eqb_spec ch' ch) as [->|Hne].
    + rewrite upd_tab_same. intros E. eapply unsub_chan_wf; [exact (Hwf ch cr T)|exact E].
    + rewrite upd_tab_other by exact Hne. apply Hwf.
  - (* Publish *)
    intros ch' cr'. cbn [step]. unfold publish.
    destruct (tab st ch) as [cr|] eqn:T; cbn [tab nextid]; [|apply Hwf].
    destruct (bytes_eqb_spec ch' ch) as [->|Hne].
    + rewrite upd_tab_same. intros E. inversion E; subst. clear E.
      destruct (Hwf ch cr T) as (ND1 & ND2 & Hn & Hid). repeat split; cbn [conns numSubs].
      * apply NoDup_map_filter. exact ND1.
      * apply NoDup_map_filter. exact ND2.
      * lia.
      * intros e He. apply filter_In in He as [He _]. exact (Hid e He).
    + rewrite upd_tab_other by exact Hne. apply Hwf.
  - (* Close *) exact Hwf.
  - (* Disconnect *)
    intros ch' cr'. cbn [step tab nextid].
    destruct (tab st ch') as [cr|] eqn:T; [|discriminate].
    intros E. eapply unsub_chan_wf; [exact (Hwf ch' cr T)|exact E].
Qed.

Lemma run_wf p : forall st, wf st -> wf (run st p).
Proof. induction p as [|o p IH]; intros st H; [exact H|]. cbn. apply IH. apply step_wf. exact H. Qed.

(* ---------------------------------------------------------------- what is written to whom *)

Lemma outq_subscribe st c ch : outq (step st (Subscribe c ch)) = push (outq st) c (sub_reply ch).
Proof. cbn [step]. destruct (subscribe_tab st c ch). reflexivity. Qed.

Lemma closed_step st o :
  closed (step st o) = match o with Close c | Disconnect c => c :: closed st | _ => closed st end.
Proof.
  destruct o; cbn [step]; try reflexivity.
  - destruct (subscribe_tab st c ch). reflexivity.
  - unfold publish. destruct (tab st ch); reflexivity.
Qed.

Fixpoint count_conn (c : conn) (l : list conn) : nat :=
  match l with [] => O | a :: r => if N.eqb c a then S (count_conn c r) else count_conn c r end.

Lemma deliver_count rcv : forall q r c, deliver q rcv r c = q c ++ repeat r (count_conn c rcv).
Proof.
  induction rcv as [|a rcv IH]; intros q r c; cbn [deliver fold_left count_conn].
  - cbn. rewrite app_nil_r. reflexivity.
  - change (fold_left (fun q c => push q c r) rcv (push q a r) c) with (deliver (push q a r) rcv r c).
    rewrite IH. unfold push. destruct (N.eqb c a); [|reflexivity].
    rewrite <- app_assoc. reflexivity.
Qed.

Lemma count_conn_NoDup c l : NoDup l -> count_conn c l = if existsb (N.eqb c) l then 1%nat else O.
Proof.
  induction l as [|a l IH]; intros ND; [reflexivity|].
  inversion ND as [|? ? Hn ND']; subst. cbn [count_conn existsb].
  destruct (N.eqb_spec c a) as [->|Hne]; cbn [orb].
  - rewrite (IH ND'). destruct (existsb (N.eqb a) l) eqn:E; [|reflexivity].
    exfalso. apply existsb_exists in E as (x & Hx & Hxe). apply N.eqb_eq in Hxe. subst x. contradiction.
  - apply IH. exact ND'.
Qed.

Lemma existsb_map_snd c (l : list (N * conn)) : existsb (N.eqb c) (map snd l) = has_conn c l.
Proof.
  unfold has_conn. induction l as [|e l IH]; [reflexivity|]. cbn. rewrite IH, (N.eqb_sym c (snd e)). reflexivity.
Qed.

(* the connections Send writes to successfully *)
Definition live (st : state) (ch : chan) : list conn :=
  match tab st ch with
  | Some cr => map snd (filter (fun e => negb (is_closed st (snd e))) (conns cr))
  | None => []
  end.

Lemma live_NoDup st ch : wf st -> NoDup (live st ch).
Proof.
  intros Hwf. unfold live. destruct (tab st ch) as [cr|] eqn:T; [|constructor].
  apply NoDup_map_filter. exact (proj1 (proj2 (Hwf ch cr T))).
Qed.

Lemma live_In st ch c : In c (live st ch) <-> in_tab st c ch && negb (is_closed st c) = true.
Proof.
  unfold live, in_tab. destruct (tab st ch) as [cr|]; cbn [opt_has].
  - rewrite <- has_conn_In.
    rewrite (has_conn_filter c _ (fun x => negb (is_closed st x))) by (intros e; reflexivity). reflexivity.
  - cbn. split; [intros []|discriminate].
Qed.

(* PUBLISH: one message for every live table entry, then the count to the publisher *)
Lemma outq_publish st p ch m c :
  wf st ->
  outq (step st (Publish p ch m)) c =
  outq st c ++ (if in_tab st c ch && negb (is_closed st c) then [msg_reply ch m] else [])
         ++ (if N.eqb c p then [RInt (Z.of_nat (length (live st ch)))] else []).
Proof.
  intros Hwf. pose proof (live_NoDup st ch Hwf) as ND. pose proof (live_In st ch c) as HIn.
  unfold live, in_tab in *. cbn [step]. unfold publish.
  destruct (tab st ch) as [cr|] eqn:T; cbn [outq opt_has numSubs] in *.
  - unfold push at 1. rewrite deliver_count, (count_conn_NoDup _ _ ND), existsb_map_snd.
    rewrite (has_conn_filter c _ (fun x => negb (is_closed st x))) by (intros e; reflexivity).
    rewrite map_length.
    destruct (Hwf ch cr T) as (_ & _ & Hn & _).
    replace (numSubs cr - (Z.of_nat (length (conns cr)) -
              Z.of_nat (length (filter (fun e => negb (is_closed st (snd e))) (conns cr)))))
      with (Z.of_nat (length (filter (fun e => negb (is_closed st (snd e))) (conns cr)))) by lia.
    destruct (has_conn c (conns cr) && negb (is_closed st c)); cbn [repeat];
      destruct (N.eqb c p); rewrite <- ?app_assoc; reflexivity.
  - unfold push. cbn. destruct (N.eqb c p); rewrite ?app_nil_r; reflexivity.
Qed.

(* ---------------------------------------------------------------- model vs specification *)

(* the table agrees with the subscription relation of the specification on open connections *)
Definition agree (s : spec) (st : state) : Prop :=
  wf st /\
  (forall c, is_closed st c = s_closed s c) /\
  (forall c ch, s_closed s c = false -> in_tab st c ch = s_sub s c ch).

Lemma agree_init : agree spec_init init.
Proof. split; [exact wf_init|]. split; intros; reflexivity. Qed.

Lemma is_closed_step st o c' :
  is_closed (step st o) c' =
  match o with Close c | Disconnect c => N.eqb c' c || is_closed st c' | _ => is_closed st c' end.
Proof. unfold is_closed. rewrite closed_step. destruct o; reflexivity. Qed.

Lemma agree_step s st o : agree s st -> agree (spec_step s o) (step st o).
Proof.
  intros (Hwf & Hcl & Hsub). split; [apply step_wf; exact Hwf|]. split.
  - intros c'. rewrite is_closed_step. destruct o; cbn [spec_step s_closed]; try apply Hcl.
    + rewrite Hcl. destruct (N.eqb c' c); reflexivity.
    + rewrite Hcl. destruct (N.eqb c' c); reflexivity.
  - intros c' ch'. destruct o as [c ch|c ch|p ch m|c|c]; cbn [spec_step s_closed s_sub]; intros Hop.
    + rewrite in_tab_subscribe, (Hsub c' ch' Hop).
      destruct (N.eqb c' c && bytes_eqb ch' ch); reflexivity.
    + rewrite (in_tab_unsubscribe _ _ _ _ _ Hwf), (Hsub c' ch' Hop). reflexivity.
    + rewrite in_tab_publish, (Hsub c' ch' Hop), Hcl, Hop.
      destruct (bytes_eqb ch' ch); [apply andb_true_r|reflexivity].
    + destruct (N.eqb c' c); [discriminate|]. rewrite in_tab_close. apply Hsub. exact Hop.
    + rewrite (in_tab_disconnect _ _ _ _ Hwf).
      destruct (N.eqb c' c); [discriminate|]. apply Hsub. exact Hop.
Qed.

Lemma spec_after_snoc pre o : spec_after (pre ++ [o]) = spec_step (spec_after pre) o.
Proof. unfold spec_after. rewrite fold_left_app. reflexivity. Qed.

Lemma run_snoc st p o : run st (p ++ [o]) = step (run st p) o.
Proof. unfold run. rewrite fold_left_app. reflexivity. Qed.

Lemma run_app st p q : run st (p ++ q) = run (run st p) q.
Proof. unfold run. apply fold_left_app. Qed.

Lemma agree_run pre : agree (spec_after pre) (run init pre).
Proof.
  induction pre as [|o pre IH] using rev_ind; [exact agree_init|].
  rewrite spec_after_snoc, run_snoc. apply agree_step. exact IH.
Qed.

Lemma agree_live s st c ch :
  agree s st -> in_tab st c ch && negb (is_closed st c) = s_sub s c ch && negb (s_closed s c).
Proof.
  intros (_ & Hcl & Hsub). rewrite Hcl. destruct (s_closed s c) eqn:E.
  - cbn. rewrite !andb_false_r. reflexivity.
  - rewrite (Hsub c ch E). reflexivity.
Qed.

(* ---------------------------------------------------------------- the delivery theorems *)

(* one PUBLISH, in terms of the specification only: exactly one copy of the message, with the
   channel and the payload verbatim, to every connection subscribed at that moment, nothing to
   anybody else, then the count to the publisher *)
Theorem publish_step_exact pre p ch m c :
  exists n,
    outq (run init (pre ++ [Publish p ch m])) c =
    outq (run init pre) c
      ++ (if subscribed pre c ch then [msg_reply ch m] else [])
      ++ (if N.eqb c p then [RInt n] else []).
Proof.
  exists (Z.of_nat (length (live (run init pre) ch))).
  pose proof (agree_run pre) as Hag. rewrite run_snoc.
  rewrite outq_publish by exact (proj1 Hag).
  rewrite (agree_live _ _ c ch Hag). reflexivity.
Qed.

(* PUBLISH reports the number of connections subscribed at that moment (and still open) *)
Theorem publish_count_exact pre p ch m :
  exists l : list conn,
    NoDup l /\ (forall c, In c l <-> subscribed pre c ch = true) /\
    exists q, outq (run init (pre ++ [Publish p ch m])) p = q ++ [RInt (Z.of_nat (length l))].
Proof.
  pose proof (agree_run pre) as Hag.
  exists (live (run init pre) ch). split; [apply live_NoDup; exact (proj1 Hag)|]. split.
  - intros c. rewrite live_In, (agree_live _ _ c ch Hag). reflexivity.
  - rewrite run_snoc, outq_publish by exact (proj1 Hag). rewrite N.eqb_refl.
    eexists. rewrite app_assoc. reflexivity.
Qed.

(* operations other than PUBLISH write no message *)
Lemma chan_msgs_app ch q1 q2 : chan_msgs ch (q1 ++ q2) = chan_msgs ch q1 ++ chan_msgs ch q2.
Proof.
  induction q1 as [|r q1 IH]; [reflexivity|]. cbn [app chan_msgs].
  destruct (msg_of ch r); rewrite IH; reflexivity.
Qed.

Lemma msg_of_msg ch ch' m : msg_of ch (msg_reply ch' m) = if bytes_eqb ch' ch then Some m else None.
Proof. unfold msg_of, msg_reply. rewrite bytes_eqb_refl. reflexivity. Qed.

Lemma chan_msgs_msg ch ch' m : chan_msgs ch [msg_reply ch' m] = if bytes_eqb ch' ch then [m] else [].
Proof. cbn [chan_msgs]. rewrite msg_of_msg. destruct (bytes_eqb ch' ch); reflexivity. Qed.

Lemma step_msgs s st o c ch :
  agree s st ->
  chan_msgs ch (outq (step st o) c) =
  chan_msgs ch (outq st c) ++
  match o with
  | Publish _ ch' m => if bytes_eqb ch' ch && (s_sub s c ch && negb (s_closed s c)) then [m] else []
  | _ => []
  end.
Proof.
  intros Hag. destruct o as [c0 ch0|c0 ch0|p ch0 m|c0|c0]; try (rewrite app_nil_r; reflexivity).
  - rewrite outq_subscribe, app_nil_r. unfold push. destruct (N.eqb c c0); [|reflexivity].
    rewrite chan_msgs_app. cbn. apply app_nil_r.
  - rewrite outq_publish by exact (proj1 Hag). rewrite !chan_msgs_app. f_equal.
    replace (chan_msgs ch (if N.eqb c p then [RInt (Z.of_nat (length (live st ch0)))] else [])) with (@nil bytes)
      by (destruct (N.eqb c p); reflexivity).
    rewrite app_nil_r.
    destruct (bytes_eqb_spec ch0 ch) as [->|Hne].
    + rewrite (agree_live _ _ c ch Hag). cbn [andb].
      destruct (s_sub s c ch && negb (s_closed s c)); [|reflexivity].
      rewrite chan_msgs_msg, bytes_eqb_refl. reflexivity.
    + cbn [andb]. destruct (in_tab st c ch0 && negb (is_closed st c)); [|reflexivity].
      rewrite chan_msgs_msg. destruct (bytes_eqb_spec ch0 ch); [contradiction|reflexivity].
Qed.

Lemma delivery_from c ch p : forall pre st,
  agree (spec_after pre) st ->
  chan_msgs ch (outq (run st p) c) = chan_msgs ch (outq st c) ++ expected_from pre p c ch.
Proof.
  induction p as [|o p IH]; intros pre st Hag; cbn [run fold_left expected_from].
  - rewrite app_nil_r. reflexivity.
  - change (fold_left step p (step st o)) with (run (step st o) p).
    rewrite (IH (pre ++ [o]) (step st o)) by (rewrite spec_after_snoc; apply agree_step; exact Hag).
    rewrite (step_msgs _ _ o c ch Hag), <- app_assoc. f_equal.
Qed.

(* C19, the main statement: what a connection received for a channel is, in order, exactly the
   payloads published to the channel while the connection was subscribed to it *)
Theorem delivery_exact p c ch : chan_msgs ch (outq (run init p) c) = expected p c ch.
Proof. unfold expected. rewrite (delivery_from c ch p [] init agree_init). reflexivity. Qed.

(* a connection that is not subscribed to ch at any PUBLISH to ch receives nothing for ch *)
Lemma expected_from_nil c ch p : forall pre,
  (forall p1 pb m p2, p = p1 ++ Publish pb ch m :: p2 -> subscribed (pre ++ p1) c ch = false) ->
  expected_from pre p c ch = [].
Proof.
  induction p as [|o p IH]; intros pre H; [reflexivity|]. cbn [expected_from].
  rewrite (IH (pre ++ [o])).
  - rewrite app_nil_r. destruct o as [| |pb ch' m| |]; try reflexivity.
    destruct (bytes_eqb_spec ch' ch) as [->|]; [|reflexivity].
    specialize (H [] pb m p eq_refl). rewrite app_nil_r in H. rewrite H. reflexivity.
  - intros p1 pb m p2 E. rewrite <- app_assoc. cbn [app]. apply (H (o :: p1) pb m p2). rewrite E. reflexivity.
Qed.

Theorem no_other_connection p c ch :
  (forall p1 pb m p2, p = p1 ++ Publish pb ch m :: p2 -> subscribed p1 c ch = false) ->
  chan_msgs ch (outq (run init p) c) = [].
Proof. intros H. rewrite delivery_exact. apply expected_from_nil. exact H. Qed.

(* ---------------------------------------------------------------- closed connections *)

Lemma s_closed_mono q : forall s c, s_closed s c = true -> s_closed (fold_left spec_step q s) c = true.
Proof.
  induction q as [|o q IH]; intros s c H; [exact H|]. cbn [fold_left]. apply IH.
  destruct o; cbn [spec_step s_closed]; try exact H; (destruct (N.eqb c c0); [reflexivity|exact H]).
Qed.

Lemma expected_from_closed c ch q : forall pre,
  s_closed (spec_after pre) c = true -> expected_from pre q c ch = [].
Proof.
  induction q as [|o q IH]; intros pre H; [reflexivity|]. cbn [expected_from].
  rewrite IH.
  - rewrite app_nil_r. destruct o; try reflexivity. unfold subscribed. rewrite H.
    rewrite !andb_false_r. reflexivity.
  - unfold spec_after. rewrite fold_left_app. apply s_closed_mono. exact H.
Qed.

(* once a connection is closed (dead or disconnected) nothing is ever delivered to it again,
   whatever happens later *)
Theorem closed_receives_nothing pre o c q ch :
  o = Close c \/ o = Disconnect c ->
  chan_msgs ch (outq (run init (pre ++ o :: q)) c) = chan_msgs ch (outq (run init pre) c).
Proof.
  intros Ho. rewrite !delivery_exact. unfold expected.
  assert (G : forall pre0 p1 p2, expected_from pre0 (p1 ++ p2) c ch =
                                 expected_from pre0 p1 c ch ++ expected_from (pre0 ++ p1) p2 c ch).
  { intros pre0 p1. revert pre0. induction p1 as [|x p1 IH]; intros pre0 p2.
    - rewrite app_nil_r. reflexivity.
    - cbn [app expected_from]. rewrite IH, <- !app_assoc. reflexivity. }
  rewrite G. cbn [app expected_from].
  rewrite (expected_from_closed c ch q).
  - destruct Ho as [-> | ->]; rewrite !app_nil_r; reflexivity.
  - rewrite spec_after_snoc. destruct Ho as [-> | ->]; cbn [spec_step s_closed]; rewrite N.eqb_refl; reflexivity.
Qed.

(* DISCONNECT removes the connection from every channel's table *)
Theorem disconnect_removes_everywhere pre c ch :
  in_tab (run init (pre ++ [Disconnect c])) c ch = false.
Proof.
  rewrite run_snoc, in_tab_disconnect by (apply run_wf; exact wf_init).
  rewrite N.eqb_refl. reflexivity.
Qed.

(* a dead connection that is still registered is dropped by the next PUBLISH to the channel *)
Theorem publish_prunes_closed pre c p ch m :
  is_closed (run init pre) c = true ->
  in_tab (run init (pre ++ [Publish p ch m])) c ch = false.
Proof.
  intros H. rewrite run_snoc, in_tab_publish, bytes_eqb_refl, H. apply andb_false_r.
Qed.

(* a PUBLISH never costs an open connection a subscription, on any channel: only connections
   whose write failed are pruned (so a stalled or dead subscriber cannot take the others with it) *)
Theorem publish_keeps_open_subscribers pre p ch m c ch' :
  is_closed (run init pre) c = false ->
  in_tab (run init (pre ++ [Publish p ch m])) c ch' = in_tab (run init pre) c ch'.
Proof.
  intros H. rewrite run_snoc, in_tab_publish, H.
  destruct (bytes_eqb ch' ch); [apply andb_true_r|reflexivity].
Qed.

(* ---------------------------------------------------------------- idempotent SUBSCRIBE *)

Theorem subscribe_idempotent st c ch :
  let st1 := step st (Subscribe c ch) in
  let st2 := step st1 (Subscribe c ch) in
  (forall ch', tab st2 ch' = tab st1 ch') /\ nextid st2 = nextid st1 /\
  (forall c' ch', in_tab st2 c' ch' = in_tab st1 c' ch').
Proof.
  cbn zeta.
  assert (Hin : in_tab (step st (Subscribe c ch)) c ch = true).
  { rewrite in_tab_subscribe, N.eqb_refl, bytes_eqb_refl. reflexivity. }
  set (st1 := step st (Subscribe c ch)) in *.
  unfold in_tab in Hin. destruct (tab st1 ch) as [cr|] eqn:T; [|discriminate]. cbn [opt_has] in Hin.
  assert (E : forall ch', tab (step st1 (Subscribe c ch)) ch' = tab st1 ch'
              ) .
  { intros ch'. cbn [step]. unfold subscribe_tab. rewrite T, Hin. cbn [tab].
    destruct (bytes_eqb_spec ch' ch) as [->|Hne]; [rewrite upd_tab_same; symmetry; exact T|].
    apply upd_tab_other. exact Hne. }
  split; [exact E|]. split.
  - cbn [step]. unfold subscribe_tab. rewrite T, Hin. reflexivity.
  - intros c' ch'. unfold in_tab. rewrite E. reflexivity.
Qed.

Lemma filter_none {A} (f : A -> bool) l : (forall x, In x l -> f x = false) -> filter f l = [].
Proof.
  induction l as [|a l IH]; intros H; [reflexivity|]. cbn. rewrite (H a (or_introl eq_refl)).
  apply IH. intros x Hx. apply H. right. exact Hx.
Qed.

Lemma filter_conn_length c (l : list (N * conn)) :
  NoDup (map snd l) -> has_conn c l = true ->
  length (filter (fun e => N.eqb (snd e) c) l) = 1%nat.
Proof.
  unfold conn in *.
  induction l as [|e l IH]; intros ND Hin; [discriminate|].
  cbn [map] in ND. inversion ND as [|? ? Hn ND']; subst.
  cbn [filter]. destruct (N.eqb_spec (snd e) c) as [E|E].
  - rewrite filter_none; [reflexivity|].
    intros x Hx. apply N.eqb_neq. intros Hxc. apply Hn. rewrite E, <- Hxc. apply in_map. exact Hx.
  - apply IH; [exact ND'|]. unfold has_conn in Hin. cbn [existsb] in Hin.
    destruct (N.eqb_spec (snd e) c); [contradiction|exact Hin].
Qed.

(* after SUBSCRIBE (however often repeated) the connection has exactly one entry *)
Theorem subscribe_one_entry pre c ch cr :
  tab (run init (pre ++ [Subscribe c ch])) ch = Some cr ->
  length (filter (fun e => N.eqb (snd e) c) (conns cr)) = 1%nat.
Proof.
  intros T.
  assert (Hwf : wf (run init (pre ++ [Subscribe c ch]))) by (apply run_wf; exact wf_init).
  assert (Hin : in_tab (run init (pre ++ [Subscribe c ch])) c ch = true).
  { rewrite run_snoc, in_tab_subscribe, N.eqb_refl, bytes_eqb_refl. reflexivity. }
  unfold in_tab in Hin. rewrite T in Hin. cbn [opt_has] in Hin.
  destruct (Hwf ch cr T) as (_ & ND2 & _ & _).
  apply filter_conn_length; assumption.
Qed.

(* ---------------------------------------------------------------- intact on the wire *)

Definition queues_wf (st : state) : Prop := forall c, Forall (fun r => reply_wf r = true) (outq st c).

Lemma push_wf q c r :
  (forall c', Forall (fun r => reply_wf r = true) (q c')) -> reply_wf r = true ->
  forall c', Forall (fun r => reply_wf r = true) (push q c r c').
Proof.
  intros Hq Hr c'. unfold push. destruct (N.eqb c' c); [|apply Hq].
  apply Forall_app. split; [apply Hq|]. constructor; [exact Hr|constructor].
Qed.

Lemma deliver_wf rcv : forall q r,
  (forall c', Forall (fun r => reply_wf r = true) (q c')) -> reply_wf r = true ->
  forall c', Forall (fun r => reply_wf r = true) (deliver q rcv r c').
Proof.
  induction rcv as [|a rcv IH]; intros q r Hq Hr; [exact Hq|].
  cbn [deliver fold_left]. apply (IH (push q a r) r); [|exact Hr]. apply push_wf; assumption.
Qed.

Lemma step_queues_wf st o : queues_wf st -> queues_wf (step st o).
Proof.
  intros H. destruct o as [c ch|c ch|p ch m|c|c]; try exact H.
  - unfold queues_wf. rewrite outq_subscribe. apply push_wf; [exact H|reflexivity].
  - unfold queues_wf. cbn [step]. unfold publish. destruct (tab st ch); cbn [outq].
    + apply push_wf; [|reflexivity]. apply deliver_wf; [exact H|reflexivity].
    + apply push_wf; [exact H|reflexivity].
Qed.

Lemma run_queues_wf p : forall st, queues_wf st -> queues_wf (run st p).
Proof.
  induction p as [|o p IH]; intros st H; [exact H|]. cbn. apply IH. apply step_queues_wf. exact H.
Qed.

(* whatever the channel names and payloads are (CR, LF, NUL, 0xff, empty, any length), the bytes
   the server writes to a connection decode — with the independent client-side decoder of
   Resp/ReplyCodec.v — to exactly the replies of the model's queue, nothing left over *)
Theorem wire_intact p c :
  decode_stream (encode_replies (outq (run init p) c)) = (outq (run init p) c, []).
Proof.
  apply decode_stream_encode. apply (run_queues_wf p init). intros c'. constructor.
Qed.

(* ---------------------------------------------------------------- reading of [subscribed] *)

(* the definition by folding over the prefix says what one expects: c is subscribed to ch after
   [pre] iff c was never closed and some SUBSCRIBE c ch in [pre] has no UNSUBSCRIBE c ch after it *)
Lemma snoc_split {A} (pre p1 : list A) o x p2 :
  pre ++ [o] = p1 ++ x :: p2 ->
  (p2 = [] /\ pre = p1 /\ o = x) \/ (exists p2', p2 = p2' ++ [o] /\ pre = p1 ++ x :: p2').
Proof.
  intros E. destruct p2 as [|y p2] using rev_ind.
  - left. apply app_inj_tail in E as [E1 E2]. repeat split; assumption.
  - right. clear IHp2. exists p2.
    change (p1 ++ x :: p2 ++ [y]) with (p1 ++ (x :: p2) ++ [y]) in E. rewrite app_assoc in E.
    apply app_inj_tail in E as [E1 E2]. subst. split; reflexivity.
Qed.

Lemma s_closed_iff pre c :
  s_closed (spec_after pre) c = true <-> In (Close c) pre \/ In (Disconnect c) pre.
Proof.
  induction pre as [|o pre IH] using rev_ind; [cbn; split; [discriminate|tauto]|].
  rewrite spec_after_snoc, !in_app_iff. cbn [In].
  destruct o as [c0 ch0|c0 ch0|p0 ch0 m0|c0|c0]; cbn [spec_step s_closed]; try rewrite IH.
  1-3: split; [intros [H|H]; [left; left; exact H|right; left; exact H]|
               intros [[H|[H|[]]]|[H|[H|[]]]]; try discriminate; [left|right]; exact H].
  - destruct (N.eqb_spec c c0) as [->|Hne].
    + split; [intros _; left; right; left; reflexivity|reflexivity].
    + rewrite IH. split; [intros [H|H]; [left; left; exact H|right; left; exact H]|].
      intros [[H|[H|[]]]|[H|[H|[]]]]; try discriminate; [left; exact H| |right; exact H].
      inversion H. congruence.
  - destruct (N.eqb_spec c c0) as [->|Hne].
    + split; [intros _; right; right; left; reflexivity|reflexivity].
    + rewrite IH. split; [intros [H|H]; [left; left; exact H|right; left; exact H]|].
      intros [[H|[H|[]]]|[H|[H|[]]]]; try discriminate; [left; exact H|right; exact H|].
      inversion H. congruence.
Qed.

Lemma s_sub_iff pre c ch :
  s_sub (spec_after pre) c ch = true <->
  exists p1 p2, pre = p1 ++ Subscribe c ch :: p2 /\ ~ In (Unsubscribe c ch) p2.
Proof.
  induction pre as [|o pre IH] using rev_ind.
  - cbn. split; [discriminate|]. intros (p1 & p2 & E & _). destruct p1; discriminate.
  - rewrite spec_after_snoc.
    assert (Keep : s_sub (spec_step (spec_after pre) o) c ch = s_sub (spec_after pre) c ch ->
                   o <> Subscribe c ch -> o <> Unsubscribe c ch ->
                   (s_sub (spec_step (spec_after pre) o) c ch = true <->
                    exists p1 p2, pre ++ [o] = p1 ++ Subscribe c ch :: p2 /\ ~ In (Unsubscribe c ch) p2)).
    { intros -> N1 N2. rewrite IH. split.
      - intros (p1 & p2 & -> & Hn). exists p1, (p2 ++ [o]). split; [rewrite <- app_assoc; reflexivity|].
        rewrite in_app_iff. intros [H|[H|[]]]; [contradiction|congruence].
      - intros (p1 & p2 & E & Hn). apply snoc_split in E as [(_ & _ & E)|(p2' & -> & ->)]; [congruence|].
        exists p1, p2'. split; [reflexivity|]. intros H. apply Hn. apply in_or_app. left. exact H. }
    destruct o as [c0 ch0|c0 ch0|p0 ch0 m0|c0|c0]; try (apply Keep; [reflexivity|discriminate|discriminate]).
    + destruct (N.eq_dec c c0) as [->|Hc]; [destruct (bytes_eq_dec ch ch0) as [->|Hch]|].
      * cbn [spec_step s_sub]. rewrite N.eqb_refl, bytes_eqb_refl. cbn.
        split; [|reflexivity]. intros _. exists pre, []. split; [reflexivity|intros []].
      * apply Keep; [cbn [spec_step s_sub]; rewrite N.eqb_refl; cbn;
                     destruct (bytes_eqb_spec ch ch0); [contradiction|reflexivity]|congruence|discriminate].
      * apply Keep; [cbn [spec_step s_sub]; destruct (N.eqb_spec c c0); [contradiction|reflexivity]|congruence|discriminate].
    + destruct (N.eq_dec c c0) as [->|Hc]; [destruct (bytes_eq_dec ch ch0) as [->|Hch]|].
      * cbn [spec_step s_sub]. rewrite N.eqb_refl, bytes_eqb_refl. cbn.
        split; [discriminate|]. intros (p1 & p2 & E & Hn). exfalso.
        apply snoc_split in E as [(_ & _ & E)|(p2' & -> & _)]; [discriminate|].
        apply Hn. apply in_or_app. right. left. reflexivity.
      * apply Keep; [cbn [spec_step s_sub]; rewrite N.eqb_refl; cbn;
                     destruct (bytes_eqb_spec ch ch0); [contradiction|reflexivity]|discriminate|congruence].
      * apply Keep; [cbn [spec_step s_sub]; destruct (N.eqb_spec c c0); [contradiction|reflexivity]|discriminate|congruence].
Qed.

Theorem subscribed_characterization pre c ch :
  subscribed pre c ch = true <->
  (exists p1 p2, pre = p1 ++ Subscribe c ch :: p2 /\ ~ In (Unsubscribe c ch) p2) /\
  ~ In (Close c) pre /\ ~ In (Disconnect c) pre.
Proof.
  unfold subscribed. rewrite andb_true_iff, negb_true_iff, s_sub_iff.
  split; intros [H1 H2]; (split; [exact H1|]).
  - split; intros H; assert (X : s_closed (spec_after pre) c = true) by (apply s_closed_iff; tauto); congruence.
  - destruct (s_closed (spec_after pre) c) eqn:E; [|reflexivity]. apply s_closed_iff in E. tauto.
Qed.
