(* Go integer conversions: strconv.Itoa/FormatInt, strconv.Atoi/ParseInt(s,10,64), int64 range. *)
Require Import Base.Bytes.
From Coq Require Import Decimal DecimalN DecimalPos.
Local Open Scope Z_scope.

Definition int64_min : Z := - 2^63.
Definition int64_max : Z := 2^63 - 1.
Definition in_int64 (z : Z) : bool := (int64_min <=? z) && (z <=? int64_max).
(* two's-complement wrap of Go's int64 arithmetic *)
Definition wrap64 (z : Z) : Z := ((z + 2^63) mod 2^64) - 2^63.

Fixpoint uint_to_bytes (u : Decimal.uint) : bytes :=
  match u with
  | Nil => []
  | D0 r => "0"%byte :: uint_to_bytes r
  | D1 r => "1"%byte :: uint_to_bytes r
  | D2 r => "2"%byte :: uint_to_bytes r
  | D3 r => "3"%byte :: uint_to_bytes r
  | D4 r => "4"%byte :: uint_to_bytes r
  | D5 r => "5"%byte :: uint_to_bytes r
  | D6 r => "6"%byte :: uint_to_bytes r
  | D7 r => "7"%byte :: uint_to_bytes r
  | D8 r => "8"%byte :: uint_to_bytes r
  | D9 r => "9"%byte :: uint_to_bytes r
  end.

Definition digit_of_byte (c : byte) : option (Decimal.uint -> Decimal.uint) :=
  match c with
  | "0"%byte => Some D0 | "1"%byte => Some D1 | "2"%byte => Some D2 | "3"%byte => Some D3
  | "4"%byte => Some D4 | "5"%byte => Some D5 | "6"%byte => Some D6 | "7"%byte => Some D7
  | "8"%byte => Some D8 | "9"%byte => Some D9
  | _ => None
  end.

Fixpoint bytes_to_uint (s : bytes) : option Decimal.uint :=
  match s with
  | [] => Some Nil
  | c :: r =>
    match digit_of_byte c, bytes_to_uint r with
    | Some d, Some u => Some (d u)
    | _, _ => None
    end
  end.

(* decimal rendering, as strconv.FormatUint / FormatInt base 10 *)
Definition n_to_dec (n : N) : bytes := uint_to_bytes (N.to_uint n).
Definition z_to_dec (z : Z) : bytes :=
  match z with
  | Z0 => ["0"%byte]
  | Zpos p => n_to_dec (Npos p)
  | Zneg p => "-"%byte :: n_to_dec (Npos p)
  end.

(* unsigned decimal parse: at least one digit, digits only (leading zeros allowed, as Go) *)
Definition parse_udec (s : bytes) : option N :=
  match s with
  | [] => None
  | _ => match bytes_to_uint s with Some u => Some (N.of_uint u) | None => None end
  end.

(* strconv.ParseInt(s, 10, 64) / Atoi on a 64-bit platform: optional sign, digits, range check.
   (base 10 given explicitly: underscores are not accepted) *)
Definition parse_int_unbounded (s : bytes) : option Z :=
  match s with
  | "-"%byte :: r => match parse_udec r with Some n => Some (- Z.of_N n) | None => None end
  | "+"%byte :: r => match parse_udec r with Some n => Some (Z.of_N n) | None => None end
  | _ => match parse_udec s with Some n => Some (Z.of_N n) | None => None end
  end.

Definition atoi64 (s : bytes) : option Z :=
  match parse_int_unbounded s with
  | Some z => if in_int64 z then Some z else None
  | None => None
  end.

(* ---- round trip ---- *)

Lemma bytes_to_uint_to_bytes u : bytes_to_uint (uint_to_bytes u) = Some u.
Proof. induction u; simpl; try rewrite IHu; reflexivity. Qed.

Lemma uint_to_bytes_nil u : uint_to_bytes u = [] -> u = Nil.
Proof. destruct u; simpl; intros H; try discriminate; reflexivity. Qed.

Lemma n_to_dec_nonempty n : n_to_dec n <> [].
Proof.
  unfold n_to_dec. intros H. apply uint_to_bytes_nil in H.
  destruct n as [|p]; [discriminate|].
  simpl in H. unfold Pos.to_uint in H.
  pose proof (DecimalPos.Unsigned.to_uint_nonnil p) as Hn. apply Hn. exact H.
Qed.

Lemma parse_udec_n_to_dec n : parse_udec (n_to_dec n) = Some n.
Proof.
  unfold parse_udec. destruct (n_to_dec n) eqn:E.
  - exfalso. eapply n_to_dec_nonempty. exact E.
  - rewrite <- E. unfold n_to_dec. rewrite bytes_to_uint_to_bytes.
    rewrite DecimalN.Unsigned.of_to. reflexivity.
Qed.

Lemma n_to_dec_head_digit n c r : n_to_dec n = c :: r -> c <> "-"%byte /\ c <> "+"%byte.
Proof.
  unfold n_to_dec. destruct (N.to_uint n); simpl; intros H; inversion H; subst; split; discriminate.
Qed.

Lemma parse_int_z_to_dec z : parse_int_unbounded (z_to_dec z) = Some z.
Proof.
  destruct z as [|p|p].
  - reflexivity.
  - unfold z_to_dec, parse_int_unbounded.
    destruct (n_to_dec (N.pos p)) as [|c r] eqn:E.
    + exfalso. eapply n_to_dec_nonempty; exact E.
    + destruct (n_to_dec_head_digit _ _ _ E) as [H1 H2].
      assert (parse_udec (c :: r) = Some (N.pos p)) as Hp
        by (rewrite <- E; apply parse_udec_n_to_dec).
      destruct c; try (exfalso; congruence); rewrite Hp; reflexivity.
  - unfold z_to_dec, parse_int_unbounded. rewrite parse_udec_n_to_dec. reflexivity.
Qed.

Lemma atoi64_z_to_dec z : in_int64 z = true -> atoi64 (z_to_dec z) = Some z.
Proof. intros H. unfold atoi64. rewrite parse_int_z_to_dec, H. reflexivity. Qed.
