(* RESP values as the server produces them (resp/structure.go). *)
Require Import Base.Bytes.

Inductive reply :=
| RSimple (s : bytes)          (* StringData  "+" s CRLF          *)
| RErr (s : bytes)             (* ErrorData   "-" s CRLF          *)
| RInt (z : Z)                 (* IntData     ":" dec CRLF        *)
| RBulk (b : bytes)            (* BulkData    "$" len CRLF b CRLF *)
| RNil                         (* BulkData(nil)  "$-1" CRLF       *)
| RArr (l : list reply)        (* ArrayData   "*" n CRLF elems    *)
| RNilArr                      (* ArrayData(nil) "*-1" CRLF       *)
| RPlain (s : bytes).          (* PlainData   s CRLF  (never produced by an executor) *)

Definition bCR : byte := "013"%byte.
Definition bLF : byte := "010"%byte.
Definition CRLF : bytes := [bCR; bLF].

Definition no_crlf (s : bytes) : bool :=
  forallb (fun c => negb (beqb c bCR) && negb (beqb c bLF)) s.

(* a reply a conforming client decodes unambiguously: line-framed parts contain no CR/LF *)
Fixpoint reply_wf (r : reply) : bool :=
  match r with
  | RSimple s | RErr s => no_crlf s
  | RPlain _ => false
  | RArr l => forallb reply_wf l
  | _ => true
  end.
