(* Byte strings: the universal carrier for keys, values, members, patterns and wire data. *)
From Coq Require Export List Bool Arith ZArith NArith Lia.
From Coq Require Export Strings.Byte.
Export ListNotations.

Definition bytes := list byte.

Definition beqb (a b : byte) : bool := Byte.eqb a b.

Lemma beqb_eq a b : beqb a b = true <-> a = b.
Proof. unfold beqb; split; [apply Byte.byte_dec_bl | intros ->; apply Byte.byte_dec_lb; reflexivity]. Qed.
Lemma beqb_refl a : beqb a a = true.
Proof. apply beqb_eq; reflexivity. Qed.
Lemma beqb_neq a b : beqb a b = false <-> a <> b.
Proof.
  split; intros H.
  - intros E; apply beqb_eq in E; congruence.
  - destruct (beqb a b) eqn:E; [apply beqb_eq in E; contradiction|reflexivity].
Qed.
Lemma beqb_spec a b : reflect (a = b) (beqb a b).
Proof. destruct (beqb a b) eqn:E; constructor; [apply beqb_eq|apply beqb_neq]; exact E. Qed.

Definition bval (b : byte) : N := Byte.to_N b.

Lemma bval_inj a b : bval a = bval b -> a = b.
Proof.
  unfold bval; intros H.
  assert (Some a = Some b) as E by (rewrite <- !Byte.of_to_N; f_equal; exact H).
  congruence.
Qed.
Lemma bval_lt a : (bval a < 256)%N.
Proof. unfold bval. pose proof (Byte.to_N_bounded a). lia. Qed.

(* byte order, as Go's unsigned byte comparison *)
Definition bleb (a b : byte) : bool := N.leb (bval a) (bval b).

Fixpoint bytes_eqb (a b : bytes) : bool :=
  match a, b with
  | [], [] => true
  | x :: a', y :: b' => beqb x y && bytes_eqb a' b'
  | _, _ => false
  end.

Lemma bytes_eqb_eq a b : bytes_eqb a b = true <-> a = b.
Proof.
  revert b; induction a as [|x a IH]; intros [|y b]; simpl; split; intros H;
    try reflexivity; try discriminate.
  - apply andb_true_iff in H as [H1 H2]. apply beqb_eq in H1. apply IH in H2. congruence.
  - inversion H; subst. rewrite beqb_refl. apply IH. reflexivity.
Qed.
Lemma bytes_eqb_refl a : bytes_eqb a a = true.
Proof. apply bytes_eqb_eq; reflexivity. Qed.
Lemma bytes_eqb_neq a b : bytes_eqb a b = false <-> a <> b.
Proof.
  split; intros H.
  - intros E; apply bytes_eqb_eq in E; congruence.
  - destruct (bytes_eqb a b) eqn:E; [apply bytes_eqb_eq in E; contradiction|reflexivity].
Qed.
Lemma bytes_eqb_spec a b : reflect (a = b) (bytes_eqb a b).
Proof. destruct (bytes_eqb a b) eqn:E; constructor; [apply bytes_eqb_eq|apply bytes_eqb_neq]; exact E. Qed.
Lemma bytes_eq_dec (a b : bytes) : {a = b} + {a <> b}.
Proof. destruct (bytes_eqb_spec a b); [left|right]; assumption. Qed.
Lemma bytes_eqb_sym a b : bytes_eqb a b = bytes_eqb b a.
Proof.
  destruct (bytes_eqb_spec a b), (bytes_eqb_spec b a); congruence.
Qed.

(* stable names for extraction *)
Definition byte_of_N (n : N) : option byte := Byte.of_N n.
Definition byte_to_N (b : byte) : N := Byte.to_N b.
