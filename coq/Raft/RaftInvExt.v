(* C15 — helper lemmas for the steps that extend the ghost history (win, propose, append). *)
Require Import List Arith Bool Lia.
Require Import Raft.Quorum Raft.QuorumProofs Raft.RaftModel Raft.RaftSys Raft.RaftLog
               Raft.RaftInv Raft.RaftInvBase Raft.RaftInvFrame.
Import ListNotations.

Section ExtLemmas.
  Variable F : list (list nat * list nat).
  Hypothesis HF : inter_family F.

  Lemma wf_ext : forall s s' l, ext s s' -> wf (LL s) l -> wf (LL s') l.
  Proof.
    intros s s' l E H i Hi. pose proof (H i Hi) as Hp.
    assert (Hlen : i <= length (LL s (term_at l i))) by (eapply firstn_len_le; [exact Hp|lia]).
    rewrite (ext_LL_firstn s s' E _ i Hlen). exact Hp.
  Qed.

  (* the ghost-only message invariants survive any extension of the history *)
  Lemma iW9_ext : forall s s', ext s s' -> msgs s' = msgs s -> iW9 F s -> iW9 F s'.
  Proof.
    intros s s' E Hm H m Hin Hty. rewrite Hm in Hin.
    destruct (H m Hin Hty) as (H1 & H2 & H3 & H4 & H5).
    split; [apply (ext_LL_nonnil s s' E); exact H1|].
    split; [rewrite !(ext_LL_firstn s s' E) by lia; exact H2|].
    split; [pose proof (ext_LL_len s s' E (m_term m)); lia|].
    split; [rewrite (ext_LL_term_at s s' E) by lia; exact H4|].
    apply (ext_CP F s s' E). exact H5.
  Qed.

  Lemma iW13_ext : forall s s', ext s s' -> msgs s' = msgs s -> iW13 F s -> iW13 F s'.
  Proof.
    intros s s' E Hm H m Hin Hty. rewrite Hm in Hin.
    destruct (H m Hin Hty) as (H1 & H2 & H3 & H4 & H5).
    split; [apply (ext_LL_nonnil s s' E); exact H1|].
    split; [rewrite (ext_LL_firstn s s' E) by lia; exact H2|].
    split; [pose proof (ext_LL_len s s' E (m_term m)); lia|].
    split; [rewrite (ext_LL_term_at s s' E) by lia; exact H4|].
    apply (ext_CP F s s' E). exact H5.
  Qed.

  Lemma iK4_ext : forall s s', ext s s' -> msgs s' = msgs s -> iK4 s -> iK4 s'.
  Proof.
    intros s s' E Hm H m Hin Hty Hr. rewrite Hm in Hin.
    pose proof (H m Hin Hty Hr). pose proof (e_ga _ _ E (m_from m) (m_term m)). lia.
  Qed.

  Lemma iK10_ext : forall s s', ext s s' -> msgs s' = msgs s -> iK10 F s -> iK10 F s'.
  Proof.
    intros s s' E Hm H m Hin Hty. rewrite Hm in Hin. destruct (H m Hin Hty) as [H1 H2].
    split; [pose proof (e_ga _ _ E (m_to m) (m_term m)); lia|apply (ext_CP F s s' E); exact H2].
  Qed.

  Lemma sorted_app_last : forall (l : elog) e,
    sorted_terms l -> terms_le l (fst e) -> sorted_terms (l ++ [e]).
  Proof.
    intros l e Hs Hle i j Hi Hij Hj. rewrite app_length in Hj. cbn [length] in Hj.
    destruct (le_lt_dec j (length l)) as [Hjl|Hjl].
    - rewrite !term_at_app_l by lia. apply Hs; lia.
    - assert (Ej : j = S (length l)) by lia. subst j. rewrite term_at_app_last.
      destruct (le_lt_dec i (length l)) as [Hil|Hil].
      + rewrite term_at_app_l by lia. destruct (term_at_in l i ltac:(lia)) as (e' & He' & <-). apply Hle. exact He'.
      + assert (Ei : i = S (length l)) by lia. subst i. rewrite term_at_app_last. lia.
  Qed.

  Lemma wf_app_last : forall LLf (l : elog) t p,
    wf LLf l -> LLf t = l ++ [(t, p)] -> wf LLf (l ++ [(t, p)]).
  Proof.
    intros LLf l t p Hw HL i Hi. rewrite app_length in Hi. cbn [length] in Hi.
    destruct (le_lt_dec i (length l)) as [Hil|Hil].
    - rewrite term_at_app_l by lia. rewrite firstn_app_le by lia. apply Hw. lia.
    - assert (Ei : i = S (length l)) by lia. subst i. rewrite term_at_app_last. cbn [fst]. rewrite HL. reflexivity.
  Qed.

  Lemma has_app : forall s (L : elog) t k x, has s L t k -> has s (L ++ x) t k.
  Proof.
    intros s L t k x [H1 H2]. split; [rewrite app_length; lia|]. rewrite firstn_app_le by lia. exact H2.
  Qed.
End ExtLemmas.
