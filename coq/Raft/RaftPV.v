(* C15 — executable model of etcd/raft with Config.PreVote = true, fixed membership.  No proofs in
   this file.

   Config.CheckQuorum is covered ANGELICALLY: its two effects are choices of the environment,
     - a leader that finds no active quorum on a tick steps down (event [PvStepDown]:
       becomeFollower(Term, None); raft.go tickHeartbeat -> MsgCheckQuorum -> stepLeader);
     - a node inside its leader lease ignores a MsgVote/MsgPreVote of a higher term altogether
       (raft.go Step, "inLease"): the message is simply not delivered (the validator accepts the
       no-op [PvTick] for such a delivery),
   Leadership transfer (RawNode.TransferLeader) is covered the same way: the leader's
   leadTransferee is not part of the model; a leader may send MsgTimeoutNow ([PT]) to anyone at
   any time, any node may forward a MsgTransferLeader ([PL]; it carries no authority), a leader
   may drop a proposal (transfer in progress: the validator accepts the no-op); the receiver of a
   MsgTimeoutNow campaigns for real at once ([hup], no pre-vote).  The forced MsgVote of such a
   campaign only bypasses the lease, which is a choice of the environment anyway;
   so the model says nothing about WHEN they happen (no election-elapsed clock, no RecentActive
   flags): safety is proved for every choice; liveness of CheckQuorum is not covered.

   A pre-candidate (raft.go becomePreCandidate) keeps its term and its vote: it is modelled as the
   underlying node of RaftModel.v in role Follower plus the flag [p_pre]; its tracker.Votes hold
   the pre-votes.  MsgPreVote / MsgPreVoteResp are extra message constructors ([PV], [PW]) that the
   base model never sees.  Re-stated from raft.go:
     Step      m.Term > r.Term: a MsgPreVote never changes the term, a granted MsgPreVoteResp (it
               carries the FUTURE term) neither; m.Term < r.Term: MsgApp/MsgHeartbeat are answered
               with an empty MsgAppResp (so that a stuck node with a higher term is freed), a
               MsgPreVote with a rejection; vote handling: a pre-vote for a future term is granted
               whenever the log is up to date, whatever the node's own vote/leader, and changes
               nothing;
     hup       campaign(campaignPreElection): becomePreCandidate, self pre-vote, MsgPreVote with
               Term+1 to the others (a single voter goes on to the real election at once);
     stepCandidate  a pre-candidate counts MsgPreVoteResp only, a candidate MsgVoteResp only; a won
               pre-election starts the real one (campaign(campaignElection) = RaftModel.hup), a
               lost one falls back to follower; MsgApp/MsgHeartbeat/MsgSnap of the term make it a
               follower. *)
Require Import List Arith Bool.
Require Import Raft.Quorum Raft.RaftModel.
Import ListNotations.

Inductive pmsg : Type :=
| PB (m : msg)
| PV (from to term logterm index : nat)          (* MsgPreVote *)
| PW (from to term : nat) (reject : bool)        (* MsgPreVoteResp *)
| PT (from to term : nat)                        (* MsgTimeoutNow (leadership transfer) *)
| PL (from to term : nat).                       (* MsgTransferLeader, forwarded to the leader; from = the transferee *)

Definition pmsg_to (m : pmsg) : nat :=
  match m with PB b => m_to b | PV _ t _ _ _ => t | PW _ t _ _ => t | PT _ t _ => t | PL _ t _ => t end.

Definition pmsg_eqb (a b : pmsg) : bool :=
  match a, b with
  | PB x, PB y => msg_eqb x y
  | PV f1 t1 tm1 lt1 i1, PV f2 t2 tm2 lt2 i2 =>
      (f1 =? f2) && (t1 =? t2) && (tm1 =? tm2) && (lt1 =? lt2) && (i1 =? i2)
  | PW f1 t1 tm1 r1, PW f2 t2 tm2 r2 => (f1 =? f2) && (t1 =? t2) && (tm1 =? tm2) && Bool.eqb r1 r2
  | PT f1 t1 tm1, PT f2 t2 tm2 => (f1 =? f2) && (t1 =? t2) && (tm1 =? tm2)
  | PL f1 t1 tm1, PL f2 t2 tm2 => (f1 =? f2) && (t1 =? t2) && (tm1 =? tm2)
  | _, _ => false
  end.

Inductive pevent : Type :=
| PvCampaign                    (* Campaign(), or a tick whose election timeout fired *)
| PvPropose (payload : nat)
| PvRecv (m : pmsg)
| PvRestart
| PvTick
| PvStepDown.                   (* Config.CheckQuorum: a tick on which the leader finds no active quorum *)

Section NodePV.
  Variables c0 c1 : list nat.
  Variable id : nat.

  Definition pstate : Type := (nstate * bool)%type.     (* the node, "is a pre-candidate" *)

  (* the grant condition of raft.Step for MsgVote/MsgPreVote, without the pre-vote clause *)
  Definition can_vote_for (from : nat) (n : nstate) : bool :=
    opt_nat_eqb (n_vote n) (Some from)
    || (opt_nat_eqb (n_vote n) None && opt_nat_eqb (n_lead n) None).

  (* becomePreCandidate + self pre-vote; the term and the vote stay *)
  Definition become_precandidate (n : nstate) : nstate :=
    set_votes (upd (fun _ => None) id (Some true)) (become_follower id (n_term n) None n).

  (* raft.hup with preVote: returns the node, the flag *)
  Definition hup_pv (n : nstate) : pstate :=
    match n_role n with
    | Leader => (n, false)
    | _ =>
        if is_voter c0 c1 id then
          let n1 := become_precandidate n in
          match tally c0 c1 n1 with
          | VoteWon => (hup c0 c1 id n1, false)          (* single voter: the real election follows *)
          | _ => (n1, true)
          end
        else (n, false)
    end.

  Definition handle_pv (ev : pevent) (st : pstate) : pstate * list pmsg :=
    let (n, pre) := st in
    match ev with
    | PvCampaign => (hup_pv n, [])
    | PvPropose p => ((propose p n, pre), [])
    | PvRestart => ((restart id n, false), [])
    | PvTick => (st, [])
    | PvStepDown =>
        match n_role n with
        | Leader => ((become_follower id (n_term n) None n, false), [])
        | _ => (st, [])
        end
    | PvRecv (PB m) =>
        if m_term m <? n_term n then
          (* a message of a lower term *)
          match m_type m with
          | MsgApp | MsgHeartbeat => (st, [PB (reply id MsgAppResp (m_from m) (n_term n) 0 false)])
          | _ => (st, [])
          end
        else
          let r := step_msg c0 c1 id m n in
          let changed := (n_term n <? m_term m)
                         || match m_type m with MsgApp | MsgHeartbeat | MsgSnap => true | _ => false end in
          ((fst r, pre && negb changed), map PB (snd r))
    | PvRecv (PV from _ mt lt idx) =>
        if mt <? n_term n then (st, [PW id from (n_term n) true])
        else
          let canv := can_vote_for from n || (n_term n <? mt) in
          if canv && is_up_to_date (n_log n) idx lt then (st, [PW id from mt false])
          else (st, [PW id from (n_term n) true])
    | PvRecv (PW from _ mt rej) =>
        if mt <? n_term n then (st, [])
        else if (n_term n <? mt) && rej then
          ((become_follower id mt None n, false), [])
        else if pre then
          let n1 := record_vote from (negb rej) n in
          match tally c0 c1 n1 with
          | VoteWon => ((hup c0 c1 id n1, false), [])
          | VoteLost => ((become_follower id (n_term n1) None n1, false), [])
          | VotePending => ((n1, true), [])
          end
        else (st, [])
    | PvRecv (PT _ _ mt) =>
        (* MsgTimeoutNow: a follower starts a REAL election at once (campaignTransfer never uses
           pre-vote); candidates, pre-candidates and leaders ignore it *)
        if mt <? n_term n then (st, [])
        else if n_term n <? mt then ((hup c0 c1 id (become_follower id mt None n), false), [])
        else match n_role n with
             | Follower => if pre then (st, []) else ((hup c0 c1 id n, false), [])
             | _ => (st, [])
             end
    | PvRecv (PL _ _ mt) =>
        (* a forwarded MsgTransferLeader: only its term matters to what is observed *)
        if n_term n <? mt then ((become_follower id mt None n, false), []) else (st, [])
    end.

  Definition exec_pv (ev : pevent) (st : pstate) : pstate * list pmsg :=
    let r := handle_pv ev st in
    ((advance c0 c1 id (fst (fst r)), snd (fst r)), snd r).

  (* what a node may send on its own initiative *)
  Definition emit_pv_okb (st : pstate) (m : pmsg) : bool :=
    match m with
    | PB b => emit_okb id (fst st) b
    | PV from _ term lt idx =>
        snd st && (from =? id) && (term =? S (n_term (fst st)))
        && (idx =? last_index (n_log (fst st))) && (lt =? last_term (n_log (fst st)))
    | PW _ _ _ _ => false
    | PT from _ term => role_eqb (n_role (fst st)) Leader && (from =? id) && (term =? n_term (fst st))
    | PL _ _ term => term =? n_term (fst st)
    end.
End NodePV.

(* ------------------------------------------------------------------ the system *)
Record pxstate : Type := mkPX {
  px_nodes : nat -> nstate * bool;
  px_msgs : list pmsg
}.

Definition px_init : pxstate := mkPX (fun _ => (init_node, false)) [].

Section SystemPV.
  Variables c0 c1 : list nat.

  Inductive pxstep (x : pxstate) : pxstate -> Prop :=
  | PXStep : forall id ev extra,
      (forall m, ev = PvRecv m -> In m (px_msgs x) /\ pmsg_to m = id) ->
      forallb (emit_pv_okb id (fst (exec_pv c0 c1 id ev (px_nodes x id)))) extra = true ->
      pxstep x (mkPX (upd (px_nodes x) id (fst (exec_pv c0 c1 id ev (px_nodes x id))))
                     (px_msgs x ++ snd (exec_pv c0 c1 id ev (px_nodes x id)) ++ extra)).

  Inductive pxreachable : pxstate -> Prop :=
  | PXR_init : pxreachable px_init
  | PXR_step : forall x x', pxreachable x -> pxstep x x' -> pxreachable x'.
End SystemPV.
