(* C15 — executable model of etcd/raft WITH membership changes (no proofs in this file).

   Re-states, on top of the handlers of RaftModel.v:
     raft.go      stepLeader MsgProp for EntryConfChange/EntryConfChangeV2 (at most one pending:
                  pendingConfIndex > applied refuses; joint/leave consistency; a refused change
                  becomes an empty normal entry), becomeLeader's pendingConfIndex = lastIndex,
                  applyConfChange / switchToConfig (the leader re-runs maybeCommit under the new
                  configuration unless it removed itself), advance's automatic leave of an
                  AutoLeave joint configuration, RawNode.Step's filter (responses from non-members
                  are dropped before any term handling);
     confchange/  Simple (one voter), EnterJoint (incoming copied to outgoing, changes applied to
                  incoming, AutoLeave), LeaveJoint, the Progress map = incoming + outgoing voters
                  (Match of a newly tracked node starts at 0);
     the application's part, as raftexample does it: every committed conf-change entry is passed
                  to ApplyConfChange while its Ready is processed, so at quiescence the
                  configuration of a node is a function of its committed prefix.
   A configuration change is an entry whose payload is a code:
     100+x  add voter x          110+x  remove voter x        (ConfChange, x <= 9)
     120    leave the joint configuration (empty ConfChangeV2)
     130+10a+b  add a and remove b through a joint configuration left automatically (ConfChangeV2)
     300+x  add learner x (ConfChangeAddLearnerNode; a voter is demoted); a learner is promoted by 100+x
   Every decision of a node (tally, commit index, promotable, progress) uses the node's current
   configuration.  Learners: tracked (Progress), replicated to, never counted; LearnersNext (a voter
   demoted inside a joint change) does not arise from these codes. *)
Require Import List Arith Bool.
Require Import Raft.Quorum Raft.RaftModel.
Import ListNotations.

(* ------------------------------------------------------------------ configurations *)

Record conf : Type := mkC { c_in : list nat; c_out : list nat; c_auto : bool; c_learn : list nat }.

Definition memb (x : nat) (l : list nat) : bool := existsb (Nat.eqb x) l.

(* sorted, duplicate-free insertion / deletion: configurations are canonical lists *)
Fixpoint ins (x : nat) (l : list nat) : list nat :=
  match l with
  | [] => [x]
  | y :: t => if x <? y then x :: l else if x =? y then l else y :: ins x t
  end.

Fixpoint del (x : nat) (l : list nat) : list nat :=
  match l with
  | [] => []
  | y :: t => if x =? y then del x t else y :: del x t
  end.

Definition member (c : conf) (x : nat) : bool := memb x (c_in c) || memb x (c_out c).
(* "has a Progress": voters of either half and learners *)
Definition tracked (c : conf) (x : nat) : bool := member c x || memb x (c_learn c).
Definition joint (c : conf) : bool := match c_out c with [] => false | _ => true end.

Inductive ccop : Type := CcAdd (x : nat) | CcRemove (x : nat) | CcJoint (a b : nat) | CcLeave | CcAddLearner (x : nat).

Definition cc_of_payload (p : nat) : option ccop :=
  if (100 <=? p) && (p <? 110) then Some (CcAdd (p - 100))
  else if (110 <=? p) && (p <? 120) then Some (CcRemove (p - 110))
  else if p =? 120 then Some CcLeave
  else if (130 <=? p) && (p <? 230) then Some (CcJoint ((p - 130) / 10) ((p - 130) mod 10))
  else if (300 <=? p) && (p <? 310) then Some (CcAddLearner (p - 300))
  else None.

(* confchange.Changer.Simple / EnterJoint / LeaveJoint; None = the Go code returns an error and
   raft.applyConfChange panics *)
Definition apply_cc (c : conf) (op : ccop) : option conf :=
  match op with
  | CcAdd x =>
      if joint c then None else Some (mkC (ins x (c_in c)) [] false (del x (c_learn c)))
  | CcRemove x =>
      if joint c then None
      else match del x (c_in c) with [] => None | l => Some (mkC l [] false (del x (c_learn c))) end
  | CcJoint a b =>
      if joint c then None
      else match c_in c with
           | [] => None
           | _ => match del b (ins a (c_in c)) with
                  | [] => None
                  | l => Some (mkC l (c_in c) true (del a (del b (c_learn c))))
                  end
           end
  | CcLeave =>
      if joint c then Some (mkC (c_in c) [] false (c_learn c)) else None
  | CcAddLearner x =>
      (* AddLearnerNode, a simple change: a voter is demoted, a learner stays one *)
      if joint c then None
      else match del x (c_in c) with [] => None | l => Some (mkC l [] false (ins x (c_learn c))) end
  end.

Definition apply_payload (c : conf) (p : nat) : conf :=
  match cc_of_payload p with
  | Some op => match apply_cc c op with Some c' => c' | None => c end
  | None => c
  end.

(* the configuration after applying a log prefix *)
Definition cfg_of (boot : conf) (l : elog) : conf :=
  fold_left (fun c e => apply_payload c (snd e)) l boot.

Definition node_cfg (boot : conf) (n : nstate) : conf :=
  cfg_of boot (firstn (n_commit n) (n_log n)).

(* ------------------------------------------------------------------ one node *)

Section NodeCC.
  Variable boot : conf.       (* the configuration every node is started with *)
  Variable page1 : bool.      (* MaxCommittedSizePerReady lets one committed entry through per Ready *)
  Variable id : nat.

  (* tracker.Progress: Match of ids that were not tracked before starts at 0 *)
  Definition reset_match (c c' : conf) (mt : nat -> nat) : nat -> nat :=
    fun x => if tracked c' x && tracked c x then mt x else 0.

  (* ApplyConfChange of one committed entry: applyConfChange + switchToConfig *)
  Definition apply_entry (st : nstate * conf) (e : entry) : nstate * conf :=
    let (n, c) := st in
    match cc_of_payload (snd e) with
    | None => st
    | Some op =>
        match apply_cc c op with
        | None => st
        | Some c' =>
            let n1 := set_match (reset_match c c' (n_match n)) n in
            let n2 := if role_eqb (n_role n1) Leader && member c' id
                         && match c_in c' with [] => false | _ => true end
                      then maybe_commit (c_in c') (c_out c') n1 else n1 in
            (n2, c')
        end
    end.

  (* one round of the Ready loop: apply the committed entries of this Ready, then raft.advance *)
  Definition ready_iter (st : nstate * conf * nat * nat) : nstate * conf * nat * nat :=
    let '(n, c, pend, applied) := st in
    let rdc := if applied <? n_commit n then (if page1 then S applied else n_commit n) else applied in
    let l0 := length (n_log n) in
    let ents := firstn (rdc - applied) (skipn applied (n_log n)) in
    let (n1, c1) := fold_left apply_entry ents (n, c) in
    let '(n2, pend2) :=
      if (applied <? rdc) && c_auto c1 && (applied <=? pend) && (pend <=? rdc) && role_eqb (n_role n1) Leader
      then (set_log (n_log n1 ++ [(n_term n1, 120)]) n1, S (length (n_log n1)))
      else (n1, pend) in
    let n3 := if role_eqb (n_role n2) Leader && tracked c1 id
              then leader_ack (c_in c1) (c_out c1) id l0 n2 else n2 in
    (n3, c1, pend2, rdc).

  Fixpoint iter {A : Type} (k : nat) (f : A -> A) (x : A) : A :=
    match k with O => x | S k' => iter k' f (f x) end.

  Definition msg_is_appresp (m : msg) : bool := match m_type m with MsgAppResp => true | _ => false end.

  Definition is_response (t : mtype) : bool :=
    match t with MsgVoteResp | MsgAppResp | MsgHeartbeatResp => true | _ => false end.

  (* stepLeader MsgAppResp from a learner: it has a Progress, so Match moves (and maybeCommit runs)
     although it is no voter; n1 is the node after the term handling of raft.Step *)
  Definition learner_ack (c : conf) (ev : event) (n1 : nstate) : nstate :=
    match ev with
    | EvRecv m =>
        if msg_is_appresp m && negb (m_reject m) && negb (member c (m_from m))
           && role_eqb (n_role n1) Leader && (m_term m =? n_term n1)
        then leader_ack (c_in c) (c_out c) (m_from m) (m_index m) n1
        else n1
    | _ => n1
    end.

  (* the call into the RawNode; returns the node, the replies and pendingConfIndex *)
  Definition handle_cc (c : conf) (ev : event) (n : nstate) (pend : nat) : nstate * list msg * nat :=
    match ev with
    | EvPropose p =>
        match n_role n with
        | Leader =>
            if negb (tracked c id) then (n, [], pend)             (* ErrProposalDropped *)
            else match cc_of_payload p with
                 | Some op =>
                     let leave := match op with CcLeave => true | _ => false end in
                     let refused := (n_commit n <? pend) || (joint c && negb leave) || (negb (joint c) && leave) in
                     if refused then (propose 0 n, [], pend)
                     else (propose p n, [], S (length (n_log n)))
                 | None => (propose p n, [], pend)
                 end
        | _ => (n, [], pend)
        end
    | _ =>
        let r := handle (c_in c) (c_out c) id ev n in
        let n1 := fst r in
        let pend1 := match n_role n1 with
                     | Leader => if role_eqb (n_role n) Leader && (n_term n1 =? n_term n) then pend
                                 else length (n_log n1) - 1
                     | _ => 0
                     end in
        (learner_ack c ev n1, snd r, pend1)
    end.

  Definition exec_cc (ev : event) (st : nstate * nat) : (nstate * nat) * list msg :=
    let (n, pend) := st in
    let c := node_cfg boot n in
    let dropped := match ev with
                   | EvRecv m => is_response (m_type m) && negb (tracked c (m_from m))
                   | _ => false
                   end in
    if dropped then (st, [])
    else
      let '(n1, out, pend1) := handle_cc c ev n pend in
      let fuel := 2 * length (n_log n1) + 8 in
      let '(n2, _, pend2, _) := iter fuel ready_iter (n1, c, pend1, n_commit n) in
      ((n2, pend2), out).

  (* one MsgProp carrying several entries (stepLeader's loop over m.Entries, then ONE appendEntry):
     every entry is examined in order against the pendingConfIndex as updated by the entries before
     it — an admitted configuration change at position i sets it to lastIndex + i + 1, so a second
     change in the same proposal is replaced by an empty entry — and only then does the Ready loop
     run.  [handle_cc (EvPropose p)] is that examination for one entry. *)
  Fixpoint batch_cc (c : conf) (ps : list nat) (n : nstate) (pend : nat) : nstate * nat :=
    match ps with
    | [] => (n, pend)
    | p :: t => let '(n1, _, pend1) := handle_cc c (EvPropose p) n pend in batch_cc c t n1 pend1
    end.

  Definition exec_batch (ps : list nat) (st : nstate * nat) : (nstate * nat) * list msg :=
    let (n, pend) := st in
    let c := node_cfg boot n in
    let (n1, pend1) := batch_cc c ps n pend in
    let fuel := 2 * length (n_log n1) + 8 in
    let '(n2, _, pend2, _) := iter fuel ready_iter (n1, c, pend1, n_commit n) in
    ((n2, pend2), []).

  (* an event of the membership-change system: one of RaftModel.event, or a batched proposal *)
  Inductive cevent : Type := CEv (ev : event) | CBatch (ps : list nat).

  Definition exec_cce (cev : cevent) (st : nstate * nat) : (nstate * nat) * list msg :=
    match cev with CEv ev => exec_cc ev st | CBatch ps => exec_batch ps st end.
End NodeCC.

(* ------------------------------------------------------------------ the system and its checker *)

(* a configuration-change entry *)
Definition isconf (p : nat) : bool :=
  match cc_of_payload p with Some _ => true | None => false end.

Fixpoint nconf (l : elog) : nat :=
  match l with
  | [] => 0
  | e :: t => (if isconf (snd e) then 1 else 0) + nconf t
  end.

(* "l holds at most one configuration change above index c" *)
Definition cc_okb (l : elog) (c : nat) : bool := nconf (skipn c l) <=? 1.

(* what a node may send on its own initiative: as in RaftModel.emit_okb, and the log prefix a MsgApp
   stands for (up to its last entry) holds at most one configuration change above the commit index
   the message carries (raft.go: a leader proposes a change only when the previous one is applied,
   and sendAppend stamps its current commit index) *)
Definition emit_cc_okb (id : nat) (n : nstate) (m : msg) : bool :=
  emit_okb id n m &&
  match m_type m with
  | MsgApp => cc_okb (firstn (m_index m + length (m_ents m)) (n_log n)) (m_commit m)
  | _ => true
  end.

Record cxstate : Type := mkCX {
  cx_nodes : nat -> nstate * nat;
  cx_msgs : list msg
}.

Definition cx_init : cxstate := mkCX (fun _ => (init_node, 0)) [].

Section SystemCC.
  Variable boot : conf.
  Variable page1 : bool.

  Inductive cxstep (x : cxstate) : cxstate -> Prop :=
  | CXStep : forall id cev extra,
      (forall m, cev = CEv (EvRecv m) -> In m (cx_msgs x) /\ m_to m = id) ->
      forallb (emit_cc_okb id (fst (fst (exec_cce boot page1 id cev (cx_nodes x id))))) extra = true ->
      cxstep x (mkCX (upd (cx_nodes x) id (fst (exec_cce boot page1 id cev (cx_nodes x id))))
                     (cx_msgs x ++ snd (exec_cce boot page1 id cev (cx_nodes x id)) ++ extra)).

  Inductive cxreachable : cxstate -> Prop :=
  | CXR_init : cxreachable cx_init
  | CXR_step : forall x x', cxreachable x -> cxstep x x' -> cxreachable x'.
End SystemCC.
